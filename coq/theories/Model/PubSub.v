(** Model of the Go pub/sub path (C07):
      lib/go/client.go                   FStandardClient.Publish / prepareMessage (the frame a publisher emits)
      lib/go/nats_scope_transport.go     fNatsSubscriberTransport: Subscribe, putMessageToWorkerQueue, worker, Unsubscribe
      lib/go/stomp_transport.go          fStompSubscriberTransport: Subscribe, processMessages, Unsubscribe
      compiler/generator/golang          the generated recv<Op> callback
      apache/thrift binary_protocol.go   WriteMessageBegin (strict write) / ReadMessageBegin (non-strict read)
    Executable definitions only.

    ASSUMPTION (broker, stated here and in every theorem through [NPub]/[SPub]): a healthy broker
    hands a subscription, in publish order, exactly the messages published on its subject while the
    subscription exists at the broker (topic-filtered FIFO; subjects without wildcards).
    nats.go / go-stomp client behaviour is modelled as documented: one delivery goroutine per
    subscription calling the callback sequentially (nats.go), pending messages of a removed
    subscription are dropped (nats.go), Subscription.C has capacity 16 and is closed when the RECEIPT of
    UNSUBSCRIBE is read (go-stomp).  Go channels: FIFO, bounded, [select] picks any ready case. *)
From Coq Require Import ZArith List Lia Bool.
From FV Require Import Base.Res Base.Bytes Base.GoSem Model.Headers Model.Receivers.
Import ListNotations.
Open Scope Z_scope.

(** * Frame level *)

(** TBinaryProtocol.ReadI32 *)
Definition read_i32 (b : bytes) : res (Z * bytes) :=
  do (x, r) <- read_full b 4; Ok (as_int32 (un_be32 x), r).

(** thrift.DEFAULT_MAX_MESSAGE_SIZE (checkSizeForProtocol) *)
Definition max_message_size : Z := 104857600.

(** TBinaryProtocol.ReadString *)
Definition read_string (b : bytes) : res (bytes * bytes) :=
  do (n, r) <- read_i32 b;
  if n <? 0 then Err EInvalidData else
  if max_message_size <? n then Err EOther else
  read_full r n.

Definition version_1 : Z := 2147549184.          (* 0x80010000 *)
Definition msg_call : Z := 1.                    (* thrift.CALL *)

(** WriteMessageBegin(name, typeId, seqId), strict write (the TBinaryProtocolFactory default) *)
Definition write_message_begin (name : bytes) (typ seq : Z) : bytes :=
  be32 (version_1 + typ) ++ be32 (as_uint32 (zlen name)) ++ name ++ be32 (as_uint32 seq).

(** ReadMessageBegin, strictRead = false: (name, type, seqid, rest) *)
Definition read_message_begin (b : bytes) : res (bytes * Z * Z * bytes) :=
  do (size, r1) <- read_i32 b;
  if size <? 0 then
    let u := as_uint32 size in
    if negb (u / 65536 * 65536 =? version_1) then Err EBadVersion else
    do (name, r2) <- read_string r1;
    do (seq, r3) <- read_i32 r2;
    Ok (name, u mod 256, seq, r3)
  else
    do (name, r2) <- read_full r1 size;          (* readStringBody(size) *)
    do (tb, r3) <- read_full r2 1;
    do (seq, r4) <- read_i32 r3;
    Ok (name, match tb with [t] => t | _ => 0 end, seq, r4).

(** client.go prepareMessage + Publish: what reaches FPublisherTransport.Publish.  [hdrs] is the
    FContext's request header map in the order Go's map iteration produced; [payload] the bytes the
    generated Write of the request emitted. *)
Definition publish_frame (hdrs : list hpair) (op payload : bytes) : bytes :=
  let body := marshal hdrs ++ write_message_begin op msg_call 0 ++ payload in
  be32 (as_uint32 (zlen body)) ++ body.

(** what the transport and the generated callback do with one broker message *)
Inductive outcome (P : Type) :=
| Deliver (h : list hpair) (p : P)   (* handler invoked with these request headers (without _opid) and request *)
| Discard                            (* logged and dropped; the loop goes on *)
| Crash.                             (* panic *)
Arguments Deliver {P} h p.
Arguments Discard {P}.
Arguments Crash {P}.

Section Callback.
  Variable P : Type.
  (** the generated reader of the operation's type (req.Read / generateReadFieldRec) *)
  Variable rd : bytes -> res (P * bytes).
  Variable op : bytes.

  (** request headers of the FContext that ReadRequestHeader builds, except the fresh _opid *)
  Definition ctx_headers (hs : list hpair) : list hpair := remove_key opid_header (to_map hs).

  (** recv<Op>: the FAsyncCallback, on the bytes after the 4-byte prefix *)
  Definition recv_callback (b : bytes) : res (list hpair * P) :=
    do (hs, _, rest) <- read_request_header b;
    do (name, _, _, rest2) <- read_message_begin rest;
    if negb (bytes_eqb name op) then Err EOther else     (* Skip + UNKNOWN_METHOD *)
    do (p, _) <- rd rest2;
    Ok (ctx_headers hs, p).

  (** worker / processMessages body on one broker message: short frames are discarded, the 4-byte
      prefix is dropped unread, a callback error is logged *)
  Definition deliver (frame : bytes) : outcome P :=
    if zlen frame <? 4 then Discard else
    match slice_from frame 4 with
    | Ok f => match recv_callback f with
              | Ok (h, p) => Deliver h p
              | Err _ => Discard
              | Panic _ | OutOfFuel => Crash
              end
    | _ => Crash
    end.
End Callback.

(** * Subscriber state machines, generic in what a frame decodes to *)

Record msg := mkMsg { m_id : nat;           (* ghost: index in the global publish sequence *)
                      m_topic : bytes; m_body : bytes }.

Section Machines.
  Variable P : Type.
  Variable dlv : bytes -> outcome P.

  Record inv := mkInv { i_id : nat; i_hdrs : list hpair; i_val : P }.

  Fixpoint set_nth {A} (n : nat) (x : A) (l : list A) : list A :=
    match l, n with
    | [], _ => []
    | _ :: t, O => x :: t
    | h :: t, S n' => h :: set_nth n' x t
    end.

  (** ** NATS: nats.go subscription -> putMessageToWorkerQueue -> workC -> workerCount workers *)
  Inductive wstate := WIdle | WTook (m : msg) | WBusy (m : msg) | WGone | WDead.

  Record nats := mkNats {
    n_topic : bytes;
    n_cap : nat;                 (* cap(workC) *)
    n_sub : bool;                (* isSubscribed / the nats.go subscription exists *)
    n_next : nat;                (* ghost: number of publishes so far *)
    n_pend : list msg;           (* nats.go: messages pending on the subscription *)
    n_cb : option msg;           (* putMessageToWorkerQueue running with this message (blocked on workC <- msg) *)
    n_workc : list msg;
    n_workers : list wstate;
    n_quit : bool;               (* quitC closed *)
    n_log : list inv }.          (* handler invocations in the order they started *)

  Inductive nev :=
  | NPub (topic body : bytes)    (* some publisher's message reaches the broker *)
  | NDispatch                    (* nats.go takes the next pending message and calls the subscription callback *)
  | NEnqueue                     (* n.workC <- msg completes *)
  | NTake (i : nat)              (* worker i: case msg := <-n.workC *)
  | NStart (i : nat)             (* worker i: length check, callback up to the handler call *)
  | NDone (i : nat)              (* worker i: handler and callback return *)
  | NUnsub                       (* Unsubscribe() from call to return *)
  | NQuit (i : nat).             (* worker i: case <-n.quitC: return *)

  Definition n_with_worker (s : nats) (i : nat) (w : wstate) : nats :=
    mkNats (n_topic s) (n_cap s) (n_sub s) (n_next s) (n_pend s) (n_cb s) (n_workc s)
           (set_nth i w (n_workers s)) (n_quit s) (n_log s).

  Definition nstep (s : nats) (e : nev) : option nats :=
    match e with
    | NPub t b =>
      let m := mkMsg (n_next s) t b in
      Some (mkNats (n_topic s) (n_cap s) (n_sub s) (S (n_next s))
                   (if n_sub s && bytes_eqb t (n_topic s) then n_pend s ++ [m] else n_pend s)
                   (n_cb s) (n_workc s) (n_workers s) (n_quit s) (n_log s))
    | NDispatch =>
      match n_sub s, n_cb s, n_pend s with
      | true, None, m :: rest =>
        Some (mkNats (n_topic s) (n_cap s) (n_sub s) (n_next s) rest (Some m) (n_workc s)
                     (n_workers s) (n_quit s) (n_log s))
      | _, _, _ => None
      end
    | NEnqueue =>
      match n_cb s with
      | Some m =>
        if (length (n_workc s) <? n_cap s)%nat then
          Some (mkNats (n_topic s) (n_cap s) (n_sub s) (n_next s) (n_pend s) None (n_workc s ++ [m])
                       (n_workers s) (n_quit s) (n_log s))
        else None
      | None => None
      end
    | NTake i =>
      match nth_error (n_workers s) i, n_workc s with
      | Some WIdle, m :: rest =>
        Some (mkNats (n_topic s) (n_cap s) (n_sub s) (n_next s) (n_pend s) (n_cb s) rest
                     (set_nth i (WTook m) (n_workers s)) (n_quit s) (n_log s))
      | _, _ => None
      end
    | NStart i =>
      match nth_error (n_workers s) i with
      | Some (WTook m) =>
        match dlv (m_body m) with
        | Deliver h p =>
          Some (mkNats (n_topic s) (n_cap s) (n_sub s) (n_next s) (n_pend s) (n_cb s) (n_workc s)
                       (set_nth i (WBusy m) (n_workers s)) (n_quit s)
                       (n_log s ++ [mkInv (m_id m) h p]))
        | Discard => Some (n_with_worker s i WIdle)
        | Crash => Some (n_with_worker s i WDead)
        end
      | _ => None
      end
    | NDone i =>
      match nth_error (n_workers s) i with
      | Some (WBusy _) => Some (n_with_worker s i WIdle)
      | _ => None
      end
    | NUnsub =>
      if n_sub s then
        Some (mkNats (n_topic s) (n_cap s) false (n_next s) [] (n_cb s) (n_workc s)
                     (n_workers s) true (n_log s))
      else Some s
    | NQuit i =>
      match nth_error (n_workers s) i with
      | Some WIdle => if n_quit s then Some (n_with_worker s i WGone) else None
      | _ => None
      end
    end.

  (** state right after Subscribe(topic, cb) returned: subscription flushed to the broker, workers started *)
  Definition ninit (topic : bytes) (workers cap : nat) : nats :=
    mkNats topic cap true 0 [] None [] (repeat WIdle workers) false [].

  Fixpoint nrun (s : nats) (tr : list nev) : option nats :=
    match tr with
    | [] => Some s
    | e :: tr' => match nstep s e with Some s' => nrun s' tr' | None => None end
    end.

  Definition n_internal (e : nev) : bool :=
    match e with NPub _ _ | NUnsub => false | _ => true end.

  (** ** the published sequence and what a subscriber of [topic] is owed *)
  Fixpoint npubs (tr : list nev) : list (bytes * bytes) :=
    match tr with
    | [] => []
    | NPub t b :: tr' => (t, b) :: npubs tr'
    | _ :: tr' => npubs tr'
    end.

  (** the invocations owed for a published sequence, numbered from [k] *)
  Fixpoint owed (topic : bytes) (k : nat) (pubs : list (bytes * bytes)) : list inv :=
    match pubs with
    | [] => []
    | (t, b) :: r =>
      if bytes_eqb t topic then
        match dlv b with
        | Deliver h p => mkInv k h p :: owed topic (S k) r
        | _ => owed topic (S k) r
        end
      else owed topic (S k) r
    end.

  (** ** STOMP: go-stomp subscription read loop -> sub.C (capacity 16) -> processMessages *)
  Inductive sitem := SMsg (m : msg) | SReceipt.
  Inductive lstate := LIdle | LBusy (m : msg) | LDrain | LExit | LDead.
  Inductive ustate := UNone | UWaiting | UDone.

  Record stomp := mkStomp {
    s_topic : bytes;
    s_cap : nat;                 (* cap(sub.C) = 16 *)
    s_bsub : bool;               (* the broker still has the subscription *)
    s_next : nat;
    s_in : list sitem;           (* frames for the subscription not yet pushed into sub.C *)
    s_c : list msg;              (* sub.C *)
    s_closed : bool;             (* sub.C closed (RECEIPT of UNSUBSCRIBE read) *)
    s_loop : lstate;
    s_stop : bool;               (* stopC closed *)
    s_unsub : ustate;
    s_acks : list nat;           (* ghost: ids acked *)
    s_log : list inv }.

  Inductive sev :=
  | SPub (topic body : bytes)
  | SFeed                        (* go-stomp readLoop: s.C <- msg, or the RECEIPT closes s.C *)
  | SRecv                        (* processMessages: case message, ok := <-m.sub.C *)
  | SStop                        (* processMessages: case <-stopC *)
  | SDrained                     (* processMessages: the drain after stop saw sub.C closed *)
  | SDone (err : bool)           (* the callback returns; ack on success *)
  | SUnsubCall                   (* Unsubscribe(): close(stopC), UNSUBSCRIBE sent *)
  | SUnsubRet.                   (* Unsubscribe() returns *)

  Definition sstep (s : stomp) (e : sev) : option stomp :=
    match e with
    | SPub t b =>
      let m := mkMsg (s_next s) t b in
      Some (mkStomp (s_topic s) (s_cap s) (s_bsub s) (S (s_next s))
                    (if s_bsub s && bytes_eqb t (s_topic s) then s_in s ++ [SMsg m] else s_in s)
                    (s_c s) (s_closed s) (s_loop s) (s_stop s) (s_unsub s) (s_acks s) (s_log s))
    | SFeed =>
      match s_in s with
      | SMsg m :: rest =>
        if (length (s_c s) <? s_cap s)%nat then
          Some (mkStomp (s_topic s) (s_cap s) (s_bsub s) (s_next s) rest (s_c s ++ [m]) (s_closed s)
                        (s_loop s) (s_stop s) (s_unsub s) (s_acks s) (s_log s))
        else None
      | SReceipt :: rest =>
        Some (mkStomp (s_topic s) (s_cap s) (s_bsub s) (s_next s) rest (s_c s) true
                      (s_loop s) (s_stop s) (s_unsub s) (s_acks s) (s_log s))
      | [] => None
      end
    | SRecv =>
      match s_loop s with
      | LIdle =>
        match s_c s with
        | m :: rest =>
          let s1 l lg := mkStomp (s_topic s) (s_cap s) (s_bsub s) (s_next s) (s_in s) rest (s_closed s)
                                 l (s_stop s) (s_unsub s) (s_acks s) lg in
          if s_stop s then Some (s1 LIdle (s_log s))          (* unsubscribing: dropped *)
          else match dlv (m_body m) with
               | Deliver h p => Some (s1 (LBusy m) (s_log s ++ [mkInv (m_id m) h p]))
               | Discard => Some (s1 LIdle (s_log s))
               | Crash => Some (s1 LDead (s_log s))
               end
        | [] =>
          if s_closed s then
            Some (mkStomp (s_topic s) (s_cap s) (s_bsub s) (s_next s) (s_in s) [] (s_closed s)
                          LExit (s_stop s) (s_unsub s) (s_acks s) (s_log s))
          else None
        end
      | LDrain =>
        match s_c s with
        | m :: rest =>
          Some (mkStomp (s_topic s) (s_cap s) (s_bsub s) (s_next s) (s_in s) rest (s_closed s)
                        LDrain (s_stop s) (s_unsub s) (s_acks s) (s_log s))
        | [] => None
        end
      | _ => None
      end
    | SStop =>
      match s_loop s with
      | LIdle => if s_stop s then
                   Some (mkStomp (s_topic s) (s_cap s) (s_bsub s) (s_next s) (s_in s) (s_c s) (s_closed s)
                                 LDrain (s_stop s) (s_unsub s) (s_acks s) (s_log s))
                 else None
      | _ => None
      end
    | SDrained =>
      match s_loop s, s_c s with
      | LDrain, [] => if s_closed s then
                        Some (mkStomp (s_topic s) (s_cap s) (s_bsub s) (s_next s) (s_in s) [] (s_closed s)
                                      LExit (s_stop s) (s_unsub s) (s_acks s) (s_log s))
                      else None
      | _, _ => None
      end
    | SDone err =>
      match s_loop s with
      | LBusy m =>
        Some (mkStomp (s_topic s) (s_cap s) (s_bsub s) (s_next s) (s_in s) (s_c s) (s_closed s)
                      LIdle (s_stop s) (s_unsub s)
                      (if err then s_acks s else s_acks s ++ [m_id m]) (s_log s))
      | _ => None
      end
    | SUnsubCall =>
      match s_unsub s with
      | UNone =>
        Some (mkStomp (s_topic s) (s_cap s) false (s_next s) (s_in s ++ [SReceipt]) (s_c s) (s_closed s)
                      (s_loop s) true UWaiting (s_acks s) (s_log s))
      | _ => None
      end
    | SUnsubRet =>
      match s_unsub s with
      | UWaiting => if s_closed s then
                      Some (mkStomp (s_topic s) (s_cap s) (s_bsub s) (s_next s) (s_in s) (s_c s) (s_closed s)
                                    (s_loop s) (s_stop s) UDone (s_acks s) (s_log s))
                    else None
      | _ => None
      end
    end.

  Definition sinit (topic : bytes) (cap : nat) : stomp :=
    mkStomp topic cap true 0 [] [] false LIdle false UNone [] [].

  Fixpoint srun (s : stomp) (tr : list sev) : option stomp :=
    match tr with
    | [] => Some s
    | e :: tr' => match sstep s e with Some s' => srun s' tr' | None => None end
    end.

  Definition s_internal (e : sev) : bool :=
    match e with SPub _ _ | SUnsubCall => false | _ => true end.

  Fixpoint spubs (tr : list sev) : list (bytes * bytes) :=
    match tr with
    | [] => []
    | SPub t b :: tr' => (t, b) :: spubs tr'
    | _ :: tr' => spubs tr'
    end.
End Machines.

Arguments mkInv {P} i_id i_hdrs i_val.
Arguments i_id {P} i.
Arguments i_hdrs {P} i.
Arguments i_val {P} i.
Arguments n_topic {P} n. Arguments n_cap {P} n. Arguments n_sub {P} n. Arguments n_next {P} n.
Arguments n_pend {P} n. Arguments n_cb {P} n. Arguments n_workc {P} n. Arguments n_workers {P} n.
Arguments n_quit {P} n. Arguments n_log {P} n.
Arguments mkNats {P} n_topic n_cap n_sub n_next n_pend n_cb n_workc n_workers n_quit n_log.
Arguments nstep {P} dlv s e. Arguments nrun {P} dlv s tr. Arguments n_with_worker {P} s i w.
Arguments owed {P} dlv topic k pubs.
Arguments s_topic {P} s. Arguments s_cap {P} s. Arguments s_bsub {P} s. Arguments s_next {P} s.
Arguments s_in {P} s. Arguments s_c {P} s. Arguments s_closed {P} s. Arguments s_loop {P} s.
Arguments s_stop {P} s. Arguments s_unsub {P} s. Arguments s_acks {P} s. Arguments s_log {P} s.
Arguments mkStomp {P} s_topic s_cap s_bsub s_next s_in s_c s_closed s_loop s_stop s_unsub s_acks s_log.
Arguments sstep {P} dlv s e. Arguments srun {P} dlv s tr.
