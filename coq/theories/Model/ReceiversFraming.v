(** C05, framing layer: lib/go/framed_transport.go (TFramedTransport.Read, readFrameHeader,
    the frame-size limit) on top of bufio.Reader on top of a connection that delivers its
    bytes in arbitrary chunks; fAdapterTransport.readFrame / readLoop and
    FSimpleServer.readRequestFrame / accept on top of that.

    The connection is a list of chunks (what successive Read calls of the underlying
    thrift.TTransport can return at most) followed by a terminal error that every later
    Read returns (END_OF_FILE when the peer closed, TIMED_OUT, ...). Errors are the
    TTransportException classes TSocket produces. A Read on the connection returns at
    least one byte or an error (chunks are non-empty: hypothesis [chunks_ok] of the theorems).

    Executable definitions only. *)
From Coq Require Import ZArith List Lia Bool.
From FV Require Import Base.Res Base.Bytes Base.GoSem Model.Headers Model.Receivers.
Import ListNotations.
Open Scope Z_scope.

(** take / drop by a Z count, structurally on the list (no unary numbers) *)
Fixpoint ztake (k : Z) (l : bytes) : bytes :=
  match l with
  | [] => []
  | x :: xs => if k <=? 0 then [] else x :: ztake (k - 1) xs
  end.
Fixpoint zdrop (k : Z) (l : bytes) : bytes :=
  match l with
  | [] => []
  | x :: xs => if k <=? 0 then l else zdrop (k - 1) xs
  end.

(** * the connection under the framed transport *)
Record under := mkU { u_chunks : list bytes; u_final : errk }.

(** thrift.TTransport.Read(p), len(p) = k > 0 *)
Definition under_read (u : under) (k : Z) : res bytes * under :=
  match u_chunks u with
  | [] => (Err (u_final u), u)
  | c :: cs =>
      if zlen c <=? k then (Ok c, mkU cs (u_final u))
      else (Ok (ztake k c), mkU (zdrop k c :: cs) (u_final u))
  end.

(** * bufio.Reader (default size 4096) holding [b] *)
Definition bufsize : Z := 4096.

(** bufio.Reader.Read(p), len(p) = k: at most one Read of the connection *)
Definition bufio_read (b : bytes) (u : under) (k : Z) : res bytes * bytes * under :=
  if k <=? 0 then (Ok [], b, u)              (* len(p) == 0: (0, nil), pending error is nil *)
  else match b with
       | _ :: _ => (Ok (ztake k b), zdrop k b, u)            (* copy from the buffer *)
       | [] =>
           if bufsize <=? k
           then let '(r, u') := under_read u k in (r, [], u')       (* large read: straight into p *)
           else match under_read u bufsize with                      (* one read into the buffer *)
                | (Ok d, u') => (Ok (ztake k d), zdrop k d, u')
                | (r, u') => (r, [], u')
                end
       end.

(** io.ReadFull(reader, buf[:need]) *)
Fixpoint bufio_read_full (fuel : nat) (need : Z) (acc b : bytes) (u : under)
  : res bytes * bytes * under :=
  if need <=? 0 then (Ok acc, b, u) else
  match fuel with
  | O => (OutOfFuel, b, u)
  | S f =>
      match bufio_read b u need with
      | (Ok d, b', u') => bufio_read_full f (need - zlen d) (acc ++ d) b' u'
      | (r, b', u') => (r, b', u')
      end
  end.

(** * TFramedTransport *)
Record fstate := mkF { f_size : Z;          (* frameSize uint32: rest of the current frame *)
                       f_buf : bytes;       (* bufio buffer *)
                       f_und : under }.

Definition two32 : Z := 4294967296.

(** readFrameHeader *)
Definition read_frame_header (maxlen : Z) (b : bytes) (u : under) : res Z * bytes * under :=
  match bufio_read_full 4 4 [] b u with
  | (Ok hb, b', u') =>
      let size := un_be32 hb in
      if maxlen <? size then (Err EOther, b', u') else (Ok size, b', u')
  | (Err e, b', u') => (Err e, b', u')
  | (Panic p, b', u') => (Panic p, b', u')
  | (OutOfFuel, b', u') => (OutOfFuel, b', u')
  end.

(** what Read returns: the l bytes put into buf and the error, or a crash *)
Inductive rd := Rd (data : bytes) (err : option errk) | RdPanic (p : panick) | RdFuel.

(** [if p.frameSize == 0 { p.frameSize, err = p.readFrameHeader(); if err != nil { return } }] *)
Definition after_hdr (maxlen : Z) (st : fstate) : (rd * fstate) + fstate :=
  if f_size st =? 0 then
    match read_frame_header maxlen (f_buf st) (f_und st) with
    | (Ok size, b, u) => inr (mkF size b u)
    | (Err e, b, u) => inl (Rd [] (Some e), mkF 0 b u)
    | (Panic p, b, u) => inl (RdPanic p, mkF 0 b u)
    | (OutOfFuel, b, u) => inl (RdFuel, mkF 0 b u)
    end
  else inr st.

(** [got, err := p.reader.Read(buf); p.frameSize = p.frameSize - uint32(got); return got, err] *)
Definition read_tail (st : fstate) (k : Z) : rd * fstate :=
  match bufio_read (f_buf st) (f_und st) k with
  | (Ok d, b, u) => (Rd d None, mkF ((f_size st - zlen d) mod two32) b u)
  | (Err e, b, u) => (Rd [] (Some e), mkF (f_size st) b u)
  | (Panic p, b, u) => (RdPanic p, mkF (f_size st) b u)
  | (OutOfFuel, b, u) => (RdFuel, mkF (f_size st) b u)
  end.

(** TFramedTransport.Read(buf), len(buf) = k.
    [ft] = true is the code before the repair d5ba5a5 (an error of the inner read in the
    "frame shorter than buf" branch fell through to a raw read); the tree has [ft] = false. *)
Fixpoint framed_read_gen (ft : bool) (fuel : nat) (maxlen : Z) (st : fstate) (k : Z) : rd * fstate :=
  match fuel with
  | O => (RdFuel, st)
  | S f =>
    match after_hdr maxlen st with
    | inl r => r
    | inr st1 =>
      let short :=                                     (* if p.frameSize < uint32(len(buf)) *)
        if f_size st1 <? k then
          match make_bytes (f_size st1) with
          | Ok _ =>
            match framed_read_gen ft f maxlen st1 (f_size st1) with
            | (Rd d None, st2) => inl (Rd d (Some EOther), st2)     (* "not enough frame" *)
            | (Rd d (Some e), st2) => if ft then inr st2 else inl (Rd d (Some e), st2)
            | (r, st2) => inl (r, st2)
            end
          | Panic p => inl (RdPanic p, st1)
          | _ => inl (RdFuel, st1)
          end
        else inr st1 in
      match short with
      | inl r => r
      | inr st3 => read_tail st3 k
      end
    end
  end.

Definition framed_read := framed_read_gen false 2.
Definition framed_read_pinned := framed_read_gen true 2.

(** io.ReadFull(framed, buff[:need]) *)
Fixpoint framed_read_full (fuel : nat) (maxlen : Z) (st : fstate) (need : Z) (acc : bytes)
  : res bytes * fstate :=
  if need <=? 0 then (Ok acc, st) else
  match fuel with
  | O => (OutOfFuel, st)
  | S f =>
      match framed_read maxlen st need with
      | (Rd d None, st') => framed_read_full f maxlen st' (need - zlen d) (acc ++ d)
      | (Rd _ (Some e), st') => (Err e, st')
      | (RdPanic p, st') => (Panic p, st')
      | (RdFuel, st') => (OutOfFuel, st')
      end
  end.

(** bytes the connection can still deliver *)
Definition avail (st : fstate) : bytes := f_buf st ++ concat (u_chunks (f_und st)).

(** fAdapterTransport.readFrame and readRequestFrame of simple_server.go (same text):
    Read([]byte{}) to get the header, make([]byte, RemainingBytes()), io.ReadFull *)
Definition read_frame (maxlen : Z) (st : fstate) : res bytes * fstate :=
  match framed_read maxlen st 0 with
  | (Rd _ None, st1) =>
      match make_bytes (f_size st1) with
      | Ok _ => framed_read_full (S (length (avail st1))) maxlen st1 (f_size st1) []
      | Panic p => (Panic p, st1)
      | _ => (OutOfFuel, st1)
      end
  | (Rd _ (Some e), st1) => (Err e, st1)
  | (RdPanic p, st1) => (Panic p, st1)
  | (RdFuel, st1) => (OutOfFuel, st1)
  end.

Definition fresh (chunks : list bytes) (final : errk) : fstate := mkF 0 [] (mkU chunks final).

(** * the same on the flat byte stream (no chunks, no buffer): the reference *)
Definition flat_read_frame (maxlen : Z) (final : errk) (s : bytes) : res bytes * bytes :=
  if zlen s <? 4 then (Err final, []) else
  let size := un_be32 (ztake 4 s) in
  let s1 := zdrop 4 s in
  if maxlen <? size then (Err EOther, s1) else
  if zlen s1 <? size then (Err final, []) else
  (Ok (ztake size s1), zdrop size s1).

(** * fAdapterTransport.readLoop *)
Inductive loop_end :=
| EndClean                      (* END_OF_FILE between frames (nothing received that whole frames do not account for): f.close(nil) *)
| EndRead (e : errk)            (* other read error: f.close(err) *)
| EndExec (e : errk)            (* registry.Execute failed: f.close(err) *)
| EndCrash
| EndFuel.

(** END_OF_FILE ends the loop cleanly only BETWEEN frames: the loop counts the bytes the connection
    delivered and the bytes whole frames consumed; END_OF_FILE means the connection has delivered
    everything, so the difference is exactly what was still unread when the frame read began *)
Definition eof_end (unread : bytes) : loop_end :=
  match unread with [] => EndClean | _ => EndRead EEOF end.

(** number of frames dispatched and how the loop ends *)
Fixpoint adapter_loop (fuel : nat) (maxlen : Z) (st : fstate) (n : Z) : Z * loop_end :=
  match fuel with
  | O => (n, EndFuel)
  | S f =>
      match read_frame maxlen st with
      | (Ok frame, st') =>
          match registry_execute frame with
          | Ok _ => adapter_loop f maxlen st' (n + 1)
          | Err e => (n, EndExec e)
          | _ => (n, EndCrash)
          end
      | (Err EEOF, _) => (n, eof_end (avail st))
      | (Err e, _) => (n, EndRead e)
      | (Panic _, _) => (n, EndCrash)
      | (OutOfFuel, _) => (n, EndFuel)
      end
  end.

Fixpoint flat_adapter_loop (fuel : nat) (maxlen : Z) (final : errk) (s : bytes) (n : Z) : Z * loop_end :=
  match fuel with
  | O => (n, EndFuel)
  | S f =>
      match flat_read_frame maxlen final s with
      | (Ok frame, s') =>
          match registry_execute frame with
          | Ok _ => flat_adapter_loop f maxlen final s' (n + 1)
          | Err e => (n, EndExec e)
          | _ => (n, EndCrash)
          end
      | (Err EEOF, _) => (n, eof_end s)
      | (Err e, _) => (n, EndRead e)
      | (Panic _, _) => (n, EndCrash)
      | (OutOfFuel, _) => (n, EndFuel)
      end
  end.

(** * FSimpleServer.accept: one request frame at a time to the processor.
    [process frame] = whether processor.Process returned nil (the connection goes on).
    Every end of the loop closes the connection (defer client.Close(), repair aa2ee4d; before it
    the socket stayed open after a frame over the limit or a processor error). A peer that
    neither sends nor closes is the terminal error ETimedOut: the only end that is not reached,
    i.e. the only case in which the connection stays open (judge kind 24). *)
Inductive accept_end :=
| AcceptEOF                     (* END_OF_FILE: return nil *)
| AcceptReadErr (e : errk)      (* return err *)
| AcceptProcessErr              (* Process returned an error: return err *)
| AcceptCrash
| AcceptFuel.

Section Accept.
  Variable process : bytes -> res bool.

  (** frames handed to the processor, in order, and how the loop ends *)
  Fixpoint accept_loop (fuel : nat) (maxlen : Z) (st : fstate) : list bytes * accept_end :=
    match fuel with
    | O => ([], AcceptFuel)
    | S f =>
        match read_frame maxlen st with
        | (Ok frame, st') =>
            match process frame with
            | Ok true => let '(fs, e) := accept_loop f maxlen st' in (frame :: fs, e)
            | Ok false | Err _ => ([frame], AcceptProcessErr)
            | _ => ([frame], AcceptCrash)
            end
        | (Err EEOF, _) => ([], AcceptEOF)
        | (Err e, _) => ([], AcceptReadErr e)
        | (Panic _, _) => ([], AcceptCrash)
        | (OutOfFuel, _) => ([], AcceptFuel)
        end
    end.

  Fixpoint flat_accept_loop (fuel : nat) (maxlen : Z) (final : errk) (s : bytes) : list bytes * accept_end :=
    match fuel with
    | O => ([], AcceptFuel)
    | S f =>
        match flat_read_frame maxlen final s with
        | (Ok frame, s') =>
            match process frame with
            | Ok true => let '(fs, e) := flat_accept_loop f maxlen final s' in (frame :: fs, e)
            | Ok false | Err _ => ([frame], AcceptProcessErr)
            | _ => ([frame], AcceptCrash)
            end
        | (Err EEOF, _) => ([], AcceptEOF)
        | (Err e, _) => ([], AcceptReadErr e)
        | (Panic _, _) => ([], AcceptCrash)
        | (OutOfFuel, _) => ([], AcceptFuel)
        end
    end.
End Accept.
