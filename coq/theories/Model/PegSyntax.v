(** Syntax of pigeon grammars as data (one constructor per pigeon node kind that the
    translator understands).  Gen/Grammar.v is a value of [list (string * pexpr)]. *)
From Coq Require Import ZArith List String.
Import ListNotations.
Open Scope Z_scope.

Inductive pexpr :=
| PAct (name : string) (e : pexpr)            (* &actionExpr{run: callon<name>, expr} *)
| PSeq (es : list pexpr)                      (* &seqExpr{exprs} *)
| PChoice (es : list pexpr)                   (* &choiceExpr{alternatives} *)
| PLabel (label : string) (e : pexpr)         (* &labeledExpr{label, expr} *)
| PStar (e : pexpr)                           (* &zeroOrMoreExpr *)
| PPlus (e : pexpr)                           (* &oneOrMoreExpr *)
| POpt (e : pexpr)                            (* &zeroOrOneExpr *)
| PAnd (e : pexpr)                            (* &andExpr *)
| PNot (e : pexpr)                            (* &notExpr *)
| PRef (name : string)                        (* &ruleRefExpr{name} *)
| PLit (ignore_case : bool) (runes : list Z)  (* &litMatcher{val, ignoreCase}; val as code points *)
| PClass (chars : list Z) (ranges : list (Z * Z)) (ignore_case inverted : bool)
                                              (* &charClassMatcher{chars, ranges, ignoreCase, inverted} *)
| PAny.                                       (* &anyMatcher *)

(** number of expression nodes (self-check against the translator's count) *)
Fixpoint pexpr_size (e : pexpr) : Z :=
  match e with
  | PAct _ e | PLabel _ e | PStar e | PPlus e | POpt e | PAnd e | PNot e => 1 + pexpr_size e
  | PSeq es | PChoice es => 1 + fold_right (fun x acc => pexpr_size x + acc) 0 es
  | PRef _ | PLit _ _ | PClass _ _ _ _ | PAny => 1
  end.

Definition rules_size (rs : list (string * pexpr)) : Z :=
  fold_right (fun r acc => pexpr_size (snd r) + acc) 0 rs.
