(** Models of the Go standard-library string functions that the parser's semantic actions call
    (strconv.Unquote, strconv.ParseInt, strconv.ParseFloat, strings.TrimSpace/TrimLeft/Split/
    Replace/TrimPrefix/TrimSuffix, filepath.Base, the two regular expressions of newScopePrefix).
    Go strings are byte strings: [bytes = list Z].  Executable definitions only. *)
From Coq Require Import ZArith List Bool.
From FV Require Import Model.Peg.
Import ListNotations.
Open Scope Z_scope.

Definition bytes := list Z.

Fixpoint beqb (a b : bytes) : bool :=
  match a, b with
  | [], [] => true
  | x :: a', y :: b' => (x =? y) && beqb a' b'
  | _, _ => false
  end.

Fixpoint has_prefix (p s : bytes) : bool :=
  match p, s with
  | [], _ => true
  | x :: p', y :: s' => (x =? y) && has_prefix p' s'
  | _ :: _, [] => false
  end.

Definition trim_prefix (p s : bytes) : bytes :=
  if has_prefix p s then skipn (length p) s else s.
Definition has_suffix (p s : bytes) : bool := has_prefix (rev p) (rev s).
Definition trim_suffix (p s : bytes) : bytes :=
  if has_suffix p s then rev (skipn (length p) (rev s)) else s.

Definition contains_byte (c : Z) (s : bytes) : bool := existsb (Z.eqb c) s.

(** utf8.AppendRune *)
Definition valid_rune (r : Z) : bool :=
  ((0 <=? r) && (r <? 55296)) || ((57344 <=? r) && (r <=? 1114111)).
Definition encode_rune (r : Z) : bytes :=
  if negb (valid_rune r) then [239; 191; 189]
  else if r <? 128 then [r]
  else if r <? 2048 then [192 + r / 64; 128 + r mod 64]
  else if r <? 65536 then [224 + r / 4096; 128 + (r / 64) mod 64; 128 + r mod 64]
  else [240 + r / 262144; 128 + (r / 4096) mod 64; 128 + (r / 64) mod 64; 128 + r mod 64].

(** utf8.ValidString *)
Fixpoint valid_utf8_fuel (fuel : nat) (s : bytes) : bool :=
  match fuel with
  | O => true
  | S f =>
    match s with
    | [] => true
    | _ =>
      let '(r, w) := decode_rune s in
      if (r =? rune_error) && (w =? 1) then false else valid_utf8_fuel f (skip_width w s)
    end
  end.
Definition valid_utf8 (s : bytes) : bool := valid_utf8_fuel (length s) s.

(** ** strconv.Unquote for double-quoted input *)
Definition unhex (c : Z) : option Z :=
  if (48 <=? c) && (c <=? 57) then Some (c - 48)
  else if (97 <=? c) && (c <=? 102) then Some (c - 97 + 10)
  else if (65 <=? c) && (c <=? 70) then Some (c - 65 + 10)
  else None.

Fixpoint hex_digits (n : nat) (s : bytes) (acc : Z) : option (Z * bytes) :=
  match n with
  | O => Some (acc, s)
  | S n' => match s with
            | c :: t => match unhex c with Some x => hex_digits n' t (acc * 16 + x) | None => None end
            | [] => None
            end
  end.

(** strconv.UnquoteChar(s, quote): Some (value, multibyte, tail) or None (ErrSyntax) *)
Definition unquote_char (s : bytes) (quote : Z) : option (Z * bool * bytes) :=
  match s with
  | [] => None
  | c :: t =>
    if (c =? quote) && ((quote =? 39) || (quote =? 34)) then None
    else if 128 <=? c then
      let '(r, w) := decode_rune s in Some (r, true, skip_width w s)
    else if negb (c =? 92) then Some (c, false, t)
    else
      match t with
      | [] => None
      | c1 :: s2 =>
        if c1 =? 97 then Some (7, false, s2)            (* \a *)
        else if c1 =? 98 then Some (8, false, s2)       (* \b *)
        else if c1 =? 102 then Some (12, false, s2)     (* \f *)
        else if c1 =? 110 then Some (10, false, s2)     (* \n *)
        else if c1 =? 114 then Some (13, false, s2)     (* \r *)
        else if c1 =? 116 then Some (9, false, s2)      (* \t *)
        else if c1 =? 118 then Some (11, false, s2)     (* \v *)
        else if c1 =? 120 then                          (* \xHH *)
          match hex_digits 2 s2 0 with Some (v, tl) => Some (v, false, tl) | None => None end
        else if c1 =? 117 then                          (* \uHHHH *)
          match hex_digits 4 s2 0 with
          | Some (v, tl) => if valid_rune v then Some (v, true, tl) else None
          | None => None
          end
        else if c1 =? 85 then                           (* \UHHHHHHHH *)
          match hex_digits 8 s2 0 with
          | Some (v, tl) => if valid_rune v then Some (v, true, tl) else None
          | None => None
          end
        else if (48 <=? c1) && (c1 <=? 55) then         (* \ooo *)
          match s2 with
          | d1 :: d2 :: tl =>
            if (48 <=? d1) && (d1 <=? 55) && (48 <=? d2) && (d2 <=? 55) then
              let v := ((c1 - 48) * 8 + (d1 - 48)) * 8 + (d2 - 48) in
              if 255 <? v then None else Some (v, false, tl)
            else None
          | _ => None
          end
        else if c1 =? 92 then Some (92, false, s2)      (* \\ *)
        else if (c1 =? 39) || (c1 =? 34) then
          if c1 =? quote then Some (c1, false, s2) else None
        else None
      end
  end.

Fixpoint unquote_loop (fuel : nat) (s : bytes) (acc : bytes) : option (bytes * bytes) :=
  match fuel with
  | O => None
  | S f =>
    match s with
    | [] => None                                        (* no terminating quote *)
    | c :: t =>
      if c =? 34 then Some (rev acc, t)
      else
        match unquote_char s 34 with
        | None => None
        | Some (r, multibyte, tl) =>
          if c =? 10 then None
          else
            let out := if (r <? 128) || negb multibyte then [r mod 256] else encode_rune r in
            unquote_loop f tl (rev_append out acc)
        end
    end
  end.

Fixpoint index_byte (c : Z) (s : bytes) (i : nat) : option nat :=
  match s with
  | [] => None
  | x :: t => if x =? c then Some i else index_byte c t (S i)
  end.

(** strconv.Unquote(s) for s beginning with a double quote; None = ErrSyntax *)
Definition unquote (s : bytes) : option bytes :=
  match s with
  | 34 :: t =>
    match index_byte 34 t 0 with
    | None => None
    | Some e =>
      let content := firstn e t in
      let after := skipn (S e) t in
      if negb (contains_byte 92 content) && negb (contains_byte 10 content) && valid_utf8 content then
        match after with [] => Some content | _ => None end
      else
        match unquote_loop (S (length t)) t [] with
        | Some (out, []) => Some out
        | _ => None
        end
    end
  | _ => None
  end.

(** unquoteLiteral's loop over the text between the delimiting quotes: an escaped apostrophe becomes
    an apostrophe, every other backslash pair is copied, a bare double quote gets a backslash *)
Fixpoint norm_lit (s : bytes) : bytes :=
  match s with
  | [] => []
  | c :: t =>
    if c =? 92 then
      match t with
      | n :: t' => if n =? 39 then 39 :: norm_lit t' else 92 :: n :: norm_lit t'
      | [] => [92]
      end
    else if c =? 34 then 92 :: 34 :: norm_lit t
    else c :: norm_lit t
  end.

(** the Literal action (unquoteLiteral): c.text -> (value, ok) *)
Definition literal_value (text : bytes) : option bytes :=
  match text with
  | _ :: _ :: _ =>
    let inner := firstn (length text - 2) (skipn 1 text) in
    unquote ([34] ++ norm_lit inner ++ [34])
  | _ => unquote text
  end.

(** ** strconv.ParseInt(s, 10, 64) *)
Inductive num_err := NumSyntax | NumRange.

Fixpoint digits_value (s : bytes) (acc : Z) : option Z :=
  match s with
  | [] => Some acc
  | c :: t => if (48 <=? c) && (c <=? 57) then digits_value t (acc * 10 + (c - 48)) else None
  end.

Definition parse_int64 (s : bytes) : Z + num_err :=
  let '(neg, ds) := match s with
                    | 43 :: t => (false, t)
                    | 45 :: t => (true, t)
                    | _ => (false, s)
                    end in
  match ds with
  | [] => inr NumSyntax
  | _ =>
    match digits_value ds 0 with
    | None => inr NumSyntax
    | Some v =>
      if neg then (if 9223372036854775808 <? v then inr NumRange else inl (- v))
      else (if 9223372036854775807 <? v then inr NumRange else inl v)
    end
  end.

(** ** strconv.ParseFloat(s, 64) on decimal input: the IEEE-754 binary64 nearest to the exact
    decimal value, ties to even; overflow is ErrRange; underflow gives (signed) zero.
    The result is the 64-bit pattern. *)
Definition round_half_even (n d : Z) : Z :=
  let q := n / d in
  let r := n mod d in
  if 2 * r <? d then q else if d <? 2 * r then q + 1 else if Z.even q then q else q + 1.

Definition to_binary64 (neg : bool) (num den : Z) : option Z :=
  let sign := if neg then 2 ^ 63 else 0 in
  if num =? 0 then Some sign else
  let scale (e : Z) := if 0 <=? e then (num, den * 2 ^ e) else (num * 2 ^ (- e), den) in
  let est := Z.log2 num - Z.log2 den in
  let fl := let '(n, d) := scale est in if n <? d then est - 1 else est in
  let e := Z.max (fl - 52) (-1074) in
  let '(n, d) := scale e in
  let q := round_half_even n d in
  let '(q, e) := if q =? 2 ^ 53 then (2 ^ 52, e + 1) else (q, e) in
  if 971 <? e then None
  else if q <? 2 ^ 52 then Some (sign + q)
  else Some (sign + (e + 1075) * 2 ^ 52 + (q - 2 ^ 52)).

(** leading digits: value, count, rest *)
Fixpoint scan_digits (s : bytes) (acc : Z) (n : Z) : Z * Z * bytes :=
  match s with
  | c :: t => if (48 <=? c) && (c <=? 57) then scan_digits t (acc * 10 + (c - 48)) (n + 1) else (acc, n, s)
  | [] => (acc, n, s)
  end.
(** readFloat's exponent accumulation: [if e < 10000 { e = e*10 + digit }] *)
Fixpoint scan_exp (s : bytes) (e : Z) : Z * bytes :=
  match s with
  | c :: t => if (48 <=? c) && (c <=? 57) then scan_exp t (if e <? 10000 then e * 10 + (c - 48) else e) else (e, s)
  | [] => (e, s)
  end.

Definition parse_float64 (s : bytes) : Z + num_err :=
  let '(neg, s1) := match s with
                    | 43 :: t => (false, t)
                    | 45 :: t => (true, t)
                    | _ => (false, s)
                    end in
  let '(m1, n1, s2) := scan_digits s1 0 0 in
  let '(m, nfrac, ndig, s3) :=
    match s2 with
    | 46 :: t => let '(m2, n2, s') := scan_digits t m1 0 in (m2, n2, n1 + n2, s')
    | _ => (m1, 0, n1, s2)
    end in
  if ndig =? 0 then inr NumSyntax else
  let finish (ex : Z) (tail : bytes) :=
    match tail with
    | _ :: _ => inr NumSyntax
    | [] =>
      let p := ex - nfrac in
      let r := if 0 <=? p then to_binary64 neg (m * 10 ^ p) 1 else to_binary64 neg m (10 ^ (- p)) in
      match r with Some b => inl b | None => inr NumRange end
    end in
  match s3 with
  | c :: t =>
    if (c =? 101) || (c =? 69) then
      let '(esign, t1) := match t with
                          | 43 :: t' => (1, t')
                          | 45 :: t' => (-1, t')
                          | _ => (1, t)
                          end in
      match t1 with
      | d :: _ =>
        if (48 <=? d) && (d <=? 57) then
          let '(e, tail) := scan_exp t1 0 in finish (e * esign) tail
        else inr NumSyntax
      | [] => inr NumSyntax
      end
    else inr NumSyntax
  | [] => finish 0 []
  end.

(** ** strings.TrimSpace *)
Definition is_space_rune (r : Z) : bool :=
  ((9 <=? r) && (r <=? 13)) || (r =? 32) || (r =? 133) || (r =? 160) || (r =? 5760)
  || ((8192 <=? r) && (r <=? 8202)) || (r =? 8232) || (r =? 8233) || (r =? 8239) || (r =? 8287)
  || (r =? 12288).

Fixpoint trim_space_left (fuel : nat) (s : bytes) : bytes :=
  match fuel with
  | O => s
  | S f =>
    match s with
    | [] => []
    | _ =>
      let '(r, w) := decode_rune s in
      if is_space_rune r && negb ((r =? rune_error)) then trim_space_left f (skip_width w s) else s
    end
  end.

Definition rune_start (b : Z) : bool := (b <? 128) || (192 <=? b).

(** utf8.DecodeLastRune on the REVERSED string: (rune, width) *)
Definition decode_last_rune (r : bytes) : Z * Z :=
  match r with
  | [] => (rune_error, 0)
  | r0 :: t =>
    if r0 <? 128 then (r0, 1) else
    let try (chunk : bytes) (k : Z) :=
      let '(rn, w) := decode_rune chunk in if w =? k then (rn, w) else (rune_error, 1) in
    match t with
    | r1 :: t1 =>
      if rune_start r1 then try [r1; r0] 2 else
      match t1 with
      | r2 :: t2 =>
        if rune_start r2 then try [r2; r1; r0] 3 else
        match t2 with
        | r3 :: _ => if rune_start r3 then try [r3; r2; r1; r0] 4 else (rune_error, 1)
        | [] => (rune_error, 1)
        end
      | [] => (rune_error, 1)
      end
    | [] => (rune_error, 1)
    end
  end.

Fixpoint trim_space_right_rev (fuel : nat) (r : bytes) : bytes :=
  match fuel with
  | O => r
  | S f =>
    match r with
    | [] => []
    | _ =>
      let '(rn, w) := decode_last_rune r in
      if is_space_rune rn then trim_space_right_rev f (skip_width w r) else r
    end
  end.

Definition trim_space (s : bytes) : bytes :=
  let l := trim_space_left (length s) s in
  rev (trim_space_right_rev (length l) (rev l)).

(** strings.TrimLeft(s, cutset) for an ASCII cutset *)
Fixpoint trim_left_set (cut : bytes) (s : bytes) : bytes :=
  match s with
  | c :: t => if contains_byte c cut then trim_left_set cut t else s
  | [] => []
  end.

(** strings.Split(s, "\n") *)
Fixpoint split_nl (s : bytes) (cur : bytes) : list bytes :=
  match s with
  | [] => [rev cur]
  | c :: t => if c =? 10 then rev cur :: split_nl t [] else split_nl t (c :: cur)
  end.

(** rawCommentToDocStr *)
Definition raw_comment_to_docstr (raw : bytes) : list bytes :=
  map (trim_left_set [42; 32]) (split_nl raw []).

(** the DocString action *)
Definition docstring_value (text : bytes) : bytes :=
  trim_space (trim_suffix [42; 47] (trim_prefix [47; 42; 42; 64] text)).

(** ** filepath.Base (unix) and the Include action's name *)
Fixpoint drop_while_eq (c : Z) (s : bytes) : bytes :=
  match s with x :: t => if x =? c then drop_while_eq c t else s | [] => [] end.
Fixpoint take_until_eq (c : Z) (s : bytes) : bytes :=
  match s with x :: t => if x =? c then [] else x :: take_until_eq c t | [] => [] end.

Definition filepath_base (p : bytes) : bytes :=
  match p with
  | [] => [46]
  | _ =>
    let r := drop_while_eq 47 (rev p) in
    let last := rev (take_until_eq 47 r) in
    match last with [] => [47] | _ => last end
  end.

(** if ix := strings.LastIndex(name, "."); ix > 0 { name = name[:ix] } *)
Definition strip_extension (name : bytes) : bytes :=
  let r := rev name in
  if contains_byte 46 r then
    let ext := take_until_eq 46 r in
    match skipn (S (length ext)) r with
    | [] => name
    | stem => rev stem
    end
  else name.

Definition include_name (file : bytes) : bytes := strip_extension (filepath_base file).

(** ** newScopePrefix: prefixVariable = "{\\w*}", identifier = "^[A-Za-z]+[A-Za-z0-9]" *)
Definition is_letter (c : Z) : bool := ((65 <=? c) && (c <=? 90)) || ((97 <=? c) && (c <=? 122)).
Definition is_digit (c : Z) : bool := (48 <=? c) && (c <=? 57).
Definition is_word (c : Z) : bool := is_letter c || is_digit c || (c =? 95).

Fixpoint span_word (s : bytes) (acc : bytes) : bytes * bytes :=
  match s with
  | c :: t => if is_word c then span_word t (c :: acc) else (rev acc, s)
  | [] => (rev acc, [])
  end.

(** prefixVariable.FindAllString(prefix, -1), already stripped of the braces *)
Fixpoint prefix_vars_fuel (fuel : nat) (s : bytes) : list bytes :=
  match fuel with
  | O => []
  | S f =>
    match s with
    | [] => []
    | 123 :: t =>
      let '(w, after) := span_word t [] in
      match after with
      | 125 :: t' => w :: prefix_vars_fuel f t'
      | _ => prefix_vars_fuel f t
      end
    | _ :: t => prefix_vars_fuel f t
    end
  end.
Definition prefix_vars (s : bytes) : list bytes := prefix_vars_fuel (S (length s)) s.

(** len(variable) == 0 || !identifier.MatchString(variable) *)
Definition bad_prefix_var (v : bytes) : bool :=
  match v with
  | c0 :: c1 :: _ => negb (is_letter c0 && (is_letter c1 || is_digit c1))
  | _ => true
  end.

(** newScopePrefix: inl (string, variables) or inr (the offending variable) *)
Definition new_scope_prefix (prefix : bytes) : (bytes * list bytes) + bytes :=
  let vars := prefix_vars prefix in
  match find bad_prefix_var vars with
  | Some v => inr v
  | None => inl (prefix, vars)
  end.
