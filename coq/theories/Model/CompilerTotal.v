(** C11 — the compiler is total.  Executable model (no proofs) of the parts of the
    compiler front end and of the generator helpers whose failure modes are panics or
    unbounded recursion:

      - Go generator casing helpers  [snakeToCamel], [title], [titleServiceName]
        (compiler/generator/golang/generator.go), Java [toConstantName], Dart [toFileName],
        [toFieldName], [lowercaseFirstCharacter], parser [LowercaseFirstLetter];
      - [-gen] parameter parsing  [CleanGenParam], [ValidateOption], [GetProgramGenerator]
        (compiler/compiler.go, compiler/generator/generator.go);
      - IDL types, [isValidType], [validateTypedefs] (with the circular-typedef check),
        [UnderlyingType] (fuelled), [IsEnum], [IsStruct], [IsUnion] (compiler/parser/types.go)
        and the Go wire-type classification [getEnumFromThriftType].

    Strings are lists of byte values; the case-mapping functions are the ASCII restriction of
    Go's [unicode.ToUpper]/[unicode.ToLower] (identifiers of the IDL grammar are ASCII).
    The model follows the repaired code; the [_pinned] variants transcribe the code as it was
    before the repairs and exist only to state what was wrong. *)
From Coq Require Import ZArith List Bool.
Import ListNotations.
Open Scope Z_scope.

Definition str := list Z.

(** Go partiality: error return, the three kinds of panic met in this code, fuel. *)
Inductive cpanic := CPIndex | CPNil | CPExplicit.
Inductive cres (A : Type) : Type :=
| COk (a : A)
| CErr
| CPanic (p : cpanic)
| CFuel.
Arguments COk {A} a.
Arguments CErr {A}.
Arguments CPanic {A} p.
Arguments CFuel {A}.

Definition cbind {A B} (r : cres A) (f : A -> cres B) : cres B :=
  match r with
  | COk a => f a
  | CErr => CErr
  | CPanic p => CPanic p
  | CFuel => CFuel
  end.
Notation "'dok' x <- r ;; k" := (cbind r (fun x => k))
  (at level 200, x name, r at level 100, k at level 200, right associativity).

(** 0 ok, 7 error, 100 panic, 101 out of fuel (codes shared with the harness) *)
Definition cres_code {A} (r : cres A) : Z :=
  match r with COk _ => 0 | CErr => 7 | CPanic _ => 100 | CFuel => 101 end.
Definition total {A} (r : cres A) : Prop :=
  match r with COk _ | CErr => True | _ => False end.

Fixpoint str_eqb (a b : str) : bool :=
  match a, b with
  | [], [] => true
  | x :: a', y :: b' => (x =? y) && str_eqb a' b'
  | _, _ => false
  end.
Fixpoint mem (s : str) (l : list str) : bool :=
  match l with
  | [] => false
  | x :: r => str_eqb s x || mem s r
  end.
Definition is_nil {A} (l : list A) : bool := match l with [] => true | _ => false end.

(** first binding (a Go map whose keys are unique) *)
Fixpoint assoc {A} (k : str) (l : list (str * A)) : option A :=
  match l with
  | [] => None
  | (k', a) :: r => if str_eqb k k' then Some a else assoc k r
  end.
(** last binding (an index map filled in declaration order: later entries overwrite) *)
Fixpoint lookup_last {A} (k : str) (l : list (str * A)) : option A :=
  match l with
  | [] => None
  | (k', a) :: r =>
    match lookup_last k r with
    | Some x => Some x
    | None => if str_eqb k k' then Some a else None
    end
  end.

(** ASCII case mapping *)
Definition is_lower (c : Z) : bool := (97 <=? c) && (c <=? 122).
Definition is_upper (c : Z) : bool := (65 <=? c) && (c <=? 90).
Definition to_upper (c : Z) : Z := if is_lower c then c - 32 else c.
Definition to_lower (c : Z) : Z := if is_upper c then c + 32 else c.
Definition upper (s : str) : str := map to_upper s.

(** strings.Split with a one-byte separator: always at least one element *)
Fixpoint split (sep : Z) (s : str) : list str :=
  match s with
  | [] => [[]]
  | c :: r =>
    if c =? sep then [] :: split sep r
    else match split sep r with
         | [] => [[c]]
         | w :: ws => (c :: w) :: ws
         end
  end.
Definition contains (c : Z) (s : str) : bool := existsb (Z.eqb c) s.
Fixpoint has_prefix (p s : str) : bool :=
  match p, s with
  | [], _ => true
  | x :: p', y :: s' => (x =? y) && has_prefix p' s'
  | _ :: _, [] => false
  end.
Definition has_suffix (p s : str) : bool := has_prefix (rev p) (rev s).
Definition nth_res {A} (n : nat) (l : list A) : cres A :=
  match nth_error l n with Some a => COk a | None => CPanic CPIndex end.

(** * String constants (generated from the source text; the language/option table is compared
    with generator.Languages on every run) *)
Definition s_bool : str := [98;111;111;108]. (* "bool" *)
Definition s_byte : str := [98;121;116;101]. (* "byte" *)
Definition s_i8 : str := [105;56]. (* "i8" *)
Definition s_i16 : str := [105;49;54]. (* "i16" *)
Definition s_i32 : str := [105;51;50]. (* "i32" *)
Definition s_i64 : str := [105;54;52]. (* "i64" *)
Definition s_double : str := [100;111;117;98;108;101]. (* "double" *)
Definition s_string : str := [115;116;114;105;110;103]. (* "string" *)
Definition s_binary : str := [98;105;110;97;114;121]. (* "binary" *)
Definition s_list : str := [108;105;115;116]. (* "list" *)
Definition s_set : str := [115;101;116]. (* "set" *)
Definition s_map : str := [109;97;112]. (* "map" *)
Definition s_New : str := [78;101;119]. (* "New" *)
Definition s_Args : str := [65;114;103;115]. (* "Args" *)
Definition s_Result : str := [82;101;115;117;108;116]. (* "Result" *)
Definition s_dart : str := [100;97;114;116]. (* "dart" *)
Definition s_go : str := [103;111]. (* "go" *)
Definition s_java : str := [106;97;118;97]. (* "java" *)
Definition s_json : str := [106;115;111;110]. (* "json" *)
Definition s_py : str := [112;121]. (* "py" *)
Definition s_html : str := [104;116;109;108]. (* "html" *)
Definition common_initialisms : list str :=
  [ [65;80;73] (* API *);
    [65;83;67;73;73] (* ASCII *);
    [67;80;85] (* CPU *);
    [67;83;83] (* CSS *);
    [68;78;83] (* DNS *);
    [69;79;70] (* EOF *);
    [71;85;73;68] (* GUID *);
    [72;84;77;76] (* HTML *);
    [72;84;84;80] (* HTTP *);
    [72;84;84;80;83] (* HTTPS *);
    [73;68] (* ID *);
    [73;80] (* IP *);
    [74;83;79;78] (* JSON *);
    [76;72;83] (* LHS *);
    [81;80;83] (* QPS *);
    [82;65;77] (* RAM *);
    [82;72;83] (* RHS *);
    [82;80;67] (* RPC *);
    [83;76;65] (* SLA *);
    [83;77;84;80] (* SMTP *);
    [83;83;72] (* SSH *);
    [84;76;83] (* TLS *);
    [84;84;76] (* TTL *);
    [85;73] (* UI *);
    [85;73;68] (* UID *);
    [85;85;73;68] (* UUID *);
    [85;82;73] (* URI *);
    [85;82;76] (* URL *);
    [85;84;70;56] (* UTF8 *);
    [86;77] (* VM *);
    [88;77;76] (* XML *) ].
Definition languages : list (str * list str) :=
  [ ([103;111] (* go *),
      [ [116;104;114;105;102;116;95;105;109;112;111;114;116] (* thrift_import *);
        [102;114;117;103;97;108;95;105;109;112;111;114;116] (* frugal_import *);
        [112;97;99;107;97;103;101;95;112;114;101;102;105;120] (* package_prefix *);
        [97;115;121;110;99] (* async *);
        [117;115;101;95;118;101;110;100;111;114] (* use_vendor *);
        [115;108;105;109] (* slim *);
        [115;117;112;112;114;101;115;115;95;100;101;112;114;101;99;97;116;101;100;95;108;111;103;103;105;110;103] (* suppress_deprecated_logging *);
        [111;109;105;116;95;115;101;114;118;101;114;95;115;101;114;118;105;99;101;95;103;101;110;101;114;97;116;105;111;110] (* omit_server_service_generation *) ]);
    ([106;97;118;97] (* java *),
      [ [103;101;110;101;114;97;116;101;100;95;97;110;110;111;116;97;116;105;111;110;115] (* generated_annotations *);
        [97;115;121;110;99] (* async *);
        [98;111;120;101;100;95;112;114;105;109;105;116;105;118;101;115] (* boxed_primitives *);
        [100;101;102;97;117;108;116;95;117;110;115;117;112;112;111;114;116;101;100] (* default_unsupported *);
        [117;115;101;95;118;101;110;100;111;114] (* use_vendor *);
        [115;117;112;112;114;101;115;115;95;100;101;112;114;101;99;97;116;101;100;95;108;111;103;103;105;110;103] (* suppress_deprecated_logging *) ]);
    ([106;115;111;110] (* json *),
      [ [105;110;100;101;110;116] (* indent *) ]);
    ([100;97;114;116] (* dart *),
      [ [108;105;98;114;97;114;121;95;112;114;101;102;105;120] (* library_prefix *);
        [117;115;101;95;101;110;117;109;115] (* use_enums *);
        [117;115;101;95;105;110;116;54;52] (* use_int64 *);
        [117;115;101;95;110;117;108;108;95;102;111;114;95;117;110;115;101;116] (* use_null_for_unset *);
        [117;115;101;95;118;101;110;100;111;114] (* use_vendor *);
        [110;117;108;108;115;97;102;101] (* nullsafe *) ]);
    ([112;121] (* py *),
      [ [116;111;114;110;97;100;111] (* tornado *);
        [97;115;121;110;99;105;111] (* asyncio *);
        [112;97;99;107;97;103;101;95;112;114;101;102;105;120] (* package_prefix *) ]);
    ([104;116;109;108] (* html *),
      [ [115;116;97;110;100;97;108;111;110;101] (* standalone *) ]) ].

(** * Casing helpers *)

(** one iteration of the loop of golang.snakeToCamel; [w[0]] panics on an empty word *)
Definition camel_word (w : str) : cres str :=
  if mem (upper w) common_initialisms then COk (upper w)
  else match w with
       | [] => CPanic CPIndex
       | c :: r => COk (to_upper c :: r)
       end.
Fixpoint camel_words (skip_empty : bool) (ws : list str) : cres str :=
  match ws with
  | [] => COk []
  | w :: r =>
    if skip_empty && is_nil w then camel_words skip_empty r
    else dok x <- camel_word w ;; dok y <- camel_words skip_empty r ;; COk (x ++ y)
  end.
Definition snake_to_camel_gen (skip_empty : bool) (s : str) : cres str :=
  match s with
  | [] => COk []
  | _ => camel_words skip_empty (split 95 s)
  end.
(** repaired code: empty words are skipped *)
Definition snake_to_camel := snake_to_camel_gen true.
(** code before the repair *)
Definition snake_to_camel_pinned := snake_to_camel_gen false.

Definition title_service_name_gen (skip_empty : bool) (name svc : str) : cres str :=
  if is_nil name then COk name
  else if str_eqb name (upper name) then COk name
  else
    let name' := if is_nil svc then name else svc ++ [95] ++ name in
    dok r <- snake_to_camel_gen skip_empty name' ;;
    COk (if is_nil svc && (has_prefix s_New r || has_suffix s_Args r || has_suffix s_Result r)
         then r ++ [95] else r).
Definition title_service_name := title_service_name_gen true.
Definition title (name : str) : cres str := title_service_name name [].
Definition title_pinned (name : str) : cres str := title_service_name_gen false name [].

(** java.toConstantName / dartlang.toFileName: the shared loop with one rune of lookahead *)
Fixpoint file_name_loop (first : bool) (l : str) (is_prev_lc is_cur_lc : bool) : str :=
  match l with
  | [] => []
  | c :: rest =>
    let is_next_lc := match rest with [] => false | d :: _ => d =? to_lower d end in
    (if negb first && negb is_cur_lc && (is_prev_lc || is_next_lc) then [95] else [])
      ++ to_lower c :: file_name_loop false rest is_cur_lc is_next_lc
  end.
(** [tmp[0]] panics on the empty string *)
Definition to_file_name (s : str) : cres str :=
  match s with
  | [] => CPanic CPIndex
  | c :: _ => COk (file_name_loop true s true (c =? to_lower c))
  end.
Definition to_constant_name (s : str) : cres str := dok r <- to_file_name s ;; COk (upper r).

(** parser.LowercaseFirstLetter and dartlang.toFieldName: [runes[0]] panics on "" *)
Definition lowercase_first_letter (s : str) : cres str :=
  match s with
  | [] => CPanic CPIndex
  | c :: r => COk (to_lower c :: r)
  end.
(** dartlang.lowercaseFirstCharacter checks the length *)
Definition lowercase_first_character (s : str) : cres str :=
  match s with
  | [] => COk []
  | c :: r => COk (to_lower c :: r)
  end.

(** identifiers of the IDL grammar: (Letter / '_')+ (Letter / Digit / [._])*  *)
Definition is_letter (c : Z) : bool := is_lower c || is_upper c.
Definition is_digit (c : Z) : bool := (48 <=? c) && (c <=? 57).
Definition ident_start (c : Z) : bool := is_letter c || (c =? 95).
Definition ident_char (c : Z) : bool := is_letter c || is_digit c || (c =? 95) || (c =? 46).
Definition is_identifier (s : str) : bool :=
  match s with
  | [] => false
  | c :: r => ident_start c && forallb ident_char r
  end.

(** * The -gen parameter *)

Definition validate_option (lang opt : str) : bool :=
  match assoc lang languages with
  | None => false
  | Some opts => mem opt opts
  end.
Fixpoint set_opt (k v : str) (m : list (str * str)) : list (str * str) :=
  match m with
  | [] => [(k, v)]
  | (k', v') :: r => if str_eqb k k' then (k, v) :: r else (k', v') :: set_opt k v r
  end.
Fixpoint clean_options (lang : str) (opts : list str) (m : list (str * str))
  : cres (list (str * str)) :=
  match opts with
  | [] => COk m
  | o :: r =>
    let s := split 61 o in
    dok s0 <- nth_res 0 s ;;
    if negb (validate_option lang s0) then CErr
    else if (length s =? 1)%nat then clean_options lang r (set_opt s0 [] m)
    else dok s1 <- nth_res 1 s ;; clean_options lang r (set_opt s0 s1 m)
  end.
(** compiler.CleanGenParam *)
Definition clean_gen_param (gen : str) : cres (str * list (str * str)) :=
  if negb (contains 58 gen) then COk (gen, [])
  else
    let s := split 58 gen in
    dok lang <- nth_res 0 s ;;
    dok dirty <- nth_res 1 s ;;
    let arr := if contains 44 dirty then split 44 dirty else [dirty] in
    dok m <- clean_options lang arr [] ;;
    COk (lang, m).
(** compiler.GetProgramGenerator: the languages with a generator *)
Definition generator_langs : list str := [s_dart; s_go; s_java; s_json; s_py; s_html].
(** what generateFrugal does with the -gen value before any code is generated *)
Definition resolve_gen (gen : str) : cres (str * list (str * str)) :=
  dok p <- clean_gen_param gen ;;
  if mem (fst p) generator_langs then COk p else CErr.

(** * IDL types and files *)

(** parser.Type; [TNil] is the nil pointer *)
Inductive ty := TNil | Ty (name : str) (key value : ty).

(** parser.Frugal, reduced to what type resolution and type validation read.
    [uses]: every type validation checks with isValidType apart from the typedef targets
    (constant types, field types, return/argument/exception types, operation types).
    [incs]: ParsedIncludes. *)
Inductive frugal :=
  Frugal (typedefs : list (str * ty)) (structs unions exceptions enums : list str)
         (uses : list ty) (incs : list (str * frugal)).
Definition typedefs f := match f with Frugal a _ _ _ _ _ _ => a end.
Definition structs f := match f with Frugal _ a _ _ _ _ _ => a end.
Definition unions f := match f with Frugal _ _ a _ _ _ _ => a end.
Definition exceptions f := match f with Frugal _ _ _ a _ _ _ => a end.
Definition enums f := match f with Frugal _ _ _ _ a _ _ => a end.
Definition uses f := match f with Frugal _ _ _ _ _ a _ => a end.
Definition incs f := match f with Frugal _ _ _ _ _ _ a => a end.

Definition base_types : list str :=
  [s_bool; s_byte; s_i8; s_i16; s_i32; s_i64; s_double; s_string; s_binary].
Definition container_types : list str := [s_list; s_set; s_map].
Definition is_primitive (name : str) : bool := mem name base_types.
Definition is_container (name : str) : bool := mem name container_types.

(** Type.IncludeName / Type.ParamName: split at the first '.' *)
Fixpoint before_dot (s : str) : str :=
  match s with
  | [] => []
  | c :: r => if c =? 46 then [] else c :: before_dot r
  end.
Fixpoint after_dot (s : str) : str :=
  match s with
  | [] => []
  | c :: r => if c =? 46 then r else after_dot r
  end.
Definition include_name (name : str) : str := if contains 46 name then before_dot name else [].
Definition param_name (name : str) : str := if contains 46 name then after_dot name else name.

(** the file a name is looked up in by isValidType, FindStruct: the include if the name is
    qualified (absent include: none), else this file *)
Definition scope_of (f : frugal) (name : str) : option frugal :=
  if is_nil (include_name name) then Some f else assoc (include_name name) (incs f).

(** Frugal.isValidType (repaired: a nil element type is invalid) *)
Fixpoint is_valid_type (f : frugal) (t : ty) : bool :=
  match t with
  | TNil => false
  | Ty name k v =>
    if is_primitive name then true
    else if is_container name then
      if str_eqb name s_map then is_valid_type f k && is_valid_type f v
      else is_valid_type f v
    else
      match scope_of f name with
      | None => false
      | Some g =>
        let p := param_name name in
        mem p (structs g) || mem p (unions g) || mem p (exceptions g) || mem p (enums g)
        || mem p (map fst (typedefs g))
      end
  end.

(** qualifyType (added by the repair of UnderlyingType) *)
Fixpoint qualify (inc : str) (t : ty) : ty :=
  match t with
  | TNil => TNil
  | Ty name k v =>
    if is_primitive name then t
    else if is_container name then Ty name (qualify inc k) (qualify inc v)
    else if is_nil (include_name name) then Ty (inc ++ [46] ++ name) k v
    else t
  end.

(** Frugal.UnderlyingType (repaired: a typedef found in an include is followed in the
    include's scope), one unit of fuel per call *)
Fixpoint underlying (fuel : nat) (f : frugal) (t : ty) : cres ty :=
  match fuel with
  | O => CFuel
  | S fuel' =>
    match t with
    | TNil => CPanic CPExplicit
    | Ty name _ _ =>
      let inc := include_name name in
      if negb (is_nil inc) then
        match assoc inc (incs f) with
        | None => COk t
        | Some parsed =>
          match lookup_last (param_name name) (typedefs parsed) with
          | Some target => dok u <- underlying fuel' parsed target ;; COk (qualify inc u)
          | None => COk t
          end
        end
      else
        match lookup_last (param_name name) (typedefs f) with
        | Some target => underlying fuel' f target
        | None => COk t
        end
    end
  end.

(** UnderlyingType before the repair: the chain continues in the scope of the file the
    question was asked in *)
Fixpoint underlying_pinned (fuel : nat) (f : frugal) (t : ty) : cres ty :=
  match fuel with
  | O => CFuel
  | S fuel' =>
    match t with
    | TNil => CPanic CPExplicit
    | Ty name _ _ =>
      let inc := include_name name in
      if negb (is_nil inc) then
        match assoc inc (incs f) with
        | None => COk t
        | Some parsed =>
          match lookup_last (param_name name) (typedefs parsed) with
          | Some target => underlying_pinned fuel' f target
          | None => COk t
          end
        end
      else
        match lookup_last (param_name name) (typedefs f) with
        | Some target => underlying_pinned fuel' f target
        | None => COk t
        end
    end
  end.

(** the circular-typedef check added to validateTypedefs *)
Fixpoint typedefs_resolved (f : frugal) (resolved : list str) (t : ty) : bool :=
  match t with
  | TNil => true
  | Ty name k v =>
    match lookup_last name (typedefs f) with
    | Some _ => mem name resolved
    | None => true
    end && typedefs_resolved f resolved k && typedefs_resolved f resolved v
  end.
(** one pass over f.Typedefs; the Go map [resolved] is updated in place during the pass *)
Definition mark_step (f : frugal) (resolved : list str) (name : str) : list str :=
  if mem name resolved then resolved
  else match lookup_last name (typedefs f) with
       | Some target => if typedefs_resolved f resolved target then name :: resolved else resolved
       | None => resolved
       end.
Definition mark_round (f : frugal) (resolved : list str) : list str :=
  fold_left (mark_step f) (map fst (typedefs f)) resolved.
Fixpoint iter {A} (n : nat) (g : A -> A) (a : A) : A :=
  match n with O => a | S n' => iter n' g (g a) end.
(** the Go loop runs passes until one marks nothing; a pass that marks nothing leaves the map
    unchanged and each other pass marks a new name, so [length typedefs] passes reach the
    same map *)
Definition mark_all (f : frugal) : list str :=
  iter (length (typedefs f)) (mark_round f) [].

(** validateTypedefs, and the isValidType checks of the rest of validate *)
Definition validate_typedefs (f : frugal) : bool :=
  forallb (fun d => is_valid_type f (snd d)) (typedefs f)
  && forallb (fun d => mem (fst d) (mark_all f)) (typedefs f).
Definition validate_types (f : frugal) : bool :=
  validate_typedefs f && forallb (is_valid_type f) (uses f).
(** validateTypedefs before the repair *)
Definition validate_typedefs_pinned (f : frugal) : bool :=
  forallb (fun d => is_valid_type f (snd d)) (typedefs f).

(** parseFrugal validates a file after each of its includes has been parsed and validated;
    [depth] bounds the include nesting *)
Fixpoint validated_b (depth : nat) (f : frugal) : bool :=
  match depth with
  | O => false
  | S d => validate_types f && forallb (fun p => validated_b d (snd p)) (incs f)
  end.

(** number of typedefs in the file and everything it includes, plus the number of files:
    the fuel that is always enough (Proofs) *)
Fixpoint weight (f : frugal) : nat :=
  match f with
  | Frugal tds _ _ _ _ _ is =>
    S (length tds
       + (fix sum (l : list (str * frugal)) : nat :=
            match l with
            | [] => O
            | p :: l' => (weight (snd p) + sum l')%nat
            end) is)
  end.
Definition underlying_t (f : frugal) (t : ty) : cres ty := underlying (S (weight f)) f t.

Definition ty_name (t : ty) : cres str :=
  match t with TNil => CPanic CPNil | Ty n _ _ => COk n end.

(** Frugal.IsEnum (does not follow typedefs; an unknown include falls back to this file) *)
Definition is_enum (f : frugal) (t : ty) : cres bool :=
  dok name <- ty_name t ;;
  let g := if is_nil (include_name name) then f
           else match assoc (include_name name) (incs f) with Some g => g | None => f end in
  COk (mem (param_name name) (enums g)).
(** Frugal.IsStruct *)
Definition is_struct (f : frugal) (t : ty) : cres bool :=
  dok u <- underlying_t f t ;;
  match u with
  | TNil => CPanic CPNil
  | Ty name k v =>
    if is_primitive name then COk false
    else match k, v with
         | TNil, TNil => dok e <- is_enum f u ;; COk (negb e)
         | _, _ => COk false
         end
  end.
(** Frugal.IsUnion: [f.ParsedIncludes[...]] of an absent include is nil and is dereferenced *)
Definition is_union (f : frugal) (t : ty) : cres bool :=
  dok u <- underlying_t f t ;;
  dok name <- ty_name u ;;
  if is_nil (include_name name) then COk (mem (param_name name) (unions f))
  else match assoc (include_name name) (incs f) with
       | Some g => COk (mem (param_name name) (unions g))
       | None => CPanic CPNil
       end.

(** golang.getEnumFromThriftType; results are the Thrift wire type ids *)
Definition go_enum_from_thrift_type (f : frugal) (t : ty) : cres Z :=
  dok u <- underlying_t f t ;;
  dok name <- ty_name u ;;
  if str_eqb name s_bool then COk 2
  else if str_eqb name s_byte || str_eqb name s_i8 then COk 3
  else if str_eqb name s_i16 then COk 6
  else if str_eqb name s_i32 then COk 8
  else if str_eqb name s_i64 then COk 10
  else if str_eqb name s_double then COk 4
  else if str_eqb name s_string || str_eqb name s_binary then COk 11
  else if str_eqb name s_list then COk 15
  else if str_eqb name s_set then COk 14
  else if str_eqb name s_map then COk 13
  else
    dok e <- is_enum f u ;;
    if e then COk 8
    else dok s <- is_struct f u ;; if s then COk 12 else CPanic CPExplicit.

(** what the parser produces: a custom or base name carries no element types, list/set carry
    a value type, map carries both (a bare "list" used as a name carries none and is rejected
    by validation) *)
Definition is_nil_ty (t : ty) : bool := match t with TNil => true | _ => false end.
Fixpoint parser_shaped (t : ty) : bool :=
  match t with
  | TNil => true
  | Ty name k v =>
    if is_container name then parser_shaped k && parser_shaped v
    else is_nil_ty k && is_nil_ty v
  end.

(** names the grammar can produce do not start with a dot (Identifier starts with a letter or
    '_'); checked by the judge on every tree the parser produced, assumed by the theorems *)
Definition name_ok (n : str) : bool := match n with c :: _ => negb (c =? 46) | [] => true end.
Definition top_name_ok (t : ty) : bool := match t with TNil => true | Ty n _ _ => name_ok n end.
Fixpoint names_ok_b (depth : nat) (f : frugal) : bool :=
  match depth with
  | O => false
  | S d => forallb (fun d0 => top_name_ok (snd d0)) (typedefs f)
           && forallb (fun p => names_ok_b d (snd p)) (incs f)
  end.
