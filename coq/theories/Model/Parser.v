(** The model of parser.ParseReader: the grammar regenerated from grammar.peg.go (Gen/Grammar.v),
    compiled (rule names and action names resolved) and run by the generic pigeon interpreter
    with the transcribed actions.  Executable definitions only. *)
From Coq Require Import ZArith List Bool String Ascii.
From FV Require Import Model.PegSyntax Model.Peg Model.PegWf Model.ParserStrings Model.ParserAst Model.ParserActions.
From FV Require Import Gen.Grammar.
Import ListNotations.
Open Scope Z_scope.

Definition compiled_grammar : option (list (cexpr action)) :=
  Eval vm_compute in compile_grammar action action_of_name grammar_rules.

Definition rules : list (cexpr action) :=
  Eval vm_compute in match compiled_grammar with Some r => r | None => [] end.

Definition rule_names : list string := Eval vm_compute in map fst grammar_rules.

(** index of a rule by name (for proofs and for error reports) *)
Definition rule_id (name : string) : nat :=
  match rule_index (map fst grammar_rules) name 0 None with Some i => i | None => List.length grammar_rules end.

(** well-formedness data of the generated grammar (checked, not trusted: Proofs/ParserProofs.v) *)
Definition nullable_tbl : list bool := Eval vm_compute in nullable_table rules.
Definition rank_tbl : list nat := Eval vm_compute in rank_table rules nullable_tbl.

(** fuel bounds the recursion DEPTH of the interpreter (see Proofs/PegProofs.v: a well-formed
    grammar needs depth at most (|input| + 1) * depth_per_byte) *)
Definition depth_per_byte : Z := 4000.
Definition fuel_for (input : bytes) : nat := Z.to_nat ((Z.of_nat (List.length input) + 1) * depth_per_byte).

Definition parse_with (fuel : nat) (input : bytes) := p_parse rules fuel input.
Definition parse_text (input : bytes) := parse_with (fuel_for input) input.

Inductive parse_outcome :=
| POk (f : frugal)
| PErr (errs : list (Z * option nat * perr_kind aerr))
| PWeird                       (* success with a non-Frugal value: cannot happen *)
| PNoFuel.

Definition classify (r : presult val aerr) : parse_outcome :=
  match r with
  | PResult (inl (VFrugal f)) => POk f
  | PResult (inl _) => PWeird
  | PResult (inr es) => PErr es
  | PFuel => PNoFuel
  end.

Definition parse_idl (input : bytes) : parse_outcome := classify (parse_text input).

(** test helper *)
Fixpoint bytes_of_string (s : string) : bytes :=
  match s with
  | EmptyString => []
  | String a t => Z.of_nat (nat_of_ascii a) :: bytes_of_string t
  end.
