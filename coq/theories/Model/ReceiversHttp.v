(** C05, HTTP: the response path of fHTTPTransport.Request/Oneway (lib/go/http_transport.go,
    makeRequest + Request) on an arbitrary status / body, and the size-header parsing of the
    server handler NewFrugalHandlerFunc.

    net/http is outside: the model starts from (status code, body bytes as read from
    response.Body, whether reading the body failed). encoding/base64 (StdEncoding.DecodeString,
    Go 1.23) is transcribed below as [b64_decode] and checked against the implementation by the
    judge. Executable definitions only. *)
From Coq Require Import ZArith List Lia Bool.
From FV Require Import Base.Res Base.Bytes Base.GoSem Model.Receivers.
Import ListNotations.
Open Scope Z_scope.

(** * encoding/base64, StdEncoding (padded, not strict) *)
Definition b64_val (c : Z) : option Z :=              (* decodeMap *)
  if (65 <=? c) && (c <=? 90) then Some (c - 65)
  else if (97 <=? c) && (c <=? 122) then Some (c - 71)
  else if (48 <=? c) && (c <=? 57) then Some (c + 4)
  else if c =? 43 then Some 62
  else if c =? 47 then Some 63
  else None.

Definition is_nl (c : Z) : bool := (c =? 10) || (c =? 13).
Definition pad : Z := 61.

Fixpoint skip_nl (s : bytes) : bytes :=
  match s with
  | c :: s' => if is_nl c then skip_nl s' else s
  | [] => []
  end.

(** the 3 bytes of a full quantum of four 6-bit values *)
Definition quantum3 (a b c d : Z) : bytes :=
  let v := a * 262144 + b * 4096 + c * 64 + d in
  [v / 65536; (v / 256) mod 256; v mod 256].

(** Decode: quanta one after the other (decodeQuantum); [vals] are the 6-bit values of the
    current quantum so far (j = length vals < 4), [out] what has been decoded.
    None = CorruptInputError *)
Fixpoint b64_go (s : bytes) (vals : list Z) (out : bytes) : option bytes :=
  match s with
  | [] => match vals with [] => Some out | _ => None end        (* end inside a quantum: error *)
  | ch :: s' =>
      match b64_val ch with
      | Some v =>
          match vals with
          | [a; b; c] => b64_go s' [] (out ++ quantum3 a b c v)
          | _ => b64_go s' (vals ++ [v]) out
          end
      | None =>
          if is_nl ch then b64_go s' vals out                       (* '\n', '\r' ignored *)
          else if ch =? pad then
            match vals with
            | [a; b] =>                                             (* "xx==" *)
                match skip_nl s' with
                | c2 :: s2 =>
                    if c2 =? pad
                    then match skip_nl s2 with
                         | [] => Some (out ++ [(a * 262144 + b * 4096) / 65536])
                         | _ => None                                (* trailing garbage *)
                         end
                    else None                                       (* incorrect padding *)
                | [] => None                                        (* not enough padding *)
                end
            | [a; b; c] =>                                          (* "xxx=" *)
                match skip_nl s' with
                | [] => let v := a * 262144 + b * 4096 + c * 64 in
                        Some (out ++ [v / 65536; (v / 256) mod 256])
                | _ => None
                end
            | _ => None                                             (* padding at j = 0, 1 *)
            end
          else None                                                 (* not in the alphabet *)
      end
  end.

Definition b64_decode (s : bytes) : option bytes := b64_go s [] [].

(** the encoder (newEncoder / StdEncoding.EncodeToString), for the round trip *)
Definition b64_char (v : Z) : Z :=
  if v <? 26 then 65 + v else if v <? 52 then 71 + v else if v <? 62 then v - 4
  else if v =? 62 then 43 else 47.

Fixpoint b64_encode (bs : bytes) : bytes :=
  match bs with
  | a :: b :: c :: rest =>
      b64_char (a / 4) :: b64_char ((a mod 4) * 16 + b / 16) ::
      b64_char ((b mod 16) * 4 + c / 64) :: b64_char (c mod 64) :: b64_encode rest
  | [a; b] => [b64_char (a / 4); b64_char ((a mod 4) * 16 + b / 16); b64_char ((b mod 16) * 4); pad]
  | [a] => [b64_char (a / 4); b64_char ((a mod 4) * 16); pad; pad]
  | [] => []
  end.

(** * client: what Request returns for a response *)
Inductive hcerr :=
| HcTooLarge        (* TTransportException RESPONSE_TOO_LARGE (101) *)
| HcUnknown         (* TTransportException UNKNOWN (0) *)
| HcTimedOut        (* TTransportException TIMED_OUT (3) *)
| HcUnavailable     (* TTransportException SERVICE_NOT_AVAILABLE (103) *)
| HcInvalidData.    (* TProtocolException INVALID_DATA (1) *)

Inductive hcres :=
| HcFrame (payload : bytes)     (* a TMemoryBuffer holding response[4:] *)
| HcOneway                      (* nil, nil *)
| HcErr (e : hcerr)
| HcPanic.

Fixpoint prefixb (p s : bytes) : bool :=
  match p, s with
  | [], _ => true
  | x :: p', y :: s' => (x =? y) && prefixb p' s'
  | _ :: _, [] => false
  end.
Definition has_suffix (suf s : bytes) : bool := prefixb (rev suf) (rev s).

(* "net/http: request canceled" *)
Definition suf_canceled : bytes :=
  [110;101;116;47;104;116;116;112;58;32;114;101;113;117;101;115;116;32;99;97;110;99;101;108;101;100].
(* "net/http: timeout awaiting response headers" *)
Definition suf_timeout : bytes :=
  [110;101;116;47;104;116;116;112;58;32;116;105;109;101;111;117;116;32;97;119;97;105;116;105;110;103;32;
   114;101;115;112;111;110;115;101;32;104;101;97;100;101;114;115].
(* "net/http: request canceled while waiting for connection" *)
Definition suf_waiting : bytes :=
  suf_canceled ++ [32;119;104;105;108;101;32;119;97;105;116;105;110;103;32;102;111;114;32;
                   99;111;110;110;101;99;116;105;111;110].
(* "connect: connection refused" *)
Definition suf_refused : bytes :=
  [99;111;110;110;101;99;116;58;32;99;111;110;110;101;99;116;105;111;110;32;114;101;102;117;115;101;100].
(* "no such host" *)
Definition suf_nohost : bytes := [110;111;32;115;117;99;104;32;104;111;115;116].

(** Request classifies a makeRequest error by the END of its text; for a status >= 300 the
    text ends with the response body *)
Definition classify_status_error (body : bytes) : hcerr :=
  if has_suffix suf_canceled body || has_suffix suf_timeout body || has_suffix suf_waiting body
  then HcTimedOut
  else if has_suffix suf_refused body || has_suffix suf_nohost body then HcUnavailable
  else HcUnknown.

(** [trunc]: reading response.Body failed (connection cut before Content-Length bytes) *)
Definition http_client_response (status : Z) (body : bytes) (trunc : bool) : hcres :=
  if status =? 413 then HcErr HcTooLarge else              (* before the body is read *)
  if trunc then HcErr HcUnknown else
  if 300 <=? status then HcErr (classify_status_error body) else
  match b64_decode body with
  | None => HcErr HcUnknown                                 (* CorruptInputError, wrapped *)
  | Some resp =>
      if zlen resp <? 4 then HcErr HcInvalidData            (* "invalid frame size" *)
      else if zlen resp =? 4
           then (if un_be32 resp =? 0 then HcOneway else HcErr HcInvalidData)   (* "missing data" *)
           else match slice_from resp 4 with
                | Ok p => HcFrame p
                | _ => HcPanic
                end
  end.

Definition hcres_code (r : hcres) : Z :=
  match r with
  | HcFrame _ => 0
  | HcOneway => 1
  | HcErr HcTooLarge => 1101
  | HcErr HcUnknown => 1000
  | HcErr HcTimedOut => 1003
  | HcErr HcUnavailable => 1103
  | HcErr HcInvalidData => 2001
  | HcPanic => 100
  end.

(** * server handler: x-frugal-payload-limit and Content-Length *)
(** strconv.ParseInt(s, 10, 64) *)
Definition parse_int64 (s : bytes) : option Z :=
  match s with
  | [] => None
  | c :: rest =>
      let neg := c =? 45 in
      let digits := if (c =? 43) || (c =? 45) then rest else s in
      match digits with
      | [] => None
      | _ =>
          match parse_digits digits 0 with
          | None => None
          | Some v =>
              if neg then (if v <=? 9223372036854775808 then Some (- v) else None)
              else (if v <? 9223372036854775808 then Some v else None)
          end
      end
  end.

(** status the handler answers with. [limit]: the header value if present; [clen]:
    r.ContentLength; [prefix_ok]: 4 decoded bytes could be read from the body; [proc_ok]:
    processor.Process returned nil; [outlen]: bytes the processor wrote *)
Definition http_server_status (limit : option bytes) (clen : Z) (prefix_ok proc_ok : bool) (outlen : Z) : Z :=
  match (match limit with
         | None | Some [] => Some 0                         (* limitStr == "" *)
         | Some s => parse_int64 s
         end) with
  | None => 400                                             (* "header not an integer" *)
  | Some lim =>
      if clen <? 4 then 400
      else if negb prefix_ok then 400
      else if negb proc_ok then 500
      else if (0 <? lim) && (lim <? outlen) then 413
      else 200
  end.
