(** The semantic actions of compiler/parser/grammar.peg(.go) (the [on<Rule>N] methods, whose
    bodies are verbatim copies of the action blocks of grammar.peg), transcribed one by one.
    A failed Go type assertion / index is a panic ([None] below), which pigeon's [parse] recovers
    into an error.  Executable definitions only. *)
From Coq Require Import ZArith List Bool String.
From FV Require Import Model.PegSyntax Model.Peg Model.ParserStrings Model.ParserAst.
Import ListNotations.
Open Scope Z_scope.

Inductive action :=
| AGrammar1 | ASyntaxError1 | AStatement1 | AInclude1 | ANamespace1 | AConst1 | AEnum1 | AEnumValue1
| ATypeDef1 | AStruct1 | AException1 | AUnion1 | AStructLike1 | AFieldList1 | AField1 | AFieldModifier1
| AService1 | AEndOfServiceError1 | AFunction1 | AFunctionType1 | AThrows1 | AFieldType1 | ABaseType1
| ABaseTypeName1 | AContainerType1 | AMapType1 | ASetType1 | AListType1 | ACppType1 | ATypeAnnotations1
| ATypeAnnotation8 | ATypeAnnotation1 | ABoolConstant1 | AIntConstant1 | ADoubleConstant1 | AConstList1
| AConstMap1 | AScope1 | AEndOfScopeError1 | APrefix6 | APrefix1 | AOperation1 | ALiteral1 | AIdentifier1 | ADocString1.

Definition action_table : list (string * action) := [
  ("Grammar1", AGrammar1); ("SyntaxError1", ASyntaxError1); ("Statement1", AStatement1);
  ("Include1", AInclude1); ("Namespace1", ANamespace1); ("Const1", AConst1); ("Enum1", AEnum1);
  ("EnumValue1", AEnumValue1); ("TypeDef1", ATypeDef1); ("Struct1", AStruct1);
  ("Exception1", AException1); ("Union1", AUnion1); ("StructLike1", AStructLike1);
  ("FieldList1", AFieldList1); ("Field1", AField1); ("FieldModifier1", AFieldModifier1);
  ("Service1", AService1); ("EndOfServiceError1", AEndOfServiceError1); ("Function1", AFunction1);
  ("FunctionType1", AFunctionType1); ("Throws1", AThrows1); ("FieldType1", AFieldType1);
  ("BaseType1", ABaseType1); ("BaseTypeName1", ABaseTypeName1); ("ContainerType1", AContainerType1);
  ("MapType1", AMapType1); ("SetType1", ASetType1); ("ListType1", AListType1); ("CppType1", ACppType1);
  ("TypeAnnotations1", ATypeAnnotations1); ("TypeAnnotation8", ATypeAnnotation8);
  ("TypeAnnotation1", ATypeAnnotation1); ("BoolConstant1", ABoolConstant1);
  ("IntConstant1", AIntConstant1); ("DoubleConstant1", ADoubleConstant1); ("ConstList1", AConstList1);
  ("ConstMap1", AConstMap1); ("Scope1", AScope1); ("EndOfScopeError1", AEndOfScopeError1);
  ("Prefix6", APrefix6); ("Prefix1", APrefix1); ("Operation1", AOperation1); ("Literal1", ALiteral1);
  ("Identifier1", AIdentifier1); ("DocString1", ADocString1) ]%string.

Definition action_of_name (n : string) : option action :=
  match find (fun p => String.eqb (fst p) n) action_table with Some p => Some (snd p) | None => None end.

(** errors returned by actions *)
Inductive aerr :=
| ESyntaxError                 (* "parser: syntax error" *)
| EEndOfService                (* "parser: expected end of service" *)
| EEndOfScope                  (* "parser: expected end of scope" *)
| EBadPrefixVar (v : bytes)    (* "parser: invalid prefix variable '%s'" *)
| EParseInt (e : num_err)
| EParseFloat (e : num_err)
| EUnquote                     (* strconv.ErrSyntax from the Literal action *)
| EEnumOverflow (e v : bytes)  (* "parser: enum %s: no value left for %s after %d" *)
| EUnknownStatement.           (* "parser: unknown value ..." *)

Definition frame := list (string * val).
Definition fget (fr : frame) (l : string) : val :=
  match find (fun p => String.eqb (fst p) l) fr with Some p => snd p | None => VNil end.

(** option monad: None = panic *)
Definition obind {X Y} (o : option X) (f : X -> option Y) : option Y :=
  match o with Some x => f x | None => None end.
Notation "'let?' x := o 'in' k" := (obind o (fun x => k))
  (at level 200, x pattern, o at level 100, k at level 200, right associativity).

Fixpoint omap {X Y} (f : X -> option Y) (l : list X) : option (list Y) :=
  match l with
  | [] => Some []
  | x :: t => let? y := f x in let? r := omap f t in Some (y :: r)
  end.

(** type assertions *)
Definition as_list (v : val) : option (list val) := match v with VList l => Some l | _ => None end.
Definition as_ident (v : val) : option bytes := match v with VIdent s => Some s | _ => None end.
Definition as_str (v : val) : option bytes := match v with VStr s => Some s | _ => None end.
Definition as_type (v : val) : option ptype := match v with VType t => Some t | _ => None end.
Definition as_int (v : val) : option Z := match v with VInt z => Some z | _ => None end.
Definition as_struct (v : val) : option struct := match v with VStruct s => Some s | _ => None end.
Definition as_fields (v : val) : option (list field) := match v with VFields l => Some l | _ => None end.
Definition idx (l : list val) (n : nat) : option val := nth_error l n.
(** toIfaceSlice *)
Definition to_iface_slice (v : val) : option (list val) :=
  match v with VNil => Some [] | VList l => Some l | _ => None end.
(** toAnnotations *)
Definition to_anns (v : val) : option annotations :=
  match v with VNil => Some [] | VAnns l => Some l | _ => None end.
(** x.([]interface{})[0] *)
Definition first_of (v : val) : option val := let? l := as_list v in idx l 0.

(** docstr handling shared by Statement, EnumValue, Field, Function, Scope, Operation *)
Definition doc_comment (docstr : val) : option comment :=
  match docstr with
  | VNil => Some None
  | _ => let? d := first_of docstr in let? raw := as_str d in Some (Some (raw_comment_to_docstr raw))
  end.

(** Go's [int] on the supported platforms: 64 bits, two's complement, [+] wraps around *)
Definition wrap_int64 (x : Z) : Z := (x + 9223372036854775808) mod 18446744073709551616 - 9223372036854775808.

(** the numbering loop of the Enum action (after the repairs of the enum-numbering defects): a value
    without an explicit number is the previous value plus one, the first is 0; explicit numbers
    are kept.  [next = ev.Value + 1] is Go [int] arithmetic: after 9223372036854775807 it wraps to
    -9223372036854775808, which the loop notices ([overflow = next < ev.Value]) and reports as an
    error when a value without an explicit number follows ([enum_overflow]); when it reports
    nothing the values are [enum_number]'s. *)
Fixpoint enum_number (vs : list (enum_value * bool)) (next : Z) : list enum_value :=
  match vs with
  | [] => []
  | (ev, explicit) :: t =>
    let v := if explicit then ev_value ev else next in
    mkev (ev_comment ev) (ev_name ev) v (ev_anns ev) :: enum_number t (wrap_int64 (v + 1))
  end.

(** the first value for which the loop returns its error, if any *)
Fixpoint enum_overflow (vs : list (enum_value * bool)) (next : Z) (overflow : bool) : option bytes :=
  match vs with
  | [] => None
  | (ev, explicit) :: t =>
    if negb explicit && overflow then Some (ev_name ev)
    else
      let v := if explicit then ev_value ev else next in
      let n := wrap_int64 (v + 1) in
      enum_overflow t n (n <? v)
  end.

Definition set_mod (m : Z) (f : field) : field :=
  mkfield (f_comment f) (f_id f) (f_name f) m (f_type f) (f_default f) (f_anns f).

Definition set_struct (s : struct) (c : comment) (kind : Z) (fs : list field) : struct :=
  mkstruct c (s_name s) fs kind (s_anns s).

(** the statement loop of the Grammar action; None = panic, Some (inr tt) = "unknown value" *)
Fixpoint add_statements (stmts : list val) (f : frugal) : option (frugal + unit) :=
  match stmts with
  | [] => Some (inl f)
  | st :: t =>
    let? w := first_of st in
    match w with
    | VWrapper c s =>
      let k (f' : frugal) := add_statements t f' in
      match s with
      | VNamespace n =>
        k (mkfrugal (fr_includes f) (fr_namespaces f ++ [n]) (fr_typedefs f) (fr_constants f) (fr_enums f)
                    (fr_structs f) (fr_exceptions f) (fr_unions f) (fr_services f) (fr_scopes f))
      | VConst x =>
        let x' := mkconst c (c_name x) (c_type x) (c_value x) (c_anns x) in
        k (mkfrugal (fr_includes f) (fr_namespaces f) (fr_typedefs f) (fr_constants f ++ [x']) (fr_enums f)
                    (fr_structs f) (fr_exceptions f) (fr_unions f) (fr_services f) (fr_scopes f))
      | VEnum x =>
        let x' := mkenum c (en_name x) (en_values x) (en_anns x) in
        k (mkfrugal (fr_includes f) (fr_namespaces f) (fr_typedefs f) (fr_constants f) (fr_enums f ++ [x'])
                    (fr_structs f) (fr_exceptions f) (fr_unions f) (fr_services f) (fr_scopes f))
      | VTypeDef x =>
        let x' := mktypedef c (td_name x) (td_type x) (td_anns x) in
        k (mkfrugal (fr_includes f) (fr_namespaces f) (fr_typedefs f ++ [x']) (fr_constants f) (fr_enums f)
                    (fr_structs f) (fr_exceptions f) (fr_unions f) (fr_services f) (fr_scopes f))
      | VStruct x =>
        k (mkfrugal (fr_includes f) (fr_namespaces f) (fr_typedefs f) (fr_constants f) (fr_enums f)
                    (fr_structs f ++ [set_struct x c 0 (s_fields x)]) (fr_exceptions f) (fr_unions f)
                    (fr_services f) (fr_scopes f))
      | VException x =>
        k (mkfrugal (fr_includes f) (fr_namespaces f) (fr_typedefs f) (fr_constants f) (fr_enums f)
                    (fr_structs f) (fr_exceptions f ++ [set_struct x c 1 (s_fields x)]) (fr_unions f)
                    (fr_services f) (fr_scopes f))
      | VUnion x =>
        k (mkfrugal (fr_includes f) (fr_namespaces f) (fr_typedefs f) (fr_constants f) (fr_enums f)
                    (fr_structs f) (fr_exceptions f)
                    (fr_unions f ++ [set_struct x c 2 (map (set_mod m_optional) (s_fields x))])
                    (fr_services f) (fr_scopes f))
      | VService x =>
        let x' := mkservice c (sv_name x) (sv_extends x) (sv_methods x) (sv_anns x) in
        k (mkfrugal (fr_includes f) (fr_namespaces f) (fr_typedefs f) (fr_constants f) (fr_enums f)
                    (fr_structs f) (fr_exceptions f) (fr_unions f) (fr_services f ++ [x']) (fr_scopes f))
      | VInclude x =>
        k (mkfrugal (fr_includes f ++ [x]) (fr_namespaces f) (fr_typedefs f) (fr_constants f) (fr_enums f)
                    (fr_structs f) (fr_exceptions f) (fr_unions f) (fr_services f) (fr_scopes f))
      | VScope x =>
        let x' := mkscope c (sc_name x) (sc_prefix x) (sc_ops x) (sc_anns x) in
        k (mkfrugal (fr_includes f) (fr_namespaces f) (fr_typedefs f) (fr_constants f) (fr_enums f)
                    (fr_structs f) (fr_exceptions f) (fr_unions f) (fr_services f) (fr_scopes f ++ [x']))
      | _ => Some (inr tt)
      end
    | _ => None
    end
  end.

Definition default_prefix : scope_prefix := mkprefix [] [].
Definition void_name : bytes := [118; 111; 105; 100].
Definition required_text : bytes := [114; 101; 113; 117; 105; 114; 101; 100].
Definition true_text : bytes := [116; 114; 117; 101].

Definition ares := Peg.ares val aerr.
Definition ok (v : val) : option ares := Some (AOk v).

(** [srest]: input from the start of the match; [n]: length of the match (c.text = first n bytes) *)
Definition run_action_opt (a : action) (srest : bytes) (n : Z) (fr : frame) : option ares :=
  let text := takeZ n srest in
  let g := fget fr in
  match a with
  | AGrammar1 =>
    let? stmts := to_iface_slice (g "statements"%string) in
    let? r := add_statements stmts empty_frugal in
    match r with
    | inl f => ok (VFrugal f)
    | inr _ => Some (AErr VNil EUnknownStatement)
    end
  | ASyntaxError1 => Some (AErr VNil ESyntaxError)
  | AStatement1 =>
    let? c := doc_comment (g "docstr"%string) in
    ok (VWrapper c (g "statement"%string))
  | AInclude1 =>
    let? file := as_str (g "file"%string) in
    let? anns := to_anns (g "annotations"%string) in
    ok (VInclude (mkinclude (include_name file) file anns))
  | ANamespace1 =>
    let? sc := to_iface_slice (g "scope"%string) in
    let? chars := omap (fun v => match v with VBytes (c :: _) => Some c | _ => None end) sc in
    let? ns := as_ident (g "ns"%string) in
    let? anns := to_anns (g "annotations"%string) in
    ok (VNamespace (mknamespace chars ns anns))
  | AConst1 =>
    let? name := as_ident (g "name"%string) in
    let? typ := as_type (g "typ"%string) in
    let? anns := to_anns (g "annotations"%string) in
    ok (VConst (mkconst None name typ (cvalue_of (g "value"%string)) anns))
  | AEnum1 =>
    let? vs := to_iface_slice (g "values"%string) in
    let? name := as_ident (g "name"%string) in
    let? anns := to_anns (g "annotations"%string) in
    let? evs := omap (fun v => let? x := first_of v in
                               match x with
                               | VList [VEnumValue e; VBool explicit] => Some (e, explicit)
                               | VList (VEnumValue e :: VBool explicit :: _) => Some (e, explicit)
                               | _ => None
                               end) vs in
    match enum_overflow evs 0 false with
    | Some v => Some (AErr VNil (EEnumOverflow name v))
    | None => ok (VEnum (mkenum None name (enum_number evs 0) anns))
    end
  | AEnumValue1 =>
    let? name := as_ident (g "name"%string) in
    let? anns := to_anns (g "annotations"%string) in
    let? c := doc_comment (g "docstr"%string) in
    let? v := match g "value"%string with
              | VNil => Some (-1)
              | x => let? l := as_list x in let? y := idx l 2 in as_int y
              end in
    ok (VList [VEnumValue (mkev c name v anns);
               VBool (match g "value"%string with VNil => false | _ => true end)])
  | ATypeDef1 =>
    let? name := as_ident (g "name"%string) in
    let? typ := as_type (g "typ"%string) in
    let? anns := to_anns (g "annotations"%string) in
    ok (VTypeDef (mktypedef None name typ anns))
  | AStruct1 => let? s := as_struct (g "st"%string) in ok (VStruct s)
  | AException1 => let? s := as_struct (g "st"%string) in ok (VException s)
  | AUnion1 => let? s := as_struct (g "st"%string) in ok (VUnion s)
  | AStructLike1 =>
    let? name := as_ident (g "name"%string) in
    let? anns := to_anns (g "annotations"%string) in
    let? fs := match g "fields"%string with VNil => Some [] | x => as_fields x end in
    ok (VStruct (mkstruct None name fs 0 anns))
  | AFieldList1 =>
    let? fs := as_list (g "fields"%string) in
    let? l := omap (fun v => let? x := first_of v in match x with VField f => Some f | _ => None end) fs in
    ok (VFields l)
  | AField1 =>
    let? id := as_int (g "id"%string) in
    let? name := as_ident (g "name"%string) in
    let? typ := as_type (g "typ"%string) in
    let? anns := to_anns (g "annotations"%string) in
    let? c := doc_comment (g "docstr"%string) in
    let? m := match g "mod"%string with VNil => Some m_default | VMod m => Some m | _ => None end in
    let? d := match g "def"%string with
              | VNil => Some None
              | x => let? l := as_list x in let? y := idx l 2 in
                     Some (match y with VNil => None | _ => Some (cvalue_of y) end)
              end in
    ok (VField (mkfield c id name m typ d anns))
  | AFieldModifier1 => ok (VMod (if beqb text required_text then m_required else m_optional))
  | AService1 =>
    let? ms := as_list (g "methods"%string) in
    let? name := as_ident (g "name"%string) in
    let? anns := to_anns (g "annotations"%string) in
    let? ext := match g "extends"%string with
                | VNil => Some []
                | x => let? l := as_list x in let? y := idx l 2 in as_ident y
                end in
    let? l := omap (fun v => let? x := first_of v in match x with VMethod m => Some m | _ => None end) ms in
    ok (VService (mkservice None name ext l anns))
  | AEndOfServiceError1 => Some (AErr VNil EEndOfService)
  | AFunction1 =>
    let? name := as_ident (g "name"%string) in
    let? anns := to_anns (g "annotations"%string) in
    let? c := doc_comment (g "docstr"%string) in
    let? t := as_type (g "typ"%string) in
    let ret := match t with PType nm _ _ _ => if beqb nm void_name then None else Some t end in
    let oneway := match g "oneway"%string with VNil => false | _ => true end in
    let? args := match g "arguments"%string with VNil => Some [] | x => as_fields x end in
    let? exs := match g "exceptions"%string with VNil => Some [] | x => as_fields x end in
    ok (VMethod (mkmethod c name oneway ret args (map (set_mod m_optional) exs) anns))
  | AFunctionType1 =>
    match g "typ"%string with
    | VType t => ok (VType t)
    | _ => ok (VType (PType text None None []))
    end
  | AThrows1 => ok (g "exceptions"%string)
  | AFieldType1 =>
    match g "typ"%string with
    | VIdent s => ok (VType (PType s None None []))
    | x => ok x
    end
  | ABaseType1 =>
    let? name := as_str (g "name"%string) in
    let? anns := to_anns (g "annotations"%string) in
    ok (VType (PType name None None anns))
  | ABaseTypeName1 => ok (VStr text)
  | AContainerType1 => ok (g "typ"%string)
  | AMapType1 =>
    let? k := as_type (g "key"%string) in
    let? v := as_type (g "value"%string) in
    let? anns := to_anns (g "annotations"%string) in
    ok (VType (PType [109; 97; 112] (Some k) (Some v) anns))
  | ASetType1 =>
    let? v := as_type (g "typ"%string) in
    let? anns := to_anns (g "annotations"%string) in
    ok (VType (PType [115; 101; 116] None (Some v) anns))
  | AListType1 =>
    let? v := as_type (g "typ"%string) in
    let? anns := to_anns (g "annotations"%string) in
    ok (VType (PType [108; 105; 115; 116] None (Some v) anns))
  | ACppType1 => ok (g "cppType"%string)
  | ATypeAnnotations1 =>
    let? l := as_list (g "annotations"%string) in
    let? anns := omap (fun v => match v with VAnn a => Some a | _ => None end) l in
    ok (VAnns anns)
  | ATypeAnnotation8 => ok (g "value"%string)
  | ATypeAnnotation1 =>
    let? name := as_ident (g "name"%string) in
    let? v := match g "value"%string with VNil => Some [] | x => as_str x end in
    ok (VAnn (name, v))
  | ABoolConstant1 => ok (VBool (beqb text true_text))
  | AIntConstant1 =>
    match parse_int64 text with
    | inl z => ok (VInt z)
    | inr e => Some (AErr (VInt 0) (EParseInt e))
    end
  | ADoubleConstant1 =>
    match parse_float64 text with
    | inl b => ok (VDouble b)
    | inr e => Some (AErr (VDouble 0) (EParseFloat e))
    end
  | AConstList1 =>
    let? vs := as_list (g "values"%string) in
    let? l := omap first_of vs in
    ok (VList l)
  | AConstMap1 =>
    match g "values"%string with
    | VNil => ok VNil
    | x =>
      let? vals := as_list x in
      let? kvs := omap (fun kv => let? l := as_list kv in let? k := idx l 0 in let? v := idx l 4 in Some (k, v)) vals in
      ok (VKVs kvs)
    end
  | AScope1 =>
    let? ops := as_list (g "operations"%string) in
    let? name := as_ident (g "name"%string) in
    let? anns := to_anns (g "annotations"%string) in
    let? c := doc_comment (g "docstr"%string) in
    let? p := match g "prefix"%string with VNil => Some default_prefix | VPrefix p => Some p | _ => None end in
    let? l := omap (fun v => let? x := first_of v in match x with VOperation o => Some o | _ => None end) ops in
    ok (VScope (mkscope c name p l anns))
  | AEndOfScopeError1 => Some (AErr VNil EEndOfScope)
  | APrefix6 => ok (VStr (trim_space text))
  | APrefix1 =>
    let? p := as_str (g "prefix"%string) in
    match new_scope_prefix p with
    | inl (s, vars) => ok (VPrefix (mkprefix s vars))
    | inr v => Some (AErr (VPrefix default_prefix) (EBadPrefixVar v))   (* Go: a nil *ScopePrefix *)
    end
  | AOperation1 =>
    let? name := as_ident (g "name"%string) in
    let? typ := as_type (g "typ"%string) in
    let? anns := to_anns (g "annotations"%string) in
    let? c := doc_comment (g "docstr"%string) in
    ok (VOperation (mkop c name typ anns))
  | ALiteral1 =>
    match literal_value text with
    | Some s => ok (VStr s)
    | None => Some (AErr (VStr []) EUnquote)
    end
  | AIdentifier1 => ok (VIdent text)
  | ADocString1 => ok (VStr (docstring_value text))
  end.

Definition run_action (a : action) (srest : bytes) (n : Z) (fr : frame) : ares :=
  match run_action_opt a srest n fr with Some r => r | None => APanic end.

(** ** The parser: the compiled generated grammar run by the generic interpreter *)
Definition p_eval := Peg.eval action val aerr VNil VBytes VList run_action.
Definition p_parse := Peg.parse action val aerr VNil VBytes VList run_action.
