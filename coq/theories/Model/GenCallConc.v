(** C03 -- N calls in flight at once through one generated client: the composition of the registry
    model (Model/Registry.v: registry.go Register / Unregister / Execute / dispatch and Request of
    the adapter and NATS transports, as an interleaving small-step system) with the call model
    (Model/GenCall.v).  Executable definitions only.

    The two models meet at the frames.  Registry.v keeps a frame as (op id it is dispatched under,
    identity of its content); here the identity of a server reply is the index of the call it
    answers, its content is the reply payload the server model produces for that call's request,
    and the op id is the one fRegistryImpl.Execute reads from the payload's header block
    ([execute_frame]).  The server side is a function of the request ([server_process_c]): the
    generated processor holds no state between requests, and the handler's outcome for call [i] is
    [cc_h (calls i)], whatever else is in flight. *)
From Coq Require Import ZArith List Bool.
From FV Require Import Base.Res Base.Bytes Base.GoSem Model.Headers Model.Receivers Model.ThriftBin
     Model.GenCall Model.Registry.
Import ListNotations.
Open Scope Z_scope.

(** one call: the method, the request headers of the caller's FContext (they hold its op id), the
    arguments, and the user handler as it answers this request *)
Record ccall := mkCcall { cc_m : method; cc_hdrs : list hpair; cc_args : list (option val); cc_h : handler }.

Section Conc.
Variables (cd : codec) (fuel : nat) (e : env) (pm : list (bytes * method)) (calls : nat -> ccall).

(** getOpID(ctx): the op id Register / Unregister use for call [i]: the _opid request header as a
    uint64; a malformed one is a negative number in Model/Registry.v *)
Definition call_op (i : nat) : Z :=
  match parse_uint64 (lookup_default opid_header (cc_hdrs (calls i))) with
  | Some k => k
  | None => -1
  end.

(** the call made alone through a transport that dispatches replies by op id *)
Definition alone (i : nat) : res (coutcome * hlog * option bytes) :=
  let c := calls i in rpc_call_c cd fuel e pm (cc_h c) true (cc_m c) (cc_hdrs c) (cc_args c).
Definition alone_outcome (i : nat) : option coutcome :=
  match alone i with Ok (c, _, _) => Some c | _ => None end.

(** what the server writes in answer to the request of call [i] ([None]: nothing, or the request
    could not be produced / processed) *)
Definition server_reply (i : nat) : option bytes :=
  let c := calls i in
  match client_prepare_c cd e (cc_m c) (cc_hdrs c) (cc_args c) with
  | Ok req =>
    match unframe (frame_of req) with
    | Ok payload =>
      match server_process_c cd fuel e pm (cc_h c) payload with
      | Ok (out, _) => out
      | _ => None
      end
    | _ => None
    end
  | _ => None
  end.

(** that reply as the client's reader dispatches it: Execute reads the op id from the header block
    (a frame Execute rejects is never dispatched) *)
Definition reply_frame (j : nat) : option frame :=
  match server_reply j with
  | Some r =>
    match execute_frame (frame_of r) with
    | Ok op => Some {| f_op := op; f_tag := Z.of_nat j |}
    | _ => None
    end
  | None => None
  end.

(** the payload of a frame of the composed system *)
Definition frame_content (f : frame) : option bytes :=
  if f_tag f <? 0 then None else server_reply (Z.to_nat (f_tag f)).

Definition frame_eqb (a b : frame) : bool := (f_op a =? f_op b) && (f_tag a =? f_tag b).

(** the network: everything that reaches dispatch is the server's reply to one of the [n] calls
    (in any order, any number of times, at any moment) or -- NATS -- a status-503 message *)
Fixpoint is_reply_frame (n : nat) (f : frame) : bool :=
  match n with
  | O => false
  | S k => match reply_frame k with
           | Some g => frame_eqb g f || is_reply_frame k f
           | None => is_reply_frame k f
           end
  end.
Definition arrival_okb (tk : kind) (n : nat) (f : frame) : bool :=
  is_reply_frame n f || (match tk with KNats => is_na f | KAdapter => false end).
Definition net_okb (tk : kind) (n : nat) (evs : list ev) : bool := forallb (arrival_okb tk n) (arrivals evs).

(** made alone, call [j] gets its reply delivered: Execute finds the op id of the caller's FContext
    in the reply's header block *)
Definition delivered_aloneb (j : nat) : bool :=
  match server_reply j with
  | Some r => reply_reaches_caller true (cc_hdrs (calls j)) r
  | None => true
  end.
Fixpoint all_below (n : nat) (p : nat -> bool) : bool :=
  match n with O => true | S k => p k && all_below k p end.

(** what the generated client method returns to caller [i] once Request has returned [o]:
    processReply on the frame's payload; a timeout; (transport errors are C15's and C12's) *)
Definition conc_outcome (i : nat) (o : outcome) : option coutcome :=
  match o with
  | OOk f => match frame_content f with
             | Some r => Some (process_reply_c cd fuel e (cc_m (calls i)) r)
             | None => None
             end
  | OTimedOut => Some CTimeout
  | _ => None
  end.

End Conc.
