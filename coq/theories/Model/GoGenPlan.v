(** parser.Frugal.UnderlyingType of the PINNED tree (compiler/parser/types.go:820 before "fix:
    UnderlyingType follows a typedef found in an include in that include's scope and qualifies the
    result") with its scope quirk, over a multi-file program; the function as it is now is
    [underlying_go_fixed] of Model/DfxGoGenPlan.v.  Names are per file here (unlike Model/ThriftBin.v, where the driver
    has already resolved them): a type name is optionally qualified by an include.
    [underlying_go] transcribes the Go function: the typedef index is taken from the included
    file when the name is qualified, but the recursion on the typedef's target continues in the
    scope of the file being generated ([cur] never changes).  [underlying_idl] is the IDL's
    meaning: the target of a typedef is interpreted in the file that declares it. *)
From Coq Require Import ZArith List Bool.
Import ListNotations.
Open Scope Z_scope.

Inductive pty :=
| PBase (b : Z)                          (* bool, byte, ... binary: 0..8 *)
| PList (t : pty) | PSet (t : pty) | PMap (k v : pty)
| PName (inc : option Z) (n : Z).        (* [inc.]n *)

Record pfile := mkFile {
  pf_includes : list (Z * Z);            (* include name -> file id *)
  pf_typedefs : list (Z * pty);          (* typedefIndex *)
  pf_enums : list Z }.
Definition pprogram := list (Z * pfile).

Fixpoint assoc {A} (l : list (Z * A)) (k : Z) : option A :=
  match l with [] => None | (k', v) :: r => if k' =? k then Some v else assoc r k end.

Definition empty_file := mkFile [] [] [].
Definition file_of (p : pprogram) (id : Z) : pfile :=
  match assoc p id with Some f => f | None => empty_file end.

(** the Go function; result: the type it returns (to be read in scope [cur]) *)
Fixpoint underlying_go (fuel : nat) (p : pprogram) (cur : Z) (t : pty) : pty :=
  match t with
  | PName inc n =>
    let idx := match inc with
               | Some i => match assoc (pf_includes (file_of p cur)) i with
                           | Some fid => Some (pf_typedefs (file_of p fid))
                           | None => None            (* ParsedIncludes miss: return t *)
                           end
               | None => Some (pf_typedefs (file_of p cur))
               end in
    match idx with
    | None => t
    | Some index =>
      match assoc index n with
      | Some t' => match fuel with O => t | S f => underlying_go f p cur t' end
      | None => t
      end
    end
  | _ => t
  end.

(** the IDL's meaning; result: the declaring scope and the type *)
Fixpoint underlying_idl (fuel : nat) (p : pprogram) (cur : Z) (t : pty) : Z * pty :=
  match t with
  | PName inc n =>
    let scope := match inc with
                 | Some i => assoc (pf_includes (file_of p cur)) i
                 | None => Some cur
                 end in
    match scope with
    | None => (cur, t)
    | Some s =>
      match assoc (pf_typedefs (file_of p s)) n with
      | Some t' => match fuel with O => (cur, t) | S f => underlying_idl f p s t' end
      | None => (cur, t)
      end
    end
  | _ => (cur, t)
  end.

(** Frugal.IsEnum / IsStruct on an already-underlying type, in scope [cur] *)
Definition is_enum_in (p : pprogram) (cur : Z) (t : pty) : bool :=
  match t with
  | PName inc n =>
    let s := match inc with
             | Some i => match assoc (pf_includes (file_of p cur)) i with Some fid => fid | None => cur end
             | None => cur
             end in
    existsb (Z.eqb n) (pf_enums (file_of p s))
  | _ => false
  end.

(** getEnumFromThriftType: thrift.TType of a field header (12 = STRUCT: any remaining name) *)
Definition wire_of (p : pprogram) (scope : Z) (t : pty) : Z :=
  match t with
  | PBase b => if b =? 0 then 2 else if b =? 1 then 3 else if b =? 2 then 6 else if b =? 3 then 8
               else if b =? 4 then 10 else if b =? 5 then 4 else 11
  | PList _ => 15 | PSet _ => 14 | PMap _ _ => 13
  | PName _ _ => if is_enum_in p scope t then 8 else 12
  end.
Definition wire_go (fuel : nat) (p : pprogram) (cur : Z) (t : pty) : Z :=
  wire_of p cur (underlying_go fuel p cur t).
Definition wire_idl (fuel : nat) (p : pprogram) (cur : Z) (t : pty) : Z :=
  let '(s, u) := underlying_idl fuel p cur t in wire_of p s u.

(** a type that mentions no name *)
Fixpoint closed (t : pty) : bool :=
  match t with
  | PBase _ => true
  | PList a | PSet a => closed a
  | PMap k v => closed k && closed v
  | PName _ _ => false
  end.
