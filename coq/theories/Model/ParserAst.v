(** The parse tree of compiler/parser/types.go ([*parser.Frugal] and what hangs off it) and the
    dynamically typed values that flow through pigeon's semantic actions.
    Go strings are byte lists.  Executable definitions only. *)
From Coq Require Import ZArith List Bool.
From FV Require Import Model.ParserStrings.
Import ListNotations.
Open Scope Z_scope.

Definition annotation : Type := bytes * bytes.            (* Annotation{Name, Value} *)
Definition annotations := list annotation.                (* nil and empty are not distinguished anywhere *)
Definition comment := option (list bytes).                (* Comment []string; None = nil *)

(** Type{Name, KeyType, ValueType, Annotations} *)
Inductive ptype := PType (name : bytes) (key : option ptype) (val : option ptype) (anns : annotations).

(** values of Constant.Value / Field.Default (Go interface{} holding string, bool, int64,
    float64 (as its bit pattern), []interface{}, []KeyValue or Identifier) *)
Inductive cvalue :=
| CStr (s : bytes)
| CBool (b : bool)
| CInt (z : Z)
| CDouble (bits : Z)
| CList (l : list cvalue)
| CMap (l : list (cvalue * cvalue))
| CIdent (s : bytes)
| COther.                                                  (* anything else; not produced by the grammar *)

(** FieldModifier: Required = 0, Optional = 1, Default = 2 *)
Definition m_required : Z := 0.
Definition m_optional : Z := 1.
Definition m_default : Z := 2.

Record field := mkfield {
  f_comment : comment; f_id : Z; f_name : bytes; f_mod : Z; f_type : ptype;
  f_default : option cvalue; f_anns : annotations }.

Record enum_value := mkev { ev_comment : comment; ev_name : bytes; ev_value : Z; ev_anns : annotations }.
Record enum := mkenum { en_comment : comment; en_name : bytes; en_values : list enum_value; en_anns : annotations }.
Record typedef := mktypedef { td_comment : comment; td_name : bytes; td_type : ptype; td_anns : annotations }.
Record constant := mkconst { c_comment : comment; c_name : bytes; c_type : ptype; c_value : cvalue; c_anns : annotations }.
(** StructType: struct = 0, exception = 1, union = 2 *)
Record struct := mkstruct { s_comment : comment; s_name : bytes; s_fields : list field; s_kind : Z; s_anns : annotations }.
Record method := mkmethod {
  m_comment : comment; m_name : bytes; m_oneway : bool; m_return : option ptype;
  m_args : list field; m_throws : list field; m_anns : annotations }.
Record service := mkservice { sv_comment : comment; sv_name : bytes; sv_extends : bytes; sv_methods : list method; sv_anns : annotations }.
Record include := mkinclude { i_name : bytes; i_value : bytes; i_anns : annotations }.
Record namespace := mknamespace { n_scope : bytes; n_value : bytes; n_anns : annotations }.
Record operation := mkop { o_comment : comment; o_name : bytes; o_type : ptype; o_anns : annotations }.
Record scope_prefix := mkprefix { p_string : bytes; p_vars : list bytes }.
Record scope := mkscope { sc_comment : comment; sc_name : bytes; sc_prefix : scope_prefix; sc_ops : list operation; sc_anns : annotations }.

Record frugal := mkfrugal {
  fr_includes : list include; fr_namespaces : list namespace; fr_typedefs : list typedef;
  fr_constants : list constant; fr_enums : list enum; fr_structs : list struct;
  fr_exceptions : list struct; fr_unions : list struct; fr_services : list service;
  fr_scopes : list scope }.

Definition empty_frugal : frugal := mkfrugal [] [] [] [] [] [] [] [] [] [].

(** what an action can return / a label can hold *)
Inductive val :=
| VNil
| VBytes (b : bytes)                   (* []byte *)
| VList (l : list val)                 (* []interface{} *)
| VStr (s : bytes)                     (* string *)
| VIdent (s : bytes)                   (* Identifier *)
| VInt (z : Z)                         (* int64 *)
| VBool (b : bool)
| VDouble (bits : Z)                   (* float64 *)
| VKVs (l : list (val * val))          (* []KeyValue *)
| VType (t : ptype)                    (* *Type *)
| VAnn (a : annotation)                (* *Annotation *)
| VAnns (l : annotations)              (* []*Annotation *)
| VMod (m : Z)                         (* FieldModifier *)
| VField (f : field)
| VFields (l : list field)             (* []*Field *)
| VEnumValue (e : enum_value)
| VEnum (e : enum)
| VTypeDef (t : typedef)
| VConst (c : constant)
| VStruct (s : struct)                 (* *Struct *)
| VException (s : struct)              (* exception *)
| VUnion (s : struct)                  (* union *)
| VMethod (m : method)
| VService (s : service)
| VInclude (i : include)
| VNamespace (n : namespace)
| VPrefix (p : scope_prefix)
| VOperation (o : operation)
| VScope (s : scope)
| VWrapper (c : comment) (statement : val)   (* *statementWrapper *)
| VFrugal (f : frugal).

(** conversion of a dynamically typed constant value *)
Fixpoint cvalue_of (v : val) : cvalue :=
  match v with
  | VStr s => CStr s
  | VBool b => CBool b
  | VInt z => CInt z
  | VDouble b => CDouble b
  | VIdent s => CIdent s
  | VList l => CList (map cvalue_of l)
  | VKVs l => CMap (map (fun kv => (cvalue_of (fst kv), cvalue_of (snd kv))) l)
  | _ => COther
  end.
