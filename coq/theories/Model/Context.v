(** Model of lib/go/context.go (FContextImpl, op-id counter, Clone) and of the context side of
    protocol.go (ReadRequestHeader / ReadResponseHeader), over an explicit heap of maps so that
    aliasing between contexts, clones and maps handed to the user is expressible (C09, C17). *)
From Coq Require Import ZArith List Lia Bool.
From FV Require Import Base.Res Base.Bytes Model.Headers Model.Receivers.
Import ListNotations.
Open Scope Z_scope.

(** strconv.FormatUint / FormatInt / ParseInt, base 10 *)
Fixpoint fmt_aux (fuel : nat) (n : Z) (acc : bytes) : bytes :=
  match fuel with
  | O => acc
  | S f => let acc' := (48 + n mod 10) :: acc in
           if n <? 10 then acc' else fmt_aux f (n / 10) acc'
  end.
Definition format_uint (n : Z) : bytes := fmt_aux 20 n [].
Definition format_int (z : Z) : bytes := if z <? 0 then 45 :: format_uint (- z) else format_uint z.
(** ParseInt(s, 10, 64) *)
Definition parse_int (s : bytes) : option Z :=
  match s with
  | [] => None
  | c :: s' =>
    let '(neg, digits) := if c =? 45 then (true, s') else if c =? 43 then (false, s') else (false, s) in
    match digits with
    | [] => None
    | _ => match parse_digits digits 0 with
           | Some v => if neg then (if v <=? 9223372036854775808 then Some (- v) else None)
                       else (if v <? 9223372036854775808 then Some v else None)
           | None => None
           end
    end
  end.

Definition cid_header : bytes := [95; 99; 105; 100].                        (* "_cid" *)
Definition timeout_header : bytes := [95; 116; 105; 109; 101; 111; 117; 116]. (* "_timeout" *)
Definition default_timeout_ms : Z := 5000.
Definition ns_per_ms : Z := 1000000.

Definition amap := list hpair.            (* NoDup keys, built with [assign] *)
Record ctx := { c_req : nat; c_resp : nat; c_eph : nat;
                c_own_eph : bool (* ghost: false when the map is the protocol object's (ReadRequestHeader) *) }.
Record st := { heap : list amap;          (* address = index *)
               ctxs : list ctx;           (* every context created so far *)
               umaps : list nat;          (* maps handed to the user by getters *)
               protos : list nat;         (* FProtocol objects: their ephemeralProperties map *)
               next_op : Z }.             (* value of the global uint64 counter *)

Definition two64 : Z := 18446744073709551616.
(** atomic.AddUint64(&nextOpID, 1) *)
Definition bump (s : st) : Z * st :=
  let v := (next_op s + 1) mod two64 in
  (v, {| heap := heap s; ctxs := ctxs s; umaps := umaps s; protos := protos s; next_op := v |}).

Definition alloc (s : st) (m : amap) : nat * st :=
  (length (heap s),
   {| heap := heap s ++ [m]; ctxs := ctxs s; umaps := umaps s; protos := protos s; next_op := next_op s |}).
Definition get (s : st) (a : nat) : amap := nth a (heap s) [].
Fixpoint set_nth {A} (n : nat) (x : A) (l : list A) : list A :=
  match l, n with
  | [], _ => []
  | _ :: t, O => x :: t
  | h :: t, S n' => h :: set_nth n' x t
  end.
Definition put (s : st) (a : nat) (m : amap) : st :=
  {| heap := set_nth a m (heap s); ctxs := ctxs s; umaps := umaps s; protos := protos s; next_op := next_op s |}.
Definition add_ctx (s : st) (c : ctx) : st :=
  {| heap := heap s; ctxs := ctxs s ++ [c]; umaps := umaps s; protos := protos s; next_op := next_op s |}.
Definition add_umap (s : st) (a : nat) : st :=
  {| heap := heap s; ctxs := ctxs s; umaps := umaps s ++ [a]; protos := protos s; next_op := next_op s |}.
Definition add_proto (s : st) (a : nat) : st :=
  {| heap := heap s; ctxs := ctxs s; umaps := umaps s; protos := protos s ++ [a]; next_op := next_op s |}.

Definition ctx_at (s : st) (i : nat) : option ctx := nth_error (ctxs s) i.

Inductive mapsel := MReq | MResp | MEph.
Definition sel (c : ctx) (m : mapsel) : nat :=
  match m with MReq => c_req c | MResp => c_resp c | MEph => c_eph c end.

Inductive op :=
| ONew (cid : bytes)                         (* NewFContext(cid), cid <> "" *)
| OAdd (i : nat) (m : mapsel) (k v : bytes)  (* AddRequestHeader / AddResponseHeader / AddEphemeralProperty *)
| OSetTimeout (i : nat) (ns : Z)             (* SetTimeout(d), d in nanoseconds *)
| OGet (i : nat) (m : mapsel)                (* RequestHeaders() / ResponseHeaders() / EphemeralProperties() *)
| OMutUser (u : nat) (k v : bytes)           (* the user writes into a map a getter returned *)
| OClone (i : nat)                           (* Clone() *)
| ONewProto                                  (* FProtocolFactory.GetProtocol *)
| ORecv (p : nat) (hdrs : list hpair)        (* FProtocol.ReadRequestHeader, headers as decoded (last wins) *)
| OReadResp (i : nat) (hdrs : list hpair).   (* FProtocol.ReadResponseHeader(ctx) *)

(** SetTimeout: Go's truncating division to whole milliseconds; a positive duration below one
    millisecond is stored as 1 (it must not become 0 = "no deadline") *)
Definition quot_ms (ns : Z) : Z :=
  let q := Z.quot ns ns_per_ms in if (q =? 0) && (0 <? ns) then 1 else q.

Definition without_key (k : bytes) (m : amap) : amap := remove_key k m.

Definition step (s : st) (o : op) : option st :=
  match o with
  | ONew cid =>
    let '(id, s) := bump s in
    let req := assign (assign (assign [] cid_header cid) opid_header (format_uint id))
                      timeout_header (format_int default_timeout_ms) in
    let '(a1, s) := alloc s req in
    let '(a2, s) := alloc s [] in
    let '(a3, s) := alloc s [] in
    Some (add_ctx s {| c_req := a1; c_resp := a2; c_eph := a3; c_own_eph := true |})
  | OAdd i m k v =>
    match ctx_at s i with
    | Some c => Some (put s (sel c m) (assign (get s (sel c m)) k v))
    | None => None
    end
  | OSetTimeout i ns =>
    match ctx_at s i with
    | Some c => Some (put s (c_req c) (assign (get s (c_req c)) timeout_header (format_int (quot_ms ns))))
    | None => None
    end
  | OGet i m =>
    match ctx_at s i with
    | Some c => let '(a, s) := alloc s (get s (sel c m)) in Some (add_umap s a)
    | None => None
    end
  | OMutUser u k v =>
    match nth_error (umaps s) u with
    | Some a => Some (put s a (assign (get s a) k v))
    | None => None
    end
  | OClone i =>
    match ctx_at s i with
    | Some c =>
      let mreq := get s (c_req c) in
      let mresp := get s (c_resp c) in
      let meph := get s (c_eph c) in
      let '(id, s) := bump s in
      let '(a1, s) := alloc s (assign mreq opid_header (format_uint id)) in
      let '(a2, s) := alloc s mresp in
      let '(a3, s) := alloc s meph in
      Some (add_ctx s {| c_req := a1; c_resp := a2; c_eph := a3; c_own_eph := true |})
    | None => None
    end
  | ONewProto =>
    let '(a, s) := alloc s [] in Some (add_proto s a)
  | ORecv p hdrs =>
    match nth_error (protos s) p with
    | None => None
    | Some pe =>
      let hm := to_map hdrs in
      match lookup opid_header hm with
      | None => Some s                       (* error: request missing op id; no context *)
      | Some opid =>
        let req0 := without_key opid_header hm in
        let resp0 := assign [] opid_header opid in
        let '(id, s) := bump s in
        let req := assign req0 opid_header (format_uint id) in
        let cid := lookup_default cid_header req in
        let resp := match cid with [] => resp0 | _ => assign resp0 cid_header cid end in
        let '(a1, s) := alloc s req in
        let '(a2, s) := alloc s resp in
        Some (add_ctx s {| c_req := a1; c_resp := a2; c_eph := pe; c_own_eph := false |})
      end
    end
  | OReadResp i hdrs =>
    match ctx_at s i with
    | Some c =>
      let m := fold_left (fun m p => if bytes_eqb (fst p) opid_header then m else assign m (fst p) (snd p))
                         (to_map hdrs) (get s (c_resp c)) in
      Some (put s (c_resp c) m)
    | None => None
    end
  end.

Definition init (start : Z) : st :=
  {| heap := []; ctxs := []; umaps := []; protos := []; next_op := start |}.

Fixpoint run (s : st) (ops : list op) : option st :=
  match ops with
  | [] => Some s
  | o :: ops' => match step s o with Some s' => run s' ops' | None => None end
  end.

(** observables *)
Definition req_of (s : st) (c : ctx) : amap := get s (c_req c).
Definition resp_of (s : st) (c : ctx) : amap := get s (c_resp c).
Definition eph_of (s : st) (c : ctx) : amap := get s (c_eph c).
Definition opid_of (s : st) (c : ctx) : bytes := lookup_default opid_header (req_of s c).
Definition correlation_id (s : st) (c : ctx) : bytes := lookup_default cid_header (req_of s c).
(** Timeout() in nanoseconds *)
Definition timeout_of (s : st) (c : ctx) : Z :=
  match parse_int (lookup_default timeout_header (req_of s c)) with
  | Some ms => ns_per_ms * ms      (* time.Millisecond * Duration(ms); wraps beyond int64, ignored *)
  | None => default_timeout_ms * ns_per_ms
  end.

(** ** a call, at the level of contexts (C09): the request headers of context [i] are written
    (WriteRequestHeader = marshal of RequestHeaders()), travel, and are read by protocol object [p]
    (ReadRequestHeader); the reply's response headers of the server-side context [j] are written
    and merged into the caller's context [i] (ReadResponseHeader). The wire is Model/Headers.v. *)
Definition send_request (s : st) (i p : nat) : option st :=
  match ctx_at s i with
  | Some c => match read_header (marshal (req_of s c)) with
              | Ok (hdrs, _) => step s (ORecv p hdrs)
              | _ => None
              end
  | None => None
  end.
Definition send_response (s : st) (j i : nat) : option st :=
  match ctx_at s j with
  | Some c => match read_header (marshal (resp_of s c)) with
              | Ok (hdrs, _) => step s (OReadResp i hdrs)
              | _ => None
              end
  | None => None
  end.

(** a whole call through a processor: the server side obtains a new protocol object, the request
    travels, the handler adds response headers to the context it was given, and the reply -- the
    normal one or an error reply such as RESPONSE_TOO_LARGE -- travels back with that context's
    response headers. (If the request is rejected for want of an op id no handler runs.) *)
Definition handler_adds (j : nat) (hadd : list hpair) : list op :=
  map (fun kv => OAdd j MResp (fst kv) (snd kv)) hadd.
Definition whole_call (s : st) (i : nat) (hadd : list hpair) : option st :=
  match step s ONewProto with
  | Some s1 =>
    let p := Nat.pred (length (protos s1)) in
    let j := length (ctxs s1) in
    match send_request s1 i p with
    | Some s2 =>
      if Nat.eqb (length (ctxs s2)) j then Some s2
      else match run s2 (handler_adds j hadd) with
           | Some s3 => send_response s3 j i
           | None => None
           end
    | None => None
    end
  | None => None
  end.
