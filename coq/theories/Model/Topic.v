(** Model of the pub/sub topic code of the four generators (C08).

    Transcribed from
      compiler/parser/grammar.peg      newScopePrefix, prefixVariable = {\w*}, identifier
      compiler/parser/types.go         ScopePrefix.Template
      compiler/generator/golang/generator.go   generateInternalPublishMethod, generatePrefixStringTemplate,
                                               generateSubscribeMethod (topic lines)
      compiler/generator/java/generator.go     generatePublisherClient, generatePrefixStringTemplate, subscriber
      compiler/generator/dartlang/generator.go GeneratePublisher/GenerateSubscriber, generatePrefixStringTemplate
      compiler/generator/python/{generator,asyncio,tornado}.go
    Three layers, all executable:
      1. what the parser keeps of a prefix ([segments], [parse_prefix]) and strings.Title ([title]);
      2. the statements each generator EMITS for delimiter / op / prefix / topic ([emit], text by [show]);
      3. what those statements EVALUATE to in the target language ([eval], [topic]):
         string literals, fmt.Sprintf / String.format / str.format / Dart interpolation, parameter
         and local-variable scoping.  [None] = the emitted code is ill-formed or leaves the fragment
         of the target language that is modelled (no prediction is made).
    Strings are byte lists (UTF-8).  [variant] selects the pinned behaviour (before the two
    repairs) or the repaired one; the tree under test follows [fixed].
    Executable definitions only. *)
From Coq Require Import ZArith List Bool Ascii String.
Import ListNotations.
Open Scope Z_scope.

Definition str := list Z.

Definition lit (x : String.string) : str :=
  map (fun a => Z.of_N (N_of_ascii a)) (list_ascii_of_string x).

Fixpoint seqb (a b : str) : bool :=
  match a, b with
  | [], [] => true
  | x :: a', y :: b' => (x =? y) && seqb a' b'
  | _, _ => false
  end.
Fixpoint mem (x : str) (l : list str) : bool :=
  match l with [] => false | y :: l' => seqb x y || mem x l' end.
Fixpoint nodupb (l : list str) : bool :=
  match l with [] => true | x :: l' => negb (mem x l') && nodupb l' end.
Definition null {A} (l : list A) : bool := match l with [] => true | _ => false end.

(** ** character classes (ASCII) *)
Definition is_upper (c : Z) : bool := (65 <=? c) && (c <=? 90).
Definition is_lower (c : Z) : bool := (97 <=? c) && (c <=? 122).
Definition is_letter (c : Z) : bool := is_upper c || is_lower c.
Definition is_digit (c : Z) : bool := (48 <=? c) && (c <=? 57).
(** regexp \w, also: identifier character of Go/Java/Dart/Python (ASCII part) *)
Definition is_word (c : Z) : bool := is_letter c || is_digit c || (c =? 95).

(** ** 1. parser: prefix variables *)

(** the prefix cut at the leftmost non-overlapping matches of the regexp {\w*}
    (regexp.FindAllString / ReplaceAllString); [pend] = the characters read since a '{'
    that may still become a match (reversed) *)
Inductive seg := Lit (c : Z) | Var (name : str).

Definition lits (s : str) : list seg := map Lit s.

Fixpoint scan (s : str) (pend : option str) : list seg :=
  match s with
  | [] => match pend with None => [] | Some acc => lits (123 :: rev acc) end
  | c :: s' =>
    match pend with
    | None => if c =? 123 then scan s' (Some []) else Lit c :: scan s' None
    | Some acc =>
      if is_word c then scan s' (Some (c :: acc))
      else if c =? 125 then Var (rev acc) :: scan s' None
      else if c =? 123 then lits (123 :: rev acc) ++ scan s' (Some [])
      else lits (123 :: rev acc) ++ Lit c :: scan s' None
    end
  end.

Definition segments (p : str) : list seg := scan p None.

Fixpoint vars_of (g : list seg) : list str :=
  match g with [] => [] | Lit _ :: g' => vars_of g' | Var n :: g' => n :: vars_of g' end.
Fixpoint lits_of (g : list seg) : str :=
  match g with [] => [] | Lit c :: g' => c :: lits_of g' | Var _ :: g' => lits_of g' end.
(** ScopePrefix.String *)
Fixpoint render (g : list seg) : str :=
  match g with [] => [] | Lit c :: g' => c :: render g' | Var n :: g' => 123 :: n ++ 125 :: render g' end.
(** ScopePrefix.Template(r) *)
Fixpoint template (r : str) (g : list seg) : str :=
  match g with [] => [] | Lit c :: g' => c :: template r g' | Var _ :: g' => r ++ template r g' end.

(** identifier = ^[A-Za-z]+[A-Za-z0-9] (anchored at the start only): a letter followed by a
    letter or digit; newScopePrefix rejects the prefix otherwise (also the empty name) *)
Definition ident_ok (v : str) : bool :=
  match v with c0 :: c1 :: _ => is_letter c0 && (is_letter c1 || is_digit c1) | _ => false end.

Definition parse_prefix (p : str) : option (list seg) :=
  let g := segments p in if forallb ident_ok (vars_of g) then Some g else None.

(** ** strings.Title on an ASCII name: upper-case every letter that follows a separator
    (isSeparator: ASCII letters, digits and '_' are not separators, every other ASCII
    character is; bytes >= 128 are not reachable through the grammar's Identifier and are
    left alone) *)
Definition is_sep (c : Z) : bool := (c <? 128) && negb (is_word c).
Fixpoint title_from (prev : Z) (s : str) : str :=
  match s with
  | [] => []
  | c :: s' => (if is_sep prev && is_lower c then c - 32 else c) :: title_from c s'
  end.
Definition title (s : str) : str := title_from 32 s.

(** ** 2. what the generators emit *)

Record variant := { go_dot : bool; py_raw : bool }.
(** pinned tree: Go joins scope and operation with a hard-coded '.', Python uses the raw scope name *)
Definition pinned : variant := {| go_dot := true; py_raw := true |}.
Definition fixed : variant := {| go_dot := false; py_raw := false |}.

Inductive lang := Go | Java | Dart | Py.
Inductive side := Pub | Sub.

(** right-hand sides: a quoted literal (raw text between the quotes) or a format call with a
    literal format string and identifier arguments *)
Inductive expr := ELit (raw : str) | EFmt (raw : str) (args : list str).
Definition stmt := (str * expr)%type.
Record prog := { p_consts : list stmt; p_body : list stmt }.

Definition n_prefix : str := Eval vm_compute in lit "prefix".
Definition n_op : str := Eval vm_compute in lit "op".
Definition n_topic : str := Eval vm_compute in lit "topic".
Definition n_DELIMITER : str := Eval vm_compute in lit "DELIMITER".
Definition n_delimiter : str := Eval vm_compute in lit "delimiter".
Definition n_self_DELIMITER : str := Eval vm_compute in lit "self._DELIMITER".
Definition pct_s : str := Eval vm_compute in lit "%s".
Definition braces : str := Eval vm_compute in lit "{}".
Definition dollar (v : str) : str := 36 :: v.

(** Go's fmt.Sprintf / the part of it used here: %s consumes an argument, %% is a percent sign;
    any other verb, a missing or a surplus argument leaves the modelled fragment *)
Fixpoint go_fmt (f : str) (pct : bool) (vs : list str) : option str :=
  match f with
  | [] => if pct then None else match vs with [] => Some [] | _ => None end
  | c :: f' =>
    if pct then
      if c =? 115 then
        match vs with v :: vs' => option_map (app v) (go_fmt f' false vs') | [] => None end
      else if c =? 37 then option_map (cons 37) (go_fmt f' false vs)
      else None
    else if c =? 37 then go_fmt f' true vs
    else option_map (cons c) (go_fmt f' false vs)
  end.

Definition prefix_expr (fmt_hole : str) (delim pfx : str) (g : list seg) : expr :=
  match vars_of g with
  | [] => match pfx with [] => ELit [] | _ => ELit (pfx ++ delim) end
  | vars => EFmt (template fmt_hole g ++ delim) vars
  end.

(** generatePrefixStringTemplate of the Dart generator: fmt.Sprintf is applied to the template
    at GENERATION time with one argument per variable: "$var", or "${var}" where the text that
    follows the variable in the template (the next literal character, or the delimiter after a
    trailing variable) starts with a letter, a digit or '_' (since "fix: Dart scope prefix
    interpolates a variable as ${name} where the next character would be read as part of the
    name"; was known finding C08-dart-delim-after-variable) *)
Definition dart_braced (v : str) : str := 36 :: 123 :: v ++ [125].
Fixpoint dart_args (g : list seg) (after : str) : list str :=
  match g with
  | [] => []
  | Lit _ :: g' => dart_args g' after
  | Var n :: g' =>
    (if (match g' with
         | Lit c :: _ => is_word c
         | Var _ :: _ => false
         | [] => match after with c :: _ => is_word c | [] => false end
         end)
     then dart_braced n else dollar n) :: dart_args g' after
  end.

Definition dart_prefix_raw (delim pfx : str) (g : list seg) : option str :=
  match pfx with
  | [] => Some []
  | _ => match vars_of g with
         | [] => Some (template pct_s g ++ delim)
         | _ => go_fmt (template pct_s g ++ delim) false (dart_args g delim)
         end
  end.

(** the same before that repair: always "$var" *)
Definition dart_prefix_raw_pinned (delim pfx : str) (g : list seg) : option str :=
  match pfx with
  | [] => Some []
  | _ => match vars_of g with
         | [] => Some (template pct_s g ++ delim)
         | vars => go_fmt (template pct_s g ++ delim) false (map dollar vars)
         end
  end.

Definition emit (q : variant) (l : lang) (sd : side) (delim sc op pfx : str) : option prog :=
  let g := segments pfx in
  let t := title sc in
  let os := (n_op, ELit op) in
  match l with
  | Go =>
    let ps := (n_prefix, prefix_expr pct_s delim pfx g) in
    let ts := (n_topic, EFmt (pct_s ++ t ++ (if go_dot q then [46] else delim) ++ pct_s) [n_prefix; n_op]) in
    Some {| p_consts := [];
            p_body := match sd with Pub => [ps; os; ts] | Sub => [os; ps; ts] end |}
  | Java =>
    let ps := (n_prefix, prefix_expr pct_s delim pfx g) in
    let ts := (n_topic, EFmt (pct_s ++ t ++ pct_s ++ pct_s) [n_prefix; n_DELIMITER; n_op]) in
    Some {| p_consts := [(n_DELIMITER, ELit delim)]; p_body := [os; ps; ts] |}
  | Py =>
    let ps := (n_prefix, prefix_expr braces delim pfx g) in
    let ts := (n_topic, EFmt (braces ++ (if py_raw q then sc else t) ++ braces ++ braces)
                             [n_prefix; n_self_DELIMITER; n_op]) in
    Some {| p_consts := [(n_self_DELIMITER, ELit delim)]; p_body := [os; ps; ts] |}
  | Dart =>
    match dart_prefix_raw delim pfx g with
    | None => None
    | Some pr =>
      let ps := (n_prefix, ELit pr) in
      let ts := (n_topic, ELit (lit "${prefix}" ++ t ++ lit "$delimiter$op")) in
      Some {| p_consts := [(n_delimiter, ELit delim)]; p_body := [os; ps; ts] |}
    end
  end.

(** the emitted text of a right-hand side *)
Fixpoint join_args (a : list str) : str :=
  match a with [] => [] | [x] => x | x :: a' => x ++ lit ", " ++ join_args a' end.
Definition show (l : lang) (e : expr) : str :=
  match l, e with
  | Go, ELit r | Java, ELit r => 34 :: r ++ [34]
  | Py, ELit r | Dart, ELit r => 39 :: r ++ [39]
  | Go, EFmt r a => lit "fmt.Sprintf(""" ++ r ++ lit """, " ++ join_args a ++ lit ")"
  | Java, EFmt r a => lit "String.format(""" ++ r ++ lit """, " ++ join_args a ++ lit ")"
  | Py, EFmt r a => 39 :: r ++ lit "'.format(" ++ join_args a ++ lit ")"
  | Dart, EFmt _ _ => []
  end.

(** ** 3. what the emitted statements evaluate to *)

Definition env := list (str * str).
Fixpoint lookup (x : str) (en : env) : option str :=
  match en with [] => None | (y, v) :: en' => if seqb x y then Some v else lookup x en' end.
Fixpoint lookups (xs : list str) (en : env) : option (list str) :=
  match xs with
  | [] => Some []
  | x :: xs' => match lookup x en, lookups xs' en with
                | Some v, Some vs => Some (v :: vs) | _, _ => None end
  end.

(** a string literal of the target language whose raw text is its value: printable, no quote
    of its own kind, no backslash (escapes are not modelled) *)
Definition lit_char_ok (q c : Z) : bool :=
  (32 <=? c) && negb (c =? 127) && negb (c =? q) && negb (c =? 92).
Definition lit_ok (q : Z) (r : str) : bool := forallb (lit_char_ok q) r.
Definition unq (q : Z) (r : str) : option str := if lit_ok q r then Some r else None.

(** java.util.Formatter, same fragment; surplus arguments are ignored *)
Fixpoint java_fmt (f : str) (pct : bool) (vs : list str) : option str :=
  match f with
  | [] => if pct then None else Some []
  | c :: f' =>
    if pct then
      if c =? 115 then
        match vs with v :: vs' => option_map (app v) (java_fmt f' false vs') | [] => None end
      else if c =? 37 then option_map (cons 37) (java_fmt f' false vs)
      else None
    else if c =? 37 then java_fmt f' true vs
    else option_map (cons c) (java_fmt f' false vs)
  end.

(** Python str.format with positional arguments: {} takes the next argument, {{ and }} are
    braces, anything else between braces (names, indexes, conversions) leaves the fragment;
    surplus arguments are ignored.  st: 0 = text, 1 = after '{', 2 = after '}' *)
Fixpoint py_fmt (f : str) (st : Z) (vs : list str) : option str :=
  match f with
  | [] => if st =? 0 then Some [] else None
  | c :: f' =>
    if st =? 0 then
      if c =? 123 then py_fmt f' 1 vs
      else if c =? 125 then py_fmt f' 2 vs
      else option_map (cons c) (py_fmt f' 0 vs)
    else if st =? 1 then
      if c =? 125 then
        match vs with v :: vs' => option_map (app v) (py_fmt f' 0 vs') | [] => None end
      else if c =? 123 then option_map (cons 123) (py_fmt f' 0 vs)
      else None
    else
      if c =? 125 then option_map (cons 125) (py_fmt f' 0 vs) else None
  end.

(** Dart single-quoted string with interpolation: $name and ${name}; '\\', the quote and
    control characters leave the fragment, and so does any other expression after '$' *)
Inductive dstate := DN | DD | DI (acc : str) | DB (acc : str).
Definition is_ident_start (c : Z) : bool := is_letter c || (c =? 95).

Fixpoint dart_run (r : str) (st : dstate) (en : env) : option str :=
  match r with
  | [] => match st with DN => Some [] | DI acc => lookup (rev acc) en | _ => None end
  | c :: r' =>
    let normal := fun _ : unit =>
      if c =? 36 then dart_run r' DD en
      else if lit_char_ok 39 c then option_map (cons c) (dart_run r' DN en)
      else None in
    match st with
    | DN => normal tt
    | DD => if c =? 123 then dart_run r' (DB []) en
            else if is_ident_start c then dart_run r' (DI [c]) en
            else None
    | DI acc => if is_word c then dart_run r' (DI (c :: acc)) en
                else match lookup (rev acc) en, normal tt with
                     | Some v, Some rest => Some (v ++ rest) | _, _ => None end
    | DB acc => if c =? 125 then
                  match lookup (rev acc) en, dart_run r' DN en with
                  | Some v, Some rest => Some (v ++ rest) | _, _ => None end
                else if is_word c then dart_run r' (DB (c :: acc)) en
                else None
    end
  end.

Definition eval (l : lang) (e : expr) (en : env) : option str :=
  match l, e with
  | Go, ELit r | Java, ELit r => unq 34 r
  | Py, ELit r => unq 39 r
  | Dart, ELit r => dart_run r DN en
  | Go, EFmt r a =>
    match unq 34 r, lookups a en with Some f, Some vs => go_fmt f false vs | _, _ => None end
  | Java, EFmt r a =>
    match unq 34 r, lookups a en with Some f, Some vs => java_fmt f false vs | _, _ => None end
  | Py, EFmt r a =>
    match unq 39 r, lookups a en with Some f, Some vs => py_fmt f 0 vs | _, _ => None end
  | Dart, EFmt _ _ => None
  end.

(** the other parameters of the generated method (receiver included) and, for Go, the package
    name the topic expression needs; a prefix variable with one of these names does not compile *)
Definition fixed_params (l : lang) (sd : side) (op : str) : list str :=
  match l, sd with
  | Go, Pub => [lit "p"; lit "fctx"; lit "req"; lit "fmt"]
  | Go, Sub => [lit "l"; lit "handler"; lit "fmt"]
  | Java, Pub => [lit "ctx"; lit "req"]
  | Java, Sub => [lit "handler"]
  | Dart, Pub => [lit "ctx"; lit "req"]
  | Dart, Sub => []
  | Py, Pub => [lit "self"; lit "ctx"; lit "req"]
  | Py, Sub => [lit "self"; op ++ lit "_handler"]
  end.
Definition params_ok (l : lang) (sd : side) (op : str) (vars : list str) : bool :=
  nodupb (fixed_params l sd op ++ vars).

(** Python rebinds a name silently; in Go (:= with no new variable), Java and Dart a local
    that has the name of a parameter or of an earlier local does not compile *)
Definition redecl_ok (l : lang) : bool := match l with Py => true | _ => false end.

Fixpoint run_consts (l : lang) (cs : list stmt) : option env :=
  match cs with
  | [] => Some []
  | (x, e) :: cs' => match eval l e [], run_consts l cs' with
                     | Some v, Some en => Some ((x, v) :: en) | _, _ => None end
  end.

Fixpoint run_body (l : lang) (b : list stmt) (decl : list str) (en : env) : option env :=
  match b with
  | [] => Some en
  | (x, e) :: b' =>
    match eval l e en with
    | None => None
    | Some v => if mem x decl && negb (redecl_ok l) then None
                else run_body l b' (x :: decl) ((x, v) :: en)
    end
  end.

Definition run_prog (l : lang) (sd : side) (op : str) (pr : prog) (vars vals : list str) : option str :=
  match run_consts l (p_consts pr) with
  | None => None
  | Some cs =>
    (* parameters shadow the class/library-level delimiter constant *)
    match run_body l (p_body pr) (fixed_params l sd op ++ vars) (combine vars vals ++ cs) with
    | None => None
    | Some en => lookup n_topic en
    end
  end.

(** the topic the generated publisher / subscriber of language [l] uses *)
Definition topic (q : variant) (l : lang) (sd : side) (delim sc op pfx : str) (vals : list str)
  : option str :=
  match parse_prefix pfx with
  | None => None
  | Some g =>
    let vars := vars_of g in
    if negb (Nat.eqb (List.length vars) (List.length vals)) then None
    else if negb (params_ok l sd op vars) then None
    else match emit q l sd delim sc op pfx with
         | None => None
         | Some pr => run_prog l sd op pr vars vals
         end
  end.

(** ** specification: prefix with the i-th variable replaced by the i-th value, then the
    (title-cased) scope name and the operation name, joined by the delimiter *)
Fixpoint subst_pos (g : list seg) (vals : list str) : str :=
  match g with
  | [] => []
  | Lit c :: g' => c :: subst_pos g' vals
  | Var _ :: g' => match vals with v :: vs => v ++ subst_pos g' vs | [] => subst_pos g' [] end
  end.

Definition spec_topic (delim sc op pfx : str) (vals : list str) : str :=
  (match pfx with [] => [] | _ => subst_pos (segments pfx) vals ++ delim end)
  ++ title sc ++ delim ++ op.

(** ** the inputs on which every language's template is well behaved *)
Definition no_char (c : Z) (s : str) : bool := forallb (fun x => negb (x =? c)) s.
(** scope / operation name: an Identifier of the grammar without '.', i.e. letters, digits and
    '_', not empty (a dotted name never yields a compilable class or method name) *)
Definition name_ok (s : str) : bool := negb (null s) && forallb is_word s.

(** prefix variable names that compile and mean what they should: distinct, different from the
    other parameters, from the locals op / prefix / topic (Python rebinds prefix and topic
    harmlessly, but uses the operation name for a variable called op) and from the delimiter
    constant they would shadow *)
Definition vars_safe (l : lang) (sd : side) (op : str) (vars : list str) : bool :=
  params_ok l sd op vars && negb (mem n_op vars) &&
  match l with
  | Go => negb (mem n_prefix vars) && negb (mem n_topic vars)
  | Java => negb (mem n_prefix vars) && negb (mem n_topic vars) && negb (mem n_DELIMITER vars)
  | Dart => negb (mem n_prefix vars) && negb (mem n_topic vars) && negb (mem n_delimiter vars)
  | Py => negb (mem n_self_DELIMITER vars)
  end.

(** Dart's $name form: the character after a variable must not continue the identifier (a side
    condition of the Dart statements before the repair; no longer part of [in_domain]) *)
Fixpoint dart_follow (g : list seg) (after : str) : bool :=
  match g with
  | [] => true
  | Lit _ :: g' => dart_follow g' after
  | Var _ :: g' =>
    (match g' with
     | Lit c :: _ => negb (is_word c)
     | Var _ :: _ => true
     | [] => match after with c :: _ => negb (is_word c) | [] => true end
     end) && dart_follow g' after
  end.

Definition in_domain (l : lang) (delim sc op pfx : str) : bool :=
  let g := segments pfx in
  let nov := null (vars_of g) in
  name_ok sc && name_ok op &&
  match l with
  | Go => lit_ok 34 pfx && lit_ok 34 delim && no_char 37 delim && (nov || no_char 37 pfx)
  | Java => lit_ok 34 pfx && lit_ok 34 delim && (nov || (no_char 37 pfx && no_char 37 delim))
  | Py => lit_ok 39 pfx && lit_ok 39 delim &&
          (nov || (no_char 123 (lits_of g) && no_char 125 (lits_of g) &&
                   no_char 123 delim && no_char 125 delim))
  | Dart => lit_ok 39 pfx && lit_ok 39 delim && no_char 36 pfx && no_char 36 delim &&
            (nov || (no_char 37 pfx && no_char 37 delim))
  end.
