(** Model of lib/go/nats_server.go (fNatsServer: Serve / Stop / handler / worker /
    drainNatsMessages) together with the part of nats.go v1.33.1 and of the broker that the
    shutdown protocol relies on.  Executable definitions only.

    Actors (goroutines), cut where they touch shared state:
      - publisher connection: [EPublish m] puts a request on the (FIFO) wire to the broker;
        [EArrive] is the broker routing the head of the wire: to the pending list of
        subscription [msub m] iff the broker still has interest for it, else nowhere.
      - per subscription i the nats.go delivery goroutine (waitForMsgs): [EPop i] pops the
        head of the pending list (only when no callback is in flight): a message starts
        fNatsServer.handler (onRequestReceived is called here), a barrier marker decrements
        the barrier's reference count and runs f when it reaches 0.
        handler: [EDrop i] (msg.Reply == "": discarded), [EEnq i] (workC <- frame; blocks
        when the queue is full; panics when the channel is closed).
      - worker j: [ETake j] (receive from workC), [EStart j] (onRequestStarted),
        [EDone j] (processFrame: processor, reply published iff there is output;
        onRequestFinished), [EExit j] (range loop ends: channel closed and empty).
      - Stop: [EStopCall] (at f.quit <- done), rendezvous [ERecvQuit] with Serve's <-f.quit,
        [EStopClose] (close(f.quit)), rendezvous [ESendDone] with Serve's done <- err.
      - Serve: ERecvQuit, EDrainSub (sub.Drain() on the next subscription: UNSUB written,
        checkDrained goroutine started), EFlush (conn.Flush returns: needs every UNSUB
        processed by the broker), EBarrier (conn.Barrier), EBarrierWait (<-barrier),
        ESendDone, ECloseWorkC, EWait (wg.Wait) = Serve returns.
      - broker: [EBrokerUnsub i] (UNSUB processed: no interest afterwards).
      - nats.go checkDrained goroutine of subscription i: [ECheckDrained i] removes the
        subscription from the connection once the broker has processed the UNSUB (its own
        Flush) and the pending count is 0 (the count is decremented only after the callback
        returned).

    The pending list of a subscription is kept as [pre ++ (if bar then marker :: post)];
    Barrier is called at most once, so this is an encoding of an arbitrary list with at most
    one marker, not a restriction.

    Ghost lists (published, dropped, accepted, lost, noreply, startedl, finished, replied)
    only record history for the theorems; no guard reads them. *)
From Coq Require Import ZArith List Bool Arith.
Import ListNotations.

Record msg := mkMsg { mid : Z; msub : nat; has_reply : bool; has_out : bool }.

Record sub := mkSub {
  pre : list msg;        (* pending messages in front of the barrier marker *)
  bar : bool;            (* a barrier marker is queued *)
  post : list msg;       (* pending messages behind the marker *)
  inh : option msg;      (* the one callback (handler) in flight *)
  registered : bool;     (* still in nc.subs *)
  broker : bool;         (* the broker has interest for this subscription *)
  draining : bool }.     (* sub.Drain() was called *)

Inductive wst := WIdle | WHave (m : msg) | WProc (m : msg) | WExited.

Inductive sphase := SRunning | SGotQuit | SFlushed | SBarrierSet | SBarrierDone
                  | SDoneSent | SClosed | SReturned.
Inductive tphase := TNotCalled | TSending | TSentQuit | TWaitDone | TReturned.

Record ghost := mkGhost {
  published : list msg;  (* every EPublish *)
  dropped : list msg;    (* arrived at the broker when it had no interest *)
  accepted : list msg;   (* put on a pending list = received by the NATS server side *)
  lost : list msg;       (* popped on a closed subscription: never handled *)
  noreply : list msg;    (* discarded by handler: no reply subject *)
  startedl : list msg;   (* onRequestStarted called *)
  finished : list msg;   (* onRequestFinished called *)
  replied : list Z }.    (* reply published on the reply subject *)

Record st := mkSt {
  subs : list sub;
  wire : list msg;
  workc : list msg; closed : bool; qlen : nat;
  workers : list wst;
  serve : sphase; stop : tphase;
  refs : nat; fired : bool;       (* barrierInfo.refs; f has run (close(barrier)) *)
  crashed : bool;                 (* send on closed channel *)
  g : ghost }.

Inductive ev :=
| EPublish (m : msg) | EArrive
| EPop (i : nat) | EDrop (i : nat) | EEnq (i : nat)
| ETake (j : nat) | EStart (j : nat) | EDone (j : nat) | EExit (j : nat)
| EStopCall | ERecvQuit | EStopClose
| EDrainSub | EBrokerUnsub (i : nat) | ECheckDrained (i : nat)
| EFlush | EBarrier | EBarrierWait | ESendDone | ECloseWorkC | EWait.

(** state after Serve has subscribed and started its workers *)
Definition sub0 : sub := mkSub [] false [] None true true false.
Definition ghost0 : ghost := mkGhost [] [] [] [] [] [] [] [].
Definition init (nsubs nworkers ql : nat) : st :=
  mkSt (repeat sub0 nsubs) [] [] false ql (repeat WIdle nworkers) SRunning TNotCalled 0 false false ghost0.

(* ---------------------------------------------------------------- setters *)
Definition set_subs s v := mkSt v (wire s) (workc s) (closed s) (qlen s) (workers s) (serve s) (stop s) (refs s) (fired s) (crashed s) (g s).
Definition set_wire s v := mkSt (subs s) v (workc s) (closed s) (qlen s) (workers s) (serve s) (stop s) (refs s) (fired s) (crashed s) (g s).
Definition set_workc s v := mkSt (subs s) (wire s) v (closed s) (qlen s) (workers s) (serve s) (stop s) (refs s) (fired s) (crashed s) (g s).
Definition set_closed s v := mkSt (subs s) (wire s) (workc s) v (qlen s) (workers s) (serve s) (stop s) (refs s) (fired s) (crashed s) (g s).
Definition set_workers s v := mkSt (subs s) (wire s) (workc s) (closed s) (qlen s) v (serve s) (stop s) (refs s) (fired s) (crashed s) (g s).
Definition set_serve s v := mkSt (subs s) (wire s) (workc s) (closed s) (qlen s) (workers s) v (stop s) (refs s) (fired s) (crashed s) (g s).
Definition set_stop s v := mkSt (subs s) (wire s) (workc s) (closed s) (qlen s) (workers s) (serve s) v (refs s) (fired s) (crashed s) (g s).
Definition set_bar s r f := mkSt (subs s) (wire s) (workc s) (closed s) (qlen s) (workers s) (serve s) (stop s) r f (crashed s) (g s).
Definition set_crashed s v := mkSt (subs s) (wire s) (workc s) (closed s) (qlen s) (workers s) (serve s) (stop s) (refs s) (fired s) v (g s).
Definition set_g s v := mkSt (subs s) (wire s) (workc s) (closed s) (qlen s) (workers s) (serve s) (stop s) (refs s) (fired s) (crashed s) v.

Definition g_pub h m := mkGhost (published h ++ [m]) (dropped h) (accepted h) (lost h) (noreply h) (startedl h) (finished h) (replied h).
Definition g_drop h m := mkGhost (published h) (dropped h ++ [m]) (accepted h) (lost h) (noreply h) (startedl h) (finished h) (replied h).
Definition g_acc h m := mkGhost (published h) (dropped h) (accepted h ++ [m]) (lost h) (noreply h) (startedl h) (finished h) (replied h).
Definition g_lost h m := mkGhost (published h) (dropped h) (accepted h) (lost h ++ [m]) (noreply h) (startedl h) (finished h) (replied h).
Definition g_noreply h m := mkGhost (published h) (dropped h) (accepted h) (lost h) (noreply h ++ [m]) (startedl h) (finished h) (replied h).
Definition g_start h m := mkGhost (published h) (dropped h) (accepted h) (lost h) (noreply h) (startedl h ++ [m]) (finished h) (replied h).
Definition g_finish h m := mkGhost (published h) (dropped h) (accepted h) (lost h) (noreply h) (startedl h) (finished h ++ [m])
                                   (if has_out m then replied h ++ [mid m] else replied h).

Definition sub_pre sb v := mkSub v (bar sb) (post sb) (inh sb) (registered sb) (broker sb) (draining sb).
Definition sub_post sb v := mkSub (pre sb) (bar sb) v (inh sb) (registered sb) (broker sb) (draining sb).
Definition sub_inh sb v := mkSub (pre sb) (bar sb) (post sb) v (registered sb) (broker sb) (draining sb).
Definition sub_registered sb v := mkSub (pre sb) (bar sb) (post sb) (inh sb) v (broker sb) (draining sb).
Definition sub_broker sb v := mkSub (pre sb) (bar sb) (post sb) (inh sb) (registered sb) v (draining sb).
Definition sub_draining sb v := mkSub (pre sb) (bar sb) (post sb) (inh sb) (registered sb) (broker sb) v.
Definition sub_setbar sb := mkSub (pre sb) true (post sb) (inh sb) (registered sb) (broker sb) (draining sb).

Fixpoint upd {A} (l : list A) (i : nat) (x : A) : list A :=
  match l, i with
  | [], _ => []
  | _ :: t, O => x :: t
  | h :: t, S i' => h :: upd t i' x
  end.

(** index of the first element satisfying p *)
Fixpoint find_idx {A} (p : A -> bool) (l : list A) : option nat :=
  match l with
  | [] => None
  | x :: t => if p x then Some O else option_map S (find_idx p t)
  end.

Definition is_idle (w : wst) : bool := match w with WIdle => true | _ => false end.
Definition is_exited (w : wst) : bool := match w with WExited => true | _ => false end.
Definition pmsgs (sb : sub) : nat :=
  length (pre sb) + length (post sb) + match inh sb with Some _ => 1 | None => 0 end.

(* ---------------------------------------------------------------- the step function *)
Definition step_arrive (s : st) : option st :=
  match wire s with
  | [] => None
  | m :: w =>
    let s1 := set_wire s w in
    match nth_error (subs s) (msub m) with
    | Some sb =>
      if broker sb then
        let sb' := if bar sb then sub_post sb (post sb ++ [m]) else sub_pre sb (pre sb ++ [m]) in
        Some (set_g (set_subs s1 (upd (subs s) (msub m) sb')) (g_acc (g s) m))
      else Some (set_g s1 (g_drop (g s) m))
    | None => Some (set_g s1 (g_drop (g s) m))
    end
  end.

Definition step_pop (s : st) (i : nat) : option st :=
  match nth_error (subs s) i with
  | None => None
  | Some sb =>
    match inh sb with
    | Some _ => None                                  (* callback still running *)
    | None =>
      match pre sb with
      | m :: r =>
        if registered sb
        then Some (set_subs s (upd (subs s) i (sub_inh (sub_pre sb r) (Some m))))
        else Some (set_g (set_subs s (upd (subs s) i (sub_pre sb r))) (g_lost (g s) m))
      | [] =>
        if bar sb then
          let sb' := mkSub (post sb) false [] None (registered sb) (broker sb) (draining sb) in
          let r := pred (refs s) in
          Some (set_bar (set_subs s (upd (subs s) i sb')) r (if Nat.eqb r 0 then true else fired s))
        else None
      end
    end
  end.

Definition step_drop (s : st) (i : nat) : option st :=
  match nth_error (subs s) i with
  | None => None
  | Some sb =>
    match inh sb with
    | Some m => if has_reply m then None
                else Some (set_g (set_subs s (upd (subs s) i (sub_inh sb None))) (g_noreply (g s) m))
    | None => None
    end
  end.

Definition step_enq (s : st) (i : nat) : option st :=
  match nth_error (subs s) i with
  | None => None
  | Some sb =>
    match inh sb with
    | Some m =>
      if negb (has_reply m) then None
      else if closed s then Some (set_crashed s true)            (* panic: send on closed channel *)
      else
        let s1 := set_subs s (upd (subs s) i (sub_inh sb None)) in
        if Nat.ltb (length (workc s)) (qlen s) then Some (set_workc s1 (workc s ++ [m]))
        else if Nat.eqb (qlen s) 0 then
          (* unbuffered channel: rendezvous with a worker blocked in the receive *)
          match find_idx is_idle (workers s) with
          | Some j => Some (set_workers s1 (upd (workers s) j (WHave m)))
          | None => None
          end
        else None
    | None => None
    end
  end.

Definition step_take (s : st) (j : nat) : option st :=
  match nth_error (workers s) j, workc s with
  | Some WIdle, m :: r => Some (set_workc (set_workers s (upd (workers s) j (WHave m))) r)
  | _, _ => None
  end.

Definition step_start (s : st) (j : nat) : option st :=
  match nth_error (workers s) j with
  | Some (WHave m) => Some (set_g (set_workers s (upd (workers s) j (WProc m))) (g_start (g s) m))
  | _ => None
  end.

Definition step_done (s : st) (j : nat) : option st :=
  match nth_error (workers s) j with
  | Some (WProc m) => Some (set_g (set_workers s (upd (workers s) j WIdle)) (g_finish (g s) m))
  | _ => None
  end.

Definition step_exit (s : st) (j : nat) : option st :=
  match nth_error (workers s) j, workc s with
  | Some WIdle, [] => if closed s then Some (set_workers s (upd (workers s) j WExited)) else None
  | _, _ => None
  end.

Definition step_drainsub (s : st) : option st :=
  match serve s with
  | SGotQuit =>
    match find_idx (fun sb => negb (draining sb)) (subs s) with
    | Some i =>
      match nth_error (subs s) i with
      | Some sb => Some (set_subs s (upd (subs s) i (sub_draining sb true)))
      | None => None
      end
    | None => None
    end
  | _ => None
  end.

Definition step_brokerunsub (s : st) (i : nat) : option st :=
  match nth_error (subs s) i with
  | Some sb => if draining sb && broker sb
               then Some (set_subs s (upd (subs s) i (sub_broker sb false))) else None
  | None => None
  end.

Definition step_checkdrained (s : st) (i : nat) : option st :=
  match nth_error (subs s) i with
  | Some sb => if draining sb && registered sb && negb (broker sb) && Nat.eqb (pmsgs sb) 0
               then Some (set_subs s (upd (subs s) i (sub_registered sb false))) else None
  | None => None
  end.

Definition all_unsubbed (l : list sub) : bool := forallb (fun sb => draining sb && negb (broker sb)) l.
Definition count_registered (l : list sub) : nat := length (filter registered l).

Definition step_barrier (s : st) : option st :=
  match serve s with
  | SFlushed =>
    let n := count_registered (subs s) in
    if Nat.eqb n 0 then Some (set_bar (set_serve s SBarrierSet) 0 true)
    else Some (set_bar (set_serve (set_subs s (map (fun sb => if registered sb then sub_setbar sb else sb) (subs s)))
                                  SBarrierSet) n (fired s))
  | _ => None
  end.

Definition step (s : st) (e : ev) : option st :=
  if crashed s then None else
  match e with
  | EPublish m => Some (set_g (set_wire s (wire s ++ [m])) (g_pub (g s) m))
  | EArrive => step_arrive s
  | EPop i => step_pop s i
  | EDrop i => step_drop s i
  | EEnq i => step_enq s i
  | ETake j => step_take s j
  | EStart j => step_start s j
  | EDone j => step_done s j
  | EExit j => step_exit s j
  | EStopCall => match stop s with TNotCalled => Some (set_stop s TSending) | _ => None end
  | ERecvQuit => match serve s, stop s with
                 | SRunning, TSending => Some (set_stop (set_serve s SGotQuit) TSentQuit)
                 | _, _ => None end
  | EStopClose => match stop s with TSentQuit => Some (set_stop s TWaitDone) | _ => None end
  | EDrainSub => step_drainsub s
  | EBrokerUnsub i => step_brokerunsub s i
  | ECheckDrained i => step_checkdrained s i
  | EFlush => match serve s with
              | SGotQuit => if all_unsubbed (subs s) then Some (set_serve s SFlushed) else None
              | _ => None end
  | EBarrier => step_barrier s
  | EBarrierWait => match serve s with
                    | SBarrierSet => if fired s then Some (set_serve s SBarrierDone) else None
                    | _ => None end
  | ESendDone => match serve s, stop s with
                 | SBarrierDone, TWaitDone => Some (set_stop (set_serve s SDoneSent) TReturned)
                 | _, _ => None end
  | ECloseWorkC => match serve s with
                   | SDoneSent => Some (set_closed (set_serve s SClosed) true)
                   | _ => None end
  | EWait => match serve s with
             | SClosed => if forallb is_exited (workers s) then Some (set_serve s SReturned) else None
             | _ => None end
  end.

Fixpoint run (s : st) (evs : list ev) : option st :=
  match evs with
  | [] => Some s
  | e :: r => match step s e with Some s' => run s' r | None => None end
  end.

(** environment events: the clients publishing and the user calling Stop *)
Definition internal (e : ev) : bool :=
  match e with EPublish _ | EStopCall => false | _ => true end.

(** all events that could be enabled in s (used by the progress theorem and the judge) *)
Definition candidates (s : st) : list ev :=
  [EArrive; ERecvQuit; EStopClose; EDrainSub; EFlush; EBarrier; EBarrierWait; ESendDone; ECloseWorkC; EWait]
  ++ flat_map (fun i => [EPop i; EDrop i; EEnq i; EBrokerUnsub i; ECheckDrained i]) (seq 0 (length (subs s)))
  ++ flat_map (fun j => [ETake j; EStart j; EDone j; EExit j]) (seq 0 (length (workers s))).

Definition enabled (s : st) (e : ev) : bool := match step s e with Some _ => true | None => false end.
Definition quiescent (s : st) : bool := negb (existsb (enabled s) (candidates s)).

(** termination measure: strictly decreases on every internal step *)
Fixpoint wsum {A} (f : A -> nat) (l : list A) : nat :=
  match l with [] => 0 | x :: t => f x + wsum f t end.
Definition sub_weight (sb : sub) : nat :=
  5 * length (pre sb) + 5 * length (post sb) + (if bar sb then 1 else 0)
  + match inh sb with Some _ => 4 | None => 0 end
  + (if registered sb then 1 else 0) + (if broker sb then 1 else 0) + (if draining sb then 0 else 1).
Definition worker_weight (w : wst) : nat :=
  match w with WExited => 0 | WIdle => 1 | WProc _ => 2 | WHave _ => 3 end.
Definition serve_weight (n : nat) (p : sphase) : nat :=
  match p with SRunning => 8 + n | SGotQuit => 7 + n | SFlushed => 6 + n | SBarrierSet => 5
             | SBarrierDone => 4 | SDoneSent => 3 | SClosed => 2 | SReturned => 0 end.
Definition stop_weight (p : tphase) : nat :=
  match p with TNotCalled => 4 | TSending => 3 | TSentQuit => 2 | TWaitDone => 1 | TReturned => 0 end.
Definition measure (s : st) : nat :=
  6 * length (wire s) + wsum sub_weight (subs s) + 3 * length (workc s) + wsum worker_weight (workers s)
  + serve_weight (length (subs s)) (serve s) + stop_weight (stop s) + (if crashed s then 0 else 1).
