(** C16 — service middleware: model of lib/go/middleware.go (composeMiddleware, Method.Invoke,
    Method.AddMiddleware, newInvocationHandler), lib/go/provider.go (the providers keep the caller's
    variadic slice, GetMiddleware copies it), lib/go/processor.go (FBaseProcessor.AddMiddleware over
    the process map) and of the constructors and stubs compiler/generator/golang/generator.go emits
    for clients, processors, publishers and subscribers.

    Executable definitions only.  Values are an abstract type [V] (Arguments and Results are
    []interface{}); a handler produces the ordered trace of what happened and either its results
    or a panic ([None]).  Go slices are modelled with their backing arrays, because every generated
    constructor does [middleware = append(middleware, provider.GetMiddleware()...)] on the caller's
    variadic slice and the subscriber keeps the result. *)
From Coq Require Import ZArith List Bool Arith.
Import ListNotations.

(* ------------------------------------------------------------------------------------------- *)
(** * Go slices over a heap of backing arrays *)
Section Slices.
Context {T : Type}.

Record slice := { s_arr : nat; s_len : nat; s_cap : nat }.
Definition heap := list (list T).

Definition nil_slice : slice := {| s_arr := 0; s_len := 0; s_cap := 0 |}.

Definition arr_of (h : heap) (s : slice) : list T := nth (s_arr s) h [].
(** the elements a [range] over the slice visits *)
Definition slice_elems (h : heap) (s : slice) : list T := firstn (s_len s) (arr_of h s).

Fixpoint set_nth {A} (n : nat) (x : A) (l : list A) : list A :=
  match l, n with
  | [], _ => []
  | _ :: t, O => x :: t
  | y :: t, S n' => y :: set_nth n' x t
  end.

Definition write_at (l : list T) (off : nat) (xs : list T) : list T :=
  firstn off l ++ xs ++ skipn (off + length xs) l.

(** [append(s, xs...)]: in place when the capacity suffices (the caller's array is written beyond
    [len]), otherwise a fresh array.  The capacity Go picks for the fresh array is not modelled
    (taken as exactly the new length): no generated constructor appends to the result again. *)
Definition go_append (h : heap) (s : slice) (xs : list T) : heap * slice :=
  match xs with
  | [] => (h, s)
  | _ :: _ =>
    let n := s_len s + length xs in
    if n <=? s_cap s
    then (set_nth (s_arr s) (write_at (arr_of h s) (s_len s) xs) h,
          {| s_arr := s_arr s; s_len := n; s_cap := s_cap s |})
    else (h ++ [slice_elems h s ++ xs], {| s_arr := length h; s_len := n; s_cap := n |})
  end.

(** a slice of [xs] with [spare] unused cells ([pad] stands for the zero value there) *)
Definition alloc (h : heap) (xs : list T) (spare : nat) (pad : T) : heap * slice :=
  (h ++ [xs ++ repeat pad spare], {| s_arr := length h; s_len := length xs; s_cap := length xs + spare |}).

(** [f(p, a, b, c)]: Go builds a fresh slice with cap = len; [f(p)] passes nil *)
Definition variadic_literal (h : heap) (xs : list T) : heap * slice :=
  match xs with
  | [] => (h, nil_slice)
  | _ => (h ++ [xs], {| s_arr := length h; s_len := length xs; s_cap := length xs |})
  end.

Definition wf_slice (h : heap) (s : slice) : Prop :=
  s_len s <= s_cap s /\ (s_cap s = 0 \/ (s_arr s < length h /\ length (arr_of h s) = s_cap s)).

(** [p] cannot be reached by an append to [s]: another array, or it ends before the cells an
    append to [s] writes *)
Definition append_safe (p s : slice) : Prop := s_arr p <> s_arr s \/ s_len p <= s_len s.
End Slices.
Arguments slice : clear implicits.
Arguments heap : clear implicits.

(* ------------------------------------------------------------------------------------------- *)
(** * Handlers, middleware, Method *)
Section Middleware.
Context {V : Type}.

Inductive event :=
| EEnter (id : Z) (a : list V)      (* middleware [id] entered, saw arguments [a] *)
| EExit (id : Z) (r : list V)       (* its [next] returned [r] *)
| ECore (tag : Z) (a : list V)      (* the proxied function was called with [a] *)
| ERet (tag : Z) (r : list V).      (* a callback returned [r] *)

(** trace, and the results or a panic *)
Definition outcome := (list event * option (list V))%type.
(** InvocationHandler (the service and method handles are constants of a Method; not modelled) *)
Definition handler := list V -> outcome.
(** ServiceMiddleware *)
Definition middleware := handler -> handler.

(** composeMiddleware: [for _, m := range middleware { handler = m(handler) }] *)
Definition compose (core : handler) (ms : list middleware) : handler :=
  fold_left (fun h m => m h) ms core.

(** Method.AddMiddleware: [m.handler = middleware(m.handler)] *)
Definition add_middleware (m : middleware) (meth : handler) : handler := m meth.

(** newInvocationHandler: reflect's Call panics unless the argument count is the function's *)
Definition reflect_handler (nin : nat) (f : handler) : handler :=
  fun a => if length a =? nin then f a else ([], None).

(** NewMethod *)
Definition new_method (nin : nat) (f : handler) (ms : list middleware) : handler :=
  compose (reflect_handler nin f) ms.

(** the middleware the property quantifies over: observes what it is given, may rewrite the
    arguments before calling next once, may rewrite what next returned *)
Record mwspec := { ms_id : Z; ms_pre : list V -> list V; ms_post : list V -> list V }.

Definition mw_of (s : mwspec) : middleware :=
  fun next a =>
    let '(tr, r) := next (ms_pre s a) in
    match r with
    | Some r' => (EEnter (ms_id s) a :: tr ++ [EExit (ms_id s) r'], Some (ms_post s r'))
    | None => (EEnter (ms_id s) a :: tr, None)
    end.

(** calling a nil func panics: what an uninitialised cell of a backing array holds *)
Definition nil_mw : middleware := fun _ _ => ([], None).

(* ---- the flat description the theorems compare with ---- *)
(** outermost first *)
Fixpoint enter_events (outer_first : list mwspec) (a : list V) : list event :=
  match outer_first with
  | [] => []
  | m :: t => EEnter (ms_id m) a :: enter_events t (ms_pre m a)
  end.
Definition args_in (outer_first : list mwspec) (a : list V) : list V :=
  fold_left (fun a m => ms_pre m a) outer_first a.
(** innermost first *)
Fixpoint exit_events (inner_first : list mwspec) (r : list V) : list event :=
  match inner_first with
  | [] => []
  | m :: t => EExit (ms_id m) r :: exit_events t (ms_post m r)
  end.
Definition res_out (inner_first : list mwspec) (r : list V) : list V :=
  fold_left (fun r m => ms_post m r) inner_first r.

(** ids of the middleware entered / left, in trace order *)
Definition enter_ids (tr : list event) : list Z :=
  flat_map (fun e => match e with EEnter i _ => [i] | _ => [] end) tr.
Definition exit_ids (tr : list event) : list Z :=
  flat_map (fun e => match e with EExit i _ => [i] | _ => [] end) tr.

(* ---- generated stubs ---- *)
(** F<Svc>Client.<Method> and <svc>F<Method>.Process: [if len(ret) != n { panic(...) }] *)
Definition arity_stub (nret : nat) (meth : handler) : handler :=
  fun a =>
    let '(tr, r) := meth a in
    match r with
    | Some r' => if length r' =? nret then (tr, Some r') else (tr, None)
    | None => (tr, None)
    end.
(** F<Svc>Client.<Method>Async (-gen go:async) runs the method in a goroutine and delivers the result
    on one channel or the error on the other: next to an error the value is not observable *)
Definition async_stub (is_nil : V -> bool) (nilv : V) (meth : handler) : handler :=
  fun a =>
    let '(tr, r) := meth a in
    match r with
    | Some [v; e] => if is_nil e then (tr, Some [v; e]) else (tr, Some [nilv; e])
    | _ => (tr, r)
    end.
(** <scope>Publisher.Publish<Op>: [ret[0]] *)
Definition pub_stub (meth : handler) : handler :=
  fun a =>
    let '(tr, r) := meth a in
    match r with
    | Some (x :: _) => (tr, Some [x])
    | _ => (tr, None)
    end.
(** the subscriber's callback: [method.Invoke(...).Error()] = [r[len(r)-1]] *)
Definition sub_stub (meth : handler) : handler :=
  fun a =>
    let '(tr, r) := meth a in
    match r with
    | Some (x :: t) => (tr, Some [last t x])
    | _ => (tr, None)
    end.

(* ---- generated constructors (heap of middleware slices) ---- *)
Definition mheap := heap middleware.

(** FServiceProvider / FScopeProvider keep the variadic slice they were given;
    GetMiddleware returns a copy *)
Definition get_middleware (h : mheap) (prov : slice) : list middleware := slice_elems h prov.

(** NewF<Svc>Client(provider, middleware...): a service is given as its chain of method tables,
    own methods first, then those of the service it extends, ...; the parent's constructor runs
    first with the same slice, then [middleware = append(middleware, provider.GetMiddleware()...)]
    and one NewMethod per own method.  Result: the method tables in the same shape. *)
Fixpoint new_client (h : mheap) (prov mw : slice) (chain : list (list handler))
  : mheap * list (list handler) :=
  match chain with
  | [] => (h, [])
  | own :: parents =>
    let '(h0, pm) := new_client h prov mw parents in
    let '(h1, s1) := go_append h0 mw (get_middleware h0 prov) in
    (h1, map (fun c => compose c (slice_elems h1 s1)) own :: pm)
  end.

(** NewF<Svc>Processor(handler, middleware...): no provider; the parent's constructor gets the same
    slice and fills the same process map *)
Definition new_processor (h : mheap) (mw : slice) (chain : list (list handler)) : list (list handler) :=
  map (map (fun c => compose c (slice_elems h mw))) chain.

(** FBaseProcessor.AddMiddleware: every entry of the process map (one per method, own and inherited) *)
Definition processor_add_middleware (m : middleware) (pm : list (list handler)) : list (list handler) :=
  map (map (add_middleware m)) pm.

(** New<Scope>Publisher(provider, middleware...) *)
Definition new_publisher (h : mheap) (prov mw : slice) (ops : list handler) : mheap * list handler :=
  let '(h1, s1) := go_append h mw (get_middleware h prov) in
  (h1, map (fun c => compose c (slice_elems h1 s1)) ops).

(** New<Scope>Subscriber(provider, middleware...) keeps the appended slice ... *)
Definition new_subscriber (h : mheap) (prov mw : slice) : mheap * slice :=
  go_append h mw (get_middleware h prov).
(** ... and Subscribe<Op> reads it when it builds the Method, in whatever state the heap is then *)
Definition subscribe (h : mheap) (sub : slice) (core : handler) : handler :=
  compose core (slice_elems h sub).

(* ---- end to end ---- *)
(** what the wire does to a two-way reply: with an error the success value is not sent and the
    client returns the zero value; errors are mapped by [werr] (declared exceptions and
    TApplicationExceptions arrive as themselves, anything else as INTERNAL_ERROR) *)
Definition wire_results (oneway : bool) (is_nil : V -> bool) (nilv zero : V) (werr : V -> V) (r : list V) : list V :=
  if oneway then [nilv] else
  match r with
  | [e] => [werr e]
  | [v; e] => if is_nil e then [v; e] else [zero; werr e]
  | _ => r
  end.

(** one RPC through generated client, loop-back transport, generated processor and the user's
    handler.  [cms] / [pms]: the composed lists of the client method and of the processor function
    (after AddMiddleware); [wargs] / [wres]: what the wire does to arguments and results. *)
Definition rpc (nin nret : nat) (wargs wres : list V -> list V)
           (client_method : handler -> handler) (proc_method : handler -> handler)
           (user : list V -> list V) : handler :=
  let server : handler :=
    arity_stub nret (proc_method (reflect_handler nin (fun a => ([ECore 0 a], Some (user a))))) in
  let transport : handler :=
    fun a => let '(tr, r) := server (wargs a) in (ECore 1 [] :: tr, option_map wres r) in
  arity_stub nret (client_method (reflect_handler nin transport)).

(** one publish through generated publisher, in-memory transport, generated subscriber callback and
    the user's handler.  The publisher's arguments are [ctx :: vars ++ [req]], the subscriber's
    [ctx; req]; the message reaches the subscriber iff the topic variables the internal publish
    function received are the ones the subscriber subscribed with.  [herr]: what the user's handler
    returns (the non-errorable Subscribe<Op> wraps the handler into one returning nil). *)
Fixpoint list_eqb (eqb : V -> V -> bool) (a b : list V) : bool :=
  match a, b with
  | [], [] => true
  | x :: a', y :: b' => eqb x y && list_eqb eqb a' b'
  | _, _ => false
  end.

Definition pubsub (nvars : nat) (eqb : V -> V -> bool) (nilv : V) (wargs : list V -> list V)
           (sub_vars : list V) (pub_method sub_method : handler -> handler) (herr : V) : handler :=
  let callback : handler :=
    sub_stub (sub_method (reflect_handler 2 (fun a => ([ECore 2 a], Some [herr])))) in
  let transport : handler :=
    fun a =>
      match a with
      | c :: t =>
        if list_eqb eqb (removelast t) sub_vars then
          let '(tr, r) := callback (wargs [c; last t nilv]) in
          match r with
          | Some r' => (ECore 1 [] :: tr ++ [ERet 1 r'], Some [nilv])
          | None => (ECore 1 [] :: tr, None)
          end
        else ([ECore 1 []], Some [nilv])
      | [] => ([], None)
      end in
  pub_stub (pub_method (reflect_handler (2 + nvars) transport)).

End Middleware.
Arguments event : clear implicits.
Arguments outcome : clear implicits.
Arguments handler : clear implicits.
Arguments middleware : clear implicits.
Arguments mwspec : clear implicits.
Arguments mheap : clear implicits.
