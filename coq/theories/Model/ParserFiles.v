(** Model of parser.ParseFrugal (compiler/parser/parser.go:49-110) over an abstract file system:
    name derivation, circular-include detection, include resolution relative to the including
    file's directory, validation (types.go:973-1307) and the sorting of scopes.
    The cache of parseFrugal is not modelled: parsing is a function of the file contents, so a
    cache hit returns exactly what re-parsing returns (and the circular-include check runs before
    the cache lookup).  Paths are relative to the directory of the root file and must not climb
    above it.  Executable definitions only. *)
From Coq Require Import ZArith List Bool.
From FV Require Import Model.Peg Model.ParserStrings Model.ParserAst Model.ParserActions Model.Parser.
Import ListNotations.
Open Scope Z_scope.

(** ** paths as lists of components *)
Fixpoint split_on (c : Z) (s : bytes) (cur : bytes) : list bytes :=
  match s with
  | [] => [rev cur]
  | x :: t => if x =? c then rev cur :: split_on c t [] else split_on c t (x :: cur)
  end.

Definition dotdot : bytes := [46; 46].
Definition dot : bytes := [46].

(** filepath.Clean on a relative path (components already split): "" and "." vanish, ".." pops *)
Fixpoint clean_rev (comps : list bytes) (acc : list bytes) : list bytes :=
  match comps with
  | [] => acc
  | c :: t =>
    if beqb c [] || beqb c dot then clean_rev t acc
    else if beqb c dotdot then
      match acc with
      | p :: acc' => if beqb p dotdot then clean_rev t (c :: acc) else clean_rev t acc'
      | [] => clean_rev t [c]
      end
    else clean_rev t (c :: acc)
  end.
Definition clean (comps : list bytes) : list bytes := rev (clean_rev comps []).

Definition path := list bytes.   (* cleaned components *)
Fixpoint path_eqb (a b : path) : bool :=
  match a, b with
  | [], [] => true
  | x :: a', y :: b' => beqb x y && path_eqb a' b'
  | _, _ => false
  end.

Definition fsys := list (path * bytes).
Fixpoint fs_get (fs : fsys) (p : path) : option bytes :=
  match fs with
  | [] => None
  | (q, c) :: t => if path_eqb q p then Some c else fs_get t p
  end.

(** ** validate *)
Definition lower_first (s : bytes) : bytes :=
  match s with
  | c :: t => (if (65 <=? c) && (c <=? 90) then c + 32 else c) :: t
  | [] => []
  end.

Fixpoint has_dup (l : list bytes) : bool :=
  match l with
  | [] => false
  | x :: t => existsb (beqb x) t || has_dup t
  end.
Fixpoint has_dup_z (l : list Z) : bool :=
  match l with
  | [] => false
  | x :: t => existsb (Z.eqb x) t || has_dup_z t
  end.

Definition s_bool := [98; 111; 111; 108]. Definition s_byte := [98; 121; 116; 101].
Definition s_i8 := [105; 56]. Definition s_i16 := [105; 49; 54]. Definition s_i32 := [105; 51; 50].
Definition s_i64 := [105; 54; 52]. Definition s_double := [100; 111; 117; 98; 108; 101].
Definition s_string := [115; 116; 114; 105; 110; 103]. Definition s_binary := [98; 105; 110; 97; 114; 121].
Definition s_list := [108; 105; 115; 116]. Definition s_set := [115; 101; 116]. Definition s_map := [109; 97; 112].
Definition s_vendor := [118; 101; 110; 100; 111; 114].
Definition base_types : list bytes := [s_bool; s_byte; s_i8; s_i16; s_i32; s_i64; s_double; s_string; s_binary].

(** a parsed file with its resolved includes *)
Inductive ftree := FTree (name : bytes) (f : frugal) (incs : list (bytes * ftree)).
Definition ft_frugal (t : ftree) : frugal := match t with FTree _ f _ => f end.

Fixpoint inc_get (incs : list (bytes * ftree)) (k : bytes) : option ftree :=
  match incs with
  | [] => None
  | (k', t) :: r => if beqb k' k then Some t else inc_get r k
  end.

Definition type_names (f : frugal) : list bytes :=
  map s_name (fr_structs f) ++ map s_name (fr_unions f) ++ map s_name (fr_exceptions f)
  ++ map en_name (fr_enums f) ++ map td_name (fr_typedefs f).

(** split at the first '.' *)
Definition include_part (n : bytes) : bytes := if contains_byte 46 n then take_until_eq 46 n else [].
Definition param_part (n : bytes) : bytes :=
  if contains_byte 46 n then skipn (S (length (take_until_eq 46 n))) n else n.

(** isValidType: Some b (a bare container name, whose element type is nil, is invalid since the
    repair of the nil dereference; the option is kept so that a reintroduced panic is expressible) *)
Fixpoint valid_type (f : frugal) (incs : list (bytes * ftree)) (t : ptype) : option bool :=
  match t with
  | PType n k v _ =>
    if existsb (beqb n) base_types then Some true
    else if beqb n s_list || beqb n s_set then
      match v with Some vt => valid_type f incs vt | None => Some false end
    else if beqb n s_map then
      match k, v with
      | Some kt, Some vt =>
        match valid_type f incs kt with
        | Some true => valid_type f incs vt
        | other => other
        end
      | _, _ => Some false
      end
    else
      let inc := include_part n in
      let pn := param_part n in
      match (if beqb inc [] then Some f else option_map ft_frugal (inc_get incs inc)) with
      | None => Some false
      | Some fr => Some (existsb (beqb pn) (type_names fr))
      end
  end.

Inductive vres := VOk | VErr | VPanic.
Definition vand (a : vres) (b : unit -> vres) : vres := match a with VOk => b tt | other => other end.
Definition of_bool (b : bool) : vres := if b then VOk else VErr.
Definition of_type (o : option bool) : vres := match o with Some true => VOk | Some false => VErr | None => VPanic end.
Fixpoint vall {X} (p : X -> vres) (l : list X) : vres :=
  match l with [] => VOk | x :: t => vand (p x) (fun _ => vall p t) end.

Definition has_ann (name : bytes) (a : annotations) : bool := existsb (fun p => beqb (fst p) name) a.

Definition has_enum_value (f : frugal) (en vn : bytes) : bool :=
  existsb (fun e => beqb en (en_name e) && existsb (fun v => beqb vn (ev_name v)) (en_values e)) (fr_enums f).

Definition validate_constant (f : frugal) (incs : list (bytes * ftree)) (c : constant) : vres :=
  vand (of_type (valid_type f incs (c_type c))) (fun _ =>
    match c_value c with
    | CIdent name =>
      let pieces := split_on 46 name [] in
      match pieces with
      | [_] => of_bool (existsb (fun x => beqb name (c_name x)) (fr_constants f))
      | [inc; pn] =>
        (* a value of an enum of this file, else a constant of this file / an include *)
        if has_enum_value f inc pn then VOk else
        match (if beqb inc [] then Some f else option_map ft_frugal (inc_get incs inc)) with
        | None => VErr
        | Some fr => of_bool (existsb (fun x => beqb pn (c_name x)) (fr_constants fr))
        end
      | [inc; en; vn] =>
        (* a value of an enum of an include *)
        match option_map ft_frugal (inc_get incs inc) with
        | Some fr => of_bool (has_enum_value fr en vn)
        | None => VErr
        end
      | _ => VErr
      end
    | _ => VOk
    end).

(** validateTypedefs' circularity check: repeatedly mark the typedefs defined in terms of marked
    typedefs only (typedefIndex: the last declaration of a name wins) *)
Fixpoint td_lookup (tds : list typedef) (n : bytes) : option typedef :=
  match tds with
  | [] => None
  | t :: r => match td_lookup r n with
              | Some x => Some x
              | None => if beqb (td_name t) n then Some t else None
              end
  end.
Fixpoint tds_resolved (f : frugal) (resolved : list bytes) (t : ptype) : bool :=
  match t with
  | PType n k v _ =>
    if (match td_lookup (fr_typedefs f) n with Some _ => true | None => false end)
       && negb (existsb (beqb n) resolved)
    then false
    else (match k with Some kt => tds_resolved f resolved kt | None => true end)
         && (match v with Some vt => tds_resolved f resolved vt | None => true end)
  end.
Definition mark_pass (f : frugal) (resolved : list bytes) : list bytes :=
  fold_left (fun res td =>
               if existsb (beqb (td_name td)) res then res else
               match td_lookup (fr_typedefs f) (td_name td) with
               | Some t0 => if tds_resolved f res (td_type t0) then td_name td :: res else res
               | None => res
               end) (fr_typedefs f) resolved.
Definition typedefs_acyclic (f : frugal) : bool :=
  let resolved := Nat.iter (S (length (fr_typedefs f))) (mark_pass f) [] in
  forallb (fun td => existsb (beqb (td_name td)) resolved) (fr_typedefs f).

Definition validate_struct (f : frugal) (incs : list (bytes * ftree)) (s : struct) : vres :=
  (* field by field: type first, then the duplicate-id check against the earlier fields *)
  (fix go (fs : list field) (seen : list Z) : vres :=
     match fs with
     | [] => VOk
     | x :: t =>
       vand (of_type (valid_type f incs (f_type x))) (fun _ =>
         if existsb (Z.eqb (f_id x)) seen then VErr else go t (f_id x :: seen))
     end) (s_fields s) [].

Definition validate_service (f : frugal) (incs : list (bytes * ftree)) (s : service) : vres :=
  vand (vall (fun m =>
          vand (match m_return m with Some t => of_type (valid_type f incs t) | None => VOk end) (fun _ =>
          vand (vall (fun a => of_type (valid_type f incs (f_type a))) (m_args m)) (fun _ =>
                vall (fun a => of_type (valid_type f incs (f_type a))) (m_throws m))))
          (sv_methods s)) (fun _ =>
        vall (fun m =>
          vand (of_bool (negb (m_oneway m && (match m_throws m with [] => false | _ => true end)))) (fun _ =>
          vand (of_bool (negb (m_oneway m && (match m_return m with Some _ => true | None => false end)))) (fun _ =>
                of_bool (negb (has_dup_z (map f_id (m_args m)))))))
          (sv_methods s)).

(** validateScopes / validateScopeTypes: a prefix names each variable once (the variables become the
    parameters of the generated publish / subscribe methods; C11-K12, repaired), then the
    operation types.  [validate_scopes_pinned] is the code before the repair. *)
Definition validate_scope (f : frugal) (incs : list (bytes * ftree)) (s : scope) : vres :=
  vand (of_bool (negb (has_dup (p_vars (sc_prefix s))))) (fun _ =>
        vall (fun o => of_type (valid_type f incs (o_type o))) (sc_ops s)).
Definition validate_scopes (f : frugal) (incs : list (bytes * ftree)) : vres :=
  vall (validate_scope f incs) (fr_scopes f).
Definition validate_scopes_pinned (f : frugal) (incs : list (bytes * ftree)) : vres :=
  vall (fun s => vall (fun o => of_type (valid_type f incs (o_type o))) (sc_ops s)) (fr_scopes f).

Definition validate (f : frugal) (incs : list (bytes * ftree)) : vres :=
  vand (of_bool (negb (has_dup (map (fun s => lower_first (sv_name s)) (fr_services f))))) (fun _ =>
  vand (vall (fun s => of_bool (negb (has_dup (map (fun m => lower_first (m_name m)) (sv_methods s))))) (fr_services f)) (fun _ =>
  vand (of_bool (negb (has_dup (map (fun s => lower_first (sc_name s)) (fr_scopes f))))) (fun _ =>
  vand (vall (fun s => of_bool (negb (has_dup (map (fun o => lower_first (o_name o)) (sc_ops s))))) (fr_scopes f)) (fun _ =>
  vand (vall (fun n => of_bool (negb (beqb (n_scope n) [42] && has_ann s_vendor (n_anns n)))) (fr_namespaces f)) (fun _ =>
  vand (of_bool (negb (has_dup (map i_name (fr_includes f))))) (fun _ =>
  vand (vall (validate_constant f incs) (fr_constants f)) (fun _ =>
  vand (vall (fun t => of_type (valid_type f incs (td_type t))) (fr_typedefs f)) (fun _ =>
  vand (of_bool (typedefs_acyclic f)) (fun _ =>
  vand (vall (validate_struct f incs) (fr_structs f)) (fun _ =>
  vand (vall (validate_struct f incs) (fr_unions f)) (fun _ =>
  vand (vall (validate_struct f incs) (fr_exceptions f)) (fun _ =>
  vand (vall (validate_service f incs) (fr_services f)) (fun _ =>
        validate_scopes f incs))))))))))))).

(** ** sort.Sort(scopesByName): names are pairwise distinct after validate, so any sort agrees *)
Fixpoint bytes_ltb (a b : bytes) : bool :=
  match a, b with
  | [], [] => false
  | [], _ :: _ => true
  | _ :: _, [] => false
  | x :: a', y :: b' => if x <? y then true else if y <? x then false else bytes_ltb a' b'
  end.
Fixpoint insert_scope (s : scope) (l : list scope) : list scope :=
  match l with
  | [] => [s]
  | q :: l' => if bytes_ltb (sc_name q) (sc_name s) then q :: insert_scope s l' else s :: l
  end.
Definition sort_scopes (l : list scope) : list scope := fold_right insert_scope [] l.

Definition with_scopes (f : frugal) (sc : list scope) : frugal :=
  mkfrugal (fr_includes f) (fr_namespaces f) (fr_typedefs f) (fr_constants f) (fr_enums f)
           (fr_structs f) (fr_exceptions f) (fr_unions f) (fr_services f) sc.

(** ** parseFrugal *)
Inductive fres := FOk (t : ftree) | FErr | FPanic.

Definition dot_thrift : bytes := [46; 116; 104; 114; 105; 102; 116].
Definition dot_frugal : bytes := [46; 102; 114; 117; 103; 97; 108].

(** insertion into the ParsedIncludes map (a later include with the same key replaces the earlier) *)
Fixpoint inc_put (incs : list (bytes * ftree)) (k : bytes) (t : ftree) : list (bytes * ftree) :=
  match incs with
  | [] => [(k, t)]
  | (k', t') :: r => if beqb k' k then (k, t) :: r else (k', t') :: inc_put r k t
  end.

Fixpoint parse_frugal (fuel : nat) (fs : fsys) (p : path) (visited : list bytes) : fres :=
  match fuel with
  | O => FErr
  | S fuel' =>
    match fs_get fs p with
    | None => FErr                                   (* os.Open fails *)
    | Some content =>
      match split_on 46 (last p []) [] with
      | [name; _] =>                                (* getName: exactly one '.' in the base name *)
        if existsb (beqb name) visited then FErr    (* circular include *)
        else
          match parse_idl content with
          | POk f =>
            let dir := removelast p in
            let fix includes (l : list include) (acc : list (bytes * ftree)) : fres + list (bytes * ftree) :=
                match l with
                | [] => inr acc
                | i :: t =>
                  let v := i_value i in
                  if negb (has_suffix dot_thrift v || has_suffix dot_frugal v) then inl FErr
                  else
                    match parse_frugal fuel' fs (clean (dir ++ split_on 47 v [])) (visited ++ [name]) with
                    | FOk sub =>
                      let key := filepath_base (firstn (length v - 7) v) in
                      includes t (inc_put acc key sub)
                    | FErr => inl FErr
                    | FPanic => inl FPanic
                    end
                end in
            match includes (fr_includes f) [] with
            | inl e => e
            | inr incs =>
              match validate f incs with
              | VOk => FOk (FTree name (with_scopes f (sort_scopes (fr_scopes f))) incs)
              | VErr => FErr
              | VPanic => FPanic
              end
            end
          | _ => FErr
          end
      | _ => FErr
      end
    end
  end.

Definition parse_program (fs : fsys) (root : path) : fres := parse_frugal (S (length fs)) fs root [].
