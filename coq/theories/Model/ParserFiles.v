(** Model of parser.ParseFrugal (compiler/parser/parser.go:49-110) over an abstract file system of
    program TEXTS, as the C10 judge replays it: ok (with the tree) / error / panic.

    There is ONE transcription of [Frugal.validate] and of [parseFrugal] in this tree:
    [cvalidate] / [cparse] of Model/CompilerValidate.v (every diagnostic byte for byte, fuel for the
    loops without a syntactic bound; C11).  The definitions here are thin views of it:

      [validate f incs]        = [cvalidate (validate_fuel f incs) f incs] with the diagnostic text
                                 forgotten (VOk iff ROk, VErr iff RErr _, VPanic iff RPanic,
                                 VFuel iff RFuel);
      [parse_program fs root]  = [cparse_program] on the file system in which every text has been
                                 replaced by what the PEG parser ([parse_idl], Model/Parser.v) makes
                                 of it, with the diagnostic text forgotten.

    Out-of-fuel is kept apart from error ([VFuel], [FFuel]; the judge counts it as a mismatch, never
    as agreement); Proofs/ParserFilesProofs.v shows it does not arise on file systems whose names
    are what the grammar can produce.  A text on which the PEG interpreter itself gives no verdict
    ([PWeird], [PNoFuel]: Proofs/ParserProofs.v shows the second never happens) makes the whole
    program [FFuel].  The cache of parseFrugal is not modelled: parsing is a function of the file
    contents, so a cache hit returns exactly what re-parsing returns (and the circular-include
    check runs before the cache lookup).  Paths are relative to the directory of the root file and
    must not climb above it.  Executable definitions only. *)
From Coq Require Import ZArith List Bool.
From FV Require Import Model.Peg Model.ParserStrings Model.ParserAst Model.ParserActions Model.Parser.
From FV Require Export Model.ParserFsys.
From FV Require Model.CompilerTotal Model.CompilerValidate.
Import ListNotations.
Open Scope Z_scope.

(** ** validate *)
Inductive vres := VOk | VErr | VPanic | VFuel.
Definition vres_of (r : CompilerValidate.vr) : vres :=
  match r with
  | CompilerValidate.ROk => VOk
  | CompilerValidate.RErr _ => VErr
  | CompilerValidate.RPanic => VPanic
  | CompilerValidate.RFuel => VFuel
  end.

Definition validate (f : frugal) (incs : list (bytes * ftree)) : vres :=
  vres_of (CompilerValidate.cvalidate (CompilerValidate.validate_fuel f incs) f incs).

(** ** parseFrugal *)
Inductive fres := FOk (t : ftree) | FErr | FPanic | FFuel.
Definition fres_of (r : CompilerValidate.pres) : fres :=
  match r with
  | CompilerValidate.POk t => FOk t
  | CompilerValidate.PErr _ => FErr
  | CompilerValidate.PPanic => FPanic
  | CompilerValidate.PFuel => FFuel
  end.

(** what the PEG parser makes of one text (the text of a syntax error is not part of this view) *)
Definition parsed_entry (content : bytes) : option CompilerValidate.fentry :=
  match parse_idl content with
  | POk f => Some (CompilerValidate.FParsed f)
  | PErr _ => Some (CompilerValidate.FSyntax [])
  | PWeird | PNoFuel => None
  end.
Fixpoint parsed_fs (fs : fsys) : option CompilerValidate.pfs :=
  match fs with
  | [] => Some []
  | (p, c) :: t =>
    match parsed_entry c, parsed_fs t with
    | Some e, Some t' => Some ((p, e) :: t')
    | _, _ => None
    end
  end.

(** the names the grammar guarantees (Identifier is not empty; a type name does not start with a
    dot): the hypothesis of the totality theorems, decidable, checked by the judge on every program *)
Definition nonempty (b : bytes) : bool := match b with [] => false | _ :: _ => true end.
Definition file_names_okb (f : frugal) : bool :=
  forallb (fun s => nonempty (sv_name s) && forallb (fun m => nonempty (m_name m)) (sv_methods s)) (fr_services f)
  && forallb (fun s => nonempty (sc_name s) && forallb (fun o => nonempty (o_name o)) (sc_ops s)) (fr_scopes f)
  && forallb (fun td => CompilerTotal.name_ok (CompilerValidate.type_name (td_type td))) (fr_typedefs f).
Definition pfs_names_okb (pfs : CompilerValidate.pfs) : bool :=
  forallb (fun e => match snd e with
                    | CompilerValidate.FParsed f => file_names_okb f
                    | CompilerValidate.FSyntax _ => true
                    end) pfs.

(** one pass: whether every parsed file has grammatical names, and the answer with its diagnostic
    (the judge reads the class of the error off it for its branch tag); None = the PEG interpreter
    gave no verdict on some text *)
Definition parse_program_checked (fs : fsys) (root : path) : option (bool * CompilerValidate.pres) :=
  match parsed_fs fs with
  | Some pfs => Some (pfs_names_okb pfs, CompilerValidate.cparse_program pfs root)
  | None => None
  end.

Definition parse_program (fs : fsys) (root : path) : fres :=
  match parse_program_checked fs root with
  | Some (_, r) => fres_of r
  | None => FFuel
  end.
