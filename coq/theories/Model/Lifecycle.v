(** Adapter transport lifecycle (C15): lib/go/adapter_transport.go (Open, readLoop, readFrame,
    close), lib/go/framed_transport.go (frame header / body reads and their error wrapping),
    lib/go/transport_monitor.go (BaseFTransportMonitor, monitorRunner).

    Executable definitions only.  Interleaving small-step semantics: [step v pol s e] is
    [None] when the event is not enabled in [s] (a goroutine that is not at that point, or a
    goroutine blocked on a channel send), otherwise the next state and the observable effect of
    the step as a vector of integers (what the harness records for the same step).

    Two variants of the code are described by one definition:
      [Pinned] - the tree as found: one close-signal channel for the life of the transport;
      [Fixed]  - after "fix: adapter transport gives every Open its own close signal":
                 the channel is created by Open, handed to the read loop, and a read loop
                 whose connection is no longer the current one cannot close the transport.

    Goroutines are cut where they touch shared state.  Read loop of generation g:
      LReading buf   blocked in Read on the underlying transport; [buf] = bytes received and not
                     yet consumed by a complete frame
      LSawErr c      readFrame returned an error, classified as cause [c] (0 = EOF class);
                     next: the non-blocking receive on the close signal
      LAtClose c l   about to call close(signal, c)   (l: 2 EOF branch, 3 error branch,
                     4 registry.Execute error branch - that one does not look at the signal)
      LExited
    Open / Close / IsOpen / close() run under the transport's mutex and are atomic steps; the
    only blocking operation inside the mutex is the send on the close signal: when the channel
    is full the step is disabled (and, in the code, the mutex stays held). *)
From Coq Require Import ZArith List Bool Lia.
From FV Require Import Base.Res Base.Bytes Base.GoSem Model.Headers.
Import ListNotations.
Open Scope Z_scope.

(** ** frames: TFramedTransport.readFrameHeader / fAdapterTransport.readFrame / registry.Execute *)

Definition max_frame : Z := 16384000.            (* defaultMaxLength *)

Definition opid_key : bytes := [95; 111; 112; 105; 100].   (* "_opid" *)

(** strconv.ParseUint(s, 10, 64): one or more decimal digits, value below 2^64 *)
Fixpoint parse_digits (s : bytes) (acc : Z) : option Z :=
  match s with
  | [] => Some acc
  | c :: r => if (48 <=? c) && (c <=? 57) then parse_digits r (acc * 10 + (c - 48)) else None
  end.
Definition parse_uint64 (s : bytes) : option Z :=
  match s with
  | [] => None
  | _ => match parse_digits s 0 with
         | Some v => if v <? 18446744073709551616 then Some v else None
         | None => None
         end
  end.

(** registry.Execute(frame) returns nil iff the headers parse and headers["_opid"] is a uint64
    (no context is registered in these histories, so dispatch finds nothing and returns nil) *)
Definition exec_ok (frame : bytes) : bool :=
  match get_headers_from_frame frame with
  | Ok l => match parse_uint64 (match lookup opid_key l with Some v => v | None => [] end) with
            | Some _ => true
            | None => false
            end
  | _ => false
  end.

Inductive dres := NeedMore | BadSize | ExecFail.

(** what the read loop does with the bytes it has: complete frames are handed to the registry in
    order (length, verdict); it stops at an incomplete frame, at a size field above the
    maximum, or at the first frame the registry rejects *)
Fixpoint drain (fuel : nat) (buf : bytes) (acc : list (Z * bool)) : list (Z * bool) * bytes * dres :=
  match fuel with
  | O => (rev acc, buf, NeedMore)
  | S f =>
    if zlen buf <? 4 then (rev acc, buf, NeedMore) else
    let size := un_be32 (take 4 buf) in
    if max_frame <? size then (rev acc, buf, BadSize) else
    if zlen buf <? 4 + size then (rev acc, buf, NeedMore) else
    let frame := sub buf 4 (4 + size) in
    let rest := drop (Z.to_nat (4 + size)) buf in
    if exec_ok frame then drain f rest ((size, true) :: acc)
    else (rev ((size, false) :: acc), rest, ExecFail)
  end.
Definition drain_buf (buf : bytes) := drain (S (length buf)) buf [].

(** errors the underlying transport's Read can return *)
Inductive rkind :=
| EofRaw              (* io.EOF *)
| EofTte              (* TTransportException of type END_OF_FILE (what thrift's own sockets return) *)
| ErrRaw (tag : Z)    (* any other error value *)
| ErrTte (tag : Z)    (* a TTransportException of another type *)
| ClosedErr.          (* the error a blocked Read gets when the transport is closed under it *)

(** cause codes: 0 nil, 1 io.EOF, 2 io.ErrUnexpectedEOF, 3 "incorrect frame size", 4 Execute error,
    5 closed-under-read, 6 "end of stream inside a frame" (made by the read loop),
    1000+10*tag+{0 the raw error itself, 1 the raw error wrapped by
    NewTTransportExceptionFromError, 2 the scripted TTransportException}.

    [classify n k]: the cause the read loop derives from error [k] when [n] bytes of the
    current frame (header included) have arrived.  n < 4: the error comes out of
    io.ReadFull(bufio, header) unwrapped (io.EOF after 1..3 bytes becomes
    io.ErrUnexpectedEOF); n >= 4: it comes out of TFramedTransport.Read, wrapped by
    NewTTransportExceptionFromError, which turns io.EOF into END_OF_FILE.  The read loop counts
    the bytes the underlying transport delivered and the bytes complete frames account for
    (n is the difference): END_OF_FILE with n = 0 is "peer disconnected" and closes with a nil
    cause; END_OF_FILE with n > 0 is replaced by error 6 (since "fix: adapter transport reports
    an END_OF_FILE that arrives inside a frame as an unclean close"). *)
Definition classify (n : Z) (k : rkind) : Z :=
  let body := 4 <=? n in
  match k with
  | EofTte => if n =? 0 then 0 else 6
  | EofRaw => if body then 6 else if n =? 0 then 1 else 2
  | ErrRaw t => 1000 + 10 * t + (if body then 1 else 0)
  | ErrTte t => 1000 + 10 * t + 2
  | ClosedErr => 5
  end.

(** the classification before that repair (known finding C15-eof-inside-frame-clean): every
    END_OF_FILE was taken for a disconnect, wherever in a frame it arrived *)
Definition classify_pinned (n : Z) (k : rkind) : Z :=
  let body := 4 <=? n in
  match k with
  | EofTte => 0
  | EofRaw => if body then 0 else if n =? 0 then 1 else 2
  | ErrRaw t => 1000 + 10 * t + (if body then 1 else 0)
  | ErrTte t => 1000 + 10 * t + 2
  | ClosedErr => 5
  end.

(** ** state *)

Inductive variant := Pinned | Fixed.

Inductive lstate := LNone | LReading (buf : bytes) | LSawErr (c : Z) | LAtClose (c : Z) (l : Z) | LExited.

Inductive mstate := MIdle | MWait (prev : Z) (w : Z) | MDone.

Record policy := { p_max : Z; p_init : Z; p_maxw : Z }.   (* BaseFTransportMonitor *)

Record st := {
  is_open : bool;                 (* f.isOpen *)
  under : bool;                   (* underlying transport open *)
  gen : nat;                      (* successful Opens so far = identity of the current closeSignal / closeChan *)
  sig : nat -> bool;              (* token waiting in the close signal of generation g (Pinned: index 0 only) *)
  loops : nat -> lstate;
  pub : nat -> list Z;            (* causes sent on the Closed() channel of generation g (then the channel is closed) *)
  mon_set : bool;                 (* SetMonitor was called before the history *)
  mon_sig : option Z;             (* monitorCloseSignal, capacity 1 *)
  mon : mstate;
  closes : list Z;                (* ghost: causes of all successful closes *)
  handled : list Z                (* ghost: causes the monitor runner has received *)
}.

Definition upd {A} (f : nat -> A) (k : nat) (v : A) : nat -> A :=
  fun x => if Nat.eqb x k then v else f x.

Definition init (monitor preopen : bool) : st :=
  {| is_open := false; under := preopen; gen := 0; sig := fun _ => false; loops := fun _ => LNone;
     pub := fun _ => []; mon_set := monitor; mon_sig := None; mon := MIdle; closes := []; handled := [] |}.

Definition sigidx (v : variant) (g : nat) : nat := match v with Pinned => O | Fixed => g end.

(** ** events *)

Inductive ev :=
| EOpen (a : Z)                 (* Open(); a = answer of the underlying Open: 0 not asked, 1 ok, 2 error, 3 ALREADY_OPEN *)
| EClose (a : Z)                (* Close(); a = answer of the underlying Close: 0 not asked, 1 ok, 2 error *)
| EIsOpen
| EFeed (g : nat) (b : bytes)   (* the blocked Read of loop g returns these bytes *)
| EReadErr (g : nat) (k : rkind)(* the blocked Read of loop g returns an error *)
| ELoop (g : nat) (a : Z)       (* loop g takes its next step; a = answer of the underlying Close if asked *)
| EMonRecv                      (* the monitor runner receives a close notification and calls OnClosed... *)
| EMon (a : Z).                 (* the runner sleeps, calls Open() (a as in EOpen), then OnReopenFailed/Succeeded *)

(** ** Open (adapter_transport.go:65-84) *)
(** the state after a successful Open *)
Definition opened (v : variant) (s : st) : st :=
  let g := S (gen s) in
  {| is_open := true; under := true; gen := g;
     sig := match v with Pinned => sig s | Fixed => upd (sig s) g false end;
     loops := upd (loops s) g (LReading []);
     pub := upd (pub s) g [];
     mon_set := mon_set s; mon_sig := mon_sig s; mon := mon s; closes := closes s; handled := handled s |}.

(** code: 0 ok, 1 ALREADY_OPEN, 3 the underlying transport's error *)
Definition open_step (v : variant) (a : Z) (s : st) : option (st * Z) :=
  if is_open s then (if a =? 0 then Some (s, 1) else None)
  else if under s then (if a =? 3 then Some (opened v s, 0) else None)   (* underlying says ALREADY_OPEN: tolerated *)
  else if a =? 1 then Some (opened v s, 0)
  else if a =? 2 then Some (s, 3)
  else None.

(** ** close(signal, cause) (adapter_transport.go:144-185); [who] = generation of the calling read
    loop, None for Close().  Result: code 0 ok / 2 NOT_OPEN / 3 underlying Close failed. *)
Definition wake (l : lstate) : lstate :=
  match l with LReading _ => LSawErr (classify 0 ClosedErr) | x => x end.

Definition closed_state (v : variant) (c : Z) (s : st) : st :=
  {| is_open := false; under := false; gen := gen s;
     sig := upd (sig s) (sigidx v (gen s)) true;
     loops := fun g => wake (loops s g);           (* a Read blocked on the closed connection fails *)
     pub := upd (pub s) (gen s) (pub s (gen s) ++ [c]);
     mon_set := mon_set s;
     mon_sig := match mon_sig s with
                | Some x => Some x                                   (* channel full: dropped *)
                | None => if mon_set s then Some c else None
                end;
     mon := mon s;
     closes := closes s ++ [c]; handled := handled s |}.

Definition stale (v : variant) (who : option nat) (s : st) : bool :=
  match v, who with
  | Fixed, Some g => negb (Nat.eqb g (gen s))
  | _, _ => false
  end.

Definition close_step (v : variant) (who : option nat) (c : Z) (a : Z) (s : st) : option (st * Z * list Z) :=
  if negb (is_open s) || stale v who s then (if a =? 0 then Some (s, 2, []) else None)
  else if sig s (sigidx v (gen s)) then None                 (* f.closeSignal <- struct{}{} blocks, mutex held *)
  else if a =? 2 then Some (s, 3, [])                        (* token sent, Close failed, token drained *)
  else if a =? 1 then Some (closed_state v c s, 0, [Z.of_nat (gen s); c])
  else None.

Definition set_loop (s : st) (g : nat) (l : lstate) : st :=
  {| is_open := is_open s; under := under s; gen := gen s; sig := sig s; loops := upd (loops s) g l;
     pub := pub s; mon_set := mon_set s; mon_sig := mon_sig s; mon := mon s;
     closes := closes s; handled := handled s |}.
Definition set_sig (s : st) (i : nat) (b : bool) : st :=
  {| is_open := is_open s; under := under s; gen := gen s; sig := upd (sig s) i b; loops := loops s;
     pub := pub s; mon_set := mon_set s; mon_sig := mon_sig s; mon := mon s;
     closes := closes s; handled := handled s |}.
Definition set_mon (s : st) (ms : option Z) (m : mstate) (h : list Z) : st :=
  {| is_open := is_open s; under := under s; gen := gen s; sig := sig s; loops := loops s;
     pub := pub s; mon_set := mon_set s; mon_sig := ms; mon := m;
     closes := closes s; handled := h |}.

Definition lstatus (l : lstate) : Z :=
  match l with LNone => -1 | LReading _ => 0 | LSawErr _ => 1 | LAtClose _ l => l | LExited => 5 end.

Fixpoint flat_execs (l : list (Z * bool)) : list Z :=
  match l with
  | [] => []
  | (n, ok) :: r => n :: (if ok then 1 else 0) :: flat_execs r
  end.

Definition b2z (b : bool) : Z := if b then 1 else 0.

(** BaseFTransportMonitor.OnReopenFailed *)
Definition on_reopen_failed (pol : policy) (prev w : Z) : bool * Z :=
  if p_max pol <=? prev then (false, 0) else (true, Z.min (2 * w) (p_maxw pol)).
(** BaseFTransportMonitor.OnClosedUncleanly: the first wait is InitialWait as it stands *)
Definition on_closed_uncleanly (pol : policy) : bool * Z := (0 <? p_max pol, p_init pol).

(** ** the step function *)
Definition step (v : variant) (pol : policy) (s : st) (e : ev) : option (st * list Z) :=
  match e with
  | EOpen a =>
    match open_step v a s with Some (s', code) => Some (s', [code]) | None => None end
  | EClose a =>
    match close_step v None 0 a s with Some (s', code, p) => Some (s', code :: p) | None => None end
  | EIsOpen => Some (s, [b2z (is_open s && under s)])
  | EFeed g b =>
    match loops s g with
    | LReading buf =>
      match drain_buf (buf ++ b) with
      | (ex, rest, NeedMore) => Some (set_loop s g (LReading rest), 0 :: zlen ex :: flat_execs ex)
      | (ex, rest, BadSize) => Some (set_loop s g (LSawErr 3), 1 :: zlen ex :: flat_execs ex)
      | (ex, rest, ExecFail) => Some (set_loop s g (LAtClose 4 4), 4 :: zlen ex :: flat_execs ex)
      end
    | _ => None
    end
  | EReadErr g k =>
    match loops s g with
    | LReading buf => Some (set_loop s g (LSawErr (classify (zlen buf) k)), [1])
    | _ => None
    end
  | ELoop g a =>
    match loops s g with
    | LSawErr c =>
      if a =? 0 then
        if sig s (sigidx v g)
        then Some (set_loop (set_sig s (sigidx v g) false) g LExited, [5])      (* "transport was closed" *)
        else let l := if c =? 0 then 2 else 3 in Some (set_loop s g (LAtClose c l), [l])
      else None
    | LAtClose c _ =>
      match close_step v (Some g) c a s with
      | Some (s', _, p) => Some (set_loop s' g LExited, 5 :: p)     (* the loop returns whatever close says *)
      | None => None
      end
    | _ => None
    end
  | EMonRecv =>
    if mon_set s then
      match mon s, mon_sig s with
      | MIdle, Some c =>
        if c =? 0 then Some (set_mon s None MDone (handled s ++ [c]), [1; 0; 0; 0])     (* OnClosedCleanly; runner ends *)
        else let '(reopen, w) := on_closed_uncleanly pol in
             Some (set_mon s None (if reopen then MWait 0 w else MDone) (handled s ++ [c]), [2; c; b2z reopen; w])
      | _, _ => None
      end
    else None
  | EMon a =>
    if mon_set s then
      match mon s with
      | MWait prev w =>
        match open_step v a s with
        | Some (s', 0) => Some (set_mon s' (mon_sig s') MIdle (handled s'), [4; 0; 0; 0; 0])   (* OnReopenSucceeded *)
        | Some (s', _) =>
          let '(reopen, w') := on_reopen_failed pol (prev + 1) w in
          Some (set_mon s' (mon_sig s') (if reopen then MWait (prev + 1) w' else MDone) (handled s'),
                [3; prev + 1; w; b2z reopen; w'])
        | None => None
        end
      | _ => None
      end
    else None
  end.

(** what can be seen of a state from outside: internal flag, IsOpen(), tokens in the current
    close signal, generation *)
Definition snap (v : variant) (s : st) : list Z :=
  [b2z (is_open s); b2z (is_open s && under s); b2z (sig s (sigidx v (gen s))); Z.of_nat (gen s)].

Fixpoint run (v : variant) (pol : policy) (s : st) (tr : list ev) : option st :=
  match tr with
  | [] => Some s
  | e :: tr' => match step v pol s e with Some (s', _) => run v pol s' tr' | None => None end
  end.

(** the discipline under which the monitor is the one who reopens: the user does not call
    Open() while a close notification is waiting for, or being handled by, a live monitor *)
Definition polite (s : st) (e : ev) : bool :=
  match e with
  | EOpen _ => negb (mon_set s) ||
               match mon s, mon_sig s with
               | MIdle, None => true
               | MDone, _ => true
               | _, _ => false
               end
  | _ => true
  end.
Fixpoint run_polite (v : variant) (pol : policy) (s : st) (tr : list ev) : option st :=
  match tr with
  | [] => Some s
  | e :: tr' => if polite s e then
                  match step v pol s e with Some (s', _) => run_polite v pol s' tr' | None => None end
                else None
  end.

(** no underlying Close failure while a read loop is the one closing *)
Definition loop_close_ok (e : ev) : bool :=
  match e with ELoop _ a => negb (a =? 2) | _ => true end.
