(** C12 — size limits.  Executable model of
      lib/go/bounded_memory_buffer.go   (TMemoryOutputBuffer: Write / WriteString / WriteByte / Reset / Bytes / HasWriteData)
      lib/go/client.go                  (prepareMessage, Call, Publish, processReply's exception mapping)
      lib/go/protocol.go                (writeHeader: one Write of the marshalled header block)
      lib/go/processor.go               (SendReply / trapError / sendError)
      lib/go/nats_transport.go, nats_server.go, nats_scope_transport.go, http_transport.go, stomp_transport.go
                                        (the transports' own size checks, the HTTP handler's payload-limit check)
    as repaired by the fix: commits of this property (see the report).  The model works on
    SIZES: a message is the sequence of transport-level write operations its protocol encoder
    issues (which method, how many bytes); message contents never influence a size decision in
    the code.  No proofs in this file. *)
From Coq Require Import ZArith List Bool.
Import ListNotations.
Open Scope Z_scope.

(** * Transport-level write operations (thrift.TRichTransport) *)
Inductive op :=
| W (n : Z)     (* Write(buf), len(buf) = n *)
| WS (n : Z)    (* WriteString(s), len(s) = n *)
| WB.           (* WriteByte(c) *)

Definition op_size (o : op) : Z := match o with W n | WS n => n | WB => 1 end.
Definition ops_size (l : list op) : Z := fold_right (fun o a => op_size o + a) 0 l.
Definition op_nonneg (o : op) : Prop := 0 <= op_size o.
Definition ops_nonneg (l : list op) : Prop := Forall op_nonneg l.

(** * TMemoryOutputBuffer.  [limit] is the uint limit (0 = unbounded); [len] is Len(), which
    includes the 4-byte frame-size placeholder written by the constructor and by Reset. *)
Record buf := mkbuf { limit : Z; len : Z }.

Definition new_buf (l : Z) : buf := mkbuf l 4.          (* NewTMemoryOutputBuffer *)
Definition reset (b : buf) : buf := mkbuf (limit b) 4.  (* Reset *)

(** f.limit > 0 && uint(n + f.Len()) > f.limit *)
Definition exceeds (b : buf) (n : Z) : bool := (0 <? limit b) && (limit b <? n + len b).

(** Write, WriteString and WriteByte (all three carry the same check after the repair):
    either the bytes are appended, or the buffer is Reset and REQUEST_TOO_LARGE is returned. *)
Definition buf_op (b : buf) (o : op) : buf * bool :=
  if exceeds b (op_size o) then (reset b, false)
  else (mkbuf (limit b) (len b + op_size o), true).

(** The pinned (unrepaired) code: WriteString / WriteByte were promoted from bytes.Buffer and
    carried no check.  Kept only to state what the defect was. *)
Definition buf_op_pinned (b : buf) (o : op) : buf * bool :=
  match o with
  | W n => buf_op b o
  | _ => (mkbuf (limit b) (len b + op_size o), true)
  end.

(** Bytes(): the framed contents; its length, and the value put into the 4-byte prefix *)
Definition frame_len (b : buf) : Z := len b.
Definition frame_prefix (b : buf) : Z := len b - 4.
Definition has_write_data (b : buf) : bool := 4 <? len b.

(** A protocol call sequence stops at the first failing write (every Thrift writer returns the
    first error; prepareMessage / SendReply return it). *)
Fixpoint run_ops (b : buf) (ops : list op) : buf * bool :=
  match ops with
  | [] => (b, true)
  | o :: r => let '(b', ok) := buf_op b o in if ok then run_ops b' r else (b', false)
  end.

Fixpoint run_ops_pinned (b : buf) (ops : list op) : buf * bool :=
  match ops with
  | [] => (b, true)
  | o :: r => let '(b', ok) := buf_op_pinned b o in if ok then run_ops_pinned b' r else (b', false)
  end.

(** one buffer reused for many messages (Reset after each message that was taken out) *)
Fixpoint buffer_session (b : buf) (msgs : list (list op)) : list (option Z) :=
  match msgs with
  | [] => []
  | ops :: rest =>
    let '(b', ok) := run_ops b ops in
    (if ok then Some (frame_len b') else None) :: buffer_session (reset b') rest
  end.

(** the same message on a buffer of its own *)
Definition fresh_result (lim : Z) (ops : list op) : option Z :=
  let '(b', ok) := run_ops (new_buf lim) ops in if ok then Some (frame_len b') else None.

(** * Messages *)
(** [hdr]: length of the marshalled FContext header block (one Write, protocol.go writeHeader);
    [body]: the writes of WriteMessageBegin .. WriteMessageEnd, Flush. *)
Record msg := mkmsg { hdr : Z; body : list op }.
Definition msg_ok (m : msg) : Prop := 5 <= hdr m /\ ops_nonneg (body m).
(** the frame a message occupies on the wire: 4-byte size, headers, message *)
Definition framed_size (m : msg) : Z := 4 + hdr m + ops_size (body m).

(** client.go prepareMessage: [Some n] = a frame of n bytes, [None] = REQUEST_TOO_LARGE *)
Definition prepare (lim : Z) (m : msg) : option Z :=
  let '(b1, ok1) := buf_op (new_buf lim) (W (hdr m)) in
  if ok1 then
    let '(b2, ok2) := run_ops b1 (body m) in
    if ok2 then Some (frame_len b2) else None
  else None.

(** * Constants of the code (compared with the implementation by the judge) *)
Definition nats_max : Z := 1048576.                       (* natsMaxMessageSize *)
Definition transport_request_too_large : Z := 100.        (* TRANSPORT_EXCEPTION_REQUEST_TOO_LARGE *)
Definition transport_response_too_large : Z := 101.       (* TRANSPORT_EXCEPTION_RESPONSE_TOO_LARGE *)
Definition app_response_too_large_written : Z := 100.     (* processor.go trapError: APPLICATION_EXCEPTION_RESPONSE_TOO_LARGE *)
Definition app_response_too_large_mapped : Z := 100.      (* client.go processReply: the type id it converts *)

(** * Transports *)
Inductive transport :=
| TNats                                   (* fNatsTransport + fNatsServer *)
| THttp (reqlimit resplimit : Z).         (* fHTTPTransport + NewFrugalHandlerFunc; uint limits, 0 = none *)

(** FTransport.GetRequestSizeLimit — what FStandardClient uses as its buffer limit *)
Definition request_limit (t : transport) : Z :=
  match t with TNats => nats_max | THttp rl _ => rl end.

(** the transport's own check in Request / Oneway (true = passes) *)
Definition transport_check (t : transport) (framed : Z) : bool :=
  match t with
  | TNats => negb (nats_max <? framed)
  | THttp rl _ => negb ((0 <? rl) && (rl <? framed))
  end.

(** * Server side *)
(** What the handler's reply looks like, in writes:
    [rhdr]   marshalled response headers;
    [mhdr]   marshalled header block holding the op id only (sendError's fallback);
    [rbody]  WriteMessageBegin(REPLY) .. Flush of the normal reply;
    [ebody]  WriteMessageBegin(EXCEPTION) .. Flush of the RESPONSE_TOO_LARGE exception reply. *)
Record reply := mkreply { rhdr : Z; mhdr : Z; rbody : list op; ebody : list op }.
Definition reply_ok (r : reply) : Prop :=
  5 <= rhdr r /\ 5 <= mhdr r /\ ops_nonneg (rbody r) /\ ops_nonneg (ebody r).

Definition reply_size (r : reply) : Z := 4 + rhdr r + ops_size (rbody r).

(** what sits in the server's output buffer when processing ends *)
Inductive frame_kind :=
| FReply          (* the complete normal reply *)
| FTooLarge.      (* a complete RESPONSE_TOO_LARGE exception message *)

(** processor.go sendError (writeException) on a buffer: the exception message with the full
    response headers, written up to the first error; if that fails for size (the buffer has
    emptied itself), once more with the op-id-only header block. *)
Definition send_error (b : buf) (r : reply) : buf * bool :=
  let '(b1, ok1) := run_ops b (W (rhdr r) :: ebody r) in
  if ok1 then (b1, true) else run_ops b1 (W (mhdr r) :: ebody r).

(** size of the error reply that goes out: with the full header block if that fits, else with
    the op-id-only block *)
Definition err_size (lim : Z) (r : reply) : Z :=
  let full := 4 + rhdr r + ops_size (ebody r) in
  if (0 <? lim) && (lim <? full) then 4 + mhdr r + ops_size (ebody r) else full.

(** processor.go SendReply + trapError on the bounded buffer of nats_server.go processFrame;
    result: what is published on the reply subject (None = nothing: HasWriteData false) *)
Definition server_bounded (lim : Z) (r : reply) : option (frame_kind * Z) :=
  let '(b2, ok2) := run_ops (new_buf lim) (W (rhdr r) :: rbody r) in
  if ok2 then Some (FReply, frame_len b2)
  else
    let '(b3, ok3) := send_error b2 r in
    (* the code tests HasWriteData only; a failed second attempt leaves the buffer empty *)
    if ok3 && has_write_data b3 then Some (FTooLarge, frame_len b3) else None.

(** * What the caller of FStandardClient.Call gets *)
Inductive outcome :=
| OkReply            (* the decoded result *)
| ReqTooLarge        (* TTransportException REQUEST_TOO_LARGE *)
| RespTooLarge       (* TTransportException RESPONSE_TOO_LARGE *)
| TimedOut           (* nothing came back *)
| Garbled            (* an error reply with a type id the client does not convert *)
| NilTransport.      (* transport returned (nil, nil): frame of 4 bytes *)

Definition outcome_code (o : outcome) : Z :=
  match o with OkReply => 0 | ReqTooLarge => 11 | RespTooLarge => 12 | TimedOut => 3
             | Garbled => 40 | NilTransport => 41 end.

(** result of a call: outcome, the frame handed to the broker / HTTP server (if any), and the
    frame the server handed back (if any) *)
Record call_result := mkres { out : outcome; sent : option Z; back : option Z }.

(** client.go processReply on a frame produced by the server: an EXCEPTION message of type
    APPLICATION_EXCEPTION_RESPONSE_TOO_LARGE becomes a RESPONSE_TOO_LARGE transport exception *)
Definition process_reply (k : frame_kind) : outcome :=
  match k with
  | FReply => OkReply
  | FTooLarge => if app_response_too_large_written =? app_response_too_large_mapped
                 then RespTooLarge else Garbled
  end.

Definition call (t : transport) (m : msg) (r : reply) : call_result :=
  match prepare (request_limit t) m with
  | None => mkres ReqTooLarge None None
  | Some framed =>
    if framed =? 4 then mkres NilTransport None None
    else if negb (transport_check t framed) then mkres ReqTooLarge None None
    else
      match t with
      | TNats =>
        match server_bounded nats_max r with
        | Some (k, n) => mkres (process_reply k) (Some framed) (Some n)
        | None => mkres TimedOut (Some framed) None
        end
      | THttp _ resp =>
        (* the handler buffers without bound, then: limit > 0 && outBuf.Len() > limit -> 413 *)
        let outlen := rhdr r + ops_size (rbody r) in
        if (0 <? resp) && (resp <? outlen) then mkres RespTooLarge (Some framed) None
        else mkres OkReply (Some framed) (Some (4 + outlen))
      end
  end.

(** FStandardClient.Oneway: the same preparation and transport checks; no reply is awaited.
    NATS: the frame is published and the call returns (the server still answers; nobody waits);
    HTTP: Oneway is Request with the result dropped, so a 413 still surfaces. *)
Definition oneway (t : transport) (m : msg) (r : reply) : call_result :=
  match prepare (request_limit t) m with
  | None => mkres ReqTooLarge None None
  | Some framed =>
    if framed =? 4 then mkres OkReply None None
    else if negb (transport_check t framed) then mkres ReqTooLarge None None
    else
      match t with
      | TNats => mkres OkReply (Some framed)
                       (match server_bounded nats_max r with Some (_, n) => Some n | None => None end)
      | THttp _ _ => call t m r
      end
  end.

(** * Publishers (FStandardClient.Publish) *)
Inductive publisher :=
| PNats                          (* fNatsPublisherTransport *)
| PStomp (max_publish_size : Z). (* fStompPublisherTransport; an int, <= 0 means no limit *)

(** GetPublishSizeLimit: uint(maxPublishSize) — a negative int becomes a huge uint *)
Definition publish_limit (p : publisher) : Z :=
  match p with
  | PNats => nats_max
  | PStomp mps => if mps <? 0 then 18446744073709551616 + mps else mps
  end.

Definition publisher_check (p : publisher) (framed : Z) : bool :=
  match p with
  | PNats => negb (nats_max <? framed)
  | PStomp mps => negb ((0 <? mps) && (mps <? framed))
  end.

(** outcome and what reached the broker *)
Definition publish (p : publisher) (m : msg) : outcome * option Z :=
  match prepare (publish_limit p) m with
  | None => (ReqTooLarge, None)
  | Some framed =>
    if negb (publisher_check p framed) then (ReqTooLarge, None) else (OkReply, Some framed)
  end.

(** * Sessions: the same client, transport and server used for a sequence of calls.
    The only state that survives a call is the client transport's registry of in-flight op ids
    (nats_transport.go Request: Register ... defer Unregister); buffers are per call. *)
Definition registry := list Z.

Definition reg_mem (x : Z) (r : registry) : bool := existsb (Z.eqb x) r.
Fixpoint reg_remove (x : Z) (r : registry) : registry :=
  match r with [] => [] | y :: s => if x =? y then reg_remove x s else y :: reg_remove x s end.

Inductive step_result := SOut (c : call_result) | SAlreadyRegistered.

(** one Call with op id [opid] in registry state [reg]; returns the new registry *)
Definition session_call (t : transport) (reg : registry) (opid : Z) (m : msg) (r : reply)
  : registry * step_result :=
  match t with
  | TNats =>
    match prepare (request_limit t) m with
    | None => (reg, SOut (mkres ReqTooLarge None None))      (* fails before the transport is reached *)
    | Some framed =>
      if framed =? 4 then (reg, SOut (mkres NilTransport None None))
      else if reg_mem opid reg then (reg, SAlreadyRegistered)
      else
        let reg1 := opid :: reg in                                  (* Register *)
        let res := call t m r in                                    (* size check, publish, wait *)
        (reg_remove opid reg1, SOut res)                            (* deferred Unregister *)
    end
  | THttp _ _ => (reg, SOut (call t m r))
  end.

Fixpoint session (t : transport) (reg : registry) (calls : list (Z * msg * reply))
  : registry * list step_result :=
  match calls with
  | [] => (reg, [])
  | (opid, m, r) :: rest =>
    let '(reg', s) := session_call t reg opid m r in
    let '(regf, ss) := session t reg' rest in
    (regf, s :: ss)
  end.

(** * Thrift's binary protocol as a sequence of transport writes
    (thrift/binary_protocol.go: which transport method each protocol call uses) *)
Inductive tval :=
| VBool | VByte | VI16 | VI32 | VI64 | VDouble
| VStr (n : Z)                  (* WriteString: a string of n bytes *)
| VBin (n : Z)                  (* WriteBinary: n bytes *)
| VList (vs : list tval)        (* list or set *)
| VMap (kvs : list (tval * tval))
| VStruct (fs : list tval).     (* field ids do not influence the size *)

Fixpoint enc_binary (v : tval) : list op :=
  match v with
  | VBool | VByte => [WB]
  | VI16 => [W 2]
  | VI32 => [W 4]
  | VI64 | VDouble => [W 8]
  | VStr n => [W 4; WS n]
  | VBin n => [W 4; W n]
  | VList vs =>
    WB :: W 4 :: (fix go (l : list tval) : list op :=
                    match l with [] => [] | x :: r => enc_binary x ++ go r end) vs
  | VMap kvs =>
    WB :: WB :: W 4 :: (fix go (l : list (tval * tval)) : list op :=
                          match l with [] => [] | (k, x) :: r => enc_binary k ++ enc_binary x ++ go r end) kvs
  | VStruct fs =>
    (fix go (l : list tval) : list op :=
       match l with [] => [WB] | x :: r => WB :: W 2 :: enc_binary x ++ go r end) fs
  end.

(** the size of a value in Thrift's binary encoding (the protocol's specification) *)
Fixpoint bin_size (v : tval) : Z :=
  match v with
  | VBool | VByte => 1
  | VI16 => 2
  | VI32 => 4
  | VI64 | VDouble => 8
  | VStr n | VBin n => 4 + n
  | VList vs => 5 + (fix go (l : list tval) : Z := match l with [] => 0 | x :: r => bin_size x + go r end) vs
  | VMap kvs => 6 + (fix go (l : list (tval * tval)) : Z :=
                       match l with [] => 0 | (k, x) :: r => bin_size k + bin_size x + go r end) kvs
  | VStruct fs => (fix go (l : list tval) : Z := match l with [] => 1 | x :: r => 3 + bin_size x + go r end) fs
  end.

Fixpoint tval_ok (v : tval) : Prop :=
  match v with
  | VStr n | VBin n => 0 <= n
  | VList vs => (fix go (l : list tval) : Prop := match l with [] => True | x :: r => tval_ok x /\ go r end) vs
  | VMap kvs => (fix go (l : list (tval * tval)) : Prop :=
                   match l with [] => True | (k, x) :: r => tval_ok k /\ tval_ok x /\ go r end) kvs
  | VStruct fs => (fix go (l : list tval) : Prop := match l with [] => True | x :: r => tval_ok x /\ go r end) fs
  | _ => True
  end.

(** strict-write WriteMessageBegin(name, type, seqid): version word, name, seqid; then the value *)
Definition enc_binary_message (name_len : Z) (v : tval) : list op :=
  [W 4; W 4; WS name_len; W 4] ++ enc_binary v.
Definition bin_message_size (name_len : Z) (v : tval) : Z := 12 + name_len + bin_size v.

Definition binary_msg (hdr_len name_len : Z) (v : tval) : msg :=
  mkmsg hdr_len (enc_binary_message name_len v).
