(** parser.Frugal.UnderlyingType as it is now (compiler/parser/types.go, after "fix: UnderlyingType
    follows a typedef found in an include in that include's scope and qualifies the result"),
    over the multi-file programs of Model/GoGenPlan.v.  [underlying_go] of that file is the
    function of the pinned tree (known finding F15, now stale).

    [underlying_go_fixed] transcribes the Go function: a name qualified by an include is looked up
    in the typedef index of the parsed include; the rest of the chain is followed by the include's
    own UnderlyingType (scope = the include) and the result is renamed for the asking file by
    qualifyType: primitives stay, containers are qualified element-wise, a name without an include
    gets the include's name, a name that already carries an include name is left as it is (this
    last case is the remaining defect: the name of an include's include means nothing, or something
    else, in the asking file - known findings C11-K1/K2/K3/K9/K10/K11).  Executable definitions only. *)
From Coq Require Import ZArith List Bool.
From FV Require Import Model.GoGenPlan.
Import ListNotations.
Open Scope Z_scope.

(** qualifyType(include, t) *)
Fixpoint qualify (i : Z) (t : pty) : pty :=
  match t with
  | PBase _ => t
  | PList a => PList (qualify i a)
  | PSet a => PSet (qualify i a)
  | PMap k v => PMap (qualify i k) (qualify i v)
  | PName None n => PName (Some i) n
  | PName (Some _) _ => t
  end.

(** the Go function; result: the type it returns (to be read in scope [cur]) *)
Fixpoint underlying_go_fixed (fuel : nat) (p : pprogram) (cur : Z) (t : pty) : pty :=
  match t with
  | PName (Some i) n =>
    match assoc (pf_includes (file_of p cur)) i with
    | None => t                                   (* ParsedIncludes miss: return t *)
    | Some fid =>
      match assoc (pf_typedefs (file_of p fid)) n with
      | Some t' => match fuel with O => t | S f => qualify i (underlying_go_fixed f p fid t') end
      | None => t
      end
    end
  | PName None n =>
    match assoc (pf_typedefs (file_of p cur)) n with
    | Some t' => match fuel with O => t | S f => underlying_go_fixed f p cur t' end
    | None => t
    end
  | _ => t
  end.

Definition wire_go_fixed (fuel : nat) (p : pprogram) (cur : Z) (t : pty) : Z :=
  wire_of p cur (underlying_go_fixed fuel p cur t).

(** the target of a typedef does not itself name a declaration of a further include *)
Definition top_local (t : pty) : bool :=
  match t with PName (Some _) _ => false | _ => true end.
