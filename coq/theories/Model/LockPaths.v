(** Lock discipline of the mutex-guarded maps of FContextImpl and fRegistryImpl (C17, C01):
    a checker over the per-method control-flow paths regenerated from the source
    (Gen/CtxLockSites.v), and an interleaving semantics of sync.RWMutex in which the checker's
    verdict is shown to imply that conflicting accesses are never concurrent. *)
From Coq Require Import List Bool Arith.
From FV Require Import Gen.CtxLockSites.
Import ListNotations.

Inductive held := HNone | HRead | HWrite.

(** every access inside a matching critical section, writes inside exclusive ones, no double lock,
    no unlock without lock, no lock held at the end unless a deferred unlock is pending, and no call
    of a locking method of the same receiver while holding the lock (RWMutex is not reentrant) *)
Fixpoint path_ok (h : held) (deferred : bool) (p : list clev) : bool :=
  match p with
  | [] => match h with HNone => true | _ => deferred end
  | e :: r =>
    match e, h with
    | CLock, HNone => path_ok HWrite false r
    | CRLock, HNone => path_ok HRead false r
    | CUnlock, HWrite => if deferred then false else path_ok HNone false r
    | CRUnlock, HRead => if deferred then false else path_ok HNone false r
    | CDeferUnlock, HWrite => path_ok HWrite true r
    | CDeferRUnlock, HRead => path_ok HRead true r
    | CRead, HRead => path_ok h deferred r
    | CRead, HWrite => path_ok h deferred r
    | CWrite, HWrite => path_ok h deferred r
    | CCallLocking, HNone => path_ok HNone false r
    | _, _ => false
    end
  end.

Definition method_guarded (m : clmethod) : bool := forallb (path_ok HNone false) (cl_paths m).
Definition all_guarded (ms : list clmethod) : bool := forallb method_guarded ms.

(** ** interleaving semantics: threads run paths against one RWMutex *)
Record thread := { t_held : held; t_def : bool; t_rest : list clev }.
Record mstate := { writer : bool; readers : nat; threads : list thread }.

Definition start (p : list clev) : thread := {| t_held := HNone; t_def := false; t_rest := p |}.

(** one step of a thread given the mutex; None = blocked (or finished) *)
Definition tstep (w : bool) (r : nat) (t : thread) : option (bool * nat * thread) :=
  match t_rest t with
  | [] =>
    (* function return: a deferred unlock runs *)
    match t_held t with
    | HWrite => if t_def t then Some (false, r, {| t_held := HNone; t_def := false; t_rest := [] |}) else None
    | HRead => if t_def t then Some (w, pred r, {| t_held := HNone; t_def := false; t_rest := [] |}) else None
    | HNone => None
    end
  | e :: rest =>
    match e with
    | CLock => if negb w && Nat.eqb r 0
               then Some (true, r, {| t_held := HWrite; t_def := false; t_rest := rest |}) else None
    | CRLock => if negb w then Some (w, S r, {| t_held := HRead; t_def := false; t_rest := rest |}) else None
    | CUnlock => Some (false, r, {| t_held := HNone; t_def := false; t_rest := rest |})
    | CRUnlock => Some (w, pred r, {| t_held := HNone; t_def := false; t_rest := rest |})
    | CDeferUnlock | CDeferRUnlock => Some (w, r, {| t_held := t_held t; t_def := true; t_rest := rest |})
    | CRead | CWrite => Some (w, r, {| t_held := t_held t; t_def := t_def t; t_rest := rest |})
    | CCallLocking => Some (w, r, {| t_held := t_held t; t_def := false; t_rest := rest |})
    end
  end.

Fixpoint set_thread (l : list thread) (i : nat) (t : thread) : list thread :=
  match l, i with
  | [], _ => []
  | _ :: r, O => t :: r
  | x :: r, S i' => x :: set_thread r i' t
  end.

Definition mstep (s : mstate) (i : nat) : option mstate :=
  match nth_error (threads s) i with
  | None => None
  | Some t => match tstep (writer s) (readers s) t with
              | Some (w, r, t') => Some {| writer := w; readers := r; threads := set_thread (threads s) i t' |}
              | None => None
              end
  end.

Fixpoint mrun (s : mstate) (sched : list nat) : option mstate :=
  match sched with
  | [] => Some s
  | i :: r => match mstep s i with Some s' => mrun s' r | None => None end
  end.

Definition minit (paths : list (list clev)) : mstate :=
  {| writer := false; readers := 0; threads := map start paths |}.

(** ** nothing foreign under the lock (C06)
    The second view of the same paths (Gen/CtxLockSites.v, [fev]): lock operations, and the operations
    during which code of the CALLER runs or the goroutine may block for as long as someone else
    pleases (a method of a caller-supplied FContext, a function handed one, a channel send).
    [fheld h p]: is the mutex held after the prefix [p], starting from [h]? A deferred unlock runs at
    the end of the function: it releases nothing before. *)
Fixpoint fheld (h : bool) (p : list fev) : bool :=
  match p with
  | [] => h
  | FLock :: r => fheld true r
  | FUnlock :: r => fheld false r
  | FDeferUnlock :: r => fheld h r
  | FForeign :: r => fheld h r
  end.

Fixpoint foreign_ok (h : bool) (p : list fev) : bool :=
  match p with
  | [] => true
  | FLock :: r => foreign_ok true r
  | FUnlock :: r => foreign_ok false r
  | FDeferUnlock :: r => foreign_ok h r
  | FForeign :: r => negb h && foreign_ok h r
  end.

Definition all_foreign_ok (ms : list (String.string * list (list fev))) : bool :=
  forallb (fun m => forallb (foreign_ok false) (snd m)) ms.

Definition has_foreign (p : list fev) : bool :=
  existsb (fun e => match e with FForeign => true | _ => false end) p.
