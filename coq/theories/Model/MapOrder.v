(** C19 — code generation is deterministic and location-independent.

    Executable model of the places where the Frugal compiler's output could depend on Go's
    randomised map iteration order or on where the sources / outputs live:

    - [site_class], [map_site]: the shape of the regenerated table Gen/MapSites.v
      (every `range` over a map in compiler/**, classified by translator/mapsites.go);
    - Go strings ([str] = bytes, [str_ltb] = Go's [<] on strings), sorting;
    - Go maps as association lists whose iteration order is ANY permutation of the entries;
    - the loop schema of each site class (what such a loop computes from an iteration order);
    - transcriptions of the anchored code: [Frugal.sort] / [scopesByName],
      [Frugal.OrderedIncludes] / [byIncludeName] (compiler/parser/types.go),
      [generateFrugalRec] (compiler/compiler.go:107-149), the HTML generator's
      [transitiveIncludes] / [transitiveIncludesRec] / [Modules.Less]
      (compiler/generator/html/generator.go), the json generator's [collectFrugals],
      [GetOutputDir] of every generator, and the Python generator's __init__ chain
      ([SetupGenerator], compiler/generator/python/generator.go:75-111) over paths as
      component lists.

    Definitions only; proofs are in Proofs/MapOrderProofs.v. *)
From Coq Require Import String List ZArith Bool.
Import ListNotations.
Open Scope Z_scope.

(* ------------------------------------------------------------------------------------------ *)
(** * 1. The regenerated site table *)

Inductive site_class :=
| CSortedKeys | CSortedValues | CSetInsert | CRecInsert | CEarlyExit | COther | CUntyped | CLibSorted.

Record map_site := mk_site {
  ms_file : string; ms_line : Z; ms_func : string; ms_expr : string;
  ms_class : site_class; ms_sortkey : string; ms_reach : bool }.

Definition class_eqb (a b : site_class) : bool :=
  match a, b with
  | CSortedKeys, CSortedKeys | CSortedValues, CSortedValues | CSetInsert, CSetInsert
  | CRecInsert, CRecInsert | CEarlyExit, CEarlyExit | COther, COther | CUntyped, CUntyped
  | CLibSorted, CLibSorted => true
  | _, _ => false
  end.

(* ------------------------------------------------------------------------------------------ *)
(** * 2. Go strings and sorting *)

Definition str := list Z.

(** Go's [a < b] on strings: lexicographic on bytes, a proper prefix is smaller *)
Fixpoint str_ltb (a b : str) : bool :=
  match a, b with
  | [], [] => false
  | [], _ :: _ => true
  | _ :: _, [] => false
  | x :: a', y :: b' => if x <? y then true else if y <? x then false else str_ltb a' b'
  end.

Fixpoint str_eqb (a b : str) : bool :=
  match a, b with
  | [], [] => true
  | x :: a', y :: b' => (x =? y) && str_eqb a' b'
  | _, _ => false
  end.

Section Sort.
  Context {A : Type} (less : A -> A -> bool).
  (** insertion sort by a Go [Less]; stable.  Go's sort.Sort / sort.Strings are different
      algorithms (pdqsort); Proofs/MapOrderProofs.v shows that when [less] is strict on the
      elements EVERY inversion-free permutation of the input is this list, so the algorithm
      does not matter. *)
  Fixpoint insert_by (x : A) (l : list A) : list A :=
    match l with
    | [] => [x]
    | y :: l' => if less y x then y :: insert_by x l' else x :: l
    end.
  Definition sort_by (l : list A) : list A := fold_right insert_by [] l.
End Sort.

Definition sort_strings : list str -> list str := sort_by str_ltb.

(* ------------------------------------------------------------------------------------------ *)
(** * 3. Go maps

    A Go map is a finite set of entries with distinct keys.  `for k, v := range m` visits
    the entries in an unspecified order that changes from one execution of the statement to
    the next: any permutation of [m].  All loop schemas below therefore take the iteration
    order [iter] as an argument; "order-free" means the result is the same for every
    permutation. *)

Definition gomap (V : Type) := list (str * V).

Fixpoint lookup {V} (k : str) (m : gomap V) : option V :=
  match m with
  | [] => None
  | (k', v) :: m' => if str_eqb k k' then Some v else lookup k m'
  end.

(** [m[k] = v] : the newest binding shadows *)
Definition store {V} (k : str) (v : V) (m : gomap V) : gomap V := (k, v) :: m.

(** what a consumer can observe of a map apart from iteration: lookups *)
Definition map_equiv {V} (m1 m2 : gomap V) : Prop := forall k, lookup k m1 = lookup k m2.

Definition has_key {V} (k : str) (m : gomap V) : bool :=
  match lookup k m with Some _ => true | None => false end.

(** distinct keys in first-insertion order (used to normalise a map built by [store]) *)
Fixpoint dedup_keys {V} (m : gomap V) : gomap V :=
  match m with
  | [] => []
  | (k, v) :: m' => (k, v) :: filter (fun e => negb (str_eqb (fst e) k)) (dedup_keys m')
  end.

(* ------------------------------------------------------------------------------------------ *)
(** * 4. Loop schemas of the site classes *)

(** CSortedKeys:  for k := range m { s = append(s, k) } ; sort.Strings(s) *)
Definition sorted_keys_loop {V} (iter : list (str * V)) : list str :=
  sort_strings (fold_left (fun s e => s ++ [fst e]) iter []).

(** CSortedValues:  for _, v := range m { s = append(s, v) } ; sort.Sort(T(s)) *)
Definition sorted_values_loop {V} (less : V -> V -> bool) (iter : list (str * V)) : list V :=
  sort_by less (fold_left (fun s e => s ++ [snd e]) iter []).

(** CSetInsert:  for k, v := range m { t[kf(k,v)] = vf(k,v) }  (guards are folded into
    [keep]: an entry either performs its store or does nothing) *)
Definition set_insert_loop {V W} (keep : str * V -> bool) (kf : str * V -> str) (vf : str * V -> W)
           (iter : list (str * V)) (t0 : gomap W) : gomap W :=
  fold_left (fun t e => if keep e then store (kf e) (vf e) t else t) iter t0.

(* ------------------------------------------------------------------------------------------ *)
(** * 5. The parsed program, as far as ordering and locations are concerned

    A [module] is a parsed file (a *parser.Frugal in Go): absolute path [m_file] as written in
    Frugal.File, [m_name] (file base name without extension), the include statements in
    source order ([Frugal.Includes]: name, vendor annotation present) and
    [Frugal.ParsedIncludes] (include name -> parsed module).  The include graph is acyclic
    (parser.go rejects circular includes), and the Go code walks it as a tree. *)

Inductive module :=
| Mod (m_file : str) (m_name : str) (m_includes : list (str * bool)) (m_parsed : list (str * module))
      (m_scopes : list str).

Definition m_file (m : module) := let 'Mod f _ _ _ _ := m in f.
Definition m_name (m : module) := let 'Mod _ n _ _ _ := m in n.
Definition m_includes (m : module) := let 'Mod _ _ i _ _ := m in i.
Definition m_parsed (m : module) := let 'Mod _ _ _ p _ := m in p.
Definition m_scopes (m : module) := let 'Mod _ _ _ _ s := m in s.

(** types.go:1315  func (f *Frugal) sort() { sort.Sort(scopesByName(f.Scopes)) } ;
    Less: b[i].Name < b[j].Name *)
Definition sort_scopes (names : list str) : list str := sort_by str_ltb names.

(** types.go:706-715 OrderedIncludes: copy of f.Includes sorted with Less s[i].Name < s[j].Name *)
Definition include_less (a b : str * bool) : bool := str_ltb (fst a) (fst b).
Definition ordered_includes (m : module) : list (str * bool) := sort_by include_less (m_includes m).

(** compiler.go:107-149 generateFrugalRec, with globals.Recurse = true, DryRun = false.
    [done] is globals.CompiledFiles used as a set of file names (only membership is read);
    the result is the list of files handed to g.Generate, in call order, and the set.
    Fuel: depth of the include tree. *)
Fixpoint gen_plan (fuel : nat) (use_vendor : bool) (m : module) (done : list str) (acc : list str)
  : list str * list str :=
  if existsb (str_eqb (m_file m)) done then (done, acc) else
  let done1 := m_file m :: done in
  let acc1 := acc ++ [m_file m] in
  match fuel with
  | O => (done1, acc1)
  | S f =>
    fold_left (fun st inc =>
                 if snd inc && use_vendor then st
                 else match lookup (fst inc) (m_parsed m) with
                      | Some c => gen_plan f use_vendor c (fst st) (snd st)
                      | None => st          (* nil *Frugal: the real code would panic; validate() excludes it *)
                      end)
              (ordered_includes m) (done1, acc1)
  end.

(** json/generator.go:86-99 collectFrugals: like gen_plan but keyed by Name, never skipping vendored includes *)
Fixpoint collect_frugals (fuel : nat) (m : module) (used : list str) (acc : list str) : list str * list str :=
  if existsb (str_eqb (m_name m)) used then (used, acc) else
  let used1 := m_name m :: used in
  let acc1 := acc ++ [m_file m] in
  match fuel with
  | O => (used1, acc1)
  | S f =>
    fold_left (fun st inc =>
                 match lookup (fst inc) (m_parsed m) with
                 | Some c => collect_frugals f c (fst st) (snd st)
                 | None => st
                 end)
              (ordered_includes m) (used1, acc1)
  end.

(** html/generator.go:125-131 transitiveIncludesRec.  [order] is the iteration order Go picks
    for `range module.ParsedIncludes` at this visit: the judge runs it with the identity, the
    theorems quantify over every choice (relation [trec_any] in the proofs file). *)
Fixpoint trec (fuel : nat) (m : module) (acc : gomap module) : gomap module :=
  match fuel with
  | O => acc
  | S f => fold_left (fun a e => trec f (snd e) a) (m_parsed m) (store (m_file m) m acc)
  end.

(** html/generator.go:93-99 Modules.Less (after the repair: ties on Name are broken by File,
    which is the key of moduleMap and therefore distinct) *)
Definition modules_less (a b : module) : bool :=
  if str_eqb (m_name a) (m_name b) then str_ltb (m_file a) (m_file b)
  else str_ltb (m_name a) (m_name b).

(** the comparator before the repair (kept to state what was wrong) *)
Definition modules_less_by_name_only (a b : module) : bool := str_ltb (m_name a) (m_name b).

(** html/generator.go:115-123 transitiveIncludes: range over moduleMap in order [iter] *)
Definition transitive_includes_from (iter : gomap module) : list module :=
  sorted_values_loop modules_less iter.

Definition transitive_includes (fuel : nat) (m : module) : list module :=
  transitive_includes_from (dedup_keys (trec fuel m [])).

(* ------------------------------------------------------------------------------------------ *)
(** * 6. Output locations: paths as component lists *)

Definition path := list str.

(** strings.Split(pkg, ".") *)
Fixpoint split_on (sep : Z) (s : str) (cur : str) : list str :=
  match s with
  | [] => [rev cur]
  | c :: s' => if c =? sep then rev cur :: split_on sep s' [] else split_on sep s' (c :: cur)
  end.
Definition package_components (ns : str) : list str := split_on 46 ns [].

(** filepath.Join drops empty components *)
Definition join (p : path) (q : list str) : path :=
  p ++ filter (fun c => negb (str_eqb c [])) q.

(** GetOutputDir of the go / py generators (golang/generator.go:100-108, python/generator.go:771-779):
    namespace => dir/<components>, else dir/<file name>; java (java/generator.go:2058-2064):
    no namespace => dir; html, json: dir.  [lang]: 0 go, 1 py, 2 java, 3 html, 4 json. *)
Definition output_dir (lang : Z) (out : path) (ns : option str) (name : str) : path :=
  if (lang =? 3) || (lang =? 4) then out else
  match ns with
  | Some v => join out (package_components v)
  | None => if lang =? 2 then out else join out [name]
  end.

(** filepath.Rel(base, targ) for clean absolute paths given as component lists *)
Fixpoint rel (base targ : path) : path :=
  match base, targ with
  | b :: base', t :: targ' => if str_eqb b t then rel base' targ' else map (fun _ => [46;46]) base ++ targ
  | [], _ => targ
  | _ :: _, [] => map (fun _ => [46;46]) base
  end.

(** python/generator.go:101-111: __init__ files are written in root/dir for dir = rel, Dir(rel),
    ..., "." ; as component lists: every prefix of [d], longest first, ending with [] *)
Definition init_chain (d : path) : list path :=
  map (fun n => firstn n d) (rev (seq 0 (S (length d)))).

Definition py_init_dirs (root out_dir : path) : list path := init_chain (rel root out_dir).

(** the part of a compilation that depends on locations: where [m] is generated, relative to
    the -out directory, when the sources live under [src_root] and -out is [out] *)
Definition rel_output_dir (lang : Z) (out : path) (ns : option str) (name : str) : path :=
  rel out (output_dir lang out ns name).

(* ------------------------------------------------------------------------------------------ *)
(** * 7. Global state (compiler/globals/globals.go, compiler/compiler.go:46-56)

    [Compile] copies its options into package-level variables, runs, and `defer globals.Reset()`
    restores every variable to its initial value; CompiledFiles is the only one written during
    generation.  (Now is restored to the current time; it is read by
    java:generated_annotations=use only, which the property excludes.) *)

Record globals := mk_globals {
  g_delim : str; g_gen : str; g_out : str; g_filedir : str;
  g_dryrun : bool; g_recurse : bool; g_verbose : bool; g_compiled : list str }.

Definition globals_init : globals := mk_globals [46] [] [] [] false false false [].

Definition globals_reset_fn (_ : globals) : globals := globals_init.

Record options := mk_options {
  o_file_dir : str; o_gen : str; o_out : str; o_delim : str; o_dryrun : bool; o_recurse : bool; o_verbose : bool }.

(** the assignments at the top of Compile: every variable except CompiledFiles is overwritten *)
Definition globals_set (o : options) (g : globals) : globals :=
  mk_globals (o_delim o) (o_gen o) (o_out o) (o_file_dir o) (o_dryrun o) (o_recurse o) (o_verbose o)
             (g_compiled g).

(** one Compile: the globals generation starts from, and the globals left behind.
    [generated] are the files generateFrugalRec added to CompiledFiles. *)
Definition compile_globals (o : options) (generated : list str) (g : globals) : globals * globals :=
  let seen := globals_set o g in
  let during := mk_globals (g_delim seen) (g_gen seen) (g_out seen) (g_filedir seen) (g_dryrun seen)
                           (g_recurse seen) (g_verbose seen) (generated ++ g_compiled seen) in
  (seen, globals_reset_fn during).

(** a history of compiles in one process *)
Definition run_compiles (hist : list (options * list str)) (g : globals) : globals :=
  fold_left (fun g og => snd (compile_globals (fst og) (snd og) g)) hist g.
