(** Well-formedness of a compiled PEG (after Ford 2004, "Parsing Expression Grammars", section 3.6,
    and Koprowski/Binsztok's TRX): a computable check that implies that the pigeon interpreter of
    Model/Peg.v terminates on every input, with an explicit bound on its recursion depth
    (Proofs/PegProofs.v).  Executable definitions only. *)
From Coq Require Import ZArith List Bool Arith.
From FV Require Import Model.PegSyntax Model.Peg.
Import ListNotations.
Local Open Scope nat_scope.

Section Wf.
  Variable A : Type.
  Notation cexpr := (cexpr A).

  (** [nl i]: rule [i] may succeed without consuming input (an over-approximation is fine) *)
  Variable nl : nat -> bool.

  (** may the expression succeed without consuming input? *)
  Fixpoint may_empty (e : cexpr) : bool :=
    match e with
    | CAct _ e1 | CLabel _ e1 | CPlus e1 => may_empty e1
    | CSeq es => forallb may_empty es
    | CChoice es => existsb may_empty es
    | CStar _ | COpt _ | CAnd _ | CNot _ => true
    | CRef i => nl i
    | CLit rs => match rs with [] => true | r :: _ => Z.eqb r rune_error end
    | CClass _ _ _ | CAny => false
    end.

  (** rules that may be entered at the very position where [e] starts *)
  Fixpoint heads (e : cexpr) : list nat :=
    match e with
    | CAct _ e1 | CLabel _ e1 | CStar e1 | CPlus e1 | COpt e1 | CAnd e1 | CNot e1 => heads e1
    | CSeq es =>
      (fix go (es : list cexpr) : list nat :=
         match es with
         | [] => []
         | x :: t => heads x ++ (if may_empty x then go t else [])
         end) es
    | CChoice es => flat_map heads es
    | CRef i => [i]
    | CLit _ | CClass _ _ _ | CAny => []
    end.

  (** recursion depth the interpreter needs for [e] itself (rule references count 1) *)
  Fixpoint height (e : cexpr) : nat :=
    match e with
    | CAct _ e1 | CLabel _ e1 | COpt e1 | CAnd e1 | CNot e1 => S (height e1)
    | CStar e1 | CPlus e1 => S (S (height e1))
    | CSeq es | CChoice es => S (fold_right (fun x acc => Nat.max (height x) acc) 0 es)
    | CRef _ | CLit _ | CClass _ _ _ | CAny => 1
    end.

  Variable nrules : nat.

  (** local conditions: repetition bodies consume, references are in range *)
  Fixpoint wf_expr (e : cexpr) : bool :=
    match e with
    | CAct _ e1 | CLabel _ e1 | COpt e1 | CAnd e1 | CNot e1 => wf_expr e1
    | CStar e1 | CPlus e1 => negb (may_empty e1) && wf_expr e1
    | CSeq es | CChoice es => forallb wf_expr es
    | CRef i => i <? nrules
    | CLit _ | CClass _ _ _ | CAny => true
    end.
End Wf.

Arguments may_empty {A}. Arguments heads {A}. Arguments height {A}. Arguments wf_expr {A}.

Section Check.
  Variable A : Type.
  Variable rules : list (cexpr A).

  Definition tbl_get {X} (d : X) (t : list X) (i : nat) : X := nth i t d.

  (** least fixed point of the nullability equations by iteration from "nothing is nullable" *)
  Fixpoint nullable_iter (n : nat) (t : list bool) : list bool :=
    match n with
    | O => t
    | S n' => nullable_iter n' (map (fun body => may_empty (tbl_get false t) body) rules)
    end.
  Definition nullable_table : list bool :=
    nullable_iter (S (length rules)) (map (fun _ => false) rules).

  (** rank: longest chain of head calls starting from a rule; meaningful iff the head-call graph is acyclic *)
  Fixpoint rank_iter (nlt : list bool) (n : nat) (t : list nat) : list nat :=
    match n with
    | O => t
    | S n' =>
      rank_iter nlt n' (map (fun body => fold_right (fun j acc => Nat.max (S (tbl_get 0 t j)) acc) 0
                                                   (heads (tbl_get false nlt) body)) rules)
    end.
  Definition rank_table (nlt : list bool) : list nat :=
    rank_iter nlt (S (length rules)) (map (fun _ => 0) rules).

  (** the checked conditions *)
  Definition check_wf (nlt : list bool) (rk : list nat) : bool :=
    let nl := tbl_get false nlt in
    (length nlt =? length rules) && (length rk =? length rules)
    && forallb (wf_expr nl (length rules)) rules
    (* nl is closed under the nullability rules: a rule whose body may be empty is marked *)
    && forallb (fun p => implb (may_empty nl (snd p)) (nl (fst p))) (combine (seq 0 (length rules)) rules)
    (* no left recursion: every head call goes to a rule of strictly smaller rank *)
    && forallb (fun p => forallb (fun j => tbl_get 0 rk j <? tbl_get 0 rk (fst p)) (heads nl (snd p)))
               (combine (seq 0 (length rules)) rules).

  Definition max_rank (rk : list nat) : nat := fold_right Nat.max 0 rk.
  Definition max_height : nat := fold_right (fun b acc => Nat.max (height b) acc) 0 rules.

  (** depth needed per input byte, and in total: (|input| + 1) * depth_unit *)
  Definition depth_unit (rk : list nat) : nat := (max_rank rk + 3) * (max_height + 2).
End Check.

Arguments nullable_table {A}. Arguments rank_table {A}. Arguments check_wf {A}.
Arguments max_rank. Arguments max_height {A}. Arguments depth_unit {A}.
