(** A generic PEG interpreter with the semantics of the pigeon runtime embedded in
    compiler/parser/grammar.peg.go (parseExpr and the parseXxx methods, read line by line):
    ordered choice, sequences restore the position on failure, labels are stored in the
    variable frame of the enclosing rule / alternative / loop iteration, and errors returned
    by actions -- as well as invalid-encoding errors raised while reading a rune -- are
    accumulated in [errs] and are NOT undone by backtracking.  Memoization is off in the
    code under test (ParseReader is called without options), so it is not modelled.

    Executable definitions only. *)
From Coq Require Import ZArith List String Bool.
From FV Require Import Model.PegSyntax.
Import ListNotations.
Open Scope Z_scope.

(** ** UTF-8 decoding exactly as Go's utf8.DecodeRune *)
Definition rune_error : Z := 65533.

(** returns (rune, width); width 0 only on empty input; (rune_error, 1) on invalid encoding *)
Definition decode_rune (b : list Z) : Z * Z :=
  match b with
  | [] => (rune_error, 0)
  | b0 :: t =>
    if b0 <? 128 then (b0, 1)
    else if b0 <? 194 then (rune_error, 1)            (* continuation bytes, overlong C0/C1 *)
    else if b0 <? 224 then                            (* 2 bytes *)
      match t with
      | b1 :: _ => if (128 <=? b1) && (b1 <=? 191) then ((b0 - 192) * 64 + (b1 - 128), 2) else (rune_error, 1)
      | _ => (rune_error, 1)
      end
    else if b0 <? 240 then                            (* 3 bytes *)
      match t with
      | b1 :: b2 :: _ =>
        let lo := if b0 =? 224 then 160 else 128 in
        let hi := if b0 =? 237 then 159 else 191 in
        if (lo <=? b1) && (b1 <=? hi) && (128 <=? b2) && (b2 <=? 191)
        then ((b0 - 224) * 4096 + (b1 - 128) * 64 + (b2 - 128), 3) else (rune_error, 1)
      | _ => (rune_error, 1)
      end
    else if b0 <? 245 then                            (* 4 bytes *)
      match t with
      | b1 :: b2 :: b3 :: _ =>
        let lo := if b0 =? 240 then 144 else 128 in
        let hi := if b0 =? 244 then 143 else 191 in
        if (lo <=? b1) && (b1 <=? hi) && (128 <=? b2) && (b2 <=? 191) && (128 <=? b3) && (b3 <=? 191)
        then ((b0 - 240) * 262144 + (b1 - 128) * 4096 + (b2 - 128) * 64 + (b3 - 128), 4) else (rune_error, 1)
      | _ => (rune_error, 1)
      end
    else (rune_error, 1)
  end.

Fixpoint dropZ (n : Z) (fuel : nat) (l : list Z) : list Z :=
  match fuel with
  | O => l
  | S f => if n <=? 0 then l else match l with [] => [] | _ :: t => dropZ (n - 1) f t end
  end.

(** first [n] elements; recursion on the list *)
Fixpoint takeZ (n : Z) (l : list Z) : list Z :=
  match l with
  | [] => []
  | x :: t => if n <=? 0 then [] else x :: takeZ (n - 1) t
  end.

Definition skip_width (w : Z) (l : list Z) : list Z :=
  match l with
  | [] => []
  | _ :: t1 =>
    if w <=? 1 then t1 else
    match t1 with [] => [] | _ :: t2 =>
      if w <=? 2 then t2 else
      match t2 with [] => [] | _ :: t3 =>
        if w <=? 3 then t3 else match t3 with [] => [] | _ :: t4 => t4 end
      end
    end
  end.

(** ** Compiled expressions: rule references and actions resolved *)
Section Compiled.
  Variable A : Type.   (* action identifiers *)

  Inductive cexpr :=
  | CAct (a : A) (e : cexpr)
  | CSeq (es : list cexpr)
  | CChoice (es : list cexpr)
  | CLabel (label : string) (e : cexpr)
  | CStar (e : cexpr)
  | CPlus (e : cexpr)
  | COpt (e : cexpr)
  | CAnd (e : cexpr)
  | CNot (e : cexpr)
  | CRef (i : nat)
  | CLit (runes : list Z)
  | CClass (chars : list Z) (ranges : list (Z * Z)) (inverted : bool)
  | CAny.

  Variable act_of_name : string -> option A.

  (** p.rules[name]: buildRulesTable lets a later rule with the same name win *)
  Fixpoint rule_index (names : list string) (name : string) (i : nat) (found : option nat) : option nat :=
    match names with
    | [] => found
    | n :: t => rule_index t name (S i) (if String.eqb n name then Some i else found)
    end.

  Fixpoint compile (names : list string) (e : pexpr) : option cexpr :=
    let fix compile_list (es : list pexpr) : option (list cexpr) :=
      match es with
      | [] => Some []
      | x :: t => match compile names x, compile_list t with
                  | Some cx, Some ct => Some (cx :: ct)
                  | _, _ => None
                  end
      end in
    let unary (k : cexpr -> cexpr) (e1 : pexpr) :=
      match compile names e1 with Some c => Some (k c) | None => None end in
    match e with
    | PAct name e1 =>
      match act_of_name name with
      | Some a => unary (CAct a) e1
      | None => None                 (* an action the model does not know *)
      end
    | PSeq es => match compile_list es with Some l => Some (CSeq l) | None => None end
    | PChoice es => match compile_list es with Some l => Some (CChoice l) | None => None end
    | PLabel l e1 => unary (CLabel l) e1
    | PStar e1 => unary CStar e1
    | PPlus e1 => unary CPlus e1
    | POpt e1 => unary COpt e1
    | PAnd e1 => unary CAnd e1
    | PNot e1 => unary CNot e1
    | PRef name =>
      match rule_index names name 0 None with
      | Some i => Some (CRef i)
      | None => None                 (* undefined rule *)
      end
    | PLit ic runes => if ic then None else Some (CLit runes)        (* ignoreCase not modelled *)
    | PClass chars ranges ic inv => if ic then None else Some (CClass chars ranges inv)
    | PAny => Some CAny
    end.

  Fixpoint compile_rules (names : list string) (rs : list (string * pexpr)) : option (list cexpr) :=
    match rs with
    | [] => Some []
    | (_, e) :: t => match compile names e, compile_rules names t with
                     | Some c, Some ct => Some (c :: ct)
                     | _, _ => None
                     end
    end.

  Definition compile_grammar (rs : list (string * pexpr)) : option (list cexpr) :=
    compile_rules (map fst rs) rs.
End Compiled.

Arguments CAct {A}. Arguments CSeq {A}. Arguments CChoice {A}. Arguments CLabel {A}.
Arguments CStar {A}. Arguments CPlus {A}. Arguments COpt {A}. Arguments CAnd {A}.
Arguments CNot {A}. Arguments CRef {A}. Arguments CLit {A}. Arguments CClass {A}. Arguments CAny {A}.

(** ** The interpreter *)
Section Interp.
  Variables A V E : Type.
  Variable vnil : V.                       (* Go nil *)
  Variable vbytes : list Z -> V.           (* []byte returned by matchers *)
  Variable vlist : list V -> V.            (* []interface{} returned by sequences and loops *)

  (** result of running an action: value and optional error (errors do not stop the parse);
      a Go panic inside an action aborts the parse (parse's deferred recover) *)
  Inductive ares := AOk (v : V) | AErr (v : V) (e : E) | APanic.

  (** action, remaining input at the start of the match, length of the match (c.text), frame *)
  Variable run_action : A -> list Z -> Z -> list (string * V) -> ares.

  Inductive perr_kind := KInvalidEncoding | KNoMatch | KAction (e : E) | KPanic.
  (** offset, innermost rule on the rule stack when the error was added, kind *)
  Definition perr : Type := Z * option nat * perr_kind.   (* None: empty rule stack *)

  Record pstate := mkst { rest : list Z; off : Z; errs : list perr }.   (* errs newest first *)
  Definition frame := list (string * V).

  Inductive outcome :=
  | Done (ok : bool) (v : V) (st : pstate) (fr : frame)
  | Abort (st : pstate)                    (* panic inside an action *)
  | OutOfFuel.

  Definition cur_rune (st : pstate) : Z := fst (decode_rune (rest st)).

  (** p.read(): advance by the width of the current rune, decode the next one, record an
      invalid-encoding error if it is RuneError with non-zero width *)
  Definition advance (cr : nat) (st : pstate) : pstate :=
    let w := snd (decode_rune (rest st)) in
    let r' := skip_width w (rest st) in
    let o' := off st + w in
    let '(rn, n) := decode_rune r' in
    mkst r' o' (if (rn =? rune_error) && (0 <? n) then (o', Some cr, KInvalidEncoding) :: errs st else errs st).

  (** p.restore(pt): position of [st0], errors of [st] *)
  Definition restore (st0 st : pstate) : pstate := mkst (rest st0) (off st0) (errs st).

  Definition frame_get (fr : frame) (l : string) : V :=
    match find (fun p => String.eqb (fst p) l) fr with Some p => snd p | None => vnil end.

  Fixpoint in_chars (c : Z) (l : list Z) : bool :=
    match l with [] => false | x :: t => (x =? c) || in_chars c t end.
  Fixpoint in_ranges (c : Z) (l : list (Z * Z)) : bool :=
    match l with [] => false | (lo, hi) :: t => ((lo <=? c) && (c <=? hi)) || in_ranges c t end.

  Variable rules : list (cexpr A).

  (** the loops of parseSeqExpr, parseChoiceExpr and parseLitMatcher, parameterised by the
      evaluator for sub-expressions (so that lemmas about them can be stated separately) *)
  Definition evaluator := cexpr A -> nat -> pstate -> frame -> outcome.

  Fixpoint seq_go (ev : evaluator) (cr : nat) (st0 : pstate) (es : list (cexpr A))
           (st1 : pstate) (fr1 : frame) (acc : list V) {struct es} : outcome :=
    match es with
    | [] => Done true (vlist (rev acc)) st1 fr1
    | e1 :: es' =>
      match ev e1 cr st1 fr1 with
      | Done true v st2 fr2 => seq_go ev cr st0 es' st2 fr2 (v :: acc)
      | Done false _ st2 fr2 => Done false vnil (restore st0 st2) fr2
      | other => other
      end
    end.

  Fixpoint choice_go (ev : evaluator) (cr : nat) (fr : frame) (es : list (cexpr A))
           (st1 : pstate) {struct es} : outcome :=
    match es with
    | [] => Done false vnil st1 fr
    | e1 :: es' =>
      match ev e1 cr st1 [] with
      | Done true v st2 _ => Done true v st2 fr
      | Done false _ st2 _ => choice_go ev cr fr es' st2
      | other => other
      end
    end.

  Fixpoint lit_go (cr : nat) (st0 : pstate) (fr : frame) (rs : list Z) (st1 : pstate) {struct rs} : outcome :=
    match rs with
    | [] => Done true (vbytes (takeZ (off st1 - off st0) (rest st0))) st1 fr
    | want :: rs' =>
      if cur_rune st1 =? want then lit_go cr st0 fr rs' (advance cr st1)
      else Done false vnil (restore st0 st1) fr
    end.

  Definition match_class (cr : nat) (chars : list Z) (ranges : list (Z * Z)) (inverted : bool)
             (st : pstate) (fr : frame) : outcome :=
    let '(cur, w) := decode_rune (rest st) in
    if cur =? rune_error then Done false vnil st fr
    else if in_chars cur chars || in_ranges cur ranges then
      if inverted then Done false vnil st fr
      else Done true (vbytes (takeZ w (rest st))) (advance cr st) fr
    else if inverted then Done true (vbytes (takeZ w (rest st))) (advance cr st) fr
    else Done false vnil st fr.

  Definition match_any (cr : nat) (st : pstate) (fr : frame) : outcome :=
    let '(cur, w) := decode_rune (rest st) in
    if cur =? rune_error then Done false vnil st fr
    else Done true (vbytes (takeZ w (rest st))) (advance cr st) fr.

  Definition finish_action (a : A) (cr : nat) (st st1 : pstate) (fr1 : frame) : outcome :=
    match run_action a (rest st) (off st1 - off st) fr1 with
    | AOk v' => Done true v' st1 fr1
    | AErr v' err => Done true v' (mkst (rest st1) (off st1) ((off st, Some cr, KAction err) :: errs st1)) fr1
    | APanic => Abort (mkst (rest st1) (off st1) ((off st1, Some cr, KPanic) :: errs st1))
    end.

  Fixpoint eval (fuel : nat) (e : cexpr A) (cr : nat) (st : pstate) (fr : frame) {struct fuel} : outcome :=
    match fuel with
    | O => OutOfFuel
    | S f =>
      match e with
      | CAct a e1 =>
        match eval f e1 cr st fr with
        | Done true v st1 fr1 => finish_action a cr st st1 fr1
        | other => other
        end
      | CSeq es => seq_go (eval f) cr st es st fr []
      | CChoice es => choice_go (eval f) cr fr es st
      | CLabel l e1 =>
        match eval f e1 cr st [] with
        | Done true v st1 _ => Done true v st1 ((l, v) :: fr)
        | Done false v st1 _ => Done false v st1 fr
        | other => other
        end
      | CStar e1 => eval_loop f e1 cr st fr []
      | CPlus e1 =>
        match eval f e1 cr st [] with
        | Done true v st1 _ => eval_loop f e1 cr st1 fr [v]
        | Done false _ st1 _ => Done false vnil st1 fr
        | other => other
        end
      | COpt e1 =>
        match eval f e1 cr st [] with
        | Done _ v st1 _ => Done true v st1 fr
        | other => other
        end
      | CAnd e1 =>
        match eval f e1 cr st [] with
        | Done ok _ st1 _ => Done ok vnil (restore st st1) fr
        | other => other
        end
      | CNot e1 =>
        match eval f e1 cr st [] with
        | Done ok _ st1 _ => Done (negb ok) vnil (restore st st1) fr
        | other => other
        end
      | CRef i =>
        match nth_error rules i with
        | Some body =>
          match eval f body i st [] with
          | Done ok v st1 _ => Done ok v st1 fr
          | other => other
          end
        | None => Done false vnil st fr        (* cannot happen for a compiled grammar *)
        end
      | CLit runes => lit_go cr st fr runes st
      | CClass chars ranges inverted => match_class cr chars ranges inverted st fr
      | CAny => match_any cr st fr
      end
    end
  (** the for-loop of parseZeroOrMoreExpr / parseOneOrMoreExpr; [acc] newest first *)
  with eval_loop (fuel : nat) (e1 : cexpr A) (cr : nat) (st : pstate) (fr : frame) (acc : list V)
       {struct fuel} : outcome :=
    match fuel with
    | O => OutOfFuel
    | S f =>
      match eval f e1 cr st [] with
      | Done true v st1 _ => eval_loop f e1 cr st1 fr (v :: acc)
      | Done false _ st1 _ => Done true (vlist (rev acc)) st1 fr
      | other => other
      end
    end.

  (** (p *parser).parse: read the first rune, run rule 0; [inl v] = success with no recorded
      error; [inr errs] = failure (errors oldest first, not yet deduplicated) *)
  Inductive presult := PResult (r : V + list perr) | PFuel.

  Definition initial_state (input : list Z) : pstate :=
    let '(rn, n) := decode_rune input in
    mkst input 0 (if (rn =? rune_error) && (0 <? n) then [(0, None, KInvalidEncoding)] else []).

  Definition parse (fuel : nat) (input : list Z) : presult :=
    match nth_error rules 0 with
    | None => PResult (inr [(0, None, KNoMatch)])
    | Some body =>
      match eval fuel body O (initial_state input) [] with
      | Done true v st _ =>
        match errs st with [] => PResult (inl v) | es => PResult (inr (rev es)) end
      | Done false _ st _ =>
        match errs st with
        | [] => PResult (inr [(off st, None, KNoMatch)])
        | es => PResult (inr (rev es))
        end
      | Abort st => PResult (inr (rev (errs st)))
      | OutOfFuel => PFuel
      end
    end.
End Interp.

Arguments AOk {V E}. Arguments AErr {V E}. Arguments APanic {V E}.
Arguments Done {V E}. Arguments Abort {V E}. Arguments OutOfFuel {V E}.
Arguments mkst {E}. Arguments rest {E}. Arguments off {E}. Arguments errs {E}.
Arguments KInvalidEncoding {E}. Arguments KNoMatch {E}. Arguments KAction {E}. Arguments KPanic {E}.
Arguments PResult {V E}. Arguments PFuel {V E}.
