(** C03 -- a call through generated client and server code.  Executable model of

      compiler/generator/golang/generator.go
          generateClient / generateClientMethod / generateInternalClientMethod   (the F<Svc>Client methods)
          generateProcessor / generateMethodProcessor                            (NewF<Svc>Processor, <svc>F<Method>.Process)
      lib/go/client.go      FStandardClient.Call / Oneway / prepareMessage / processReply
      lib/go/processor.go   FBaseProcessor.Process, FBaseProcessorFunction.SendReply / SendError (writeException)
      lib/go/protocol.go    WriteRequestHeader / ReadRequestHeader / WriteResponseHeader / ReadResponseHeader
      thrift binary_protocol.go  WriteMessageBegin / ReadMessageBegin (strict write, non-strict read: the defaults)
      thrift application_exception.go  tApplicationException.Write / Read
      lib/go/transport.go, registry.go   the 4-byte frame prefix, dispatch of a reply by its op id

    composed from Model/ThriftBin.v (generated struct codecs: the args and result structs are ordinary
    generated structs), Model/Headers.v (header block codec) and Model/Receivers.v (registry).

    The Thrift protocol is a parameter: a [codec] packs what the call uses of a TProtocol (message
    header, TApplicationException, generated struct Write / Read, Skip of the argument struct).
    [bin_codec] is TBinaryProtocol (strict write, non-strict read: the defaults), [compact_codec]
    TCompactProtocol (thrift compact_protocol.go WriteMessageBegin / ReadMessageBegin: protocol id
    0x82, version | type << 5, varint seqid, varint-length name; structs by Model/ThriftCompact.v).
    Every function of the call exists once, as [<name>_c cd]; the unsuffixed names are the
    TBinaryProtocol instances.
    Size limits are C12's (Model/SizeLimit.v) and are not repeated here: every buffer is unbounded.
    No proofs in this file. *)
From Coq Require Import ZArith List Bool.
From FV Require Import Base.Res Base.Bytes Base.GoSem Model.Headers Model.Receivers Model.ThriftBin Model.ThriftCompact.
Import ListNotations.
Open Scope Z_scope.

(** * Strings of the code *)
Definition s_unknown_function : bytes :=    (* "Unknown function " *)
  [85; 110; 107; 110; 111; 119; 110; 32; 102; 117; 110; 99; 116; 105; 111; 110; 32].
Definition s_internal_error : bytes :=      (* "Internal error processing " *)
  [73; 110; 116; 101; 114; 110; 97; 108; 32; 101; 114; 114; 111; 114; 32; 112; 114; 111; 99; 101; 115; 115; 105; 110; 103; 32].
Definition s_colon : bytes := [58; 32].     (* ": " *)
Definition s_wrong_method : bytes :=        (* " failed: wrong method name" *)
  [32; 102; 97; 105; 108; 101; 100; 58; 32; 119; 114; 111; 110; 103; 32; 109; 101; 116; 104; 111; 100; 32; 110; 97; 109; 101].
Definition s_invalid_type : bytes :=        (* " failed: invalid message type" *)
  [32; 102; 97; 105; 108; 101; 100; 58; 32; 105; 110; 118; 97; 108; 105; 100; 32; 109; 101; 115; 115; 97; 103; 101; 32; 116; 121; 112; 101].
Definition cid_hdr : bytes := [95; 99; 105; 100].   (* "_cid" *)

(** thrift.TMessageType *)
Definition T_CALL : Z := 1.
Definition T_REPLY : Z := 2.
Definition T_EXCEPTION : Z := 3.
Definition T_ONEWAY : Z := 4.
(** TApplicationException type ids used by the code *)
Definition AE_UNKNOWN_METHOD : Z := 1.
Definition AE_INVALID_MESSAGE_TYPE : Z := 2.
Definition AE_WRONG_METHOD_NAME : Z := 3.
Definition AE_INTERNAL_ERROR : Z := 6.
Definition AE_PROTOCOL_ERROR : Z := 7.
Definition AE_RESPONSE_TOO_LARGE : Z := 100.
Definition TE_RESPONSE_TOO_LARGE : Z := 101.

(** * Services *)

(** One IDL method.  [m_wire] = parser.LowercaseFirstLetter(method.Name): the key of the client's
    [methods] map, of the processor's processMap, and the name in the message header.  [m_go] =
    snakeToCamel(method.Name): the Go method of F<Svc>Client and of the F<Svc> handler interface.
    [m_args] / [m_result] name the generated <Svc><Method>Args / <Svc><Method>Result structs in the
    environment ([mk_args] / [mk_result] of ThriftBin). *)
Record method := mkMethod {
  m_go : bytes; m_wire : bytes; m_oneway : bool;
  m_args : name; m_result : name;
  m_ret : option ty; m_throws : list field }.

Record service := mkService { s_extends : option name; s_methods : list method }.
Definition services := list (name * service).

Fixpoint slookup (ss : services) (n : name) : option service :=
  match ss with
  | [] => None
  | (m, s) :: r => if m =? n then Some s else slookup r n
  end.

(** NewF<Svc>Processor(handler): the embedded base processor's map first (NewF<Base>Processor),
    then one AddToProcessorMap per own method, in declaration order.  The result is the sequence
    of assignments to the Go map; [plookup] reads it the way the map does (last assignment wins).
    Fuel: the extends chain is acyclic (the compiler rejects cycles), fuel = number of services. *)
Fixpoint proc_entries (fuel : nat) (ss : services) (s : name) : list (bytes * method) :=
  match fuel with
  | O => []
  | S f =>
    match slookup ss s with
    | None => []
    | Some sv =>
      (match s_extends sv with Some p => proc_entries f ss p | None => [] end)
      ++ map (fun m => (m_wire m, m)) (s_methods sv)
    end
  end.

Fixpoint plookup (k : bytes) (l : list (bytes * method)) : option method :=
  match l with
  | [] => None
  | (k', m) :: r => match plookup k r with
                    | Some m' => Some m'
                    | None => if ThriftBin.bytes_eqb k k' then Some m else None
                    end
  end.

(** client.Method(...) on *F<Svc>Client: Go's method promotion through the embedded *F<Base>Client:
    the service's own method if it declares one of that name, else the base's. *)
Fixpoint client_resolve (fuel : nat) (ss : services) (s : name) (go : bytes) : option method :=
  match fuel with
  | O => None
  | S f =>
    match slookup ss s with
    | None => None
    | Some sv =>
      match find (fun m => ThriftBin.bytes_eqb (m_go m) go) (s_methods sv) with
      | Some m => Some m
      | None => match s_extends sv with Some p => client_resolve f ss p go | None => None end
      end
    end
  end.

(** * TBinaryProtocol message header *)

(** WriteMessageBegin, strict write: version word | type, name, seqid *)
Definition msg_begin_enc (nm : bytes) (typ seq : Z) : bytes :=
  be_n 4 (2147549184 + typ) ++ be_n 4 (zlen nm) ++ nm ++ be_n 4 seq.

(** ReadMessageBegin, strictRead = false (the default of TConfiguration) *)
Definition msg_begin_dec (b : bytes) : res (bytes * Z * Z * bytes) :=
  do (size, r1) <- read_int 4 b;
  if size <? 0 then
    let u := size + 4294967296 in
    if negb (u / 65536 =? 32769) then Err EBadVersion else      (* size & 0xffff0000 != VERSION_1 *)
    do (nm, r2) <- read_blob r1;
    do (seq, r3) <- read_int 4 r2;
    Ok (nm, u mod 256, seq, r3)
  else
    if zlen r1 <? size then Err EEOF else
    let nm := firstn (Z.to_nat size) r1 in
    do (t, r2) <- read_int 1 (skipn (Z.to_nat size) r1);
    do (seq, r3) <- read_int 4 r2;
    Ok (nm, t, seq, r3).

(** * TApplicationException.  [msg] stands for Error(): the message, or thrift's default text for
    the type when the message is empty (Write writes Error(), so the reader's Error() is the
    writer's). *)
Definition appexc_enc (kind : Z) (msg : bytes) : bytes :=
  (match msg with [] => [] | _ => 11 :: be_n 2 1 ++ be_n 4 (zlen msg) ++ msg end)
  ++ 8 :: be_n 2 2 ++ be_n 4 kind ++ [0].

(** Read: field 1 STRING -> message, field 2 I32 -> type, anything else skipped *)
Fixpoint appexc_dec (fuel : nat) (b : bytes) (msg : bytes) (kind : Z) : res (bytes * Z * bytes) :=
  match fuel with
  | O => OutOfFuel
  | S f =>
    do (wt, r1) <- read_int 1 b;
    if wt =? 0 then Ok (msg, kind, r1) else
    do (id, r2) <- read_int 2 r1;
    if (id =? 1) && (wt =? 11) then do (s, r3) <- read_blob r2; appexc_dec f r3 s kind
    else if (id =? 2) && (wt =? 8) then do (k, r3) <- read_int 4 r2; appexc_dec f r3 msg k
    else do r3 <- skip_default f wt r2; appexc_dec f r3 msg kind
  end.

(** * Frames: 4-byte big-endian size, then the payload *)
Definition frame_of (payload : bytes) : bytes := be_n 4 (zlen payload) ++ payload.
(** every server transport discards the first four bytes without looking at them *)
Definition unframe (frame : bytes) : res bytes :=
  if zlen frame <? 4 then Err EInvalidData else Ok (skipn 4 frame).

(** * TCompactProtocol message header and TApplicationException *)

(** WriteMessageBegin: writeByteDirect(0x82), writeByteDirect(VERSION & 0x1f | (byte(type) << 5) & 0xe0),
    writeVarint32(seqid) (no zigzag), WriteString(name).  Only three bits of the type travel. *)
Definition cmsg_begin_enc (nm : bytes) (typ seq : Z) : bytes :=
  [130; 1 + 32 * (typ mod 8)] ++ varint32 seq ++ varint32 (zlen nm) ++ nm.

(** ReadMessageBegin: protocol id, version (low five bits) and type (high three), readVarint32, ReadString *)
Definition cmsg_begin_dec (b : bytes) : res (bytes * Z * Z * bytes) :=
  do (pid, s1) <- c_byte (None, b);
  if negb (pid =? 130) then Err EBadVersion else
  do (vt, s2) <- c_byte s1;
  if negb (vt mod 32 =? 1) then Err EBadVersion else
  do (seq, s3) <- c_varint32 s2;
  do (nm, s4) <- c_blob s3;
  Ok (nm, (vt / 32) mod 8, seq, snd s4).

(** tApplicationException.Write over TCompactProtocol: field 1 (binary, delta 1) if Error() is not
    empty, field 2 (i32; delta 1 after field 1, else delta 2), STOP *)
Definition cappexc_enc (kind : Z) (msg : bytes) : bytes :=
  (match msg with [] => [] | _ => cfield_hdr 0 1 8 ++ varint32 (zlen msg) ++ msg end)
  ++ cfield_hdr (match msg with [] => 0 | _ => 1 end) 2 5 ++ varint32 (zigzag32 kind) ++ [0].

(** tApplicationException.Read: ReadStructBegin resets lastFieldId to 0 *)
Fixpoint cappexc_dec_from (fuel : nat) (last : Z) (st : cst) (msg : bytes) (kind : Z) : res (bytes * Z * cst) :=
  match fuel with
  | O => OutOfFuel
  | S f =>
    do (h, s1) <- c_field_hdr last st;
    let '(wt, id) := h in
    if wt =? 0 then Ok (msg, kind, s1) else
    if (id =? 1) && (wt =? 11) then do (s, s2) <- c_blob s1; cappexc_dec_from f id s2 s kind
    else if (id =? 2) && (wt =? 8) then do (k, s2) <- c_i32 s1; cappexc_dec_from f id s2 msg k
    else do s2 <- cskip_default f wt s1; cappexc_dec_from f id s2 msg kind
  end.
Definition cappexc_dec (fuel : nat) (b : bytes) : res (bytes * Z * bytes) :=
  do (r, s) <- cappexc_dec_from fuel 0 (None, b) [] 0; Ok (r, snd s).

(** * The protocol as the call uses it *)
Record codec := mkCodec {
  cd_msg_enc : bytes -> Z -> Z -> bytes;                      (* WriteMessageBegin name type seqid *)
  cd_msg_dec : bytes -> res (bytes * Z * Z * bytes);          (* ReadMessageBegin: name, type, seqid, rest *)
  cd_exc_enc : Z -> bytes -> bytes;                           (* tApplicationException.Write: type, Error() *)
  cd_exc_dec : nat -> bytes -> res (bytes * Z * bytes);       (* tApplicationException.Read: message, type, rest *)
  cd_write : env -> ty -> val -> res bytes;                   (* generated Write of a struct-like *)
  cd_read : nat -> env -> ty -> bytes -> res (val * bytes);   (* generated Read *)
  cd_skip_struct : nat -> bytes -> res bytes }.               (* iprot.Skip(STRUCT): rest *)

Definition bin_codec : codec :=
  mkCodec msg_begin_enc msg_begin_dec appexc_enc (fun fuel b => appexc_dec fuel b [] 0)
          gwrite gread (fun fuel b => skip_default fuel 12 b).

Definition compact_codec : codec :=
  mkCodec cmsg_begin_enc cmsg_begin_dec cappexc_enc cappexc_dec
          gcwrite gcread (fun fuel b => do s <- cskip_default fuel 12 (None, b); Ok (snd s)).

(** * Handler outcomes and what the caller sees *)

(** What the user's handler returns.  Values are Go values ([None] = nil pointer / nil slice /
    nil map; for a void method [HRet None]). *)
Inductive houtcome :=
| HRet (v : option val)                      (* (r, nil) *)
| HDeclared (n : name) (v : val) (text : bytes)   (* a non-nil *Exc, Exc the struct-like [n]; text = Error() *)
| HAppExc (kind : Z) (text : bytes)          (* a thrift.TApplicationException; text = Error() *)
| HOther (text : bytes).                     (* any other error; text = Error() *)

Inductive coutcome :=
| CRet (v : option val)                      (* (r, nil) *)
| CDeclared (n : name) (v : val)             (* err is the *Exc read from the result struct *)
| CAppExc (kind : Z) (text : bytes)          (* err is a TApplicationException *)
| CTransport (kind : Z) (text : bytes)       (* err is a TTransportException *)
| CTimeout                                   (* no reply reached the caller *)
| CErr (e : errk).                           (* a decoding error *)

Definition handler := bytes -> list (option val) -> houtcome.
(** handler invocations: method (by wire name) and the arguments it was given *)
Definition hlog := list (bytes * list (option val)).

Definition slots_of (v : val) : list (option val) := match v with VStruct l => l | _ => [] end.

Section WithCodec.
Variable cd : codec.

(** * Server *)

(** FProtocol.ReadRequestHeader: the response headers the new context starts with:
    the caller's op id and, if not empty, its correlation id *)
Definition response_headers (hs : list hpair) (opid : bytes) : list hpair :=
  (opid_header, opid) ::
  match lookup_default cid_hdr hs with [] => [] | cid => [(cid_hdr, cid)] end.

(** writeException(oprot, headers, method, ex) on an unbounded buffer *)
Definition exception_msg_c (rh : list hpair) (mname : bytes) (kind : Z) (text : bytes) : bytes :=
  marshal rh ++ cd_msg_enc cd mname T_EXCEPTION 0 ++ cd_exc_enc cd kind text.

(** the throws clause as the generated type switch sees it: the first case whose Go type is the
    error's type (a typedef of an exception is an alias of it) *)
Fixpoint find_throw (e : env) (n : name) (ts : list field) : option field :=
  match ts with
  | [] => None
  | f :: r => match resolve e (fty f) with
              | TRef n' => if n' =? n then Some f else find_throw e n r
              | _ => find_throw e n r
              end
  end.

(** result struct slots: success (if the method returns a value) then the throws, in order *)
Definition result_slots (m : method) (succ : option val) (thrown : option (Z * val)) : list (option val) :=
  (match m_ret m with Some _ => [succ] | None => [] end)
  ++ map (fun f => match thrown with
                   | Some (id, v) => if fid f =? id then Some v else None
                   | None => None
                   end) (m_throws m).

(** the part of <svc>F<Method>.Process after the handler returned: what is written to the output
    protocol ([None] = nothing).  SendError for a TApplicationException, a declared exception into
    its result field, any other error as INTERNAL_ERROR, a value into [success]; a oneway method
    answers only errors.  A result struct the generated Write refuses (a value outside the declared
    type) is trapped by SendReply (trapError: the partial reply is dropped and INTERNAL_ERROR with the
    Write error's text is sent; the text is not modelled); the model reports that as [Err]. *)
Definition respond_c (e : env) (rh : list hpair) (m : method) (o : houtcome) : res (option bytes) :=
  let send_error kind text := Ok (Some (exception_msg_c rh (m_wire m) kind text)) in
  let internal text := s_internal_error ++ m_wire m ++ s_colon ++ text in
  let reply slots :=
      do b <- cd_write cd e (TRef (m_result m)) (VStruct slots);
      Ok (Some (marshal rh ++ cd_msg_enc cd (m_wire m) T_REPLY 0 ++ b)) in
  match o with
  | HAppExc kind text => send_error kind text
  | HOther text => send_error AE_INTERNAL_ERROR (internal text)
  | HDeclared n v text =>
    match (if m_oneway m then None else find_throw e n (m_throws m)) with
    | Some f => reply (result_slots m None (Some (fid f, v)))
    | None => send_error AE_INTERNAL_ERROR (internal text)
    end
  | HRet ov =>
    if m_oneway m then Ok None
    else reply (result_slots m ov None)
  end.

(** <svc>F<Method>.Process(fctx, iprot, oprot): [input] is what follows the message header.
    Result: what was written to the output protocol and the handler log. *)
Definition method_process_c (fuel : nat) (e : env) (h : handler) (rh : list hpair) (m : method) (input : bytes)
  : res (option bytes * hlog) :=
  match cd_read cd fuel e (TRef (m_args m)) input with
  | Err _ =>    (* SendError(PROTOCOL_ERROR, err.Error()); the text is not modelled *)
    Ok (Some (exception_msg_c rh (m_wire m) AE_PROTOCOL_ERROR []), [])
  | Panic p => Panic p
  | OutOfFuel => OutOfFuel
  | Ok (a, _) =>
    let args := slots_of a in
    do o <- respond_c e rh m (h (m_wire m) args);
    Ok (o, [(m_wire m, args)])
  end.

(** FBaseProcessor.Process(iprot, oprot) *)
Definition server_process_c (fuel : nat) (e : env) (pm : list (bytes * method)) (h : handler) (input : bytes)
  : res (option bytes * hlog) :=
  do (hs, opid, r1) <- read_request_header input;
  let rh := response_headers (to_map hs) opid in
  do (nm, _, _, r2) <- cd_msg_dec cd r1;
  match plookup nm pm with
  | Some m => method_process_c fuel e h rh m r2
  | None =>
    (* iprot.Skip(STRUCT): an error is logged and the caller answered all the same *)
    match cd_skip_struct cd fuel r2 with
    | Panic p => Panic p
    | OutOfFuel => OutOfFuel
    | Ok _ | Err _ => Ok (Some (exception_msg_c rh nm AE_UNKNOWN_METHOD (s_unknown_function ++ nm)), [])
    end
  end.

(** * Client *)

(** the generated client method up to the transport: args struct from the parameters,
    prepareMessage (request headers, message header CALL / ONEWAY, args) *)
Definition client_prepare_c (e : env) (m : method) (hdrs : list hpair) (args : list (option val)) : res bytes :=
  do b <- cd_write cd e (TRef (m_args m)) (VStruct args);
  Ok (marshal hdrs ++ cd_msg_enc cd (m_wire m) (if m_oneway m then T_ONEWAY else T_CALL) 0 ++ b).

(** Get<Field>() of an optional result field: the zero value when unset *)
Definition get_success (e : env) (t : ty) (slot : option val) : option val :=
  match slot with
  | Some v => Some v
  | None => zero_of (shape_of e t)
  end.

(** after Call returned nil: the first exception field that is set, else GetSuccess() *)
Fixpoint first_thrown (e : env) (ts : list field) (slots : list (option val)) : option (name * val) :=
  match ts, slots with
  | f :: ts', Some v :: sl' =>
    Some (match resolve e (fty f) with TRef n => n | _ => 0 end, v)
  | _ :: ts', None :: sl' => first_thrown e ts' sl'
  | _, _ => None
  end.

Definition result_outcome (e : env) (m : method) (slots : list (option val)) : coutcome :=
  let '(succ, exc_slots) :=
      match m_ret m, slots with
      | Some _, s :: r => (s, r)
      | _, _ => (None, slots)
      end in
  match first_thrown e (m_throws m) exc_slots with
  | Some (n, v) => CDeclared n v
  | None => CRet (match m_ret m with Some t => get_success e t succ | None => None end)
  end.

Definition cerr {A} (r : res A) : coutcome :=
  match r with Err e => CErr e | _ => CErr EOther end.

(** FStandardClient.processReply + the tail of the generated client method *)
Definition process_reply_c (fuel : nat) (e : env) (m : method) (reply : bytes) : coutcome :=
  match read_header reply with
  | Ok (_, r1) =>
    match cd_msg_dec cd r1 with
    | Ok (nm, typ, _, r2) =>
      if negb (ThriftBin.bytes_eqb nm (m_wire m)) then CAppExc AE_WRONG_METHOD_NAME (m_wire m ++ s_wrong_method)
      else if typ =? T_EXCEPTION then
        match cd_exc_dec cd fuel r2 with
        | Ok (text, kind, _) =>
          if kind =? AE_RESPONSE_TOO_LARGE then CTransport TE_RESPONSE_TOO_LARGE text else CAppExc kind text
        | r => cerr r
        end
      else if negb (typ =? T_REPLY) then CAppExc AE_INVALID_MESSAGE_TYPE (m_wire m ++ s_invalid_type)
      else
        match cd_read cd fuel e (TRef (m_result m)) r2 with
        | Ok (v, _) => result_outcome e m (slots_of v)
        | r => cerr r
        end
    | r => cerr r
    end
  | r => cerr r
  end.

(** * A call, end to end.  [hdrs]: the request headers of the caller's FContext (they hold its op id).
    [registry]: the client transport finds the caller of a reply by the op id in the reply's headers
    (adapter and NATS transports); HTTP and the in-memory transport hand the reply to the caller directly.
    Result: what the caller gets, the handler log, the reply payload the server produced. *)
Definition reply_reaches_caller (registry : bool) (hdrs : list hpair) (reply : bytes) : bool :=
  if registry then
    match execute_frame (frame_of reply), parse_uint64 (lookup_default opid_header hdrs) with
    | Ok op, Some mine => op =? mine
    | _, _ => false
    end
  else true.

Definition rpc_call_c (fuel : nat) (e : env) (pm : list (bytes * method)) (h : handler) (registry : bool)
           (m : method) (hdrs : list hpair) (args : list (option val))
  : res (coutcome * hlog * option bytes) :=
  match client_prepare_c e m hdrs args with
  | Err err => Ok (CErr err, [], None)     (* the generated Write refuses the arguments: nothing is sent *)
  | Panic p => Panic p
  | OutOfFuel => OutOfFuel
  | Ok req =>
  do payload <- unframe (frame_of req);
  do (out, log) <- server_process_c fuel e pm h payload;
  if m_oneway m then Ok (CRet None, log, out)
  else
    match out with
    | None => Ok (CTimeout, log, None)
    | Some reply =>
      if reply_reaches_caller registry hdrs reply
      then Ok (process_reply_c fuel e m reply, log, out)
      else Ok (CTimeout, log, out)
    end
  end.

End WithCodec.

(** * The TBinaryProtocol instances (the names the binary theorems of Props/C03.v are stated with) *)
Definition exception_msg := exception_msg_c bin_codec.
Definition respond := respond_c bin_codec.
Definition method_process := method_process_c bin_codec.
Definition server_process := server_process_c bin_codec.
Definition client_prepare := client_prepare_c bin_codec.
Definition process_reply := process_reply_c bin_codec.
Definition rpc_call := rpc_call_c bin_codec.

(** the specification: what the caller of a two-way method should see for each handler outcome *)
Definition map_outcome (e : env) (m : method) (o : houtcome) : coutcome :=
  match o with
  | HRet ov => CRet (match m_ret m with Some t => get_success e t ov | None => None end)
  | HDeclared n v text =>
    match find_throw e n (m_throws m) with
    | Some _ => CDeclared n v
    | None => CAppExc AE_INTERNAL_ERROR (s_internal_error ++ m_wire m ++ s_colon ++ text)
    end
  | HAppExc kind text =>
    if kind =? AE_RESPONSE_TOO_LARGE then CTransport TE_RESPONSE_TOO_LARGE text else CAppExc kind text
  | HOther text => CAppExc AE_INTERNAL_ERROR (s_internal_error ++ m_wire m ++ s_colon ++ text)
  end.
