(** Model of the client-side multiplexing core (C01, C06, C13): lib/go/registry.go
    (Register / Unregister / Execute / dispatch) and fAdapterTransport.Request (register, send in
    its own goroutine, select on result / send error / deadline, deferred Unregister), as an
    interleaving small-step system. Actors: callers (one goroutine each plus its send goroutine),
    the clock, and the single reader (adapter read loop / NATS subscription callback), cut at the
    points where they touch shared state. [step] returns None for an event that is not enabled
    (e.g. a goroutine blocked on a channel); the [blocking] flag selects the dispatch of the
    pinned tree (blocking channel send) instead of the repaired one (non-blocking send, drop). *)
From Coq Require Import ZArith List Bool Arith.
Import ListNotations.
Open Scope Z_scope.

Record frame := { f_op : Z; f_tag : Z }.
Inductive took := TResult | TTimeout | TSendErr.
Inductive outcome := OOk (f : frame) | OTimedOut | OSendErr.
Inductive cphase :=
| CNew
| CParked                                (* registered, not yet in the select *)
| CSelect                                (* blocked in the select *)
| CTook (t : took) (got : option frame)  (* left the select; the deferred Unregister has not run *)
| CDone (o : outcome).
Inductive sendst := SNone | SParked | SOk | SFailed.

Record caller := { c_op : Z; c_phase : cphase; c_chan : list frame (* capacity 1 *);
                   c_send : sendst; c_deadline : bool (* ToContext: Timeout() > 0 *) }.
Inductive reader := RIdle | RLooked (j : nat) (f : frame).
Record st := { callers : nat -> caller; ncallers : nat;
               reg : list (Z * nat);      (* channels map: op id -> the caller whose channel it is *)
               rd : reader }.

Inductive ev :=
| ERegister (i : nat)
| ERelease (i : nat)
| ESendOk (i : nat) | ESendFail (i : nat)
| EArrive (f : frame)
| EDeliver
| ETake (i : nat) (t : took)
| EUnregister (i : nat).

Fixpoint reg_lookup (r : list (Z * nat)) (k : Z) : option nat :=
  match r with
  | [] => None
  | (k', j) :: r' => if k' =? k then Some j else reg_lookup r' k
  end.
Fixpoint reg_remove (r : list (Z * nat)) (k : Z) : list (Z * nat) :=
  match r with
  | [] => []
  | (k', j) :: r' => if k' =? k then reg_remove r' k else (k', j) :: reg_remove r' k
  end.

Definition upd (cs : nat -> caller) (i : nat) (c : caller) : nat -> caller :=
  fun j => if Nat.eqb j i then c else cs j.
Definition set_phase (c : caller) (p : cphase) : caller :=
  {| c_op := c_op c; c_phase := p; c_chan := c_chan c; c_send := c_send c; c_deadline := c_deadline c |}.
Definition set_chan (c : caller) (ch : list frame) : caller :=
  {| c_op := c_op c; c_phase := c_phase c; c_chan := ch; c_send := c_send c; c_deadline := c_deadline c |}.
Definition set_send (c : caller) (s : sendst) : caller :=
  {| c_op := c_op c; c_phase := c_phase c; c_chan := c_chan c; c_send := s; c_deadline := c_deadline c |}.
Definition with_callers (s : st) (cs : nat -> caller) : st :=
  {| callers := cs; ncallers := ncallers s; reg := reg s; rd := rd s |}.
Definition with_reg (s : st) (r : list (Z * nat)) : st :=
  {| callers := callers s; ncallers := ncallers s; reg := r; rd := rd s |}.
Definition with_rd (s : st) (r : reader) : st :=
  {| callers := callers s; ncallers := ncallers s; reg := reg s; rd := r |}.

Definition outcome_of (t : took) (got : option frame) : option outcome :=
  match t, got with
  | TResult, Some f => Some (OOk f)
  | TTimeout, _ => Some OTimedOut
  | TSendErr, _ => Some OSendErr
  | TResult, None => None
  end.

Definition step (blocking : bool) (s : st) (e : ev) : option st :=
  match e with
  | ERegister i =>
    if negb (Nat.ltb i (ncallers s)) then None else
    let c := callers s i in
    match c_phase c with
    | CNew =>
      (* Register: an op id already in flight is an error, which the adapter transport ignores *)
      let r := match reg_lookup (reg s) (c_op c) with
               | Some _ => reg s
               | None => (c_op c, i) :: reg s
               end in
      Some (with_reg (with_callers s (upd (callers s) i (set_phase c CParked))) r)
    | _ => None
    end
  | ERelease i =>
    if negb (Nat.ltb i (ncallers s)) then None else
    let c := callers s i in
    match c_phase c with
    | CParked => Some (with_callers s (upd (callers s) i (set_send (set_phase c CSelect) SParked)))
    | _ => None
    end
  | ESendOk i =>
    if negb (Nat.ltb i (ncallers s)) then None else
    let c := callers s i in
    match c_send c with
    | SParked => Some (with_callers s (upd (callers s) i (set_send c SOk)))
    | _ => None
    end
  | ESendFail i =>
    if negb (Nat.ltb i (ncallers s)) then None else
    let c := callers s i in
    match c_send c with
    | SParked => Some (with_callers s (upd (callers s) i (set_send c SFailed)))
    | _ => None
    end
  | EArrive f =>
    match rd s with
    | RIdle => match reg_lookup (reg s) (f_op f) with
               | Some j => Some (with_rd s (RLooked j f))
               | None => Some s                       (* unregistered context: dropped *)
               end
    | RLooked _ _ => None                             (* the single reader is busy *)
    end
  | EDeliver =>
    match rd s with
    | RLooked j f =>
      let c := callers s j in
      match c_chan c with
      | [] => Some (with_rd (with_callers s (upd (callers s) j (set_chan c [f]))) RIdle)
      | _ => if blocking then None                    (* pinned: the reader blocks on the full channel *)
             else Some (with_rd s RIdle)              (* repaired: the frame is dropped *)
      end
    | RIdle => None
    end
  | ETake i t =>
    if negb (Nat.ltb i (ncallers s)) then None else
    let c := callers s i in
    match c_phase c with
    | CSelect =>
      match t with
      | TResult => match c_chan c with
                   | f :: _ => Some (with_callers s (upd (callers s) i (set_chan (set_phase c (CTook TResult (Some f))) [])))
                   | [] => None
                   end
      | TTimeout => if c_deadline c
                    then Some (with_callers s (upd (callers s) i (set_phase c (CTook TTimeout None))))
                    else None
      | TSendErr => match c_send c with
                    | SFailed => Some (with_callers s (upd (callers s) i (set_phase c (CTook TSendErr None))))
                    | _ => None
                    end
      end
    | _ => None
    end
  | EUnregister i =>
    if negb (Nat.ltb i (ncallers s)) then None else
    let c := callers s i in
    match c_phase c with
    | CTook t got =>
      match outcome_of t got with
      | Some o => Some (with_reg (with_callers s (upd (callers s) i (set_phase c (CDone o))))
                                 (reg_remove (reg s) (c_op c)))
      | None => None
      end
    | _ => None
    end
  end.

Fixpoint run (blocking : bool) (s : st) (evs : list ev) : option st :=
  match evs with
  | [] => Some s
  | e :: r => match step blocking s e with Some s' => run blocking s' r | None => None end
  end.

(** initial state: n callers with the given op ids and deadline flags *)
Definition init (ops : nat -> Z) (dl : nat -> bool) (n : nat) : st :=
  {| callers := fun i => {| c_op := ops i; c_phase := CNew; c_chan := []; c_send := SNone; c_deadline := dl i |};
     ncallers := n; reg := []; rd := RIdle |}.
