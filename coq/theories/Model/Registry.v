(** Model of the client-side multiplexing core (C01, C06, C13): lib/go/registry.go
    (Register / Unregister / Execute / dispatch) and the Request function of the two transports
    built on it, as an interleaving small-step system:

    - [KAdapter]: fAdapterTransport.Request (register - error ignored -, send in its own
      goroutine, select on result / send error / context deadline, deferred Unregister);
    - [KNats]: fNatsTransport.Request (IsOpen check, len(data)==4 shortcut, Register whose error
      IS returned, deferred Unregister, checkMessageSize AFTER Register, synchronous
      PublishRequest, select on result / time.After(ctx.Timeout()), the empty frame
      [serviceNotAvailable] mapped to SERVICE_NOT_AVAILABLE) and fNatsTransport.handler (a status
      503 message is routed through registry.dispatch(opid, serviceNotAvailable)).

    Actors: callers (one goroutine each plus, on the adapter, its send goroutine), the clock, the
    environment (transport open or not, publish succeeds or not) and the single reader (adapter
    read loop / NATS subscription callback), cut at the points where they touch shared state.
    [step] returns None for an event that is not enabled (e.g. a goroutine blocked on a channel);
    the [blocking] flag selects the dispatch of the pinned tree (blocking channel send) instead of
    the repaired one (non-blocking send, drop). *)
From Coq Require Import ZArith List Bool Arith.
Import ListNotations.
Open Scope Z_scope.

Inductive kind := KAdapter | KNats.

(** a frame is (op id it is dispatched under, identity of its content). The content identity
    [na_tag] stands for the empty byte string [serviceNotAvailable] (nats_transport.go); a frame
    with that content cannot come out of Execute (an empty frame has no headers), the model lets
    it through [EArrive] all the same (more behaviours than the code, never fewer). *)
Record frame := { f_op : Z; f_tag : Z }.
Definition na_tag : Z := -1.
Definition is_na (f : frame) : bool := f_tag f =? na_tag.
Definition na_frame (op : Z) : frame := {| f_op := op; f_tag := na_tag |}.

Inductive took := TResult | TTimeout | TSendErr | TTooLarge.
Inductive outcome :=
| OOk (f : frame) | OTimedOut
| OSendErr                               (* adapter: Write/Flush error; NATS: PublishRequest error *)
| ONotOpen                               (* NATS: !IsOpen() *)
| OEmpty                                 (* NATS: len(data) == 4: (nil, nil) *)
| ORegErr                                (* NATS: Register's error (op id in flight, or malformed) returned *)
| ONotAvail                              (* NATS: the result is serviceNotAvailable *)
| OTooLarge.                             (* NATS: checkMessageSize failed (after Register) *)
Inductive cphase :=
| CNew
| CParked                                (* registered, not yet in the select *)
| CSelect                                (* blocked in the select *)
| CTook (t : took) (got : option frame)  (* left the select; the deferred Unregister has not run *)
| CDone (o : outcome).
Inductive sendst := SNone | SParked | SOk | SFailed.
(** what Request looks at in its [data] argument (NATS only) *)
Inductive dkind := DNormal | DEmpty (* len = 4 *) | DTooLarge (* len > natsMaxMessageSize *).

Record caller := { c_op : Z; c_phase : cphase; c_chan : list frame (* capacity 1 *);
                   c_send : sendst; c_deadline : bool (* ToContext: Timeout() > 0; adapter only *);
                   c_data : dkind }.
Inductive reader := RIdle | RLooked (j : nat) (f : frame).
Record st := { callers : nat -> caller; ncallers : nat;
               reg : list (Z * nat);      (* channels map: op id -> the caller whose channel it is *)
               rd : reader }.

Inductive ev :=
| ERegister (i : nat)
| ERelease (i : nat)
| ESendOk (i : nat) | ESendFail (i : nat)
| EArrive (f : frame)
| EDeliver
| ETake (i : nat) (t : took)
| EUnregister (i : nat)
| ENotOpen (i : nat)          (* NATS: Request finds the transport not open *)
| EPublishFail (i : nat)      (* NATS: PublishRequest returns an error *)
| EArrive503 (op : Z).        (* NATS: status 503 message on <inbox>.<op> *)

Fixpoint reg_lookup (r : list (Z * nat)) (k : Z) : option nat :=
  match r with
  | [] => None
  | (k', j) :: r' => if k' =? k then Some j else reg_lookup r' k
  end.
Fixpoint reg_remove (r : list (Z * nat)) (k : Z) : list (Z * nat) :=
  match r with
  | [] => []
  | (k', j) :: r' => if k' =? k then reg_remove r' k else (k', j) :: reg_remove r' k
  end.

Definition upd (cs : nat -> caller) (i : nat) (c : caller) : nat -> caller :=
  fun j => if Nat.eqb j i then c else cs j.
Definition set_phase (c : caller) (p : cphase) : caller :=
  {| c_op := c_op c; c_phase := p; c_chan := c_chan c; c_send := c_send c; c_deadline := c_deadline c; c_data := c_data c |}.
Definition set_chan (c : caller) (ch : list frame) : caller :=
  {| c_op := c_op c; c_phase := c_phase c; c_chan := ch; c_send := c_send c; c_deadline := c_deadline c; c_data := c_data c |}.
Definition set_send (c : caller) (s : sendst) : caller :=
  {| c_op := c_op c; c_phase := c_phase c; c_chan := c_chan c; c_send := s; c_deadline := c_deadline c; c_data := c_data c |}.
Definition with_callers (s : st) (cs : nat -> caller) : st :=
  {| callers := cs; ncallers := ncallers s; reg := reg s; rd := rd s |}.
Definition with_reg (s : st) (r : list (Z * nat)) : st :=
  {| callers := callers s; ncallers := ncallers s; reg := r; rd := rd s |}.
Definition with_rd (s : st) (r : reader) : st :=
  {| callers := callers s; ncallers := ncallers s; reg := reg s; rd := r |}.

(** what Request returns once the deferred Unregister has run *)
Definition outcome_of (tk : kind) (t : took) (got : option frame) : option outcome :=
  match t, got with
  | TResult, Some f =>
    match tk with
    | KNats => if is_na f then Some ONotAvail else Some (OOk f)   (* bytes.Equal(result, serviceNotAvailable) *)
    | KAdapter => Some (OOk f)
    end
  | TTimeout, _ => Some OTimedOut
  | TSendErr, _ => Some OSendErr
  | TTooLarge, _ => Some OTooLarge
  | TResult, None => None
  end.

(** registry.dispatch(op, frame): lookup under RLock; a miss is logged and dropped *)
Definition lookup_step (s : st) (f : frame) : option st :=
  match rd s with
  | RIdle => match reg_lookup (reg s) (f_op f) with
             | Some j => Some (with_rd s (RLooked j f))
             | None => Some s                       (* unregistered context: dropped *)
             end
  | RLooked _ _ => None                             (* the single reader is busy *)
  end.

Definition step (tk : kind) (blocking : bool) (s : st) (e : ev) : option st :=
  match e with
  | ERegister i =>
    if negb (Nat.ltb i (ncallers s)) then None else
    let c := callers s i in
    match c_phase c with
    | CNew =>
      match tk with
      | KAdapter =>
        (* Register: a malformed op id (modelled as a negative number; getOpID fails) or an op id
           already in flight is an error, which the adapter transport ignores; nothing is registered *)
        let r := if c_op c <? 0 then reg s else
                 match reg_lookup (reg s) (c_op c) with
                 | Some _ => reg s
                 | None => (c_op c, i) :: reg s
                 end in
        Some (with_reg (with_callers s (upd (callers s) i (set_phase c CParked))) r)
      | KNats =>
        match c_data c with
        | DEmpty => Some (with_callers s (upd (callers s) i (set_phase c (CDone OEmpty))))
        | _ =>
          if c_op c <? 0 then  (* malformed op id: Register refuses it *)
            Some (with_callers s (upd (callers s) i (set_phase c (CDone ORegErr)))) else
          match reg_lookup (reg s) (c_op c) with
          | Some _ => (* Register fails; returned BEFORE the deferred Unregister is installed *)
            Some (with_callers s (upd (callers s) i (set_phase c (CDone ORegErr))))
          | None =>
            Some (with_reg (with_callers s (upd (callers s) i (set_phase c CParked))) ((c_op c, i) :: reg s))
          end
        end
      end
    | _ => None
    end
  | ENotOpen i =>
    if negb (Nat.ltb i (ncallers s)) then None else
    let c := callers s i in
    match tk, c_phase c with
    | KNats, CNew => Some (with_callers s (upd (callers s) i (set_phase c (CDone ONotOpen))))
    | _, _ => None
    end
  | ERelease i =>
    if negb (Nat.ltb i (ncallers s)) then None else
    let c := callers s i in
    match c_phase c with
    | CParked =>
      match tk with
      | KAdapter => Some (with_callers s (upd (callers s) i (set_send (set_phase c CSelect) SParked)))
      | KNats =>
        match c_data c with
        | DTooLarge => Some (with_callers s (upd (callers s) i (set_phase c (CTook TTooLarge None))))
        | _ => (* PublishRequest returned nil; the caller enters its select *)
          Some (with_callers s (upd (callers s) i (set_send (set_phase c CSelect) SOk)))
        end
      end
    | _ => None
    end
  | EPublishFail i =>
    if negb (Nat.ltb i (ncallers s)) then None else
    let c := callers s i in
    match tk, c_phase c, c_data c with
    | KNats, CParked, DNormal => Some (with_callers s (upd (callers s) i (set_phase c (CTook TSendErr None))))
    | _, _, _ => None
    end
  | ESendOk i =>
    if negb (Nat.ltb i (ncallers s)) then None else
    let c := callers s i in
    match c_send c with
    | SParked => Some (with_callers s (upd (callers s) i (set_send c SOk)))
    | _ => None
    end
  | ESendFail i =>
    if negb (Nat.ltb i (ncallers s)) then None else
    let c := callers s i in
    match c_send c with
    | SParked => Some (with_callers s (upd (callers s) i (set_send c SFailed)))
    | _ => None
    end
  | EArrive f => lookup_step s f
  | EArrive503 op =>
    match tk with
    | KNats => lookup_step s (na_frame op)          (* handler -> dispatch(op, serviceNotAvailable) *)
    | KAdapter => None
    end
  | EDeliver =>
    match rd s with
    | RLooked j f =>
      let c := callers s j in
      match c_chan c with
      | [] => Some (with_rd (with_callers s (upd (callers s) j (set_chan c [f]))) RIdle)
      | _ => if blocking then None                    (* pinned: the reader blocks on the full channel *)
             else Some (with_rd s RIdle)              (* repaired: the frame is dropped *)
      end
    | RIdle => None
    end
  | ETake i t =>
    if negb (Nat.ltb i (ncallers s)) then None else
    let c := callers s i in
    match c_phase c with
    | CSelect =>
      match t with
      | TResult => match c_chan c with
                   | f :: _ => Some (with_callers s (upd (callers s) i (set_chan (set_phase c (CTook TResult (Some f))) [])))
                   | [] => None
                   end
      | TTimeout =>
        (* adapter: ctx.Done() of ToContext, which has a deadline iff Timeout() > 0;
           NATS: time.After(ctx.Timeout()) always fires *)
        if match tk with KAdapter => c_deadline c | KNats => true end
        then Some (with_callers s (upd (callers s) i (set_phase c (CTook TTimeout None))))
        else None
      | TSendErr => match c_send c with
                    | SFailed => Some (with_callers s (upd (callers s) i (set_phase c (CTook TSendErr None))))
                    | _ => None
                    end
      | TTooLarge => None                             (* not a branch of the select *)
      end
    | _ => None
    end
  | EUnregister i =>
    if negb (Nat.ltb i (ncallers s)) then None else
    let c := callers s i in
    match c_phase c with
    | CTook t got =>
      match outcome_of tk t got with
      | Some o => Some (with_reg (with_callers s (upd (callers s) i (set_phase c (CDone o))))
                                 (reg_remove (reg s) (c_op c)))
      | None => None
      end
    | _ => None
    end
  end.

Fixpoint run (tk : kind) (blocking : bool) (s : st) (evs : list ev) : option st :=
  match evs with
  | [] => Some s
  | e :: r => match step tk blocking s e with Some s' => run tk blocking s' r | None => None end
  end.

(** initial state: n callers with the given op ids, deadline flags and data kinds *)
Definition initd (ops : nat -> Z) (dl : nat -> bool) (dk : nat -> dkind) (n : nat) : st :=
  {| callers := fun i => {| c_op := ops i; c_phase := CNew; c_chan := []; c_send := SNone;
                            c_deadline := dl i; c_data := dk i |};
     ncallers := n; reg := []; rd := RIdle |}.
Definition init (ops : nat -> Z) (dl : nat -> bool) (n : nat) : st := initd ops dl (fun _ => DNormal) n.

(** the frames that reached dispatch during a run, in order *)
Fixpoint arrivals (evs : list ev) : list frame :=
  match evs with
  | [] => []
  | EArrive f :: r => f :: arrivals r
  | EArrive503 op :: r => na_frame op :: arrivals r
  | _ :: r => arrivals r
  end.
