(** C14 over BOUNDED outputs.  Executable model, on top of Model/Processor.v, of

      lib/go/processor.go
        FBaseProcessor.Process           the unknown-method answer: writeException with the response headers,
                                         and — after fix 54aa11f — the op-id-only fallback when that is
                                         rejected as too large
        FBaseProcessorFunction.SendReply WriteResponseHeader, WriteMessageBegin(REPLY), result.Write,
                                         WriteMessageEnd, Flush; the first error goes to trapError
        trapError                        too large: resetProtocol, sendError(RESPONSE_TOO_LARGE, err.Error()),
                                         return nil; otherwise (a result its Write rejects): transport Reset,
                                         resetProtocol, sendError(INTERNAL_ERROR, err.Error()), return err
        SendError / sendError            writeException with ALL response headers of the FContext; if that is
                                         rejected as too large: resetProtocol, writeException with a header
                                         block holding "_opid" only, its value read from the RESPONSE headers;
                                         the outcome of the second attempt is ignored
        writeException                   writeHeader, WriteMessageBegin(EXCEPTION), ex.Write, WriteMessageEnd,
                                         Flush, stopping at the first error
      lib/go/bounded_memory_buffer.go
        TMemoryOutputBuffer              Write / WriteString / WriteByte: if limit > 0 && len + Len() > limit then
                                         Reset (the buffer holds the 4-byte size placeholder only) and return
                                         REQUEST_TOO_LARGE, else append; Len() counts the placeholder; Reset;
                                         HasWriteData (Len() > 4); Flush does nothing
      lib/go/protocol.go writeHeader     ONE Write of the marshalled block; a too-large error is returned as it is
      thrift binary_protocol.go          which transport write each protocol call issues (WriteMessageBegin:
                                         I32 version|type, I32 length, WriteString name, I32 seqid;
                                         TApplicationException.Write: Byte, I16, I32, WriteString, Byte, I16,
                                         I32, Byte); NewTProtocolException hands a TTransportException on
                                         unchanged, so IsErrTooLarge sees every rejected write
      lib/go/nats_server.go processFrame (output: NewTMemoryOutputBuffer(natsMaxMessageSize); publishes iff
                                         Process returned nil and HasWriteData)
      lib/go/http_transport.go NewFrugalHandlerFunc (unbounded buffer; x-frugal-payload-limit: 413 if the
                                         payload is longer)

    The writes of result.Write are a parameter: [chunk rb] cuts the bytes of the result struct into the
    pieces the generated code hands to the transport (any cutting: the theorems hold for all of them, the judge
    uses the observed one).  [etext] is, as in Model/Processor.v, the text of the Go error that reaches
    SendError / trapError (args.Read error, result.Write error, or the size error with the prefixes the
    generated Write adds).
    Not modelled: compact / JSON protocols (JSON buffers in a bufio.Writer: its writes reach the transport at
    Flush), transports other than the library's that fail writes for other reasons.
    No proofs in this file. *)
From Coq Require Import ZArith List Bool.
From FV Require Import Base.Res Base.Bytes Model.Headers Model.ThriftBin Model.Processor.
Import ListNotations.
Open Scope Z_scope.

Definition ex_response_too_large : Z := 100.     (* APPLICATION_EXCEPTION_RESPONSE_TOO_LARGE *)
Definition nats_max : Z := 1048576.              (* natsMaxMessageSize *)

(** * The output transport *)
(** [lim]: None = not a TMemoryOutputBuffer (TFramedTransport, thrift.TMemoryBuffer: no write is rejected);
    Some l = NewTMemoryOutputBuffer(l) (l = 0: never rejects either).
    [f.limit > 0 && uint(n + f.Len()) > f.limit] *)
Definition exceeds (lim : option Z) (n len : Z) : bool :=
  match lim with Some l => (0 <? l) && (l <? n + len) | None => false end.

(** what is observable at the transport: every write handed to it with its fate, Flush, and Reset called
    from outside (trapError); the Reset a rejected write performs on its own buffer is part of [BW _ false] *)
Inductive bev :=
| BW (b : bytes) (ok : bool)
| BFlush
| BReset.

(** [bo_data]: the buffer after the 4-byte placeholder (Len() = 4 + length) *)
Record bout := mkbo { bo_data : bytes; bo_trace : list bev }.
Definition bo0 : bout := mkbo [] [].

Definition bwrite (lim : option Z) (s : bout) (w : bytes) : bout * bool :=
  if exceeds lim (zlen w) (4 + zlen (bo_data s))
  then (mkbo [] (bo_trace s ++ [BW w false]), false)
  else (mkbo (bo_data s ++ w) (bo_trace s ++ [BW w true]), true).

(** every Thrift writer and writeHeader return the first error *)
Fixpoint bwrites (lim : option Z) (s : bout) (ws : list bytes) : bout * bool :=
  match ws with
  | [] => (s, true)
  | w :: r => let '(s1, ok) := bwrite lim s w in if ok then bwrites lim s1 r else (s1, false)
  end.

Definition bflush (s : bout) : bout := mkbo (bo_data s) (bo_trace s ++ [BFlush]).
Definition breset (s : bout) : bout := mkbo [] (bo_trace s ++ [BReset]).

(** * The writes of one message (TBinaryProtocol, strict write) *)
Definition begin_writes (name : bytes) (mt : Z) : list bytes :=
  [be_n 4 (version_1 + mt); be_n 4 (zlen name); name; be_n 4 0].

Definition app_exception_writes (kind : Z) (msg : bytes) : list bytes :=
  let text := exc_text kind msg in
  (match text with
   | [] => []
   | _ => [[11]; be_n 2 1; be_n 4 (zlen text); text]
   end) ++ [[8]; be_n 2 2; be_n 4 kind; [0]].

Definition message_writes (hdrs : list hpair) (name : bytes) (mt : Z) (body : list bytes) : list bytes :=
  marshal hdrs :: begin_writes name mt ++ body.

(** * processor.go *)
(** writeException: true = it returned nil (everything written and flushed) *)
Definition write_exception (lim : option Z) (s : bout) (hdrs : list hpair) (name : bytes) (kind : Z) (msg : bytes)
  : bout * bool :=
  let '(s1, ok) := bwrites lim s (message_writes hdrs name mt_exception (app_exception_writes kind msg)) in
  if ok then (bflush s1, true) else (s1, false).

(** fctx.ResponseHeader("_opid") (the empty string if absent) *)
Definition opid_of (rh : list hpair) : bytes :=
  match Headers.lookup opid_header rh with Some v => v | None => [] end.
Definition opid_only (rh : list hpair) : list hpair := [(opid_header, opid_of rh)].

(** the exception with the full response headers, else with the op id only; true = one of them went out *)
Definition write_exception_fallback (lim : option Z) (s : bout) (rh : list hpair) (name : bytes) (kind : Z) (msg : bytes)
  : bout * bool :=
  let '(s1, ok) := write_exception lim s rh name kind msg in
  if ok then (s1, true) else write_exception lim s1 (opid_only rh) name kind msg.

(** sendError (its own result is the exception it built: never nil, never looked at for the output) *)
Definition send_error (lim : option Z) (s : bout) (rh : list hpair) (name : bytes) (kind : Z) (msg : bytes) : bout :=
  fst (write_exception_fallback lim s rh name kind msg).

(** SendReply + trapError *)
Definition send_reply (lim : option Z) (chunk : bytes -> list bytes) (can_reset : bool) (etext : bytes)
           (s : bout) (rh : list hpair) (name rb : bytes) (wok : bool) : bout :=
  let '(s1, ok) := bwrites lim s (message_writes rh name mt_reply (chunk rb)) in
  if ok then
    if wok then bflush s1
    else if can_reset then send_error lim (breset s1) rh name ex_internal_error etext
    else s1
  else send_error lim s1 rh name ex_response_too_large etext.

(** * What Process asks of its output, as a function of the request alone *)
Inductive plan :=
| PFail                                                        (* an error before anything is written *)
| PSilent                                                      (* a oneway call that succeeds *)
| PUnknown (rh : list hpair) (name : bytes)                    (* FBaseProcessor.Process's own answer *)
| PError (rh : list hpair) (name : bytes) (kind : Z) (msg : bytes)     (* SendError *)
| PReply (rh : list hpair) (name rb : bytes) (wok : bool).             (* SendReply *)

Definition plan_of (svc : list mdesc) (h : handler) (etext : bytes) (frame : bytes) : plan :=
  match read_header frame with
  | Ok (hdrs, r1) =>
    let hm := to_map hdrs in
    match Headers.lookup opid_header hm with
    | None => PFail
    | Some opid =>
      let rh := response_headers hm opid in
      match read_message_begin r1 with
      | Ok (name, _, _, r2) =>
        match find_method svc name with
        | Some md =>
          match md_read md r2 with
          | Ok (args, _) =>
            let '(extra, o) := h name (remove_key opid_header hm) args in
            let rh' := assign_all rh extra in
            match o with
            | HResult rb wok => if md_oneway md then PSilent else PReply rh' name rb wok
            | HAppExc kind msg => PError rh' name kind (exc_text kind msg)
            | HOther text => PError rh' name ex_internal_error
                                    (internal_error_processing ++ name ++ colon_space ++ text)
            end
          | _ => PError rh name ex_protocol_error etext
          end
        | None => PUnknown rh name
        end
      | _ => PFail
      end
    end
  | _ => PFail
  end.

(** (Process returned an error, output) *)
Definition run_plan (lim : option Z) (chunk : bytes -> list bytes) (can_reset : bool) (etext : bytes) (p : plan)
  : bool * bout :=
  match p with
  | PFail => (true, bo0)
  | PSilent => (false, bo0)
  | PUnknown rh name =>
    let '(s, ok) := write_exception_fallback lim bo0 rh name ex_unknown_method (unknown_function ++ name) in
    (negb ok, s)
  | PError rh name kind msg => (false, send_error lim bo0 rh name kind msg)
  | PReply rh name rb wok => (false, send_reply lim chunk can_reset etext bo0 rh name rb wok)
  end.

(** FBaseProcessor.Process with a fresh output transport *)
Definition process_b (lim : option Z) (chunk : bytes -> list bytes) (svc : list mdesc) (h : handler)
           (can_reset : bool) (etext frame : bytes) : bool * bout :=
  run_plan lim chunk can_reset etext (plan_of svc h etext frame).

(** * The unbounded model's events for a plan (Model/Processor.v [process], case by case) *)
Definition plan_events (can_reset : bool) (etext : bytes) (p : plan) : bool * list oev :=
  match p with
  | PFail => (true, [])
  | PSilent => (false, [])
  | PUnknown rh name => (false, exception_events rh name ex_unknown_method (unknown_function ++ name))
  | PError rh name kind msg => (false, exception_events rh name kind msg)
  | PReply rh name rb wok =>
    (false,
     if wok then message_events rh name mt_reply rb
     else [OW (marshal rh); OW (write_message_begin name mt_reply 0 ++ rb)] ++
          (if can_reset then OReset :: exception_events rh name ex_internal_error etext else []))
  end.

(** forgetting the fate of the writes: the events of Model/Processor.v *)
Definition erase (t : list bev) : list oev :=
  map (fun e => match e with BW b _ => OW b | BFlush => OFlush | BReset => OReset end) t.

(** * The table by sizes: what is left in the output, without any write-by-write bookkeeping *)
Definition msg_bytes (hdrs : list hpair) (name : bytes) (mt : Z) (body : bytes) : bytes :=
  marshal hdrs ++ write_message_begin name mt 0 ++ body.
Definition exc_bytes (hdrs : list hpair) (name : bytes) (kind : Z) (msg : bytes) : bytes :=
  msg_bytes hdrs name mt_exception (write_app_exception kind msg).

(** a message of n bytes is accepted by an empty buffer (the frame is n + 4 bytes) *)
Definition fits (lim : option Z) (n : Z) : bool := negb (exceeds lim n 4).

Definition spec_error (lim : option Z) (rh : list hpair) (name : bytes) (kind : Z) (msg : bytes) : bytes :=
  let full := exc_bytes rh name kind msg in
  if fits lim (zlen full) then full
  else let small := exc_bytes (opid_only rh) name kind msg in
       if fits lim (zlen small) then small else [].

Definition spec_plan (lim : option Z) (can_reset : bool) (etext : bytes) (p : plan) : bool * bytes :=
  match p with
  | PFail => (true, [])
  | PSilent => (false, [])
  | PUnknown rh name =>
    let out := spec_error lim rh name ex_unknown_method (unknown_function ++ name) in
    (match out with [] => true | _ => false end, out)
  | PError rh name kind msg => (false, spec_error lim rh name kind msg)
  | PReply rh name rb wok =>
    let m := msg_bytes rh name mt_reply rb in
    (false,
     if fits lim (zlen m) then
       if wok then m
       else if can_reset then spec_error lim rh name ex_internal_error etext else m
     else spec_error lim rh name ex_response_too_large etext)
  end.

(** the smallest answer the code can give: the exception under the op-id-only header block;
    on the wire (with the 4-byte frame size): 34 + |op id| + |method name| + the exception struct *)
Definition min_error_frame (opid name : bytes) (kind : Z) (msg : bytes) : Z :=
  34 + zlen opid + zlen name + zlen (write_app_exception kind msg).

(** * Servers *)
(** nats_server.go processFrame: what is published on the reply subject *)
Definition nats_frame_b (chunk : bytes -> list bytes) (svc : list mdesc) (h : handler) (etext frame : bytes)
  : option bytes :=
  let '(err, s) := process_b (Some nats_max) chunk svc h true etext frame in
  if err then None else
  match bo_data s with [] => None | out => Some out end.

(** http_transport.go NewFrugalHandlerFunc with x-frugal-payload-limit: [limit] (0 = no header / no limit) *)
Inductive http_result_b := HB500 | HB413 | HB200 (body : bytes).
Definition http_frame_b (limit : Z) (chunk : bytes -> list bytes) (svc : list mdesc) (h : handler)
           (etext frame : bytes) : http_result_b :=
  let '(err, s) := process_b None chunk svc h true etext frame in
  if err then HB500
  else if (0 <? limit) && (limit <? zlen (bo_data s)) then HB413
  else HB200 (bo_data s).

(** * Cutting a byte string by a list of sizes (the judge's [chunk]); what is left over is the last piece *)
Fixpoint split_sizes (sizes : list Z) (b : bytes) : list bytes :=
  match sizes with
  | [] => match b with [] => [] | _ => [b] end
  | n :: r => firstn (Z.to_nat n) b :: split_sizes r (skipn (Z.to_nat n) b)
  end.
