(** C05, the Thrift message layer under the Frugal header: what a server does with the bytes that
    follow the header block of a request, as one function [thrift_layer_of cd fuel e pm h] that can be
    plugged into the receiver loops of Model/Receivers.v (their parameter [thrift_layer]).

    It is FBaseProcessor.Process after ReadRequestHeader (Model/GenCall.v [server_process_c]:
    ReadMessageBegin, lookup in the processor map, generated args Read, handler, reply; unknown
    function: Skip(STRUCT) and UNKNOWN_METHOD), over a [codec].

    The generated Read does not talk to the TProtocol directly: it is handed the *FProtocol
    (lib/go/protocol.go), whose ReadStructBegin / ReadStructEnd / ReadListBegin / ReadSetBegin /
    ReadMapBegin stand between the generated code and TBinaryProtocol / TCompactProtocol:
      - ReadStructBegin refuses to enter a struct when [max_read_depth] = 64 structs are already open
        ("fix: FProtocol refuses struct nesting deeper than 64 on read");
      - Read{List,Set,Map}Begin refuse a size larger than the number of bytes left in the frame
        (binary and compact protocols read straight from the transport and every element takes at
        least one byte) ("fix: FProtocol refuses a container announcing more elements than bytes remain").
    [pdec g] is that reader, once for both protocols, over a record [prim] of the TProtocol's
    primitive reads ([bin_prim] = the primitives Model/ThriftBin.v [wdec] uses, [compact_prim] = those
    of Model/ThriftCompact.v [cdec]); [g = false] switches the two FProtocol guards off, and then
    [pdec] IS [wdec] / [cdec] (Proofs/ThriftLayerProofs.v).  thrift.Skip runs on the inner protocol
    (TBinaryProtocol.Skip -> SkipDefaultDepth(ctx, p, ...)) and is not guarded: [skip] / [cskip] as they are.

    Executable definitions only. *)
From Coq Require Import ZArith List Bool.
From FV Require Import Base.Res Base.Bytes Base.GoSem Model.Headers Model.Receivers
     Model.ThriftBin Model.ThriftCompact Model.GenCall.
Import ListNotations.
Open Scope Z_scope.

(** thrift.DEFAULT_RECURSION_DEPTH, the limit FProtocol.ReadStructBegin applies *)
Definition max_read_depth : Z := 64.

(** the primitive reads of a TProtocol as the generated Read uses them *)
Record prim := mkPrim {
  pst : Type;                                        (* reader state *)
  p_init : bytes -> pst;                             (* a fresh protocol on a buffer *)
  p_rest : pst -> bytes;                             (* the unread bytes *)
  p_bool : pst -> res (bool * pst);                  (* ReadBool *)
  p_int : shape -> pst -> res (Z * pst);             (* ReadByte / I16 / I32 / I64 by declared shape (enum: I32) *)
  p_double : pst -> res (Z * pst);                   (* ReadDouble: the 64 bits *)
  p_blob : pst -> res (bytes * pst);                 (* ReadString / ReadBinary *)
  p_list_hdr : pst -> res (Z * pst);                 (* ReadListBegin / ReadSetBegin: the size *)
  p_map_hdr : pst -> res (Z * pst);                  (* ReadMapBegin: the size *)
  p_field_hdr : Z -> pst -> res ((Z * Z) * pst);     (* ReadFieldBegin with lastFieldId: (TType, id); TType 0 = STOP *)
  p_skip : nat -> Z -> pst -> res pst }.             (* iprot.Skip(TType) *)

(** Transport().RemainingBytes() of the TMemoryBuffer every server hands its input protocol *)
Definition p_rem (P : prim) (s : pst P) : Z := zlen (p_rest P s).

Definition bin_prim : prim :=
  mkPrim bytes (fun b => b) (fun b => b)
    (fun b => do (x, r) <- read_n 1 b; Ok (match x with [1] => true | _ => false end, r))
    (fun s b => match s with SInt n => read_int n b | _ => read_int 4 b end)
    (fun b => do (x, r) <- read_n 8 b; Ok (un_be x, r))
    read_blob
    (fun b => do (_, r1) <- read_int 1 b; read_size r1)
    (fun b => do (_, r1) <- read_int 1 b; do (_, r2) <- read_int 1 r1; read_size r2)
    (fun _ b => do (wt, r1) <- read_int 1 b;
                if wt =? 0 then Ok ((0, 0), r1) else do (id, r2) <- read_int 2 r1; Ok ((wt, id), r2))
    skip_default.

Definition compact_prim : prim :=
  mkPrim cst (fun b => (None, b)) snd
    c_bool cdec_int c_double c_blob
    (fun st => do (h, s1) <- c_list_hdr st; Ok (snd h, s1))
    (fun st => do (h, s1) <- c_map_hdr st; Ok (snd h, s1))
    c_field_hdr
    cskip_default.

Section Reader.
Variable P : prim.
Variable g : bool.        (* the FProtocol guards: true = the code as it is, false = bare TProtocol *)

(** FProtocol.Read{List,Set,Map}Begin after the inner protocol returned [n] *)
Definition size_refused (n : Z) (s : pst P) : bool := g && (p_rem P s <? n).
(** FProtocol.ReadStructBegin with [d] structs open *)
Definition depth_refused (d : Z) : bool := g && (max_read_depth <=? d).

(** the generated Read over *FProtocol: a known field is read with its declared type, unknown ids
    are skipped by the header's type; [d] = structs open *)
Fixpoint pdec (fuel : nat) (d : Z) (e : env) (t : ty) (st : pst P) {struct fuel} : res (val * pst P) :=
  match fuel with
  | O => OutOfFuel
  | S f =>
    match shape_of e t with
    | SBool => do (x, s) <- p_bool P st; Ok (VBool x, s)
    | SInt n => do (z, s) <- p_int P (SInt n) st; Ok (VInt z, s)
    | SEnum => do (z, s) <- p_int P SEnum st; Ok (VInt z, s)
    | SDouble => do (x, s) <- p_double P st; Ok (VDouble x, s)
    | SString | SBinary => do (x, s) <- p_blob P st; Ok (VBytes x, s)
    | SList et =>
      do (n, s1) <- p_list_hdr P st;
      if size_refused n s1 then Err ETooLarge else
      do (l, s2) <- pdec_seq f d e et n s1; Ok (VList l, s2)
    | SSet et =>
      do (n, s1) <- p_list_hdr P st;
      if size_refused n s1 then Err ETooLarge else
      do (l, s2) <- pdec_seq f d e et n s1; Ok (VSet l, s2)
    | SMap kt vt =>
      do (n, s1) <- p_map_hdr P st;
      if size_refused n s1 then Err ETooLarge else
      do (l, s2) <- pdec_pairs f d e kt vt n s1; Ok (VMap l, s2)
    | SStruct _ decls =>
      if depth_refused d then Err EOther else
      do (l, s) <- pdec_fields f (d + 1) e decls 0 st; Ok (VRec l, s)
    | SBad => Err EOther
    end
  end
with pdec_seq (fuel : nat) (d : Z) (e : env) (et : ty) (n : Z) (st : pst P) {struct fuel}
  : res (list val * pst P) :=
  if n <=? 0 then Ok ([], st) else
  match fuel with
  | O => OutOfFuel
  | S f => do (x, s1) <- pdec f d e et st; do (l, s2) <- pdec_seq f d e et (n - 1) s1; Ok (x :: l, s2)
  end
with pdec_pairs (fuel : nat) (d : Z) (e : env) (kt vt : ty) (n : Z) (st : pst P) {struct fuel}
  : res (list (val * val) * pst P) :=
  if n <=? 0 then Ok ([], st) else
  match fuel with
  | O => OutOfFuel
  | S f =>
    do (k, s1) <- pdec f d e kt st; do (x, s2) <- pdec f d e vt s1;
    do (l, s3) <- pdec_pairs f d e kt vt (n - 1) s2; Ok ((k, x) :: l, s3)
  end
with pdec_fields (fuel : nat) (d : Z) (e : env) (decls : list field) (last : Z) (st : pst P) {struct fuel}
  : res (list (Z * val) * pst P) :=
  match fuel with
  | O => OutOfFuel
  | S f =>
    do (h, s1) <- p_field_hdr P last st;
    let '(wt, id) := h in
    if wt =? 0 then Ok ([], s1) else
    match ftyp_of decls id with
    | Some ft =>
      do (x, s2) <- pdec f d e ft s1; do (l, s3) <- pdec_fields f d e decls id s2; Ok ((id, x) :: l, s3)
    | None =>
      do s2 <- p_skip P f wt s1; pdec_fields f d e decls id s2
    end
  end.

(** the generated Read of a struct-like on a fresh protocol over [b] (no struct open) *)
Definition pread (fuel : nat) (e : env) (t : ty) (b : bytes) : res (val * bytes) :=
  do (w, s) <- pdec fuel 0 e t (p_init P b); do v <- from_wire e t w; Ok (v, p_rest P s).
End Reader.

(** * The codecs of the code as it is: Model/GenCall.v's with the generated Read going through FProtocol *)
Definition with_read (cd : codec) (rd : nat -> env -> ty -> bytes -> res (val * bytes)) : codec :=
  mkCodec (cd_msg_enc cd) (cd_msg_dec cd) (cd_exc_enc cd) (cd_exc_dec cd) (cd_write cd) rd (cd_skip_struct cd).
Definition fbin_codec : codec := with_read bin_codec (pread bin_prim true).
Definition fcompact_codec : codec := with_read compact_codec (pread compact_prim true).

(** * The Thrift layer of a server *)

(** FBaseProcessor.Process after ReadRequestHeader, reduced to "returned" ([Ok]: the handler ran, or
    the caller was answered with an exception), "returned an error" ([Err]: no message header could
    be read, or the reply could not be written) -- or a Go panic / a loop that does not end.
    The response headers only travel into the reply, so they are left out ([[]]); that nothing else
    depends on them is [thrift_layer_is_server_process] in Proofs/ThriftLayerProofs.v. *)
Definition thrift_layer_of (cd : codec) (fuel : nat) (e : env) (pm : list (bytes * method)) (h : handler)
           (rest : bytes) : res unit :=
  do (nm, _, _, r2) <- cd_msg_dec cd rest;
  match plookup nm pm with
  | Some m => do _ <- method_process_c cd fuel e h [] m r2; Ok tt
  | None =>
    match cd_skip_struct cd fuel r2 with
    | Panic p => Panic p
    | OutOfFuel => OutOfFuel
    | Ok _ | Err _ => Ok tt
    end
  end.

(** what the judge compares with the observation of a real generated processor: 0 nothing could be
    dispatched (no message header), 1 unknown function answered, 2 arguments refused (PROTOCOL_ERROR),
    3 handler invoked; 100 / 101 panic / out of fuel *)
Definition layer_class (cd : codec) (fuel : nat) (e : env) (pm : list (bytes * method)) (h : handler)
           (rest : bytes) : Z :=
  match cd_msg_dec cd rest with
  | Ok (nm, _, _, r2) =>
    match plookup nm pm with
    | Some m =>
      match method_process_c cd fuel e h [] m r2 with
      | Ok (_, []) => 2
      | Ok (_, _ :: _) => 3
      | Err _ => 3                      (* the handler ran, its result could not be written *)
      | Panic _ => 100
      | OutOfFuel => 101
      end
    | None =>
      match cd_skip_struct cd fuel r2 with
      | Panic _ => 100
      | OutOfFuel => 101
      | _ => 1
      end
    end
  | Err _ => 0
  | Panic _ => 100
  | OutOfFuel => 101
  end.

(** the fuel that always suffices for a message of [n] bytes *)
Definition layer_fuel (n : nat) : nat := 4 * n + 8.

(** the handler never hands back a value whose generated Write dereferences nil (a nil pointer in a
    struct-typed field that has to be written): that panic is the handler's, not the peer's *)
Definition handler_writable (cd : codec) (e : env) (pm : list (bytes * method)) (h : handler) : Prop :=
  forall m args p, In m (map snd pm) -> respond_c cd e [] m (h (m_wire m) args) <> Panic p.

(** the layer with the fuel that always suffices for the message at hand: a function of the bytes
    alone, as the receiver loops of Model/Receivers.v take it *)
Definition thrift_layer (cd : codec) (e : env) (pm : list (bytes * method)) (h : handler) (rest : bytes) : res unit :=
  thrift_layer_of cd (layer_fuel (length rest)) e pm h rest.

(** FSimpleServer's processor argument (Model/ReceiversFraming.v [accept_loop]): a generated
    processor on one request frame; [Ok true] = serve the next frame.  (An error of the method's
    processor function is logged by FBaseProcessor.Process and the connection goes on; here every
    [Err] ends it -- either way the loop's theorem holds, it asks for gracefulness only.) *)
Definition gen_process (cd : codec) (e : env) (pm : list (bytes * method)) (h : handler) (frame : bytes) : res bool :=
  do _ <- process_request (thrift_layer cd e pm h) frame; Ok true.

(** what a frame cut out of a byte stream shorter than 2 GiB always is *)
Definition wf_msgb (f : bytes) : bool :=
  forallb (fun x => (0 <=? x) && (x <? 256)) f && (zlen f <? 2147483648).
Definition on_bytes (process : bytes -> res bool) (f : bytes) : res bool :=
  if wf_msgb f then process f else Err EInvalidData.
