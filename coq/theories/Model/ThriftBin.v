(** Model of what the Go generator (compiler/generator/golang/generator.go) emits for
    struct-likes -- generateWrite / generateWriteFieldRec, generateRead / generateReadFieldRec,
    generateConstructor, IsSet, CountSetFields, isPointerField, getEnumFromThriftType --
    over Apache Thrift's TBinaryProtocol (binary_protocol.go, protocol.go Skip), and of the
    args/result synthesis of compiler/generator/base.go.  Executable definitions only.

    Two layers:
    - wire codec: [wenc] / [wdec] / [skip] -- TBinary encoding of *wire values* directed by the
      IDL type (container headers carry the element wire type of the declared type; a struct is
      the list [VRec] of the fields present, in wire order);
    - Go struct semantics: [to_wire] (which fields Write emits: required and default always,
      optional iff IsSet, union exactly one) and [from_wire] (what Read builds starting from
      New<T>(): assignment in wire order, required check, union check).
    [gwrite] = wenc . to_wire is the generated Write, [gread] = from_wire . wdec the generated Read. *)
From Coq Require Import ZArith List Bool Lia.
From FV Require Import Base.Res Base.Bytes.
Import ListNotations.
Open Scope Z_scope.

(** * IDL: types, declarations, environment *)

Definition name := Z.    (* declarations are numbered program-wide (file-qualified names resolved) *)

Inductive ty :=
| TBool | TByte | TI16 | TI32 | TI64 | TDouble | TString | TBinary
| TList (e : ty) | TSet (e : ty) | TMap (k v : ty)
| TRef (n : name).       (* typedef, enum, struct, union or exception *)

Inductive modifier := MRequired | MOptional | MDefault.
Inductive skind := KStruct | KUnion | KException.

(** Values.  [VStruct] is the Go struct (one slot per declared field, [None] = nil pointer /
    nil slice / nil map); [VRec] is a struct on the wire. Sets and maps are lists in the
    iteration order Go happened to use. Doubles are their 64 IEEE bits. *)
Inductive val :=
| VBool (b : bool)
| VInt (z : Z)
| VDouble (bits : Z)
| VBytes (b : bytes)
| VList (l : list val)
| VSet (l : list val)
| VMap (l : list (val * val))
| VStruct (fs : list (option val))
| VRec (fs : list (Z * val)).

Record field := mkField { fid : Z; fmod : modifier; fty : ty; fdef : option val }.

Inductive decl :=
| DTypedef (t : ty)
| DEnum (vals : list Z)
| DStruct (k : skind) (fs : list field).

Definition env := list (name * decl).

Fixpoint lookup (e : env) (n : name) : option decl :=
  match e with
  | [] => None
  | (m, d) :: e' => if m =? n then Some d else lookup e' n
  end.

(** parser.Frugal.UnderlyingType: follow typedef chains (fuel = number of declarations: a longer
    chain is a cycle).  Names are already file-qualified here; the scope quirk of the real
    function lives in Model/GoGenPlan.v. *)
Fixpoint resolve_fuel (fuel : nat) (e : env) (t : ty) : ty :=
  match t with
  | TRef n =>
    match lookup e n with
    | Some (DTypedef t') => match fuel with O => t | S f => resolve_fuel f e t' end
    | _ => t
    end
  | _ => t
  end.
Definition resolve (e : env) (t : ty) : ty := resolve_fuel (length e) e t.

Inductive shape :=
| SBool | SInt (nbytes : nat) | SEnum | SDouble | SString | SBinary
| SList (t : ty) | SSet (t : ty) | SMap (k v : ty)
| SStruct (k : skind) (fs : list field)
| SBad.

Definition shape_of (e : env) (t : ty) : shape :=
  match resolve e t with
  | TBool => SBool | TByte => SInt 1 | TI16 => SInt 2 | TI32 => SInt 4 | TI64 => SInt 8
  | TDouble => SDouble | TString => SString | TBinary => SBinary
  | TList a => SList a | TSet a => SSet a | TMap k v => SMap k v
  | TRef n => match lookup e n with
              | Some (DEnum _) => SEnum
              | Some (DStruct k fs) => SStruct k fs
              | _ => SBad
              end
  end.

(** getEnumFromThriftType: the TType constant written in field and container headers *)
Definition wtype_of_shape (s : shape) : Z :=
  match s with
  | SBool => 2
  | SInt n => match n with 1%nat => 3 | 2%nat => 6 | 4%nat => 8 | _ => 10 end
  | SEnum => 8 | SDouble => 4 | SString => 11 | SBinary => 11
  | SStruct _ _ => 12 | SMap _ _ => 13 | SSet _ => 14 | SList _ => 15
  | SBad => 0
  end.
Definition wtype (e : env) (t : ty) : Z := wtype_of_shape (shape_of e t).

Definition find_field (fs : list field) (id : Z) : option field :=
  find (fun f => fid f =? id) fs.

(** * Integers on the wire: big endian two's complement *)
Fixpoint be_n (n : nat) (z : Z) : bytes :=
  match n with O => [] | S k => be_n k (z / 256) ++ [z mod 256] end.
Definition un_be (b : bytes) : Z := fold_left (fun a x => a * 256 + x) b 0.
Definition signed (n : nat) (u : Z) : Z :=
  let m := 256 ^ Z.of_nat n in if u <? m / 2 then u else u - m.

Definition read_n (n : nat) (b : bytes) : res (bytes * bytes) :=
  if Nat.leb n (length b) then Ok (firstn n b, skipn n b) else Err EEOF.
Definition read_int (n : nat) (b : bytes) : res (Z * bytes) :=
  do (x, r) <- read_n n b; Ok (signed n (un_be x), r).
(** checkSizeForProtocol: negative sizes are INVALID_DATA *)
Definition read_size (b : bytes) : res (Z * bytes) :=
  do (z, r) <- read_int 4 b; if z <? 0 then Err EInvalidData else Ok (z, r).
Definition read_blob (b : bytes) : res (bytes * bytes) :=
  do (n, r) <- read_size b;
  if n <=? zlen r then Ok (firstn (Z.to_nat n) r, skipn (Z.to_nat n) r) else Err EEOF.

(** * Wire codec *)

Definition elem_ty (s : shape) : ty := match s with SList a | SSet a => a | _ => TBool end.
Definition key_ty (s : shape) : ty := match s with SMap k _ => k | _ => TBool end.
Definition mval_ty (s : shape) : ty := match s with SMap _ v => v | _ => TBool end.
Definition int_width (s : shape) : nat := match s with SInt n => n | _ => 4%nat end.
Definition struct_fields (s : shape) : list field := match s with SStruct _ fs => fs | _ => [] end.
Definition ftyp_of (fs : list field) (id : Z) : option ty :=
  match find_field fs id with Some f => Some (fty f) | None => None end.

(** TBinaryProtocol writer, directed by the declared type.  A field the typing function does not
    know cannot be written (it has no declared type) and is dropped. *)
Fixpoint wenc (e : env) (t : ty) (v : val) {struct v} : bytes :=
  let s := shape_of e t in
  match v with
  | VBool b => [if b then 1 else 0]
  | VInt z => be_n (int_width s) z
  | VDouble b => be_n 8 b
  | VBytes b => be_n 4 (zlen b) ++ b
  | VList l | VSet l =>
    let et := elem_ty s in
    wtype e et :: be_n 4 (zlen l) ++
    (fix go (l : list val) : bytes :=
       match l with [] => [] | x :: r => wenc e et x ++ go r end) l
  | VMap l =>
    let kt := key_ty s in let vt := mval_ty s in
    wtype e kt :: wtype e vt :: be_n 4 (zlen l) ++
    (fix go (l : list (val * val)) : bytes :=
       match l with [] => [] | (k, x) :: r => wenc e kt k ++ wenc e vt x ++ go r end) l
  | VRec fs =>
    let decls := struct_fields s in
    (fix go (fs : list (Z * val)) : bytes :=
       match fs with
       | [] => [0]
       | (id, x) :: r =>
         match ftyp_of decls id with
         | Some ft => wtype e ft :: be_n 2 id ++ wenc e ft x ++ go r
         | None => go r
         end
       end) fs
  | VStruct _ => []
  end.

(** the same loops as stand-alone functions (equal to the nested ones by [wenc_*_eq] in Proofs) *)
Fixpoint wenc_seq (e : env) (et : ty) (l : list val) : bytes :=
  match l with [] => [] | x :: r => wenc e et x ++ wenc_seq e et r end.
Fixpoint wenc_pairs (e : env) (kt vt : ty) (l : list (val * val)) : bytes :=
  match l with [] => [] | (k, x) :: r => wenc e kt k ++ wenc e vt x ++ wenc_pairs e kt vt r end.
(** fields typed by an arbitrary typing of ids (the writer's schema) *)
Fixpoint wenc_fields (e : env) (ftyp : Z -> option ty) (fs : list (Z * val)) : bytes :=
  match fs with
  | [] => [0]
  | (id, x) :: r =>
    match ftyp id with
    | Some ft => wtype e ft :: be_n 2 id ++ wenc e ft x ++ wenc_fields e ftyp r
    | None => wenc_fields e ftyp r
    end
  end.

(** thrift.Skip (protocol.go): by wire type, depth limit 64 (DEPTH_LIMIT is "other") *)
Fixpoint skip (fuel : nat) (depth : Z) (wt : Z) (b : bytes) {struct fuel} : res bytes :=
  match fuel with
  | O => OutOfFuel
  | S f =>
    if depth <=? 0 then Err EOther else
    if wt =? 2 then do (_, r) <- read_n 1 b; Ok r
    else if wt =? 3 then do (_, r) <- read_n 1 b; Ok r
    else if wt =? 6 then do (_, r) <- read_n 2 b; Ok r
    else if wt =? 8 then do (_, r) <- read_n 4 b; Ok r
    else if wt =? 10 then do (_, r) <- read_n 8 b; Ok r
    else if wt =? 4 then do (_, r) <- read_n 8 b; Ok r
    else if wt =? 11 then do (_, r) <- read_blob b; Ok r
    else if wt =? 16 then do (_, r) <- read_n 16 b; Ok r
    else if wt =? 12 then skip_fields f (depth - 1) b
    else if wt =? 13 then
      do (kt, r1) <- read_int 1 b; do (vt, r2) <- read_int 1 r1; do (n, r3) <- read_size r2;
      skip_pairs f (depth - 1) kt vt n r3
    else if (wt =? 14) || (wt =? 15) then
      do (et, r1) <- read_int 1 b; do (n, r2) <- read_size r1;
      skip_seq f (depth - 1) et n r2
    else Err EInvalidData
  end
with skip_fields (fuel : nat) (depth : Z) (b : bytes) {struct fuel} : res bytes :=
  match fuel with
  | O => OutOfFuel
  | S f =>
    do (wt, r1) <- read_int 1 b;
    if wt =? 0 then Ok r1 else
    do (_, r2) <- read_int 2 r1;
    do r3 <- skip f depth wt r2;
    skip_fields f depth r3
  end
with skip_seq (fuel : nat) (depth : Z) (et : Z) (n : Z) (b : bytes) {struct fuel} : res bytes :=
  if n <=? 0 then Ok b else
  match fuel with
  | O => OutOfFuel
  | S f => do r <- skip f depth et b; skip_seq f depth et (n - 1) r
  end
with skip_pairs (fuel : nat) (depth : Z) (kt vt : Z) (n : Z) (b : bytes) {struct fuel} : res bytes :=
  if n <=? 0 then Ok b else
  match fuel with
  | O => OutOfFuel
  | S f => do r1 <- skip f depth kt b; do r2 <- skip f depth vt r1; skip_pairs f depth kt vt (n - 1) r2
  end.

Definition skip_default (fuel : nat) (wt : Z) (b : bytes) : res bytes := skip fuel 64 wt b.

(** TBinaryProtocol reader as the generated Read drives it: the value of a known field id is
    read with the *declared* type (the wire type byte is not compared), container headers'
    element types are ignored, unknown ids are skipped by wire type. *)
Fixpoint wdec (fuel : nat) (e : env) (t : ty) (b : bytes) {struct fuel} : res (val * bytes) :=
  match fuel with
  | O => OutOfFuel
  | S f =>
    match shape_of e t with
    | SBool => do (x, r) <- read_n 1 b; Ok (VBool (match x with [1] => true | _ => false end), r)
    | SInt n => do (z, r) <- read_int n b; Ok (VInt z, r)
    | SEnum => do (z, r) <- read_int 4 b; Ok (VInt z, r)
    | SDouble => do (x, r) <- read_n 8 b; Ok (VDouble (un_be x), r)
    | SString | SBinary => do (x, r) <- read_blob b; Ok (VBytes x, r)
    | SList et =>
      do (_, r1) <- read_int 1 b; do (n, r2) <- read_size r1;
      do (l, r3) <- wdec_seq f e et n r2; Ok (VList l, r3)
    | SSet et =>
      do (_, r1) <- read_int 1 b; do (n, r2) <- read_size r1;
      do (l, r3) <- wdec_seq f e et n r2; Ok (VSet l, r3)
    | SMap kt vt =>
      do (_, r1) <- read_int 1 b; do (_, r2) <- read_int 1 r1; do (n, r3) <- read_size r2;
      do (l, r4) <- wdec_pairs f e kt vt n r3; Ok (VMap l, r4)
    | SStruct _ decls => do (l, r) <- wdec_fields f e decls b; Ok (VRec l, r)
    | SBad => Err EOther
    end
  end
with wdec_seq (fuel : nat) (e : env) (et : ty) (n : Z) (b : bytes) {struct fuel}
  : res (list val * bytes) :=
  if n <=? 0 then Ok ([], b) else
  match fuel with
  | O => OutOfFuel
  | S f => do (x, r1) <- wdec f e et b; do (l, r2) <- wdec_seq f e et (n - 1) r1; Ok (x :: l, r2)
  end
with wdec_pairs (fuel : nat) (e : env) (kt vt : ty) (n : Z) (b : bytes) {struct fuel}
  : res (list (val * val) * bytes) :=
  if n <=? 0 then Ok ([], b) else
  match fuel with
  | O => OutOfFuel
  | S f =>
    do (k, r1) <- wdec f e kt b; do (x, r2) <- wdec f e vt r1;
    do (l, r3) <- wdec_pairs f e kt vt (n - 1) r2; Ok ((k, x) :: l, r3)
  end
with wdec_fields (fuel : nat) (e : env) (decls : list field) (b : bytes) {struct fuel}
  : res (list (Z * val) * bytes) :=
  match fuel with
  | O => OutOfFuel
  | S f =>
    do (wt, r1) <- read_int 1 b;
    if wt =? 0 then Ok ([], r1) else
    do (id, r2) <- read_int 2 r1;
    match ftyp_of decls id with
    | Some ft =>
      do (x, r3) <- wdec f e ft r2; do (l, r4) <- wdec_fields f e decls r3; Ok ((id, x) :: l, r4)
    | None =>
      do r3 <- skip_default f wt r2; wdec_fields f e decls r3
    end
  end.

(** * Go struct semantics *)

(** isPointerField + nillability: P pointer field, N non-pointer slice/map, V plain value *)
Inductive gokind := GP | GN | GV.
Definition is_optional (f : field) : bool := match fmod f with MOptional => true | _ => false end.
Definition has_default (f : field) : bool := match fdef f with Some _ => true | None => false end.
Definition go_kind (e : env) (f : field) : gokind :=
  match shape_of e (fty f) with
  | SStruct _ _ => GP
  | SBinary => GN
  | SList _ | SSet _ | SMap _ _ => if is_optional f && has_default f then GP else GN
  | _ => if is_optional f && negb (has_default f) then GP else GV
  end.

Fixpoint bytes_eqb (a b : bytes) : bool :=
  match a, b with
  | [], [] => true
  | x :: a', y :: b' => (x =? y) && bytes_eqb a' b'
  | _, _ => false
  end.
(** Go's float64 ==: NaN differs from everything, +0 equals -0 *)
Definition dbl_is_nan (b : Z) : bool := 9218868437227405312 <? b mod 9223372036854775808.
Definition dbl_is_zero (b : Z) : bool := b mod 9223372036854775808 =? 0.
Definition dbl_eqb (a b : Z) : bool :=
  if dbl_is_nan a || dbl_is_nan b then false else (a =? b) || (dbl_is_zero a && dbl_is_zero b).
(** Go's == / bytes.Equal on what a plain or binary field can hold *)
Definition base_eqb (x y : val) : bool :=
  match x, y with
  | VBool a, VBool b => Bool.eqb a b
  | VInt a, VInt b => a =? b
  | VDouble a, VDouble b => dbl_eqb a b
  | VBytes a, VBytes b => bytes_eqb a b
  | _, _ => false
  end.
Definition is_empty_bytes (v : val) : bool := match v with VBytes [] => true | _ => false end.

(** IsSet<Field>() *)
Definition isset (e : env) (f : field) (ov : option val) : bool :=
  match shape_of e (fty f), fdef f with
  | SBinary, Some d =>
    match ov with Some x => negb (base_eqb x d) | None => negb (is_empty_bytes d) end
  | SBinary, None => match ov with Some _ => true | None => false end
  | _, _ =>
    match go_kind e f, ov with
    | GV, Some x => match fdef f with Some d => negb (base_eqb x d) | None => true end
    | _, Some _ => true
    | _, None => false
    end
  end.

Fixpoint count_set (e : env) (fs : list field) (ovs : list (option val)) : Z :=
  match fs, ovs with
  | f :: fs', ov :: ovs' => (if isset e f ov then 1 else 0) + count_set e fs' ovs'
  | _, _ => 0
  end.

Definition is_union (k : skind) : bool := match k with KUnion => true | _ => false end.

(** what Write emits for a nil slot that has to be written *)
Definition nil_wire (e : env) (t : ty) : res val :=
  match shape_of e t with
  | SList _ => Ok (VList []) | SSet _ => Ok (VSet []) | SMap _ _ => Ok (VMap [])
  | SBinary => Ok (VBytes [])
  | SStruct k [] => if is_union k then Err EInvalidData else Ok (VRec [])
  | SStruct _ _ => Panic PNilMap       (* nil pointer dereference in the callee's Write *)
  | _ => Err EOther
  end.

(** generateWrite: which fields, with which values *)
Fixpoint to_wire (e : env) (t : ty) (v : val) {struct v} : res val :=
  let s := shape_of e t in
  match v with
  | VBool _ => match s with SBool => Ok v | _ => Err EOther end
  | VInt _ => match s with SInt _ | SEnum => Ok v | _ => Err EOther end
  | VDouble _ => match s with SDouble => Ok v | _ => Err EOther end
  | VBytes _ => match s with SString | SBinary => Ok v | _ => Err EOther end
  | VList l =>
    match s with
    | SList et =>
      do l' <- (fix go (l : list val) : res (list val) :=
                  match l with [] => Ok [] | x :: r => do a <- to_wire e et x; do b <- go r; Ok (a :: b) end) l;
      Ok (VList l')
    | _ => Err EOther
    end
  | VSet l =>
    match s with
    | SSet et =>
      do l' <- (fix go (l : list val) : res (list val) :=
                  match l with [] => Ok [] | x :: r => do a <- to_wire e et x; do b <- go r; Ok (a :: b) end) l;
      Ok (VSet l')
    | _ => Err EOther
    end
  | VMap l =>
    match s with
    | SMap kt vt =>
      do l' <- (fix go (l : list (val * val)) : res (list (val * val)) :=
                  match l with
                  | [] => Ok []
                  | (k, x) :: r => do a <- to_wire e kt k; do b <- to_wire e vt x; do c <- go r; Ok ((a, b) :: c)
                  end) l;
      Ok (VMap l')
    | _ => Err EOther
    end
  | VStruct ovs =>
    match s with
    | SStruct k decls =>
      if is_union k && negb (count_set e decls ovs =? 1) then Err EInvalidData else
      do l' <- (fix go (fs : list field) (ovs : list (option val)) {struct ovs} : res (list (Z * val)) :=
                  match fs, ovs with
                  | [], [] => Ok []
                  | f :: fs', ov :: ovs' =>
                    if is_optional f && negb (isset e f ov) then go fs' ovs' else
                    do w <- match ov with
                            | Some x => to_wire e (fty f) x
                            | None => nil_wire e (fty f)
                            end;
                    do r <- go fs' ovs'; Ok ((fid f, w) :: r)
                  | _, _ => Err EOther
                  end) decls ovs;
      Ok (VRec l')
    | _ => Err EOther
    end
  | VRec _ => Err EOther
  end.

(** New<T>(): declared default unless the field is a pointer, else Go's zero value *)
Definition zero_of (s : shape) : option val :=
  match s with
  | SBool => Some (VBool false)
  | SInt _ | SEnum => Some (VInt 0)
  | SDouble => Some (VDouble 0)
  | SString => Some (VBytes [])
  | _ => None
  end.
Definition new_slot (e : env) (f : field) : option val :=
  match go_kind e f, fdef f with
  | GP, _ => None
  | _, Some d => Some d
  | _, None => zero_of (shape_of e (fty f))
  end.
Definition new_struct (e : env) (fs : list field) : list (option val) := map (new_slot e) fs.

(** p.F = v in ReadField<id>: store into the slot of the first field with that id *)
Fixpoint store (fs : list field) (id : Z) (nv : option val) (ovs : list (option val))
  : list (option val) :=
  match fs, ovs with
  | f :: fs', ov :: ovs' => if fid f =? id then nv :: ovs' else ov :: store fs' id nv ovs'
  | _, _ => ovs
  end.

Fixpoint required_seen (fs : list field) (seen : list Z) : bool :=
  match fs with
  | [] => true
  | f :: fs' =>
    (match fmod f with MRequired => existsb (Z.eqb (fid f)) seen | _ => true end) && required_seen fs' seen
  end.

(** generateRead on a wire struct *)
Fixpoint from_wire (e : env) (t : ty) (w : val) {struct w} : res val :=
  let s := shape_of e t in
  match w with
  | VBool _ | VInt _ | VDouble _ | VBytes _ => Ok w
  | VList l =>
    let et := elem_ty s in
    do l' <- (fix go (l : list val) : res (list val) :=
                match l with [] => Ok [] | x :: r => do a <- from_wire e et x; do b <- go r; Ok (a :: b) end) l;
    Ok (VList l')
  | VSet l =>
    let et := elem_ty s in
    do l' <- (fix go (l : list val) : res (list val) :=
                match l with [] => Ok [] | x :: r => do a <- from_wire e et x; do b <- go r; Ok (a :: b) end) l;
    Ok (VSet l')
  | VMap l =>
    let kt := key_ty s in let vt := mval_ty s in
    do l' <- (fix go (l : list (val * val)) : res (list (val * val)) :=
                match l with
                | [] => Ok []
                | (k, x) :: r => do a <- from_wire e kt k; do b <- from_wire e vt x; do c <- go r; Ok ((a, b) :: c)
                end) l;
    Ok (VMap l')
  | VRec l =>
    match s with
    | SStruct k decls =>
      do st <- (fix go (l : list (Z * val)) (st : list (option val)) : res (list (option val)) :=
                  match l with
                  | [] => Ok st
                  | (id, x) :: r =>
                    match find_field decls id with
                    | Some f =>
                      do g <- from_wire e (fty f) x;
                      go r (store decls id (Some g) st)
                    | None => go r st
                    end
                  end) l (new_struct e decls);
      if negb (required_seen decls (map fst l)) then Err EInvalidData else
      if is_union k && negb (count_set e decls st =? 1) then Err EInvalidData else
      Ok (VStruct st)
    | _ => Err EOther
    end
  | VStruct _ => Err EOther
  end.

(** the generated Write and Read *)
Definition gwrite (e : env) (t : ty) (v : val) : res bytes :=
  do w <- to_wire e t v; Ok (wenc e t w).
Definition gread (fuel : nat) (e : env) (t : ty) (b : bytes) : res (val * bytes) :=
  do (w, r) <- wdec fuel e t b; do g <- from_wire e t w; Ok (g, r).

(** * args / result structs (compiler/generator/base.go GetServiceMethodTypes) *)
Definition args_field (f : field) : field :=
  match fmod f with
  | MOptional => mkField (fid f) MDefault (fty f) (fdef f)
  | _ => f
  end.
Definition mk_args (args : list field) : decl := DStruct KStruct (map args_field args).
Definition opt_field (f : field) : field := mkField (fid f) MOptional (fty f) (fdef f).
Definition mk_result (ret : option ty) (throws : list field) : decl :=
  DStruct KStruct
    ((match ret with Some t => [mkField 0 MOptional t None] | None => [] end) ++ map opt_field throws).
