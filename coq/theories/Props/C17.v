(** C17 — op ids are unique and FContexts are safe to share and clone.
    Model/Context.v: an explicit heap of maps (so aliasing is expressible) plus the global
    counter; each FContext method / Clone / ReadRequestHeader is one atomic step (the mutex and
    atomic.AddUint64 are the assumptions), so "every interleaving of goroutines" is "every
    operation sequence", which is what the theorems quantify over. *)
From Coq Require Import ZArith List.
From FV Require Import Base.Res Base.Bytes Model.Headers Model.Receivers Model.Context
  Proofs.HeadersMapProofs Proofs.ContextProofs.
From FV Require Gen.Consts Proofs.ConstsAgree.
From FV Require Import Gen.CtxLockSites Model.LockPaths Proofs.LockPathsProofs.
Import ListNotations.
Open Scope Z_scope.

(** every two contexts ever created, cloned or received in a process carry different op ids, as
    long as nobody overwrites the reserved _opid request header and fewer than 2^64 exist *)
Theorem c17_opids_distinct : forall start ops s k1 k2 c1 c2,
  0 <= start < two64 -> all_reserved_free ops -> run (init start) ops = Some s ->
  Z.of_nat (length (ctxs s)) <= two64 ->
  nth_error (ctxs s) k1 = Some c1 -> nth_error (ctxs s) k2 = Some c2 -> k1 <> k2 ->
  opid_of s c1 <> opid_of s c2.
Proof. exact opids_distinct. Qed.
Print Assumptions c17_opids_distinct.

(** the op id of the k-th context is the k-th value of the counter (consecutive, mod 2^64) *)
Theorem c17_opids_consecutive : forall start ops s,
  0 <= start < two64 -> all_reserved_free ops -> run (init start) ops = Some s ->
  next_op s = (start + Z.of_nat (length (ctxs s))) mod two64
  /\ forall k c, nth_error (ctxs s) k = Some c ->
       lookup opid_header (req_of s c) = Some (format_uint ((start + Z.of_nat k + 1) mod two64)).
Proof.
  intros start ops s Hs Hrf Hrun.
  exact (proj2 (run_ids start ops (init start) s (good_init start) (ids_init start Hs) Hrf Hrun)).
Qed.
Print Assumptions c17_opids_consecutive.

(** decimal op-id strings identify the counter value *)
Theorem c17_opid_strings_injective : forall a b,
  0 <= a < two64 -> 0 <= b < two64 -> format_uint a = format_uint b -> a = b.
Proof. exact format_uint_inj. Qed.
Print Assumptions c17_opid_strings_injective.

(** in every reachable state every map slot (request / response / own ephemeral map of every
    context, every map a getter handed out, every protocol object's map) has its own address *)
Theorem c17_all_maps_separate : forall start ops s,
  run (init start) ops = Some s -> separated s /\ keys_ok s /\ shared_ok s.
Proof.
  intros start ops s H. destruct (run_good ops (init start) s (good_init start) H) as [A B C]. auto.
Qed.
Print Assumptions c17_all_maps_separate.

(** Clone: equal request headers except a fresh _opid, equal response headers, equal ephemeral
    properties (hence equal correlation id and timeout), all in NEW maps; the original is untouched *)
Theorem c17_clone_equal_but_opid : forall s i s' ci,
  good s -> step s (OClone i) = Some s' -> nth_error (ctxs s) i = Some ci ->
  exists c', ctxs s' = ctxs s ++ [c']
    /\ req_of s' c' = assign (req_of s ci) opid_header (format_uint ((next_op s + 1) mod two64))
    /\ resp_of s' c' = resp_of s ci
    /\ eph_of s' c' = eph_of s ci
    /\ c_own_eph c' = true
    /\ next_op s' = (next_op s + 1) mod two64
    /\ req_of s' ci = req_of s ci /\ resp_of s' ci = resp_of s ci /\ eph_of s' ci = eph_of s ci.
Proof. exact clone_spec. Qed.
Print Assumptions c17_clone_equal_but_opid.

(** later changes on either side are invisible to the other: an operation addressed to context j
    (add header, set timeout, merge response headers) changes no map of any other context i —
    original and clone included, whichever is i and whichever j *)
Theorem c17_clone_separate : forall s o s' i j ci,
  good s -> step s o = Some s' -> addressed_to o = Some j -> i <> j ->
  nth_error (ctxs s) i = Some ci ->
  req_of s' ci = req_of s ci /\ resp_of s' ci = resp_of s ci
  /\ (c_own_eph ci = true -> eph_of s' ci = eph_of s ci).
Proof. exact other_context_unchanged. Qed.
Print Assumptions c17_clone_separate.

(** maps returned by RequestHeaders() / ResponseHeaders() / EphemeralProperties() are fresh copies:
    writing into one changes no context at all *)
Theorem c17_getters_do_not_alias : forall s u k v s' i ci,
  good s -> step s (OMutUser u k v) = Some s' -> nth_error (ctxs s) i = Some ci ->
  req_of s' ci = req_of s ci /\ resp_of s' ci = resp_of s ci /\ eph_of s' ci = eph_of s ci.
Proof. exact user_map_write_changes_no_context. Qed.
Print Assumptions c17_getters_do_not_alias.

Theorem c17_getter_returns_fresh_copy : forall s i m s' ci,
  good s -> step s (OGet i m) = Some s' -> nth_error (ctxs s) i = Some ci ->
  exists a, umaps s' = umaps s ++ [a] /\ a = length (heap s) /\ get s' a = get s (sel ci m)
            /\ (forall x b, slot_addr s x = Some b -> b <> a).
Proof. exact getter_returns_fresh_copy. Qed.
Print Assumptions c17_getter_returns_fresh_copy.

(** every operation leaves every map it is not addressed to exactly as it was *)
Theorem c17_frame : forall s o s', step s o = Some s' ->
  (length (heap s) <= length (heap s'))%nat
  /\ (forall a, (a < length (heap s))%nat -> target s o <> Some a -> get s' a = get s a)
  /\ (exists l, ctxs s' = ctxs s ++ l)
  /\ (exists l, umaps s' = umaps s ++ l)
  /\ (exists l, protos s' = protos s ++ l).
Proof. exact step_frame. Qed.
Print Assumptions c17_frame.

(** lock discipline, on data REGENERATED from lib/go/context.go on every build (Gen/CtxLockSites.v):
    on every control-flow path of every FContextImpl method, each access to a guarded map lies inside a
    matching critical section, writes inside exclusive ones, nothing is locked twice or left locked,
    and no locking method is called while the lock is held *)
Theorem c17_guarded : all_guarded context_methods = true.
Proof. vm_compute. reflexivity. Qed.
Print Assumptions c17_guarded.

(** ... and what that discipline buys, in an interleaving semantics of sync.RWMutex: for ANY set of
    paths that pass the check, run concurrently under ANY schedule, a thread about to write a guarded
    map is never concurrent with another thread about to read or write it. With c17_guarded this is
    the justification for treating each FContext method as one atomic step in Model/Context.v *)
Theorem c17_guarded_accesses_never_conflict : forall paths sched s i j ti tj,
  forallb (path_ok HNone false) paths = true ->
  mrun (minit paths) sched = Some s ->
  nth_error (threads s) i = Some ti -> nth_error (threads s) j = Some tj -> i <> j ->
  about_to ti CWrite -> ~ about_to tj CWrite /\ ~ about_to tj CRead.
Proof. exact no_conflicting_access. Qed.
Print Assumptions c17_guarded_accesses_never_conflict.

(** the default timeout and the reserved header names of the model are the constants of lib/go as they
    are now (Gen/Consts.v is regenerated from the source on every build) *)
Theorem c17_constants_are_the_sources :
  Context.default_timeout_ms * Context.ns_per_ms = Consts.go_defaultTimeout
  /\ Receivers.opid_header = Consts.go_opIDHeader /\ Context.cid_header = Consts.go_cidHeader
  /\ Context.timeout_header = Consts.go_timeoutHeader.
Proof.
  split; [exact ConstsAgree.default_timeout_agrees|].
  destruct ConstsAgree.header_names_agree as (A & B & C & _). auto.
Qed.
Print Assumptions c17_constants_are_the_sources.

(** non-vacuity: a history with a created, a cloned and a received context, header writes on both
    sides of the clone and a write into a getter's copy *)
Example c17_nonvacuous :
  let ops := [ONew [99]; OAdd 0 MReq [107] [118]; OClone 0; OAdd 1 MReq [107] [119];
              OGet 0 MReq; OMutUser 0 [107] [120]; ONewProto;
              ORecv 0 [(opid_header, [55]); ([102], [103])]; OSetTimeout 2 1500000] in
  match run (init 0) ops with
  | Some s => length (ctxs s) = 3%nat
              /\ map (opid_of s) (ctxs s) = [[49]; [50]; [51]]
              /\ lookup [107] (req_of s (nth 0 (ctxs s) (Build_ctx 0 0 0 true))) = Some [118]
              /\ lookup [107] (req_of s (nth 1 (ctxs s) (Build_ctx 0 0 0 true))) = Some [119]
  | None => False
  end.
Proof. vm_compute. repeat split. Qed.
