From Coq Require Import ZArith List.
From FV Require Import Model.Context.
(* placeholder until the proofs land: see Proofs/ContextProofs.v *)
Theorem c17_placeholder_init : forall start, next_op (init start) = start.
Proof. reflexivity. Qed.
Print Assumptions c17_placeholder_init.
