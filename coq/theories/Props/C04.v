(** C04 — FContext headers survive the wire unchanged in the documented v0 layout.
    Only theorem statements, each closed by [exact] of a lemma from Proofs/. *)
From Coq Require Import ZArith List Permutation.
From FV Require Import Base.Res Base.Bytes Base.GoSem Model.Headers
  Proofs.BytesProofs Proofs.HeadersProofs Proofs.HeadersPyProofs Proofs.HeadersMapProofs.
From FV Require Gen.Consts Proofs.ConstsAgree.
Import ListNotations.
Open Scope Z_scope.

(** layout of documentation/protocol.md: version 0, 4-byte big-endian total m, then for each
    header 4-byte name size, name, 4-byte value size, value; m = sum (8 + |name| + |value|) *)
Theorem c04_layout : forall l,
  marshal l = 0 :: be32 (as_uint32 (header_size l)) ++ marshal_pairs l
  /\ zlen (marshal l) = 5 + header_size l
  /\ zlen (marshal_pairs l) = header_size l.
Proof. exact C04_layout. Qed.
Print Assumptions c04_layout.

(** reading from a stream returns exactly the pairs written, in order, and leaves the payload untouched *)
Theorem c04_stream_roundtrip : forall l payload,
  header_size l < 2147483648 ->
  read_header (marshal l ++ payload) = Ok (l, payload).
Proof. exact stream_roundtrip. Qed.
Print Assumptions c04_stream_roundtrip.

(** reading from a complete frame *)
Theorem c04_frame_roundtrip : forall l payload,
  5 + header_size l + zlen payload < 2147483648 ->
  get_headers_from_frame (marshal l ++ payload) = Ok l.
Proof. exact frame_roundtrip. Qed.
Print Assumptions c04_frame_roundtrip.

(** Go's random map iteration order cannot matter: two orders of the same entries decode to the same map *)
Theorem c04_order_irrelevant : forall l l',
  NoDup (keys l) -> Permutation l l' -> forall k, lookup k l = lookup k l'.
Proof. exact lookup_perm. Qed.
Print Assumptions c04_order_irrelevant.

(** addHeadersToFrame: the new frame carries existing ∪ new headers (new wins), the same payload
    and a correct outer size; [lookup] on the merged list is characterised by c04_merged_map *)
Theorem c04_add_headers : forall a b c d l payload hs,
  NoDup (keys l) ->
  9 + header_size l + zlen payload < 2147483648 ->
  9 + header_size (assign_all l hs) + zlen payload < 2147483648 ->
  add_headers_to_frame ([a; b; c; d] ++ marshal l ++ payload) hs
  = Ok (be32 (as_uint32 (5 + header_size (assign_all l hs) + zlen payload))
        ++ marshal (assign_all l hs) ++ payload).
Proof. exact add_headers_spec. Qed.
Print Assumptions c04_add_headers.

Theorem c04_merged_map : forall hs m k, NoDup (keys m) ->
  lookup k (assign_all m hs) = match lookup k hs with Some v => Some v | None => lookup k m end.
Proof. exact lookup_assign_all. Qed.
Print Assumptions c04_merged_map.

(** the Python runtime's codec: writes the same bytes, reads Go's bytes (stream and frame) *)
Theorem c04_py_writes_same : forall l, header_size l < 4294967296 -> py_write l = marshal l.
Proof. exact py_write_marshal. Qed.
Print Assumptions c04_py_writes_same.

Theorem c04_py_reads_go_stream : forall l payload,
  5 + header_size l + zlen payload < 2147483648 ->
  py_read (marshal l ++ payload) = Ok (l, payload).
Proof. exact py_read_go_stream. Qed.
Print Assumptions c04_py_reads_go_stream.

Theorem c04_py_reads_go_frame : forall l payload,
  5 + header_size l + zlen payload < 2147483648 ->
  py_decode_from_frame (marshal l ++ payload) = Ok l.
Proof. exact py_decode_go_frame. Qed.
Print Assumptions c04_py_reads_go_frame.

(** the readers accept nothing but what the writer produces (no silent garbage) *)
Theorem c04_frame_accepts_only_marshal : forall b l,
  bytes_ok b -> zlen b < 2147483648 ->
  get_headers_from_frame b = Ok l -> exists payload, b = marshal l ++ payload.
Proof.
  intros b l Hok Hlen E. pose proof (frame_spec_holds b Hok Hlen) as S.
  rewrite E in S. exact S.
Qed.
Print Assumptions c04_frame_accepts_only_marshal.

Theorem c04_stream_accepts_only_marshal : forall b l rest,
  bytes_ok b -> zlen b < 2147483648 ->
  read_header b = Ok (l, rest) -> b = marshal l ++ rest.
Proof.
  intros b l rest Hok Hlen E. pose proof (stream_spec_holds b Hok Hlen) as S.
  rewrite E in S. exact S.
Qed.
Print Assumptions c04_stream_accepts_only_marshal.

(** the header names and the version byte of the model are the constants of lib/go as they are now
    (Gen/Consts.v is regenerated from the source on every build) *)
Theorem c04_constants_are_the_sources :
  (forall m, hd 255 (Headers.marshal m) = Consts.go_protocolV0)
  /\ Receivers.opid_header = Consts.go_opIDHeader /\ Context.cid_header = Consts.go_cidHeader
  /\ Context.timeout_header = Consts.go_timeoutHeader.
Proof.
  split; [exact ConstsAgree.protocol_version_agrees|].
  destruct ConstsAgree.header_names_agree as (A & B & C & _). auto.
Qed.
Print Assumptions c04_constants_are_the_sources.

(** non-vacuity: empty strings, multi-byte UTF-8, several headers, adjacent payload *)
Example c04_nonvacuous :
  let l := [([102;111;111], [98;97;114]); ([], []); ([195;169], [240;159;146;169])] in
  read_header (marshal l ++ [1;2;3]) = Ok (l, [1;2;3])
  /\ get_headers_from_frame (marshal l ++ [1;2;3]) = Ok l
  /\ py_read (marshal l ++ [1;2;3]) = Ok (l, [1;2;3])
  /\ NoDup (keys l).
Proof.
  vm_compute. repeat split; try reflexivity.
  repeat constructor; simpl; intuition discriminate.
Qed.
