(** C04 — FContext headers survive the wire unchanged in the documented v0 layout.
    Only theorem statements, each closed by [exact] of a lemma from Proofs/. *)
From Coq Require Import ZArith List.
From FV Require Import Base.Res Base.Bytes Base.GoSem Model.Headers Proofs.BytesProofs Proofs.HeadersProofs.
Import ListNotations.
Open Scope Z_scope.

(** layout of documentation/protocol.md: version 0, 4-byte big-endian total m, then for each
    header 4-byte name size, name, 4-byte value size, value; m = sum (8 + |name| + |value|) *)
Theorem c04_layout : forall l,
  marshal l = 0 :: be32 (as_uint32 (header_size l)) ++ marshal_pairs l
  /\ zlen (marshal l) = 5 + header_size l
  /\ zlen (marshal_pairs l) = header_size l.
Proof. exact C04_layout. Qed.
Print Assumptions c04_layout.

(** reading from a stream returns exactly the pairs written and leaves the payload untouched *)
Theorem c04_stream_roundtrip : forall l payload,
  header_size l < 2147483648 ->
  read_header (marshal l ++ payload) = Ok (l, payload).
Proof. exact stream_roundtrip. Qed.
Print Assumptions c04_stream_roundtrip.

(** reading from a complete frame *)
Theorem c04_frame_roundtrip : forall l payload,
  5 + header_size l + zlen payload < 2147483648 ->
  get_headers_from_frame (marshal l ++ payload) = Ok l.
Proof. exact frame_roundtrip. Qed.
Print Assumptions c04_frame_roundtrip.

Example c04_nonvacuous :
  let l := [([102;111;111], [98;97;114]); ([], []); ([195;169], [240;159;146;169])] in
  read_header (marshal l ++ [1;2;3]) = Ok (l, [1;2;3])
  /\ get_headers_from_frame (marshal l ++ [1;2;3]) = Ok l.
Proof. vm_compute. split; reflexivity. Qed.
