(** C10 — the parser represents every declaration exactly and accepts all Thrift.
    Only theorem statements, each closed by [exact] of a lemma from Proofs/.

    The object of every theorem is the model of parser.ParseReader:
      Gen/Grammar.v      the `g = &grammar{...}` literal of grammar.peg.go, regenerated on every build
      Model/Peg.v        the pigeon runtime (parseExpr and friends) as a fuelled interpreter
      Model/ParserActions.v  the 44 semantic actions, transcribed
    and the same definitions are what Judge/JParser.v runs against the real parser.

    The full property (for every well-formed model m and every lexical style s,
    parse (render s m) = Ok m) is NOT proved; it is also still false of the code in one respect (a line
    break inside a declaration head, [c10_separator_comment_independence_refuted], known finding C10-F16,
    replayed on the real parser by tools/props/c10.py).  The other defects recorded on the pinned grammar
    (keyword prefixes C10-F8a..e, lexical defects C10-F17..F20, enum numbering past the largest integer
    C10-F22) have been repaired in grammar.peg / grammar.peg.go; the theorems that refuted the property on
    them are now the positive statements [c10_keyword_boundary], [c10_fieldtype_longest_match],
    [c10_field_modifier_boundary], [c10_function_type_boundary], [c10_bool_constant_boundary],
    [c10_separator_comment_independence_instances], [c10_literal_roundtrip_instances] and
    [c10_enum_numbering] (which no longer needs a range hypothesis).  What is proved for all inputs is
    listed stage by stage, following DESIGN.md section C10. *)
From Coq Require Import ZArith List Bool String Lia.
From FV Require Import Model.PegSyntax Model.Peg Model.PegWf Model.ParserStrings Model.ParserAst Model.ParserActions
     Model.Parser Model.ParserFiles Gen.Grammar Proofs.PegProofs Proofs.ParserProofs Proofs.ParserLexProofs
     Proofs.ParserEvals Proofs.ParserRoundTrip Proofs.ParserRoundTripEnum Proofs.ParserPrefixProofs
     Proofs.ParserRoundTripStruct Proofs.ParserRoundTripConst Proofs.ParserRoundTripService Proofs.ParserRoundTripFile
     Proofs.ParserFragmentCheck Proofs.ParserKeywordProofs Proofs.ParserFilesProofs.
From FV Require Model.CompilerTotal Model.CompilerValidate Proofs.CompilerTotalProofs Proofs.CompilerValidateProofs.
Import ListNotations.
Open Scope Z_scope.

(** * Stage 1. Enum numbering
    (repaired code: repo commits "fix: number enum values as Apache Thrift does" and "fix: an enum value that
    would follow 9223372036854775807 is an error").
    For every list of declared enum values (explicit numbers are 64-bit integers, as IntConstant yields them):
    if every number Apache Thrift assigns (explicit kept, implicit = previous + 1, first implicit = 0) is a
    64-bit integer, the Enum action reports no error and assigns exactly those numbers; otherwise (a value
    without a number follows 9223372036854775807, so that Thrift's previous + 1 does not exist in 64 bits)
    the action returns its error.  Names, comments and annotations are untouched whatever the numbers.
    On the pinned code this was refuted by  A=5, B=2, C  (C = 6) and, until the second repair, by
    A = 9223372036854775807, B  (B = -9223372036854775808). *)
Theorem c10_enum_numbering : forall evs : list (enum_value * bool),
  explicit_in64 evs ->
  (Forall in64 (thrift_numbering (map declared_value evs) (-1)) ->
     enum_overflow evs 0 false = None
     /\ map ev_value (enum_number evs 0) = thrift_numbering (map declared_value evs) (-1))
  /\ (~ Forall in64 (thrift_numbering (map declared_value evs) (-1)) ->
      exists v, enum_overflow evs 0 false = Some v).
Proof. exact enum_numbering_exact. Qed.
Print Assumptions c10_enum_numbering.

Theorem c10_enum_numbering_keeps : forall evs : list (enum_value * bool),
  map ev_name (enum_number evs 0) = map (fun p => ev_name (fst p)) evs
  /\ map ev_comment (enum_number evs 0) = map (fun p => ev_comment (fst p)) evs
  /\ map ev_anns (enum_number evs 0) = map (fun p => ev_anns (fst p)) evs.
Proof. exact enum_numbering_keeps_full. Qed.
Print Assumptions c10_enum_numbering_keeps.

(** the former witness of C10-F22 ([c10_enum_numbering_overflow_refuted]): the value after
    A = 9223372036854775807  is reported (by name) instead of being numbered -9223372036854775808; replayed on
    the real parser by tools/props/c10.py (edge case enum_value_after_max_int64). *)
Theorem c10_enum_numbering_overflow : forall n1 n2 : bytes,
  enum_overflow [(mkev None n1 9223372036854775807 [], true); (mkev None n2 (-1) [], false)] 0 false = Some n2
  /\ thrift_numbering [Some 9223372036854775807; None] (-1) = [9223372036854775807; 9223372036854775808].
Proof. exact enum_numbering_overflow. Qed.
Print Assumptions c10_enum_numbering_overflow.

(** * The grammar under the theorems is the one in the source tree now
    node and rule counts agree with the translator's count of the Go literal; every rule reference
    and every action name resolves in the model. *)
Theorem c10_grammar_regenerated :
  rules_size grammar_rules = grammar_node_count
  /\ Z.of_nat (List.length grammar_rules) = grammar_rule_count
  /\ compiled_grammar = Some rules
  /\ List.length rules = List.length grammar_rules.
Proof. exact grammar_selfcheck. Qed.
Print Assumptions c10_grammar_regenerated.

(** * Stage 6. Well-formedness and termination (also C11's "the parser terminates")
    Generic: for ANY compiled grammar, action set and value domain, if the computable check
    [check_wf] (Ford-style: nullability closed, repetition bodies consume, no left recursion by a
    rank function) succeeds, the pigeon interpreter never exhausts a recursion-depth budget of
    (|input| + 1) * depth_unit -- on every input, valid or not. *)
Theorem c10_wf_grammars_terminate :
  forall (A V E : Type) (vnil : V) (vbytes : list Z -> V) (vlist : list V -> V)
         (run_action : A -> list Z -> Z -> list (string * V) -> Peg.ares V E)
         (rules : list (cexpr A)) (nlt : list bool) (rkt : list nat),
  check_wf rules nlt rkt = true ->
  forall (input : list Z) (fuel : nat),
  (S (List.length input) * depth_unit rules rkt <= fuel)%nat ->
  Peg.parse A V E vnil vbytes vlist run_action rules fuel input <> PFuel.
Proof. exact wf_parse_total. Qed.
Print Assumptions c10_wf_grammars_terminate.

(** Instance: the grammar regenerated from grammar.peg.go passes the check, so the parser model
    (with the depth budget the judge uses) gives an answer for every byte string. *)
Theorem c10_grammar_wf :
  check_wf rules nullable_tbl rank_tbl = true /\ forall input : bytes, parse_idl input <> PNoFuel.
Proof. exact grammar_wf_and_total. Qed.
Print Assumptions c10_grammar_wf.

(** The depth budget is immaterial: any two budgets that suffice give the same result
    (so no theorem or judge verdict depends on the constant chosen in Model/Parser.v). *)
Theorem c10_fuel_irrelevant : forall (f1 f2 : nat) (input : bytes),
  parse_with f1 input <> PFuel -> parse_with f2 input <> PFuel -> parse_with f1 input = parse_with f2 input.
Proof. exact (parse_fuel_irrelevant action val aerr VNil VBytes VList run_action rules). Qed.
Print Assumptions c10_fuel_irrelevant.

(** Backtracking discipline of the interpreter on ANY grammar: a failing expression leaves the
    position untouched; a succeeding one never moves backwards and moves forward unless
    [may_empty] holds of it. *)
Theorem c10_positions :
  forall (A V E : Type) (vnil : V) (vbytes : list Z -> V) (vlist : list V -> V)
         (run_action : A -> list Z -> Z -> list (string * V) -> Peg.ares V E)
         (rules : list (cexpr A)) (nl : nat -> bool),
  (forall i body, nth_error rules i = Some body -> may_empty nl body = true -> nl i = true) ->
  forall f e cr st fr,
  post A V E nl e st (Peg.eval A V E vnil vbytes vlist run_action rules f e cr st fr).
Proof. exact eval_post. Qed.
Print Assumptions c10_positions.

(** * Stage 3. Identifier round trip, at the level of the generated rule
    For every identifier-shaped byte string x = c :: t (c a letter or '_', t letters, digits, '.',
    '_') followed by end of input or an ASCII character that cannot continue an identifier, the
    rule Identifier of the regenerated grammar consumes exactly x, returns Identifier(x), records
    no error and leaves the frame alone -- in particular for names that begin with a keyword
    (i32x, stringList, optionalThing) and names with leading/trailing/double underscores. *)
Theorem c10_identifier_roundtrip : forall c t follow f cr o es fr,
  ascii c -> p_start c = true -> run_of p_cont t -> stops p_cont follow ->
  (List.length t + 12 <= f)%nat ->
  Peg.eval action val aerr VNil VBytes VList run_action rules f (CRef id_Identifier) cr
           (mkst ((c :: t) ++ follow) o es) fr =
  Done true (VIdent (c :: t)) (mkst follow (o + Z.of_nat (List.length (c :: t))) es) fr.
Proof. exact identifier_rule. Qed.
Print Assumptions c10_identifier_roundtrip.

(** Integer-constant round trip (field ids, enum values, constants), at the level of the generated
    rule IntConstant and its action strconv.ParseInt: for every 64-bit z, its decimal spelling
    followed by end of input or an ASCII non-digit is consumed exactly and yields z, no error. *)
Theorem c10_int_const_roundtrip : forall z follow f cr o es fr,
  - 9223372036854775808 <= z <= 9223372036854775807 ->
  stops p_digit follow -> (32 <= f)%nat ->
  Peg.eval action val aerr VNil VBytes VList run_action rules f (CRef id_IntConstant) cr
           (mkst (render_int z ++ follow) o es) fr =
  Done true (VInt z) (mkst follow (o + Z.of_nat (List.length (render_int z))) es) fr.
Proof. exact int_const_roundtrip. Qed.
Print Assumptions c10_int_const_roundtrip.

(** Scope prefixes (newScopePrefix, the two regular expressions modelled in Model/ParserStrings.v):
    for every prefix written as words and {variables} joined by '.', where each variable consists of
    word characters, begins with a letter and has a letter or digit second (what the code's
    [identifier] expression demands) and no word contains '{', the prefix string is kept as written
    and the variables are exactly the declared ones, in order. *)
Theorem c10_prefix_vars : forall ts : list ptok, forallb tok_ok ts = true ->
  new_scope_prefix (render_prefix ts) = inl (render_prefix ts, prefix_variables ts).
Proof. exact new_scope_prefix_render. Qed.
Print Assumptions c10_prefix_vars.

(** * Stage 4 (the part that holds). Blanks and line breaks between tokens
    The rule _ consumes exactly a run of blanks (space, tab, CR) and the rule __ exactly a run of
    blanks and line breaks, whatever their number and mix, when followed by end of input or by a
    character that starts neither a blank, a line break nor a comment; the value is the list of the
    consumed characters and no error is recorded.  [evals e cr st fr R]: every sufficient depth
    budget makes the interpreter answer R. *)
Theorem c10_blank_gap_independence :
  (forall g s cr o es fr, run_of p_blank g -> head_not [32; 9; 13; 47] s ->
     evals (CRef 56) cr (mkst (g ++ s) o es) fr
           (Done true (VList (bytes_vals g)) (mkst s (o + Z.of_nat (List.length g)) es) fr))
  /\ (forall g s cr o es fr, run_of p_wsnl g -> head_not [32; 9; 13; 10; 47; 35] s ->
     evals (CRef 55) cr (mkst (g ++ s) o es) fr
           (Done true (VList (bytes_vals g)) (mkst s (o + Z.of_nat (List.length g)) es) fr)).
Proof. exact (conj gap_inline gap_free). Qed.
Print Assumptions c10_blank_gap_independence.

(** * Stage 5. parse (render s m) = m, proved for the fragment "typedefs of base types and enums"
    For every sequence of declarations, each either
        typedef <blanks> base <blanks+> name <blanks> LF <blanks and line breaks>
    or
        enum <blanks> name <blanks/LFs> { <blanks/LFs> value* } <blanks> LF <blanks and line breaks>
    where base is one of the eight base-type keywords, every name is ANY identifier-shaped byte
    string (in particular names beginning with a keyword), every gap is an arbitrary -- possibly
    empty -- run except <blanks+> after the base-type keyword (at least one blank: since the repair of
    C10-F8a  i32x  is a name, not  i32  followed by  x), no enum has a value without a number right after
    9223372036854775807 (the Enum action reports that: [c10_enum_numbering]), and every enum value is
    spelled in one of the four ways
        name W  |  name g , W  |  name g ; W  |  name g = g' z W  |  name g = g' z g'' , W  (or ;)
    with z any 64-bit integer (explicit negative values included) and W blanks / line breaks
    (a bare  name  with nothing after it only in last position), preceded by arbitrary blanks
    and line breaks: the parser model -- from the Grammar rule down to single characters through
    Statement, FrugalStatement (with its failing alternatives), TypeDef, Enum, EnumValue, FieldType,
    BaseType, BaseTypeName, Identifier, IntConstant, ListSeparator, _, __, EOS (its failing first
    alternative included), EOF, and back up through the actions Grammar1, Statement1, TypeDef1,
    Enum1, EnumValue1, FieldType1, BaseType1, BaseTypeName1, Identifier1, IntConstant1 -- returns
    exactly the declared typedefs and enums, each list in source order, with no comment and no
    annotations, and nothing else; and (next theorem) the enum values carry Thrift's numbering.
    PARTIAL with respect to the property: structs, unions, exceptions, services, scopes, constants,
    includes, namespaces, containers, comments, doc comments, annotations and the ';' / end-of-file
    statement terminators are not inside the proved fragment (correspondence runs only). *)
Theorem c10_roundtrip_partial : forall (w0 : bytes) (ds : list decl_spec),
  run_of p_wsnl w0 -> Forall decl_ok ds ->
  parse_idl (w0 ++ render_decls ds) = POk (td_en_only (typedefs_of ds) (enums_of ds)).
Proof. exact roundtrip_decls. Qed.
Print Assumptions c10_roundtrip_partial.

(** the enums in that result: names as declared, values = Apache Thrift's numbering of the declared
    (optional) numbers, every one of them a 64-bit integer -- the enum-numbering theorem carried through the
    whole parser; no range hypothesis beyond those of the round-trip theorem itself ([en_ok]) *)
Theorem c10_enum_numbering_end_to_end : forall e : en_spec,
  en_ok e ->
  Forall in64 (thrift_numbering (map (fun v => declared (v_tail v)) (e_vs e)) (-1))
  /\ map ev_value (en_values (enum_of e)) = thrift_numbering (map (fun v => declared (v_tail v)) (e_vs e)) (-1)
  /\ map ev_name (en_values (enum_of e)) = map (fun v => v_c v :: v_t v) (e_vs e).
Proof. exact enum_of_numbering_ok. Qed.
Print Assumptions c10_enum_numbering_end_to_end.

(** * Stage 5, continued: the fragment grown to struct / exception / union declarations with fields,
    to const declarations and to services with methods.
    For every sequence of declarations, each either a typedef of a base type or an enum exactly as in
    [c10_roundtrip_partial], or
        const <blanks> type name <blanks> = <blanks> value <blanks> LF <blanks/LFs>
    with  value  the decimal spelling of any 64-bit integer or a double-quoted string of ASCII characters
    other than the double quote, backslash and line break, or
        struct|exception|union <blanks> name <blanks/LFs> { <blanks/LFs> field* } <blanks> LF <blanks/LFs>
    where a field is
        id <blanks> : <blanks> [required <blanks+> | optional <blanks+>] type name TAIL
    with  id  any 64-bit integer in decimal (negative ids included),  type  one of
        base <blanks>  |  list< <blanks> type > <blanks>  |  set< <blanks> type > <blanks>
        |  map< <blanks> type , <blanks> type > <blanks>
    nested to any depth (base = one of the eight base-type keywords; the blanks after an element type
    are that type's own, so every placement of blanks inside the angle brackets is covered; a base-type
    keyword directly before a name -- the type of a field, constant or method when it is not a container --
    and the keywords required, optional, oneway and void are followed by at least one blank (or line
    break where the grammar allows one): keywords end at a word boundary since the repairs of
    C10-F8a..d),  name  ANY
    identifier-shaped byte string, and TAIL one of the three separator styles
        W  |  W , W'  |  W ; W'
    (W, W' arbitrary runs of blanks and line breaks; a field with nothing at all after its name only in
    last position), or
        service <blanks> name <blanks/LFs> { <blanks/LFs> method* } <blanks> LF <blanks/LFs>
    where a method is
        [oneway <blanks/LFs+>] (void <blanks/LFs+> | type <LF-led blanks/LFs>) name <blanks> ( <blanks/LFs> field* )
        W2 [throws <blanks/LFs> ( <blanks/LFs> field* ) <blanks>] [, | ;] W3
    (argument and exception lists are field lists exactly as above; after a throws clause without a
    separator, W3 is empty or begins with a line break): the parser model -- additionally through Const, ConstValue (Literal, and for an
    integer the failing Literal, BoolConstant and DoubleConstant -- which consumes sign and digits and
    backtracks at the missing '.' -- before IntConstant), Literal (with its failing escape alternatives) and
    its action unquoteLiteral (escaped-quote normalisation, then strconv.Unquote),
    Struct, Exception, Union, StructLike, FieldList, Field (with its absent doc comment, default value
    and annotations), FieldModifier, FieldType, ContainerType, MapType, SetType, ListType (with the
    absent cpp_type), WS, Service (with the absent extends clause), Function, FunctionType, Throws and
    the failing alternatives of each choice (FieldType failing on the closing brace included), and the
    actions Const1, Literal1, Struct1, Exception1, Union1, StructLike1, FieldList1, Field1,
    FieldModifier1, ContainerType1, MapType1, SetType1, ListType1, Service1, Function1, FunctionType1,
    Throws1 and the const / struct / exception / union / service branches of Grammar1 -- returns exactly
    the declared typedefs, constants, enums, structs, exceptions, unions and services, each list in source
    order: every method with its name, oneway flag, return type (none for void), arguments and
    exceptions (made optional, as the Function action makes them); every constant with its name, type tree and value (the integer, or the string's
    characters); every field with its id, name, modifier (default when none is written; all fields of a
    union optional, as the Grammar action makes them), type tree, no default value, no comment, no
    annotations; and nothing else.
    PARTIAL with respect to the property: named (identifier) types, field default values, constants
    with double / bool / list / map / identifier values or strings with escapes or single quotes,
    service inheritance (extends), scopes, includes, namespaces, comments, doc comments, annotations, cpp_type and the ';' /
    end-of-file statement terminators are not inside the proved fragment (correspondence runs only). *)
Theorem c10_roundtrip_structs_partial : forall (w0 : bytes) (ds : list xdecl),
  run_of p_wsnl w0 -> Forall xdecl_ok ds ->
  parse_idl (w0 ++ render_file ds) = POk (frugal_of ds).
Proof. exact roundtrip_file. Qed.
Print Assumptions c10_roundtrip_structs_partial.

(** the hypotheses of the theorem are decidable: a computable check implies them.  Judge/JParserFragment.v
    runs this check on every generated description of a file of the fragment and compares the tree
    [frugal_of ds] with what the REAL parser returned on [w0 ++ render_file ds] *)
Theorem c10_fragment_check_sound : forall (w0 : bytes) (ds : list xdecl),
  fragment_okb w0 ds = true -> parse_idl (w0 ++ render_file ds) = POk (frugal_of ds).
Proof. exact fragment_check_sound. Qed.
Print Assumptions c10_fragment_check_sound.

(** constant values alone, at the level of the generated rule ConstValue: the decimal spelling of any
    64-bit integer followed by something that is neither a digit nor '.', and any plain double-quoted
    string, are consumed exactly and yield the integer / the string's characters, no error recorded *)
Theorem c10_const_value_roundtrip :
  (forall z follow cr o es fr, int64 z -> stops p_digit follow -> head_not [46] follow ->
     evals (CRef 30) cr (mkst (render_int z ++ follow) o es) fr
           (Done true (VInt z) (mkst follow (o + Z.of_nat (List.length (render_int z))) es) fr))
  /\ (forall content t cr o es fr, run_of p_strch content -> ascii_next t ->
     evals (CRef 30) cr (mkst (34 :: content ++ 34 :: t) o es) fr
           (Done true (VStr content) (mkst t (o + 1 + Z.of_nat (List.length content) + 1) es) fr)).
Proof. exact (conj const_value_int const_value_str). Qed.
Print Assumptions c10_const_value_roundtrip.

(** the derivation of a field type alone: FieldType on any rendered type, followed by anything that is
    not a blank, '/' or '(' -- and, when the type is a bare base-type keyword, its blanks followed by
    something that cannot continue a word ([ty_sep]; otherwise the text is a longer identifier) --
    consumes exactly the type and returns its tree *)
Theorem c10_field_type_roundtrip : forall (t : ty_spec) (more : bytes) cr o es fr,
  ty_ok t -> head_not [32; 9; 13; 47; 40] more -> ty_sep t more ->
  exists o', evals (CRef 22) cr (mkst (render_ty t more) o es) fr
                   (Done true (VType (ty_of t)) (mkst more o' es) fr).
Proof. exact (fun t more cr o es fr Hok Hm Hs => field_type_rule t Hok more cr o es fr Hm Hs). Qed.
Print Assumptions c10_field_type_roundtrip.

(** * Stage 2. Keywords end at a word boundary (for all inputs)
    For each of the keywords the pinned grammar matched as a prefix -- the eight base-type names (rule
    BaseTypeName), required / optional (FieldModifier), true / false (BoolConstant), oneway (in Function) and
    void (in FunctionType) -- and EVERY continuation  d s  where d is an ASCII character that can continue an
    identifier (letter, digit, '.', '_'): the rule (for oneway / void: the guarded keyword inside its rule)
    does not match the keyword and leaves position, error list and labels alone (the optional oneway yields
    nil).  Before the repairs of C10-F8a..e each of these matched, so that  i32x, optionalThing, onewayTicket,
    voidable, trueValue  were split or rejected. *)
Theorem c10_keyword_boundary : forall (d : Z) (s : bytes) cr o es fr,
  ascii d -> p_cont d = true -> ascii_next s ->
  (forall base, is_base base ->
     evals (CRef 24) cr (mkst (base ++ d :: s) o es) fr (Done false VNil (mkst (base ++ d :: s) o es) fr))
  /\ (forall kw, kw = lit_required \/ kw = lit_optional ->
     evals (CRef 16) cr (mkst (kw ++ d :: s) o es) fr (Done false VNil (mkst (kw ++ d :: s) o es) fr))
  /\ (forall kw, kw = lit_true \/ kw = lit_false ->
     evals (CRef 33) cr (mkst (kw ++ d :: s) o es) fr (Done false VNil (mkst (kw ++ d :: s) o es) fr))
  /\ evals oneway_opt cr (mkst (lit_oneway ++ d :: s) o es) fr
           (Done true VNil (mkst (lit_oneway ++ d :: s) o es) (("oneway"%string, VNil) :: fr))
  /\ evals (CSeq [CLit lit_void; kw_guard]) cr (mkst (lit_void ++ d :: s) o es) fr
           (Done false VNil (mkst (lit_void ++ d :: s) o es) fr).
Proof.
  exact (fun d s cr o es fr Hd Hp Hs =>
    conj (fun base Hb => base_type_name_boundary base d s cr o es fr Hb Hd Hp Hs)
   (conj (fun kw Hk => field_modifier_boundary kw d s cr o es fr Hk Hd Hp Hs)
   (conj (fun kw Hk => bool_constant_boundary kw d s cr o es fr Hk Hd Hp Hs)
   (conj (oneway_boundary d s cr o es fr Hd Hp Hs) (void_boundary d s cr o es fr Hd Hp Hs))))).
Qed.
Print Assumptions c10_keyword_boundary.

(** ... and where nothing that continues a word follows, the keyword is the keyword: BaseTypeName on each of
    the eight names, BoolConstant on true / false (for required / optional / oneway / void this is part of
    [c10_roundtrip_structs_partial]) *)
Theorem c10_keyword_matches : forall (follow : bytes) cr o es fr,
  stops p_cont follow ->
  (forall base, is_base base ->
     evals (CRef 24) cr (mkst (base ++ follow) o es) fr
           (Done true (VStr base) (mkst follow (o + Z.of_nat (List.length base)) es) fr))
  /\ (forall b : bool,
     evals (CRef 33) cr (mkst ((if b then lit_true else lit_false) ++ follow) o es) fr
           (Done true (VBool b) (mkst follow (o + Z.of_nat (List.length (if b then lit_true else lit_false))) es) fr)).
Proof.
  exact (fun follow cr o es fr Hst =>
    conj (fun base Hb => base_type_name base follow cr o es fr Hb Hst)
         (fun b => bool_constant_rule b follow cr o es fr Hst)).
Qed.
Print Assumptions c10_keyword_matches.

(** FieldType longest match (the statement DESIGN.md planned as stage 2): for every base-type keyword
    [base], every identifier character d and run of identifier characters t -- i.e. every name that begins
    with a base-type keyword: i32x, stringList, binary_data, bool_, double.x, ... -- followed by end of input
    or an ASCII character that cannot continue an identifier, the rule FieldType consumes exactly the name and
    yields the named type: BaseType fails at the word boundary, no container keyword matches, Identifier
    takes the whole word.  (Refuted on the pinned grammar by  typedef i32x T.) *)
Theorem c10_fieldtype_longest_match : forall (base : bytes) (d : Z) (t follow : bytes) cr o es fr,
  is_base base -> ascii d -> p_cont d = true -> run_of p_cont t -> stops p_cont follow ->
  evals (CRef 22) cr (mkst ((base ++ d :: t) ++ follow) o es) fr
        (Done true (VType (PType (base ++ d :: t) None None []))
              (mkst follow (o + Z.of_nat (List.length (base ++ d :: t))) es) fr).
Proof. exact field_type_keyword_prefixed_name. Qed.
Print Assumptions c10_fieldtype_longest_match.

(** * Keyword boundaries and the separator / comment / literal stages: instances through the whole parser
    The pinned grammar matched its keywords as prefixes (known findings C10-F8a..e, now repaired: the keyword
    must be followed by something that cannot continue an identifier).  Each theorem below was the
    [_refuted] witness of its defect and now states what the model of the repaired grammar -- and the real
    parser, on which tools/props/c10.py replays the same texts -- returns. *)
(** names that begin with a base-type keyword are type names (C10-F8a) *)
Theorem c10_fieldtype_longest_match_instances :
  (exists f, parse_idl (idl "typedef i32x T") = POk f
             /\ map (fun t => tname (td_type t)) (fr_typedefs f) = [bytes_of_string "i32x"])
  /\ (exists f, parse_idl (idl "struct S { 1: stringList names }") = POk f
                /\ map (fun s => map (fun fl => tname (f_type fl)) (s_fields s)) (fr_structs f)
                   = [[bytes_of_string "stringList"]])
  /\ (exists f, parse_idl (idl "service S { binary_data get() }") = POk f
                /\ map (fun s => map (fun m => option_map tname (m_return m)) (sv_methods s)) (fr_services f)
                   = [[Some (bytes_of_string "binary_data")]]).
Proof. exact w_basetype_prefix. Qed.
Print Assumptions c10_fieldtype_longest_match_instances.

(** a field of type optionalThing has that type and the default modifier; optional Thing is optional (C10-F8b) *)
Theorem c10_field_modifier_boundary :
  exists f, parse_idl (idl "struct S { 1: optionalThing x, 2: optional Thing y }") = POk f
            /\ map (fun s => map (fun fl => (f_mod fl, tname (f_type fl))) (s_fields s)) (fr_structs f)
               = [[(m_default, bytes_of_string "optionalThing"); (m_optional, bytes_of_string "Thing")]].
Proof. exact w_modifier_prefix. Qed.
Print Assumptions c10_field_modifier_boundary.

(** a method returning onewayTicket is a two-way method returning that type (C10-F8c);
    a method returning voidable is accepted and returns that type (C10-F8d) *)
Theorem c10_function_type_boundary :
  (exists f, parse_idl (idl "service S { onewayTicket get(), oneway void put() }") = POk f
             /\ map (fun s => map (fun m => (m_oneway m, option_map tname (m_return m))) (sv_methods s)) (fr_services f)
                = [[(false, Some (bytes_of_string "onewayTicket")); (true, None)]])
  /\ (exists f, parse_idl (idl "service S { voidable get(), void put() }") = POk f
                /\ map (fun s => map (fun m => option_map tname (m_return m)) (sv_methods s)) (fr_services f)
                   = [[Some (bytes_of_string "voidable"); None]]).
Proof. exact (conj w_oneway_prefix w_void_prefix). Qed.
Print Assumptions c10_function_type_boundary.

(** a constant reference trueValue is an identifier, alone and inside a list (C10-F8e) *)
Theorem c10_bool_constant_boundary :
  (exists f, parse_idl (idl "const bool y = trueValue") = POk f
             /\ map c_value (fr_constants f) = [CIdent (bytes_of_string "trueValue")])
  /\ exists f, parse_idl (idl "const list<bool> y = [trueValue, true, falsey]") = POk f
               /\ map c_value (fr_constants f)
                  = [CList [CIdent (bytes_of_string "trueValue"); CBool true; CIdent (bytes_of_string "falsey")]].
Proof. exact w_bool_prefix. Qed.
Print Assumptions c10_bool_constant_boundary.

(** independence of whitespace / comment / separator style still fails in one way: a line break inside a
    declaration head is rejected (C10-F16: the grammar's '_' positions allow blanks and /* */ comments only,
    because a line break is also its statement terminator; not repaired) *)
Theorem c10_separator_comment_independence_refuted :
  is_rejected (parse_idl (cat [bytes_of_string "typedef"; [10]; bytes_of_string "  i32 T"; [10]])) = true.
Proof. exact w_newline_inside_declaration. Qed.
Print Assumptions c10_separator_comment_independence_refuted.

(** the two other ways it failed are repaired: a comment after the keyword prefix is not part of the prefix
    (C10-F17), and constant-map entries may be separated by ';' (C10-F18) or by nothing (C10-F23) *)
Theorem c10_separator_comment_independence_instances :
  (exists f, parse_idl (idl "scope S prefix /* topic */ foo.{user}.bar {}") = POk f
             /\ map (fun s => (p_string (sc_prefix s), p_vars (sc_prefix s))) (fr_scopes f)
                = [(bytes_of_string "foo.{user}.bar", [bytes_of_string "user"])])
  /\ (exists f, parse_idl (idl "const map<i32,i32> m = {1:2; 3:4, 5:6 7:8;}") = POk f
                /\ map c_value (fr_constants f)
                   = [CMap [(CInt 1, CInt 2); (CInt 3, CInt 4); (CInt 5, CInt 6); (CInt 7, CInt 8)]]).
Proof. exact (conj w_comment_in_prefix w_const_map_semicolon). Qed.
Print Assumptions c10_separator_comment_independence_instances.

(** literal round trip, formerly refuted: a value ending in a backslash ("a\\", C10-F19), an escaped apostrophe
    inside double quotes ("it\'s") and escaped double quotes inside apostrophes ('\"hi\"') (C10-F20) *)
Theorem c10_literal_roundtrip_instances :
  (exists f, parse_idl (cat [bytes_of_string "const string s = "; [34; 97; 92; 92; 34; 10]]) = POk f
             /\ map c_value (fr_constants f) = [CStr [97; 92]])
  /\ (exists f, parse_idl (cat [bytes_of_string "const string s = "; [34; 105; 116; 92; 39; 115; 34; 10]]) = POk f
                /\ map c_value (fr_constants f) = [CStr [105; 116; 39; 115]])
  /\ (exists f, parse_idl (cat [bytes_of_string "const string s = "; [39; 92; 34; 104; 105; 92; 34; 39; 10]]) = POk f
                /\ map c_value (fr_constants f) = [CStr [34; 104; 105; 34]]).
Proof. exact w_literals. Qed.
Print Assumptions c10_literal_roundtrip_instances.

(** ParseFrugal (model of parser.go:49-110 and validate): a top-level constant whose value names an
    enum member is accepted, like the same reference as a field default (was rejected on the pinned
    tree, C10-F21; repaired in validateConstant), and circular typedefs are rejected *)
Theorem c10_enum_ref_constant_accepted :
  is_fok (parse_program [(main_frugal, cat [idl "enum Color { RED, GREEN }"; idl "const Color c = Color.GREEN"])] main_frugal) = true
  /\ is_fok (parse_program [(main_frugal, cat [idl "enum Color { RED, GREEN }";
                                                idl "struct S { 1: Color c = Color.GREEN }"])] main_frugal) = true
  /\ is_ferr (parse_program [(main_frugal, cat [idl "typedef B A"; idl "typedef A B"])] main_frugal) = true.
Proof. exact w_enum_ref_constant. Qed.
Print Assumptions c10_enum_ref_constant_accepted.

(** * Stage 7. ParseFrugal and validation: one model

    [Frugal.validate] and [parseFrugal] are transcribed ONCE in this tree: [cvalidate] / [cparse] of
    Model/CompilerValidate.v, whose diagnostics the C11 judge compares byte for byte with the code.
    [ParserFiles.validate] / [parse_program] (what Judge/JParser.v replays against ParseFrugal on
    program texts) are DEFINED from them, the diagnostic text forgotten; the theorems below state that
    and carry C11's facts over. *)
Module CV := CompilerValidate.
Module CVP := CompilerValidateProofs.

Theorem c10_validate_agrees_with_c11 : forall f incs,
  (ParserFiles.validate f incs = VOk <-> CV.cvalidate (CV.validate_fuel f incs) f incs = CV.ROk)
  /\ (ParserFiles.validate f incs = VErr <-> exists m, CV.cvalidate (CV.validate_fuel f incs) f incs = CV.RErr m)
  /\ (ParserFiles.validate f incs = VPanic <-> CV.cvalidate (CV.validate_fuel f incs) f incs = CV.RPanic)
  /\ (ParserFiles.validate f incs = VFuel <-> CV.cvalidate (CV.validate_fuel f incs) f incs = CV.RFuel).
Proof. exact validate_agrees. Qed.
Print Assumptions c10_validate_agrees_with_c11.

(** [parsed_fs fs]: every text replaced by what the PEG parser makes of it *)
Theorem c10_parse_program_agrees_with_c11 : forall fs root pfs,
  parsed_fs fs = Some pfs ->
  (forall t, parse_program fs root = FOk t <-> CV.cparse_program pfs root = CV.POk t)
  /\ (parse_program fs root = FErr <-> exists m, CV.cparse_program pfs root = CV.PErr m)
  /\ (parse_program fs root = FPanic <-> CV.cparse_program pfs root = CV.PPanic)
  /\ (parse_program fs root = FFuel <-> CV.cparse_program pfs root = CV.PFuel).
Proof. exact parse_program_agrees. Qed.
Print Assumptions c10_parse_program_agrees_with_c11.

(** on every parse tree whose names the grammar can produce, over validated includes, validation
    answers ok or error: no panic, and the fuel [validate_fuel] is enough *)
Theorem c10_validate_total : forall f incs,
  CVP.file_names_ok f -> CVP.incs_wellvalidated incs ->
  ParserFiles.validate f incs = VOk \/ ParserFiles.validate f incs = VErr.
Proof. exact validate_total. Qed.
Print Assumptions c10_validate_total.

(** ParseFrugal on a file system of texts on each of which the PEG interpreter gives a verdict and
    whose parse trees have grammatical names: a tree or an error, and an accepted tree is validated all
    the way down (UnderlyingType terminates on it: C11) *)
Theorem c10_parse_program_total : forall fs root,
  texts_decided fs -> texts_names_ok fs ->
  ((exists t, parse_program fs root = FOk t) \/ parse_program fs root = FErr)
  /\ forall t, parse_program fs root = FOk t -> CompilerTotalProofs.wellvalidated (CV.reduce_tree t).
Proof. exact parse_program_total. Qed.
Print Assumptions c10_parse_program_total.

(** the same with the DECIDABLE form of the hypotheses, which Judge/JParser.v evaluates on every
    program it replays against ParseFrugal ([parse_program_checked] answers, in one pass, whether the
    PEG interpreter gave a verdict on every text and every parsed file has grammatical names
    ([file_names_okb]), together with the result): whenever the check says yes, [parse_program] is
    that result, it is a tree or an error, and an accepted tree is validated all the way down *)
Theorem c10_parse_program_checked_total : forall fs root r,
  parse_program_checked fs root = Some (true, r) ->
  parse_program fs root = fres_of r
  /\ ((exists t, parse_program fs root = FOk t) \/ parse_program fs root = FErr)
  /\ forall t, parse_program fs root = FOk t -> CompilerTotalProofs.wellvalidated (CV.reduce_tree t).
Proof. exact parse_program_checked_total. Qed.
Print Assumptions c10_parse_program_checked_total.

Theorem c10_names_check_sound : forall f, file_names_okb f = true -> CVP.file_names_ok f.
Proof. exact file_names_okb_sound. Qed.
Print Assumptions c10_names_check_sound.

(** what [validate] accepts satisfies the checks the repository's repairs added: every extended
    service exists and no extends chain is circular; every thrown type is an exception; field ids and
    field names of every struct, union and exception are pairwise distinct; every type reference is
    valid; typedefs are acyclic *)
Theorem c10_validated_file : forall f incs,
  ParserFiles.validate f incs = VOk ->
  (forall s, In s (fr_services f) -> CVP.extends_ok f incs s)
  /\ (forall s m a, In s (fr_services f) -> In m (sv_methods s) -> In a (m_throws m) ->
         CV.is_exception (CV.validate_fuel f incs) f incs (CV.reduce f incs) (f_type a) = Some true)
  /\ (forall s, In s (fr_structs f ++ fr_unions f ++ fr_exceptions f) ->
         NoDup (map f_id (s_fields s)) /\ NoDup (map f_name (s_fields s)))
  /\ (forall t, In t (map td_type (fr_typedefs f) ++ CV.file_uses f
                      ++ flat_map (fun s => map o_type (sc_ops s)) (fr_scopes f)) ->
         CV.valid_ty (CV.reduce f incs) t = true)
  /\ CompilerTotal.validate_typedefs (CV.reduce f incs) = true.
Proof. exact validate_ok_consequences. Qed.
Print Assumptions c10_validated_file.

(** the same checks on program text through the PEG parser: a dangling extends, a circular extends,
    a thrown struct, a repeated field name, a repeated argument name, a repeated exception id and an
    extends of a service the include does not have are rejected by ParseFrugal; their valid
    neighbours are accepted *)
Theorem c10_repaired_validation_instances :
  is_ferr (parse_program [(main_frugal, pf_dangling_extends)] main_frugal) = true
  /\ is_ferr (parse_program [(main_frugal, pf_circular_extends)] main_frugal) = true
  /\ is_fok (parse_program [(main_frugal, pf_good_extends)] main_frugal) = true
  /\ is_ferr (parse_program [(main_frugal, pf_throws_struct)] main_frugal) = true
  /\ is_fok (parse_program [(main_frugal, pf_throws_exception)] main_frugal) = true
  /\ is_ferr (parse_program [(main_frugal, pf_dup_field_name)] main_frugal) = true
  /\ is_ferr (parse_program [(main_frugal, pf_dup_arg_name)] main_frugal) = true
  /\ is_ferr (parse_program [(main_frugal, pf_dup_throws_id)] main_frugal) = true
  /\ is_fok (parse_program [(main_frugal, pf_throws_two)] main_frugal) = true
  /\ is_ferr (parse_program [(main_frugal, pf_inc_extends_root); (base_frugal, pf_inc_extends_base)] main_frugal) = true
  /\ is_fok (parse_program [(main_frugal, pf_inc_extends_root_ok); (base_frugal, pf_inc_extends_base)] main_frugal) = true.
Proof. exact repaired_checks_rejected. Qed.
Print Assumptions c10_repaired_validation_instances.

(** * Non-vacuity *)
Example c10_enum_numbering_nonvacuous :
  let ev n v := (mkev None [n] v [], true) in
  let im n := (mkev None [n] (-1) [], false) in
  map ev_value (enum_number [ev 65 5; ev 66 2; im 67; ev 68 (-3); im 69] 0) = [5; 2; 3; -3; -2].
Proof. vm_compute. reflexivity. Qed.

(** the identifier theorem's hypotheses hold of  i32x_  followed by a blank *)
Example c10_identifier_nonvacuous :
  ascii 105 /\ p_start 105 = true /\ run_of p_cont [51; 50; 120; 95] /\ stops p_cont [32; 84]
  /\ Peg.eval action val aerr VNil VBytes VList run_action rules 16 (CRef id_Identifier) 0
              (mkst [105; 51; 50; 120; 95; 32; 84] 0 []) []
     = Done true (VIdent [105; 51; 50; 120; 95]) (mkst [32; 84] 5 []) [].
Proof.
  split; [unfold ascii; lia|]. split; [reflexivity|].
  split; [repeat constructor; unfold ascii; lia|]. split; [split; [unfold ascii; lia | reflexivity]|].
  vm_compute. reflexivity.
Qed.

(** the keyword theorems' hypotheses hold of  i32  followed by  x  and of the name  i32x_  before a blank; the
    interpreter run on  "i32x_ T"  from FieldType gives the named type *)
Example c10_keyword_boundary_nonvacuous :
  is_base (bytes_of_string "i32") /\ ascii 120 /\ p_cont 120 = true /\ run_of p_cont [95] /\ stops p_cont [32; 84]
  /\ Peg.eval action val aerr VNil VBytes VList run_action rules 40 (CRef 22) 0
              (mkst [105; 51; 50; 120; 95; 32; 84] 0 []) []
     = Done true (VType (PType [105; 51; 50; 120; 95] None None [])) (mkst [32; 84] 5 []) [].
Proof.
  split; [right; right; right; left; reflexivity|]. split; [unfold ascii; lia|]. split; [reflexivity|].
  split; [repeat constructor; unfold ascii; lia|]. split; [split; [unfold ascii; lia | reflexivity]|].
  vm_compute. reflexivity.
Qed.

Example c10_int_const_nonvacuous :
  render_int (-9223372036854775808) = [45; 57; 50; 50; 51; 51; 55; 50; 48; 51; 54; 56; 53; 52; 55; 55; 53; 56; 48; 56]
  /\ stops p_digit [59].
Proof. split; [vm_compute; reflexivity | split; [unfold ascii; lia | reflexivity]]. Qed.

(** a typedef and an enum satisfying the hypotheses of the round-trip theorem:
      <lf><tab>typedef i32 <sp><tab>i32x_<lf><lf><sp>enum E<lf>{ A = 5,B=2;<lf>C D=-3 F}<lf>          *)
Example c10_roundtrip_nonvacuous :
  let d1 := mk_td [32] [105; 51; 50] [32; 9] 105 [51; 50; 120; 95] [] [10; 32] in
  let vs := [mk_ev 65 [] (T_val_sep [32] [32] 5 [] 44 []);          (* A = 5, *)
             mk_ev 66 [] (T_val_sep [] [] 2 [] 59 [10]);            (* B=2;<lf> *)
             mk_ev 67 [] (T_plain [32]);                            (* C<sp> *)
             mk_ev 68 [] (T_val [] [] (-3) [32]);                   (* D=-3<sp> *)
             mk_ev 70 [] (T_plain [])] in                           (* F *)
  let e1 := mk_en [32] 69 [] [10] [32] vs [] [] in
  decl_ok (D_typedef d1) /\ decl_ok (D_enum e1)
  /\ parse_idl ([10; 9] ++ render_decls [D_typedef d1; D_enum e1])
     = POk (td_en_only [mktypedef None [105; 51; 50; 120; 95] (PType [105; 51; 50] None None []) []]
                       [mkenum None [69] [mkev None [65] 5 []; mkev None [66] 2 []; mkev None [67] 3 [];
                                          mkev None [68] (-3) []; mkev None [70] (-2) []] []]).
Proof.
  split; [|split].
  - repeat split; cbn; try reflexivity; try (repeat constructor; unfold ascii; lia); try (unfold ascii; lia); try lia;
      try discriminate; try (unfold is_base, base_lits; cbn; repeat (first [left; reflexivity | right])).
  - unfold decl_ok, en_ok, evs_ok, ev_ok_l, tail_ok_l, tail_ok, is_sep, int64.
    cbn [e_g1 e_c e_t e_w1 e_w2 e_vs e_g3 e_w v_c v_t v_tail].
    repeat split; try reflexivity; try (repeat constructor; unfold ascii; lia); try (unfold ascii; lia); try lia;
      try (left; reflexivity); try (right; reflexivity); try discriminate.
  - vm_compute. reflexivity.
Qed.

(** declarations satisfying the hypotheses of the struct round-trip theorem:
      struct S<lf>{<lf>  1: i32 a,<lf>  2 :required list<map< string ,set<i64>> > b ;<lf>  -3:optional binary c}<sp><lf>
      union U {1:bool x<lf>}<lf>exception E{}<lf>typedef i64 T<lf>const i32 N = -42<lf>const  map<string,i64> s="a b,c" <lf>
      service Svc {<lf> oneway void ping(),<lf> list<i32> get (1: string k) throws (1: binary e) ;<lf>}<lf>   *)
Example c10_roundtrip_structs_nonvacuous :
  let f1 := mk_fd 1 [] [32] M_default (T_base (bytes_of_string "i32") [32]) 97 [] (FT_sep [] 44 [10; 32; 32]) in
  let ty2 := T_list [] (T_map [32] (T_base (bytes_of_string "string") [32]) [] (T_set [] (T_base (bytes_of_string "i64") []) []) [32]) [32] in
  let f2 := mk_fd 2 [32] [] (M_required [32]) ty2 98 [] (FT_sep [32] 59 [10; 32; 32]) in
  let f3 := mk_fd (-3) [] [] (M_optional [32]) (T_base (bytes_of_string "binary") [32]) 99 [] (FT_plain []) in
  let d1 := mk_st K_struct [32] (mk_sl 83 [] [10] [10; 32; 32] [f1; f2; f3] [32] []) in
  let d2 := mk_st K_union [32] (mk_sl 85 [] [32] [] [mk_fd 1 [] [] M_default (T_base (bytes_of_string "bool") [32]) 120 [] (FT_plain [10])] [] []) in
  let d3 := mk_st K_exception [32] (mk_sl 69 [] [] [] [] [] []) in
  let d4 := mk_td [32] (bytes_of_string "i64") [32] 84 [] [] [] in
  let d5 := mk_cn [32] (T_base (bytes_of_string "i32") [32]) 78 [] [32] [32] (CV_int (-42)) [] [] in
  let d6 := mk_cn [32; 32] (T_map [] (T_base (bytes_of_string "string") []) [] (T_base (bytes_of_string "i64") []) [32])
                  115 [] [] [] (CV_str (bytes_of_string "a b,c")) [32] [] in
  let m1 := mk_fn (OW_oneway [32]) (R_void [32]) 112 (bytes_of_string "ing") [] [] [] (FN_sep [] 44 [10; 32]) in
  let m2 := mk_fn OW_none (R_type (T_list [] (T_base (bytes_of_string "i32") []) [32]) []) 103 (bytes_of_string "et") [32] []
                  [mk_fd 1 [] [32] M_default (T_base (bytes_of_string "string") [32]) 107 [] (FT_plain [])]
                  (FN_throws [32] [32] [] [mk_fd 1 [] [32] M_default (T_base (bytes_of_string "binary") [32]) 101 [] (FT_plain [])]
                             [32] (Some 59) [10]) in
  let d7 := mk_sv [32] 83 (bytes_of_string "vc") [32] [10; 32] [m1; m2] [] [] in
  let ds := [X_struct d1; X_struct d2; X_struct d3; X_typedef d4; X_const d5; X_const d6; X_service d7] in
  Forall xdecl_ok ds
  /\ render_file ds = cat [bytes_of_string "struct S"; [10]; bytes_of_string "{"; [10]; bytes_of_string "  1: i32 a,"; [10];
                           bytes_of_string "  2 :required list<map< string ,set<i64>> > b ;"; [10];
                           bytes_of_string "  -3:optional binary c} "; [10];
                           bytes_of_string "union U {1:bool x"; [10]; bytes_of_string "}"; [10]; bytes_of_string "exception E{}"; [10];
                           bytes_of_string "typedef i64 T"; [10]; bytes_of_string "const i32 N = -42"; [10];
                           bytes_of_string "const  map<string,i64> s="; [34]; bytes_of_string "a b,c"; [34; 32; 10];
                           bytes_of_string "service Svc {"; [10]; bytes_of_string " oneway void ping(),"; [10];
                           bytes_of_string " list<i32> get (1: string k) throws (1: binary e) ;"; [10];
                           bytes_of_string "}"; [10]]
  /\ parse_idl (render_file ds)
     = POk (mkfrugal [] [] [mktypedef None [84] (PType (bytes_of_string "i64") None None []) []]
              [mkconst None [78] (PType (bytes_of_string "i32") None None []) (CInt (-42)) [];
               mkconst None [115] (PType (bytes_of_string "map") (Some (PType (bytes_of_string "string") None None []))
                                         (Some (PType (bytes_of_string "i64") None None [])) [])
                       (CStr (bytes_of_string "a b,c")) []] []
              [mkstruct None [83]
                 [mkfield None 1 [97] m_default (PType (bytes_of_string "i32") None None []) None [];
                  mkfield None 2 [98] m_required
                    (PType (bytes_of_string "list") None
                       (Some (PType (bytes_of_string "map") (Some (PType (bytes_of_string "string") None None []))
                                    (Some (PType (bytes_of_string "set") None (Some (PType (bytes_of_string "i64") None None [])) [])) [])) [])
                    None [];
                  mkfield None (-3) [99] m_optional (PType (bytes_of_string "binary") None None []) None []] 0 []]
              [mkstruct None [69] [] 1 []]
              [mkstruct None [85] [mkfield None 1 [120] m_optional (PType (bytes_of_string "bool") None None []) None []] 2 []]
              [mkservice None (bytes_of_string "Svc") []
                 [mkmethod None (bytes_of_string "ping") true None [] [] [];
                  mkmethod None (bytes_of_string "get") false
                    (Some (PType (bytes_of_string "list") None (Some (PType (bytes_of_string "i32") None None [])) []))
                    [mkfield None 1 [107] m_default (PType (bytes_of_string "string") None None []) None []]
                    [mkfield None 1 [101] m_optional (PType (bytes_of_string "binary") None None []) None []] []] []]
              []).
Proof.
  split; [|split].
  - repeat (apply Forall_cons || apply Forall_nil); cbn;
      repeat match goal with
             | |- _ /\ _ => split
             | |- True => exact I
             | |- Forall _ [] => apply Forall_nil
             | |- Forall _ (_ :: _) => apply Forall_cons
             | |- run_of _ _ => unfold run_of
             | |- st_ok _ => unfold st_ok; cbn
             | |- sl_ok _ => unfold sl_ok; cbn
             | |- td_ok _ => unfold td_ok; cbn
             | |- cn_ok _ => unfold cn_ok; cbn
             | |- sv_ok _ => unfold sv_ok; cbn
             | |- fn_ok _ => unfold fn_ok, ow_ok, ret_ok, fn_tail_ok; cbn
             | |- nl_led _ => exact I
             | |- fd_ok_l _ _ => unfold fd_ok_l; cbn
             | |- mod_ok _ => unfold mod_ok; cbn
             | |- fd_tail_ok_l _ _ => unfold fd_tail_ok_l, fd_tail_ok; cbn
             | |- is_base _ => unfold is_base, base_lits; cbn
             | |- is_sep _ => unfold is_sep; lia
             | |- ascii _ => unfold ascii; lia
             | |- int64 _ => unfold int64; lia
             | |- _ <> _ => discriminate
             | |- ty_tight _ => cbn
             | |- ty_tight _ \/ _ => cbn
             | |- True \/ _ => left; exact I
             | |- _ \/ _ => vm_compute; repeat (first [left; reflexivity | right])
             | |- _ = _ -> _ => first [discriminate | intros _; reflexivity]
             | |- _ = _ => reflexivity
             end.
  - vm_compute. reflexivity.
  - vm_compute. reflexivity.
Qed.

(** the model of ParseFrugal resolves includes relative to the including file and detects cycles *)
Example c10_parse_program_checked_nonvacuous :
  exists t, parse_program_checked [(main_frugal, pf_inc_extends_root_ok); (base_frugal, pf_inc_extends_base)] main_frugal
            = Some (true, CV.POk t)
  /\ exists m, parse_program_checked [(main_frugal, pf_inc_extends_root); (base_frugal, pf_inc_extends_base)] main_frugal
               = Some (true, CV.PErr m).
Proof. eexists. split; [vm_compute; reflexivity|]. eexists. vm_compute. reflexivity. Qed.

Example c10_includes_nonvacuous :
  is_fok (parse_program [(main_frugal, idl "include ""sub/inc.thrift""");
                         ([bytes_of_string "sub"; bytes_of_string "inc.thrift"], idl "include ""../base.frugal""");
                         ([bytes_of_string "base.frugal"], idl "typedef i32 T")] main_frugal) = true
  /\ is_ferr (parse_program [(main_frugal, idl "include ""a.frugal""");
                             ([bytes_of_string "a.frugal"], idl "include ""main.frugal""")] main_frugal) = true.
Proof. exact w_includes. Qed.

Example c10_prefix_vars_nonvacuous :
  let ts := [PW (bytes_of_string "foo"); PV (bytes_of_string "user_id"); PW (bytes_of_string "v1-*"); PV (bytes_of_string "ab")] in
  forallb tok_ok ts = true /\ render_prefix ts = bytes_of_string "foo.{user_id}.v1-*.{ab}".
Proof. vm_compute. split; reflexivity. Qed.

(** a whole file through the model *)
Example c10_parse_nonvacuous :
  exists f, parse_idl (idl "enum E { A = 5, B = 2, C } // numbering") = POk f
            /\ map (fun e => map ev_value (en_values e)) (fr_enums f) = [[5; 2; 3]].
Proof. eexists. vm_compute. split; reflexivity. Qed.
