(** C10 — the parser represents every declaration exactly and accepts all Thrift.
    Only theorem statements, each closed by [exact] of a lemma from Proofs/. *)
From Coq Require Import ZArith List Bool String.
From FV Require Import Model.PegSyntax Model.Peg Model.ParserStrings Model.ParserAst Model.ParserActions
     Model.Parser Gen.Grammar Proofs.ParserProofs.
Import ListNotations.
Open Scope Z_scope.

(** Stage 1. Enum numbering (repaired code: commit "fix: number enum values as Apache Thrift does").
    For every list of declared enum values, the numbers the Enum action assigns are exactly
    Apache Thrift's (explicit kept, implicit = previous + 1, first implicit = 0), and names,
    comments and annotations are untouched. *)
Theorem c10_enum_numbering : forall evs : list (enum_value * bool),
  map ev_value (enum_number evs 0) = thrift_numbering (map declared_value evs) (-1)
  /\ map ev_name (enum_number evs 0) = map (fun p => ev_name (fst p)) evs
  /\ map ev_comment (enum_number evs 0) = map (fun p => ev_comment (fst p)) evs
  /\ map ev_anns (enum_number evs 0) = map (fun p => ev_anns (fst p)) evs.
Proof. exact enum_numbering_full. Qed.
Print Assumptions c10_enum_numbering.

(** The grammar the theorems are about is the one the translator read from grammar.peg.go on this
    build: node and rule counts agree and every rule reference and action name resolves. *)
Theorem c10_grammar_regenerated :
  rules_size grammar_rules = grammar_node_count
  /\ Z.of_nat (List.length grammar_rules) = grammar_rule_count
  /\ compiled_grammar = Some rules
  /\ List.length rules = List.length grammar_rules.
Proof. exact grammar_selfcheck. Qed.
Print Assumptions c10_grammar_regenerated.

Example c10_enum_numbering_nonvacuous :
  let ev n v := (mkev None [n] v [], true) in
  let im n := (mkev None [n] (-1) [], false) in
  map ev_value (enum_number [ev 65 5; ev 66 2; im 67; ev 68 (-3); im 69] 0) = [5; 2; 3; -3; -2].
Proof. vm_compute. reflexivity. Qed.
