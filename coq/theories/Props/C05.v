(** C05 — no received byte sequence can crash or wedge a Frugal process.
    Model: Model/Headers.v (parsers with Go's slice/make panics explicit) and
    Model/Receivers.v (each receiving entry point as a loop whose body may Continue, Exit or
    Crash). The Thrift message layer under the Frugal header is a parameter assumed graceful
    (Apache Thrift's readers and the generated struct readers: exercised differentially only). *)
From Coq Require Import ZArith List.
From FV Require Import Proofs.DfxReceiversProofs Base.Res Base.Bytes Base.GoSem Model.Headers Model.Receivers
  Proofs.BytesProofs Proofs.HeadersProofs Proofs.ReceiversProofs.
Import ListNotations.
Open Scope Z_scope.

(** the two header parsers return a value or an error on every byte string (< 2 GiB):
    never a slice-bounds / makeslice panic, never out of fuel *)
Theorem c05_frame_parser_total : forall b,
  bytes_ok b -> zlen b < 2147483648 -> graceful (get_headers_from_frame b).
Proof. exact frame_graceful. Qed.
Print Assumptions c05_frame_parser_total.

Theorem c05_stream_parser_total : forall b,
  bytes_ok b -> zlen b < 2147483648 -> graceful (read_header b).
Proof. exact stream_graceful. Qed.
Print Assumptions c05_stream_parser_total.

(** client response path (registry / NATS inbox) and server-side header read *)
Theorem c05_execute_frame_total : forall m, wf_msg m -> graceful (execute_frame m).
Proof. exact execute_frame_graceful. Qed.
Print Assumptions c05_execute_frame_total.

Theorem c05_request_header_total : forall m, wf_msg m -> graceful (read_request_header m).
Proof. exact read_request_header_graceful. Qed.
Print Assumptions c05_request_header_total.

(** message-oriented receivers keep serving: whatever the message list, the loop never exits or
    crashes, every message is processed and its outcome depends on that message alone *)
Theorem c05_message_receivers_keep_serving :
  forall (thrift_layer : bytes -> res unit), (forall b, graceful (thrift_layer b)) ->
  forall ms, (forall m, In m ms -> wf_msg m) ->
    run_loop nats_client_body ms = map nats_client_body ms
    /\ run_loop (nats_server_body thrift_layer) ms = map (nats_server_body thrift_layer) ms
    /\ run_loop (scope_body thrift_layer) ms = map (scope_body thrift_layer) ms
    /\ run_loop (http_body thrift_layer) ms = map (http_body thrift_layer) ms
    /\ (forall m, In m ms ->
          (exists o, nats_client_body m = Continue o) /\
          (exists o, nats_server_body thrift_layer m = Continue o) /\
          (exists o, scope_body thrift_layer m = Continue o) /\
          (exists o, http_body thrift_layer m = Continue o)).
Proof.
  intros tl Htl ms Hwf. repeat split.
  - apply run_loop_all_served. intros m Hin. apply nats_client_continues; auto.
  - apply run_loop_all_served. intros m Hin. apply prefixed_body_continues; auto.
  - apply run_loop_all_served. intros m Hin. apply scope_continues; auto.
  - apply run_loop_all_served. intros m Hin. apply http_continues; auto.
  - apply nats_client_continues; auto.
  - apply prefixed_body_continues; auto.
  - apply scope_continues; auto.
  - apply http_continues; auto.
Qed.
Print Assumptions c05_message_receivers_keep_serving.

(** a well-formed request is handed to the Thrift layer with exactly its payload, wherever it
    sits in the message sequence *)
Theorem c05_wellformed_request_reaches_handler :
  forall (thrift_layer : bytes -> res unit) l op payload,
  header_size l < 2147483648 -> lookup opid_header l = Some op ->
  process_request thrift_layer (marshal l ++ payload) = thrift_layer payload.
Proof. intros tl l op payload. exact (process_request_wellformed tl l op payload). Qed.
Print Assumptions c05_wellformed_request_reaches_handler.

(** connection-oriented receiver: the adapter read loop on any byte stream ends closed
    (cleanly or with one cause); it never crashes and never spins *)
Theorem c05_connection_receiver_closes : forall stream,
  bytes_ok stream -> zlen stream < 2147483648 ->
  match adapter_read_loop (S (length stream)) stream with
  | ClosedClean | ClosedWith _ => True
  | ConnCrash | ConnFuel => False
  end.
Proof.
  intros s Hok Hlen.
  apply (adapter_read_loop_safe (fun _ => Ok tt) (fun _ => I)); auto.
Qed.
Print Assumptions c05_connection_receiver_closes.

(** findings triage (after "fix: adapter transport reports an END_OF_FILE that arrives inside a
    frame as an unclean close"): the read loop closes the connection cleanly only when the byte
    stream consists of whole frames (a 4-byte size, that many bytes, repeated) ... *)
Theorem c05_connection_clean_close_only_between_frames : forall fuel stream,
  adapter_read_loop fuel stream = ClosedClean -> whole_frames stream.
Proof. exact adapter_clean_only_between_frames. Qed.
Print Assumptions c05_connection_clean_close_only_between_frames.

(** ... and a stream cut inside the size prefix, or inside the body of a frame of acceptable
    size, ends with the END_OF_FILE class error, never cleanly *)
Theorem c05_connection_cut_inside_frame_is_unclean : forall stream,
  (0 < zlen stream < 4 \/ (4 <= zlen stream /\ un_be32 (take 4%nat stream) <= max_frame
                            /\ zlen stream < 4 + un_be32 (take 4%nat stream))) ->
  adapter_read_loop (S (length stream)) stream = ClosedWith EEOF.
Proof. exact adapter_cut_is_unclean. Qed.
Print Assumptions c05_connection_cut_inside_frame_is_unclean.

Example c05_cut_nonvacuous :
  adapter_read_loop 3 [0; 0] = ClosedWith EEOF
  /\ adapter_read_loop 8 [0; 0; 0; 9; 0] = ClosedWith EEOF
  /\ adapter_read_loop 8 [] = ClosedClean
  /\ whole_frames ([0; 0; 0; 2] ++ [7; 7] ++ []).
Proof. repeat split; try (vm_compute; reflexivity). constructor; [reflexivity|reflexivity|constructor]. Qed.

(** the inputs that crashed the pinned code (DESIGN.md F1-F3) are plain errors now *)
Example c05_former_crashers :
  get_headers_from_frame [0; 0;0;0;8; 255;255;255;255; 0;0;0;0] = Err EInvalidData
  /\ get_headers_from_frame [0; 0;0;0;1; 7] = Err EInvalidData
  /\ read_header [0; 255;255;255;255] = Err EInvalidData
  /\ read_header [0; 0;0;0;1; 7] = Err EInvalidData
  /\ execute_frame [0; 0] = Err EInvalidData
  /\ scope_body (fun _ => Ok tt) [1] = Continue (Rejected EInvalidData).
Proof. vm_compute. repeat split. Qed.
