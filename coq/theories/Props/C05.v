(** C05 — no received byte sequence can crash or wedge a Frugal process.
    Model: Model/Headers.v (parsers with Go's slice/make panics explicit) and
    Model/Receivers.v (each receiving entry point as a loop whose body may Continue, Exit or
    Crash). The Thrift message layer under the Frugal header is a parameter assumed graceful
    (Apache Thrift's readers and the generated struct readers: exercised differentially only). *)
From Coq Require Import ZArith List Bool.
From FV Require Import Base.Res Base.Bytes Base.GoSem Model.Headers Model.Receivers
  Proofs.BytesProofs Proofs.HeadersProofs Proofs.ReceiversProofs
  Model.ReceiversFraming Proofs.ReceiversFramingProofs
  Model.ReceiversHttp Proofs.ReceiversHttpProofs.
From FV Require Import Proofs.DfxReceiversProofs.
Import ListNotations.
Open Scope Z_scope.

(** the two header parsers return a value or an error on every byte string (< 2 GiB):
    never a slice-bounds / makeslice panic, never out of fuel *)
Theorem c05_frame_parser_total : forall b,
  bytes_ok b -> zlen b < 2147483648 -> graceful (get_headers_from_frame b).
Proof. exact frame_graceful. Qed.
Print Assumptions c05_frame_parser_total.

Theorem c05_stream_parser_total : forall b,
  bytes_ok b -> zlen b < 2147483648 -> graceful (read_header b).
Proof. exact stream_graceful. Qed.
Print Assumptions c05_stream_parser_total.

(** client response path (registry / NATS inbox) and server-side header read *)
Theorem c05_execute_frame_total : forall m, wf_msg m -> graceful (execute_frame m).
Proof. exact execute_frame_graceful. Qed.
Print Assumptions c05_execute_frame_total.

Theorem c05_request_header_total : forall m, wf_msg m -> graceful (read_request_header m).
Proof. exact read_request_header_graceful. Qed.
Print Assumptions c05_request_header_total.

(** message-oriented receivers keep serving: whatever the message list, the loop never exits or
    crashes, every message is processed and its outcome depends on that message alone *)
Theorem c05_message_receivers_keep_serving :
  forall (thrift_layer : bytes -> res unit), (forall b, graceful (thrift_layer b)) ->
  forall ms, (forall m, In m ms -> wf_msg m) ->
    run_loop nats_client_body ms = map nats_client_body ms
    /\ run_loop (nats_server_body thrift_layer) ms = map (nats_server_body thrift_layer) ms
    /\ run_loop (scope_body thrift_layer) ms = map (scope_body thrift_layer) ms
    /\ run_loop (http_body thrift_layer) ms = map (http_body thrift_layer) ms
    /\ (forall m, In m ms ->
          (exists o, nats_client_body m = Continue o) /\
          (exists o, nats_server_body thrift_layer m = Continue o) /\
          (exists o, scope_body thrift_layer m = Continue o) /\
          (exists o, http_body thrift_layer m = Continue o)).
Proof.
  intros tl Htl ms Hwf. repeat split.
  - apply run_loop_all_served. intros m Hin. apply nats_client_continues; auto.
  - apply run_loop_all_served. intros m Hin. apply prefixed_body_continues; auto.
  - apply run_loop_all_served. intros m Hin. apply scope_continues; auto.
  - apply run_loop_all_served. intros m Hin. apply http_continues; auto.
  - apply nats_client_continues; auto.
  - apply prefixed_body_continues; auto.
  - apply scope_continues; auto.
  - apply http_continues; auto.
Qed.
Print Assumptions c05_message_receivers_keep_serving.

(** a well-formed request is handed to the Thrift layer with exactly its payload, wherever it
    sits in the message sequence *)
Theorem c05_wellformed_request_reaches_handler :
  forall (thrift_layer : bytes -> res unit) l op payload,
  header_size l < 2147483648 -> lookup opid_header l = Some op ->
  process_request thrift_layer (marshal l ++ payload) = thrift_layer payload.
Proof. intros tl l op payload. exact (process_request_wellformed tl l op payload). Qed.
Print Assumptions c05_wellformed_request_reaches_handler.

(** connection-oriented receiver: the adapter read loop on any byte stream ends closed
    (cleanly or with one cause); it never crashes and never spins *)
Theorem c05_connection_receiver_closes : forall stream,
  bytes_ok stream -> zlen stream < 2147483648 ->
  match adapter_read_loop (S (length stream)) stream with
  | ClosedClean | ClosedWith _ => True
  | ConnCrash | ConnFuel => False
  end.
Proof.
  intros s Hok Hlen.
  apply (adapter_read_loop_safe (fun _ => Ok tt) (fun _ => I)); auto.
Qed.
Print Assumptions c05_connection_receiver_closes.

(** findings triage (after "fix: adapter transport reports an END_OF_FILE that arrives inside a
    frame as an unclean close"): the read loop closes the connection cleanly only when the byte
    stream consists of whole frames (a 4-byte size, that many bytes, repeated) ... *)
Theorem c05_connection_clean_close_only_between_frames : forall fuel stream,
  adapter_read_loop fuel stream = ClosedClean -> whole_frames stream.
Proof. exact adapter_clean_only_between_frames. Qed.
Print Assumptions c05_connection_clean_close_only_between_frames.

(** ... and a stream cut inside the size prefix, or inside the body of a frame of acceptable
    size, ends with the END_OF_FILE class error, never cleanly *)
Theorem c05_connection_cut_inside_frame_is_unclean : forall stream,
  (0 < zlen stream < 4 \/ (4 <= zlen stream /\ un_be32 (take 4%nat stream) <= max_frame
                            /\ zlen stream < 4 + un_be32 (take 4%nat stream))) ->
  adapter_read_loop (S (length stream)) stream = ClosedWith EEOF.
Proof. exact adapter_cut_is_unclean. Qed.
Print Assumptions c05_connection_cut_inside_frame_is_unclean.

Example c05_cut_nonvacuous :
  adapter_read_loop 3 [0; 0] = ClosedWith EEOF
  /\ adapter_read_loop 8 [0; 0; 0; 9; 0] = ClosedWith EEOF
  /\ adapter_read_loop 8 [] = ClosedClean
  /\ whole_frames ([0; 0; 0; 2] ++ [7; 7] ++ []).
Proof. repeat split; try (vm_compute; reflexivity). constructor; [reflexivity|reflexivity|constructor]. Qed.

(** the inputs that crashed the pinned code (DESIGN.md F1-F3) are plain errors now *)
Example c05_former_crashers :
  get_headers_from_frame [0; 0;0;0;8; 255;255;255;255; 0;0;0;0] = Err EInvalidData
  /\ get_headers_from_frame [0; 0;0;0;1; 7] = Err EInvalidData
  /\ read_header [0; 255;255;255;255] = Err EInvalidData
  /\ read_header [0; 0;0;0;1; 7] = Err EInvalidData
  /\ execute_frame [0; 0] = Err EInvalidData
  /\ scope_body (fun _ => Ok tt) [1] = Continue (Rejected EInvalidData).
Proof. vm_compute. repeat split. Qed.

(** ------------------------------------------------------------------------------------
    Framing layer (lib/go/framed_transport.go on bufio.Reader on a connection delivering
    arbitrary chunks; fAdapterTransport.readFrame/readLoop; FSimpleServer readRequestFrame/accept).
    Model/ReceiversFraming.v. A connection is a list of non-empty chunks and a terminal error. *)

(** TFramedTransport.Read, any state and any buffer length: returns data and/or an error, never
    panics (no make() of a wrapped size), never needs a third level of recursion; never hands
    out more than asked; with a non-empty buffer it returns at least one byte or an error (so
    io.ReadFull on it terminates); consumes what it returns; and the remaining frame size never
    exceeds the limit (a frame announced larger than maxLength is never entered, frameSize never wraps) *)
Theorem c05_framed_read_total : forall maxlen st k,
  fst_ok st -> 0 <= maxlen -> f_size st <= maxlen -> 0 <= k ->
  exists d e st', framed_read maxlen st k = (Rd d e, st') /\ fst_ok st' /\ f_size st' <= maxlen /\
    final_of st' = final_of st /\
    zlen d <= k /\ (0 < k -> e = None -> d <> []) /\
    (length (avail st') + length d <= length (avail st))%nat.
Proof. exact framed_read_total. Qed.
Print Assumptions c05_framed_read_total.

(** readFrame / readRequestFrame: whatever the chunking, the result is the one computed on the
    concatenated stream: header short -> the connection's error; size over the limit -> error;
    body short -> the connection's error; otherwise exactly the announced bytes, and the
    transport is back between frames *)
Theorem c05_read_frame_chunking_independent : forall maxlen chunks final,
  chunking_ok chunks ->
  exists r st', read_frame maxlen (fresh chunks final) = (r, st') /\
    flat_read_frame maxlen final (concat chunks) = (r, avail st') /\ graceful r /\
    fst_ok st' /\ (is_ok r = true -> f_size st' = 0).
Proof. exact read_frame_chunking. Qed.
Print Assumptions c05_read_frame_chunking_independent.

(** adapter read loop: same number of frames dispatched and same end for every chunking *)
Theorem c05_adapter_loop_chunking_independent : forall fuel maxlen chunks final,
  chunking_ok chunks ->
  adapter_loop fuel maxlen (fresh chunks final) 0 = flat_adapter_loop fuel maxlen final (concat chunks) 0.
Proof. exact adapter_loop_chunking. Qed.
Print Assumptions c05_adapter_loop_chunking_independent.

(** ... and it ends by closing the connection (cleanly on END_OF_FILE, with the cause otherwise):
    never a crash, never more iterations than bytes received *)
Theorem c05_adapter_loop_closes : forall maxlen chunks final,
  chunking_ok chunks -> zlen (concat chunks) < 2147483648 ->
  loop_end_ok (snd (adapter_loop (S (length (concat chunks))) maxlen (fresh chunks final) 0)).
Proof. exact adapter_loop_closes. Qed.
Print Assumptions c05_adapter_loop_closes.

(** the abstract connection receiver used by c05_connection_receiver_closes is this loop, for a
    peer that closes and the default limit: the framing layer is no longer assumed there *)
Theorem c05_adapter_loop_refines_abstract : forall fuel chunks,
  chunking_ok chunks ->
  conn_end_of (snd (adapter_loop fuel max_frame (fresh chunks EEOF) 0)) = adapter_read_loop fuel (concat chunks).
Proof. exact adapter_loop_abstract. Qed.
Print Assumptions c05_adapter_loop_refines_abstract.

(** FSimpleServer.accept with any processor that returns (nil or an error) on every frame:
    the loop ends (EOF, read error or processor error), independent of the chunking; what the
    processor is handed are exactly the successive size-prefixed blocks of the stream, each
    within the limit *)
Theorem c05_simple_server_accept_total :
  forall (process : bytes -> res bool) maxlen chunks final,
  (forall f, graceful (process f)) -> chunking_ok chunks ->
  let r := accept_loop process (S (length (concat chunks))) maxlen (fresh chunks final) in
  accept_end_ok (snd r) /\
  r = flat_accept_loop process (S (length (concat chunks))) maxlen final (concat chunks) /\
  (exists rest, concat chunks = frames_wire (fst r) ++ rest) /\
  Forall (fun f => zlen f <= maxlen) (fst r).
Proof. exact accept_loop_total. Qed.
Print Assumptions c05_simple_server_accept_total.

(** ... in particular with the FBaseProcessor of Model/Processor.v (the C14 model: a request whose
    header cannot be read ends the connection, everything else is answered): on every byte stream
    and chunking the connection loop ends without a crash and serves exactly the frames of the stream *)
Theorem c05_simple_server_base_processor_total :
  forall svc h etext maxlen chunks final, chunking_ok chunks ->
  let r := accept_loop (base_process svc h etext) (S (length (concat chunks))) maxlen (fresh chunks final) in
  accept_end_ok (snd r) /\
  r = flat_accept_loop (base_process svc h etext) (S (length (concat chunks))) maxlen final (concat chunks) /\
  (exists rest, concat chunks = frames_wire (fst r) ++ rest).
Proof. exact accept_base_processor_total. Qed.
Print Assumptions c05_simple_server_base_processor_total.

(** non-vacuity: a stream of two frames cut into awkward chunks, then a header over the limit *)
Example c05_framing_example :
  let chunks := [[0;0]; [0;2;7]; [8;0;0;0]; [1;9;0;0;0]; [200]] in
  chunking_ok chunks /\
  accept_loop (fun _ => Ok true) 20 100 (fresh chunks EEOF) = ([[7;8]; [9]], AcceptReadErr EOther).
Proof. exact framing_example. Qed.

(** the defect repaired by d5ba5a5 (TFramedTransport.Read fell through after an error of the
    inner read): an empty frame followed by an oversized header made Read return the bytes
    after that header with a nil error and left frameSize at 2^32-4; now it is an error *)
Example c05_framed_read_swallowed_error_before_repair :
  fst (framed_read_pinned 16384000 pinned_witness 4) = Rd [65;66;67;68] None /\
  f_size (snd (framed_read_pinned 16384000 pinned_witness 4)) = 4294967292 /\
  fst (framed_read 16384000 pinned_witness 4) = Rd [] (Some EOther) /\
  f_size (snd (framed_read 16384000 pinned_witness 4)) = 0.
Proof. exact framed_read_pinned_swallows. Qed.

(** ------------------------------------------------------------------------------------
    HTTP (lib/go/http_transport.go): the client's response path and the handler's size header.
    Model/ReceiversHttp.v; net/http is outside, encoding/base64 is transcribed. *)

(** fHTTPTransport.Request/Oneway, every status code, every body, body read failing or not:
    a frame, nil (one-way) or an error; never the slice panic of response[4:] *)
Theorem c05_http_client_response_total : forall status body trunc,
  http_client_response status body trunc <> HcPanic.
Proof. exact http_client_response_total. Qed.
Print Assumptions c05_http_client_response_total.

(** it hands a frame to the caller exactly when the status is below 300, the body could be read
    and is valid base64 of more than 4 bytes; the payload is everything after the prefix *)
Theorem c05_http_client_accepts_exactly : forall status body trunc p,
  http_client_response status body trunc = HcFrame p <->
  (status <> 413 /\ trunc = false /\ status < 300 /\
   exists resp, b64_decode body = Some resp /\ 4 < zlen resp /\ p = drop 4 resp).
Proof. exact http_client_frame_iff. Qed.
Print Assumptions c05_http_client_accepts_exactly.

(** status >= 300 is always an error (413 -> RESPONSE_TOO_LARGE) whatever the body contains *)
Theorem c05_http_client_error_status : forall status body trunc,
  300 <= status -> exists e, http_client_response status body trunc = HcErr e.
Proof. exact http_client_error_status. Qed.
Print Assumptions c05_http_client_error_status.

(** the base64 decoder of the model accepts every encoder output and returns the bytes *)
Theorem c05_base64_roundtrip : forall bs, bytes_ok bs -> b64_decode (b64_encode bs) = Some bs.
Proof. exact b64_roundtrip. Qed.
Print Assumptions c05_base64_roundtrip.

(** so a well-formed reply reaches the caller intact *)
Theorem c05_http_client_wellformed_reply : forall status prefix payload,
  status < 300 -> bytes_ok prefix -> bytes_ok payload -> length prefix = 4%nat -> payload <> [] ->
  http_client_response status (b64_encode (prefix ++ payload)) false = HcFrame payload.
Proof. exact http_client_wellformed. Qed.
Print Assumptions c05_http_client_wellformed_reply.

(** server handler: any x-frugal-payload-limit value and any Content-Length give one of the
    four statuses; a value that is not an integer is a 400; a positive limit is enforced exactly,
    a non-positive one is no limit *)
Theorem c05_http_server_size_header_total : forall limit clen pok prok outlen,
  let s := http_server_status limit clen pok prok outlen in
  s = 200 \/ s = 400 \/ s = 413 \/ s = 500.
Proof. exact http_server_status_cases. Qed.
Print Assumptions c05_http_server_size_header_total.

Theorem c05_http_server_limit_exact : forall s lim clen outlen,
  parse_int64 s = Some lim -> s <> [] -> 4 <= clen ->
  http_server_status (Some s) clen true true outlen =
    if (0 <? lim) && (lim <? outlen) then 413 else 200.
Proof. exact http_server_limit_exact. Qed.
Print Assumptions c05_http_server_limit_exact.

Theorem c05_http_server_bad_limit_rejected : forall s clen pok prok outlen,
  s <> [] -> parse_int64 s = None -> http_server_status (Some s) clen pok prok outlen = 400.
Proof. exact http_server_bad_limit. Qed.
Print Assumptions c05_http_server_bad_limit_rejected.

Example c05_http_examples :
  http_client_response 200 [65;65;65;65;65;81;85;61] false = HcFrame [5]      (* "AAAAAQU=" *)
  /\ http_client_response 200 [65;65;65;65;65;65;61;61] false = HcOneway      (* "AAAAAA==" *)
  /\ http_client_response 200 [65;65;65;66;65;65;61;61] false = HcErr HcInvalidData
  /\ http_client_response 200 [65;65;65] false = HcErr HcUnknown
  /\ http_client_response 413 [] false = HcErr HcTooLarge
  /\ http_client_response 500 suf_canceled false = HcErr HcTimedOut
  /\ parse_int64 [45;49;50] = Some (-12) /\ parse_int64 [49;95;48] = None
  /\ http_server_status (Some [53]) 100 true true 6 = 413.
Proof. vm_compute. repeat split. Qed.

(** ------------------------------------------------------------------------------------
    The Thrift message layer under the Frugal header is no longer a parameter assumed graceful.
    Model/ThriftLayer.v [thrift_layer_of cd fuel e pm h] is FBaseProcessor.Process after
    ReadRequestHeader over a real generated processor -- ReadMessageBegin, the processor map, the
    generated args Read through FProtocol (struct nesting limit 64, container sizes checked against
    the bytes left) over TBinaryProtocol / TCompactProtocol incl. thrift.Skip of unknown fields, the
    handler, the reply or exception -- for EVERY environment of declared types [e], processor map
    [pm] and handler [h].  [fbin_codec] / [fcompact_codec]: the code as it is; [bin_codec] /
    [compact_codec]: Model/GenCall.v's bare TProtocol readers (C02, C03). *)
From FV Require Import Model.ThriftBin Model.ThriftCompact Model.GenCall Model.ThriftLayer Proofs.ThriftLayerProofs.

(** it is the server C03's judge replays against the real generated processors *)
Theorem c05_thrift_layer_is_generated_server : forall cd fuel e pm h payload,
  process_request (thrift_layer_of cd fuel e pm h) payload = (do _ <- server_process_c cd fuel e pm h payload; Ok tt).
Proof. exact thrift_layer_is_server_process. Qed.
Print Assumptions c05_thrift_layer_is_generated_server.

(** on EVERY byte string (any list of integers) it ends in a value or an error: never a Go panic,
    and never out of fuel once fuel >= 4 * length + 8 (every primitive read consumes a byte or the
    pending bool of a compact field header; every level of nesting consumes a byte).  The only
    hypothesis is on the handler: what it returns can be written without a nil dereference. *)
Theorem c05_thrift_layer_graceful_binary : forall fuel e pm h b,
  handler_writable fbin_codec e pm h -> (layer_fuel (length b) <= fuel)%nat ->
  graceful (thrift_layer_of fbin_codec fuel e pm h b).
Proof. exact thrift_layer_graceful_fbin. Qed.
Print Assumptions c05_thrift_layer_graceful_binary.

Theorem c05_thrift_layer_graceful_compact : forall fuel e pm h b,
  handler_writable fcompact_codec e pm h -> (layer_fuel (length b) <= fuel)%nat ->
  graceful (thrift_layer_of fcompact_codec fuel e pm h b).
Proof. exact thrift_layer_graceful_fcompact. Qed.
Print Assumptions c05_thrift_layer_graceful_compact.

(** the same for the bare readers (the model C03 is stated with) *)
Theorem c05_thrift_layer_graceful_bare : forall fuel e pm h b,
  (layer_fuel (length b) <= fuel)%nat ->
  (handler_writable bin_codec e pm h -> graceful (thrift_layer_of bin_codec fuel e pm h b)) /\
  (handler_writable compact_codec e pm h -> graceful (thrift_layer_of compact_codec fuel e pm h b)).
Proof. exact thrift_layer_graceful_bare. Qed.
Print Assumptions c05_thrift_layer_graceful_bare.

(** the generated Read alone (the binary analogue of c02_compact_read_never_panics, both with the
    fuel bound): any declared type, any bytes *)
Theorem c05_generated_read_graceful : forall fuel e t b,
  ((2 * length b + 2 <= fuel)%nat -> graceful (gread fuel e t b)) /\
  ((4 * length b + 2 <= fuel)%nat -> graceful (gcread fuel e t b)).
Proof. exact generated_read_graceful. Qed.
Print Assumptions c05_generated_read_graceful.

(** thrift.Skip on any TType, depth and bytes, both protocols: a rest or an error *)
Theorem c05_skip_graceful : forall fuel depth wt b p,
  ((2 * length b + 2 <= fuel)%nat -> graceful (skip fuel depth wt b)) /\
  ((4 * length b + 4 <= fuel)%nat -> graceful (cskip fuel depth wt (p, b))).
Proof. exact skip_graceful_both. Qed.
Print Assumptions c05_skip_graceful.

(** the two FProtocol guards only turn values into errors: what the generated Read accepts through
    FProtocol, the bare protocol readers accept with the same value and rest *)
Theorem c05_fprotocol_guards_only_reject : forall fuel e t b x,
  (pread bin_prim true fuel e t b = Ok x -> gread fuel e t b = Ok x) /\
  (pread compact_prim true fuel e t b = Ok x -> gcread fuel e t b = Ok x).
Proof. exact guards_only_reject. Qed.
Print Assumptions c05_fprotocol_guards_only_reject.

(** c05_message_receivers_keep_serving WITHOUT the gracefulness hypothesis: NATS server worker,
    scope subscriber / STOMP worker and HTTP handler with a generated processor underneath *)
Theorem c05_message_receivers_keep_serving_binary : forall e pm h, handler_writable fbin_codec e pm h ->
  let tl := thrift_layer fbin_codec e pm h in
  forall ms, (forall m, In m ms -> wf_msg m) ->
    run_loop nats_client_body ms = map nats_client_body ms
    /\ run_loop (nats_server_body tl) ms = map (nats_server_body tl) ms
    /\ run_loop (scope_body tl) ms = map (scope_body tl) ms
    /\ run_loop (http_body tl) ms = map (http_body tl) ms
    /\ (forall m, In m ms ->
          (exists o, nats_client_body m = Continue o) /\
          (exists o, nats_server_body tl m = Continue o) /\
          (exists o, scope_body tl m = Continue o) /\
          (exists o, http_body tl m = Continue o)).
Proof.
  intros e pm h Hh tl.
  exact (c05_message_receivers_keep_serving tl (thrift_layer_total_fbin e pm h Hh)).
Qed.
Print Assumptions c05_message_receivers_keep_serving_binary.

Theorem c05_message_receivers_keep_serving_compact : forall e pm h, handler_writable fcompact_codec e pm h ->
  let tl := thrift_layer fcompact_codec e pm h in
  forall ms, (forall m, In m ms -> wf_msg m) ->
    run_loop nats_client_body ms = map nats_client_body ms
    /\ run_loop (nats_server_body tl) ms = map (nats_server_body tl) ms
    /\ run_loop (scope_body tl) ms = map (scope_body tl) ms
    /\ run_loop (http_body tl) ms = map (http_body tl) ms
    /\ (forall m, In m ms ->
          (exists o, nats_client_body m = Continue o) /\
          (exists o, nats_server_body tl m = Continue o) /\
          (exists o, scope_body tl m = Continue o) /\
          (exists o, http_body tl m = Continue o)).
Proof.
  intros e pm h Hh tl.
  exact (c05_message_receivers_keep_serving tl (thrift_layer_total_fcompact e pm h Hh)).
Qed.
Print Assumptions c05_message_receivers_keep_serving_compact.

(** a well-formed header hands exactly the rest of the message to the generated processor *)
Theorem c05_wellformed_request_reaches_generated_processor : forall cd e pm h l op payload,
  header_size l < 2147483648 -> Headers.lookup opid_header l = Some op ->
  process_request (thrift_layer cd e pm h) (marshal l ++ payload) = thrift_layer cd e pm h payload.
Proof. intros cd e pm h l op payload. exact (process_request_wellformed (thrift_layer cd e pm h) l op payload). Qed.
Print Assumptions c05_wellformed_request_reaches_generated_processor.

(** FSimpleServer.accept with a generated processor, binary or compact: on every byte stream and
    chunking the connection loop ends without a crash and hands the processor exactly the
    size-prefixed blocks of the stream ([on_bytes]: the frames are made of bytes and shorter than
    2 GiB, as everything cut out of such a stream is) *)
Theorem c05_simple_server_generated_processor_total : forall e pm h maxlen chunks final,
  chunking_ok chunks ->
  (handler_writable fbin_codec e pm h ->
   let r := accept_loop (on_bytes (gen_process fbin_codec e pm h)) (S (length (concat chunks))) maxlen (fresh chunks final) in
   accept_end_ok (snd r) /\
   r = flat_accept_loop (on_bytes (gen_process fbin_codec e pm h)) (S (length (concat chunks))) maxlen final (concat chunks) /\
   (exists rest, concat chunks = frames_wire (fst r) ++ rest) /\ Forall (fun f => zlen f <= maxlen) (fst r)) /\
  (handler_writable fcompact_codec e pm h ->
   let r := accept_loop (on_bytes (gen_process fcompact_codec e pm h)) (S (length (concat chunks))) maxlen (fresh chunks final) in
   accept_end_ok (snd r) /\
   r = flat_accept_loop (on_bytes (gen_process fcompact_codec e pm h)) (S (length (concat chunks))) maxlen final (concat chunks) /\
   (exists rest, concat chunks = frames_wire (fst r) ++ rest) /\ Forall (fun f => zlen f <= maxlen) (fst r)).
Proof.
  intros e pm h maxlen chunks final Hc. split; intros Hh.
  - apply accept_loop_total; [|exact Hc]. apply gen_process_graceful, thrift_layer_total_fbin, Hh.
  - apply accept_loop_total; [|exact Hc]. apply gen_process_graceful, thrift_layer_total_fcompact, Hh.
Qed.
Print Assumptions c05_simple_server_generated_processor_total.

(** non-vacuity: a service with a recursive type (struct Node { 1: optional Node next, 2: list<string> names }),
    method i32 walk(1: Node n), a handler that returns 7.  Outcome classes ([layer_class]): 3 handler
    invoked, 2 arguments refused (PROTOCOL_ERROR reply), 1 unknown function answered, 0 no message header. *)
Definition ex_env : env :=
  [(1, DStruct KStruct [mkField 1 MOptional (TRef 1) None; mkField 2 MDefault (TList TString) None]);
   (2, mk_args [mkField 1 MDefault (TRef 1) None]);
   (3, mk_result (Some TI32) [])].
Definition ex_walk : method := mkMethod [87;97;108;107] [119;97;108;107] false 2 3 (Some TI32) [].
Definition ex_pm : list (bytes * method) := [(m_wire ex_walk, ex_walk)].
Definition ex_h : handler := fun _ _ => HRet (Some (VInt 7)).
(** args { 1: Node with [k] more Nodes nested through field 1 } under binary / compact *)
Definition ex_bin_req (k : nat) : bytes :=
  msg_begin_enc [119;97;108;107] T_CALL 0 ++ concat (repeat [12;0;1] (S k)) ++ repeat 0 (S (S k)).
Definition ex_compact_req (k : nat) : bytes :=
  cmsg_begin_enc [119;97;108;107] T_CALL 0 ++ repeat 28 (S k) ++ repeat 0 (S (S k)).
Definition ex_class cd b := layer_class cd (layer_fuel (length b)) ex_env ex_pm ex_h b.

Example c05_thrift_layer_examples :
  handler_writable fbin_codec ex_env ex_pm ex_h /\ handler_writable fcompact_codec ex_env ex_pm ex_h
  (* 64 structs open (args, Node, 62 more): served; one more: refused; the bare readers go on *)
  /\ ex_class fbin_codec (ex_bin_req 62) = 3 /\ ex_class fbin_codec (ex_bin_req 63) = 2
  /\ ex_class bin_codec (ex_bin_req 63) = 3
  /\ ex_class fcompact_codec (ex_compact_req 62) = 3 /\ ex_class fcompact_codec (ex_compact_req 63) = 2
  (* truncated inside the nesting *)
  /\ ex_class fbin_codec (firstn 40 (ex_bin_req 20)) = 2
  (* Node.names announcing 2^31-1 strings, then nothing: refused (and by the bare reader: EOF) *)
  /\ ex_class fbin_codec (msg_begin_enc [119;97;108;107] T_CALL 0 ++ [12;0;1; 15;0;2; 11; 127;255;255;255]) = 2
  /\ ex_class bin_codec (msg_begin_enc [119;97;108;107] T_CALL 0 ++ [12;0;1; 15;0;2; 11; 127;255;255;255]) = 2
  /\ ex_class fcompact_codec (cmsg_begin_enc [119;97;108;107] T_CALL 0 ++ [28; 25; 248; 255;255;255;255;7]) = 2
  (* a negative size; an unknown field of an unknown type; an unknown function; no message header *)
  /\ ex_class fbin_codec (msg_begin_enc [119;97;108;107] T_CALL 0 ++ [12;0;1; 15;0;2; 11; 255;255;255;255]) = 2
  /\ ex_class fbin_codec (msg_begin_enc [119;97;108;107] T_CALL 0 ++ [99;0;9; 0]) = 2
  /\ ex_class fbin_codec (msg_begin_enc [110;111] T_CALL 0 ++ [0]) = 1
  /\ ex_class fbin_codec [1;2;3] = 0 /\ ex_class fcompact_codec [130; 1] = 0
  (* plugged into a receiver: served, and the next message too *)
  /\ run_loop (nats_server_body (thrift_layer fbin_codec ex_env ex_pm ex_h))
       [[0;0;0;0] ++ marshal [(opid_header, [49])] ++ ex_bin_req 63;
        [0;0;0;0] ++ marshal [(opid_header, [50])] ++ ex_bin_req 1]
     = [Continue Handled; Continue Handled].
Proof.
  split; [intros m args p [<-|[]]; vm_compute; discriminate|].
  split; [intros m args p [<-|[]]; vm_compute; discriminate|].
  vm_compute. repeat split.
Qed.

(** FProtocol's refusal of a container that announces more elements than bytes remain changes no
    outcome under the binary protocol: the bare reader fails on every such input too (each element
    takes at least one byte) -- after having allocated room for the announced size *)
Theorem c05_size_guard_changes_no_outcome_binary : forall e fuel n b,
  (2 * length b + 3 <= fuel)%nat -> zlen b < n ->
  (forall et, is_ok (wdec_seq fuel e et n b) = false) /\
  (forall kt vt, is_ok (wdec_pairs fuel e kt vt n b) = false).
Proof. exact size_guard_changes_no_outcome_bin. Qed.
Print Assumptions c05_size_guard_changes_no_outcome_binary.
