(** C11 — the compiler is total: valid IDL yields valid code, bad input a diagnostic.
    Only theorem statements, each closed by [exact] of a lemma from Proofs/.

    What is a theorem here: termination and panic-freedom of the shared front end and of the
    generator helpers (typedef resolution after validation, the classification helpers, the
    identifier casing helpers, -gen parsing).  What is NOT a theorem (explored by
    tools/props/c11.py against the real binary, see DESIGN.md C11 "Limits"): that every file
    emitted by the eight generators is well-formed, and termination of the PEG parser (C10). *)
From Coq Require Import ZArith List.
From FV Require Import Model.CompilerTotal Proofs.CompilerTotalProofs.
Import ListNotations.
Open Scope Z_scope.

(** ** Typedef resolution *)

(** c11_validate_implies_acyclic + c11_underlying_terminates: if a file passed validation (with
    the circular-typedef check) and so did, recursively, everything it includes, then
    UnderlyingType returns for EVERY non-nil type within [weight f] calls (number of typedefs
    in the file and its includes + number of files): no unbounded recursion, no panic. *)
Theorem c11_underlying_terminates : forall f,
  wellvalidated f -> forall t, t <> TNil -> exists u, underlying (weight f) f t = COk u.
Proof. exact underlying_terminates. Qed.
Print Assumptions c11_underlying_terminates.

(** the check the judge runs on every tree the real parser produced implies the hypothesis *)
Theorem c11_validated_b_sound : forall d f,
  validated_b d f = true -> names_ok_b d f = true -> wellvalidated f.
Proof. exact validated_b_sound. Qed.
Print Assumptions c11_validated_b_sound.

Example c11_wellvalidated_nonvacuous :
  (* root: include inc; typedef inc.U T; typedef list<T> L; struct M {1: T a, 2: L b}
     inc : typedef i32 T; typedef T U *)
  let inc := Frugal [([84], Ty s_i32 TNil TNil); ([85], Ty [84] TNil TNil)] [] [] [] [] [] [] in
  let root := Frugal [([84], Ty [105;110;99;46;85] TNil TNil); ([76], Ty s_list TNil (Ty [84] TNil TNil))]
                     [[77]] [] [] [] [Ty [84] TNil TNil; Ty [76] TNil TNil] [([105;110;99], inc)] in
  validated_b 3 root = true /\ names_ok_b 3 root = true
  /\ underlying_t root (Ty [84] TNil TNil) = COk (Ty s_i32 TNil TNil)
  /\ underlying_t root (Ty [76] TNil TNil) = COk (Ty s_list TNil (Ty [84] TNil TNil)).
Proof. vm_compute. repeat split. Qed.

(** the code as pinned: typedef B A; typedef A B passes validation and UnderlyingType never
    returns (F10; the Go process dies of a stack overflow); the repaired validation rejects it *)
Theorem c11_cyclic_typedef_diverges_refuted :
  validate_typedefs_pinned cyc_file = true
  /\ forallb (is_valid_type cyc_file) (uses cyc_file) = true
  /\ forall fuel, underlying_pinned fuel cyc_file (Ty [65] TNil TNil) = CFuel.
Proof. exact cyclic_typedef_diverges_pinned. Qed.
Print Assumptions c11_cyclic_typedef_diverges_refuted.

Theorem c11_cyclic_typedef_rejected_after_repair : validate_types cyc_file = false.
Proof. exact cyclic_typedef_rejected. Qed.
Print Assumptions c11_cyclic_typedef_rejected_after_repair.

(** the code as pinned (F15): a VALID acyclic program whose chain goes through an include loops
    forever because the chain is continued in the wrong file's scope; repaired: resolves to i32 *)
Theorem c11_include_scope_loops_refuted :
  validated_b 3 f15_root = true
  /\ (forall fuel, underlying_pinned fuel f15_root (Ty [84] TNil TNil) = CFuel)
  /\ underlying_t f15_root (Ty [84] TNil TNil) = COk (Ty s_i32 TNil TNil).
Proof. exact include_scope_pinned_loops. Qed.
Print Assumptions c11_include_scope_loops_refuted.

(** ** Classification helpers *)

(** IsStruct never panics on a validated program (IsEnum never does on a non-nil type) *)
Theorem c11_is_struct_total : forall f t,
  wellvalidated f -> t <> TNil -> exists b, is_struct f t = COk b.
Proof. exact is_struct_total. Qed.
Print Assumptions c11_is_struct_total.

(** Go getEnumFromThriftType on a validated program, any include structure: no nil dereference,
    no unbounded recursion; only its own panic("not a valid thrift type") is left *)
Theorem c11_classification_no_crash_partial : forall f t,
  wellvalidated f -> t <> TNil ->
  (exists z, go_enum_from_thrift_type f t = COk z) \/ go_enum_from_thrift_type f t = CPanic CPExplicit.
Proof. exact go_enum_no_crash_but_explicit. Qed.
Print Assumptions c11_classification_no_crash_partial.

(** c11_classification_total, proved for a file without includes: for every type the parser can
    produce the helper returns a wire type.
    FULL STATEMENT (not provable, see the refutation below):
      forall f t, wellvalidated f -> shaped f -> parser_shaped t = true -> is_valid_type f t = true ->
      exists z, go_enum_from_thrift_type f t = COk z.
    Missing for files with includes: the result of UnderlyingType for a typedef of an include
    is a name; when it names a type of the include's own include, that name is resolved in the
    asking file's scope (absent, or a different file of the same name). *)
Theorem c11_classification_total_partial : forall f t,
  wellvalidated f -> incs f = [] -> shaped_file f -> parser_shaped t = true -> t <> TNil ->
  exists z, go_enum_from_thrift_type f t = COk z.
Proof. exact go_enum_total_single_file. Qed.
Print Assumptions c11_classification_total_partial.

(** the full statement is false of the (repaired) code: a validated program on which the Go
    classification helper panics, and one on which IsUnion dereferences nil.  Both are replayed
    on the real compiler on every run (known findings C11-K1..K3, K9). *)
Theorem c11_classification_total_refuted :
  validated_b 3 far_root = true /\ names_ok_b 3 far_root = true
  /\ is_valid_type far_root far_t = true /\ parser_shaped far_t = true
  /\ go_enum_from_thrift_type far_root far_t = CPanic CPExplicit.
Proof. exact classification_panics_on_far_names. Qed.
Print Assumptions c11_classification_total_refuted.

Theorem c11_is_union_total_refuted :
  validated_b 3 nil_root = true /\ names_ok_b 3 nil_root = true
  /\ is_valid_type nil_root (Ty [109;105;100;46;84] TNil TNil) = true
  /\ is_union nil_root (Ty [109;105;100;46;84] TNil TNil) = CPanic CPNil.
Proof. exact is_union_panics_on_far_names. Qed.
Print Assumptions c11_is_union_total_refuted.

(** ** Identifier casing helpers *)

(** every casing helper of the generators returns (no index panic) on every identifier the IDL
    grammar accepts *)
Theorem c11_casing_total : forall s,
  is_identifier s = true ->
  (exists r, snake_to_camel s = COk r) /\ (exists r, title s = COk r)
  /\ (forall svc, exists r, title_service_name s svc = COk r)
  /\ (exists r, to_constant_name s = COk r) /\ (exists r, to_file_name s = COk r)
  /\ (exists r, lowercase_first_letter s = COk r) /\ (exists r, lowercase_first_character s = COk r).
Proof. exact casing_total_on_identifiers. Qed.
Print Assumptions c11_casing_total.

(** the Go helper on every string at all *)
Theorem c11_snake_to_camel_total_all_strings : forall s, exists r, snake_to_camel s = COk r.
Proof. exact snake_to_camel_total. Qed.
Print Assumptions c11_snake_to_camel_total_all_strings.

Example c11_casing_nonvacuous :
  is_identifier [95;102;111;111;95;95;105;100;95] = true (* "_foo__id_" *)
  /\ snake_to_camel [95;102;111;111;95;95;105;100;95] = COk [70;111;111;73;68] (* "FooID" *)
  /\ title [110;101;119;95;116;104;105;110;103] = COk [78;101;119;84;104;105;110;103;95] (* new_thing -> NewThing_ *)
  /\ to_constant_name [97;85;82;76;80;97;116;104] = COk [65;95;85;82;76;95;80;65;84;72]. (* aURLPath -> A_URL_PATH *)
Proof. vm_compute. repeat split. Qed.

(** the code as pinned (F11): the legal identifier "_a" panics the Go generator *)
Theorem c11_underscore_panics_refuted :
  exists s, is_identifier s = true /\ snake_to_camel_pinned s = CPanic CPIndex
            /\ title_pinned s = CPanic CPIndex.
Proof. exact underscore_panics_pinned. Qed.
Print Assumptions c11_underscore_panics_refuted.

(** ** The -gen parameter *)

(** c11_bad_option_is_error: whatever the text, parsing the -gen value and resolving the generator
    either succeeds with a language that has a generator and options of that language only, or
    returns an error; it never indexes out of range *)
Theorem c11_gen_param_total : forall gen,
  (exists lang m, resolve_gen gen = COk (lang, m) /\ mem lang generator_langs = true
                  /\ (m = [] \/ opts_valid lang m))
  \/ resolve_gen gen = CErr.
Proof. exact resolve_gen_total. Qed.
Print Assumptions c11_gen_param_total.

(** an option the language does not have makes the option loop fail, wherever it stands (unless an
    earlier option already did) *)
Theorem c11_bad_option_is_error : forall lang pre o post,
  validate_option lang (match split 61 o with w :: _ => w | [] => [] end) = false ->
  forall m, opts_valid lang m ->
  clean_options lang (pre ++ o :: post) m = CErr
  \/ exists o', In o' pre /\ validate_option lang (match split 61 o' with w :: _ => w | [] => [] end) = false.
Proof. exact unknown_option_is_error. Qed.
Print Assumptions c11_bad_option_is_error.

Example c11_gen_nonvacuous :
  (* "go:async,package_prefix=a/b" *)
  resolve_gen [103;111;58;97;115;121;110;99;44;112;97;99;107;97;103;101;95;112;114;101;102;105;120;61;97;47;98]
  = COk (s_go, [([97;115;121;110;99], []); ([112;97;99;107;97;103;101;95;112;114;101;102;105;120], [97;47;98])])
  /\ resolve_gen [103;111;58;122] = CErr            (* "go:z" *)
  /\ resolve_gen [99;111;98;111;108] = CErr.        (* "cobol" *)
Proof. vm_compute. repeat split. Qed.

(** * The validation pass and include resolution (Model/CompilerValidate.v)

    [cvalidate] transcribes Frugal.validate and everything it calls, [cparse] parser.parseFrugal
    over a file system of parse results, both over C10's parse-tree types and both returning the
    exact text of the Go diagnostic (Judge/JCompilerValidate.v replays them on every tree the real
    parser produced and compares the text).  Go loops without a syntactic bound take fuel. *)
From Coq Require Import String List.
From FV Require Import Base.Res Model.ParserStrings Model.ParserAst Model.ParserFsys
     Model.CompilerValidate Proofs.CompilerValidateProofs.

(** c11_validate_total: on EVERY parse tree whose names are what the grammar can produce (service,
    method, scope and operation names not empty; typedef targets not starting with a dot) and
    whose includes have been validated (parseFrugal validates a file after its includes), with
    fuel at least [validate_fuel] = 1 + typedefs of the file and of what it includes + files +
    services of the file, validation returns or reports an error: no panic, no fuel exhaustion *)
Theorem c11_validate_total : forall fuel f incs,
  file_names_ok f -> incs_wellvalidated incs -> (validate_fuel f incs <= fuel)%nat ->
  graceful (vr_res (cvalidate fuel f incs)).
Proof. exact cvalidate_total_res. Qed.
Print Assumptions c11_validate_total.

(** both hypotheses on the names are needed (the grammar produces neither tree) *)
Theorem c11_validate_total_needs_names_refuted :
  (forall fuel, cvalidate fuel w_empty_name [] = RPanic)
  /\ cvalidate (validate_fuel w_dot_typedef []) w_dot_typedef [] = RFuel
  /\ cvalidate 500 w_dot_typedef [] = RFuel.
Proof. exact names_needed_refuted. Qed.
Print Assumptions c11_validate_total_needs_names_refuted.

(** the loop [for progress := true; progress;] of validateTypedefs ends within
    (number of typedefs + 1) passes, and what it computes is the marking C11's typedef theorems
    are about *)
Theorem c11_marking_loop_bound : forall rf fuel,
  (S (length (CompilerTotal.typedefs rf)) <= fuel)%nat ->
  mark_loop fuel rf [] = Some (CompilerTotal.mark_all rf).
Proof. exact mark_loop_total. Qed.
Print Assumptions c11_marking_loop_bound.

(** the walk of validateServiceExtends ends within (number of services + 1) steps, whatever the
    services *)
Theorem c11_extends_walk_bound : forall f incs start,
  In start (fr_services f) -> forall fuel, (S (length (fr_services f)) <= fuel)%nat ->
  graceful (vr_res (extends_walk fuel f incs start start [])).
Proof. exact extends_walk_bound. Qed.
Print Assumptions c11_extends_walk_bound.

(** c11_parse_total: parseFrugal on EVERY file system of parse results (any include graph,
    cycles included, missing files, syntax errors, any trees with grammatical names), with fuel
    above the number of files: a diagnostic or a tree, never a panic or fuel exhaustion; and a
    tree it returns is validated all the way down *)
Theorem c11_parse_total : forall fs root,
  fs_names_ok fs ->
  graceful (pres_res (cparse_program fs root))
  /\ forall t, cparse_program fs root = POk t -> wellvalidated (reduce_tree t).
Proof. exact cparse_total_res. Qed.
Print Assumptions c11_parse_total.

Theorem c11_parse_fuel_bound : forall fs, fs_names_ok fs -> forall fuel p visited,
  NoDup (map fst visited) -> incl (map fst visited) (stems fs) -> (length fs - length visited < fuel)%nat ->
  graceful (pres_res (cparse fuel fs p visited)).
Proof. exact cparse_fuel_bound. Qed.
Print Assumptions c11_parse_fuel_bound.

(** ** what the generators rely on after validation *)

(** every type reference resolves: each typedef target, constant type, field type, return /
    argument / exception type and operation type is a base type, a container of resolving
    types, or names a struct, union, exception, enum or typedef of the file, or of the include
    its prefix names *)
Theorem c11_validated_types_resolve : forall fuel f incs,
  (S (length (fr_typedefs f)) <= fuel)%nat -> cvalidate fuel f incs = ROk ->
  forall t, In t (map td_type (fr_typedefs f) ++ file_uses f
                  ++ flat_map (fun s => map o_type (sc_ops s)) (fr_scopes f)) ->
            resolves (reduce f incs) (ty_of t).
Proof. exact validated_types_resolve. Qed.
Print Assumptions c11_validated_types_resolve.

(** every typedef chain of an accepted program is acyclic: UnderlyingType returns on every type
    within the weight of the tree (typedefs + files).  (That the end of the chain is a base,
    container, struct or enum NAME THE ASKING FILE CAN RESOLVE is false through an include's
    include: c11_classification_total_refuted above, findings K1-K3, K9.) *)
Theorem c11_validated_typedefs_acyclic : forall fs root t,
  fs_names_ok fs -> cparse_program fs root = POk t ->
  forall ty, ty <> CompilerTotal.TNil ->
  exists u, CompilerTotal.underlying (CompilerTotal.weight (reduce_tree t)) (reduce_tree t) ty
            = CompilerTotal.COk u.
Proof. exact accepted_typedefs_terminate. Qed.
Print Assumptions c11_validated_typedefs_acyclic.

(** one validated file over validated includes satisfies the hypothesis of
    c11_underlying_terminates *)
Theorem c11_validated_wellvalidated : forall fuel f incs,
  (S (length (fr_typedefs f)) <= fuel)%nat ->
  forallb (fun td => CompilerTotal.name_ok (type_name (td_type td))) (fr_typedefs f) = true ->
  incs_wellvalidated incs ->
  cvalidate fuel f incs = ROk -> wellvalidated (reduce f incs).
Proof. exact cvalidate_wellvalidated. Qed.
Print Assumptions c11_validated_wellvalidated.

(** every extends chain resolves and is acyclic: [extends_ok] is an inductive (hence finite)
    chain of services each found in the file, ending in a service without extends or in a
    service found in the include the name is qualified with *)
Theorem c11_validated_extends : forall fuel f incs,
  (S (length (fr_typedefs f)) <= fuel)%nat -> cvalidate fuel f incs = ROk ->
  forall s, In s (fr_services f) -> extends_ok f incs s.
Proof. exact validated_extends. Qed.
Print Assumptions c11_validated_extends.

(** the code before the repair: a dangling extends and an extends cycle passed validation *)
Theorem c11_validated_extends_refuted :
  (cvalidate_pinned 10 (with_services [w_dangling]) [] = ROk
   /\ ~ extends_ok (with_services [w_dangling]) [] w_dangling
   /\ exists m, cvalidate 10 (with_services [w_dangling]) [] = RErr m)
  /\ (cvalidate_pinned 10 (with_services [w_cyc_a; w_cyc_b]) [] = ROk
      /\ ~ extends_ok (with_services [w_cyc_a; w_cyc_b]) [] w_cyc_a
      /\ exists m, cvalidate 10 (with_services [w_cyc_a; w_cyc_b]) [] = RErr m).
Proof. exact extends_pinned_refuted. Qed.
Print Assumptions c11_validated_extends_refuted.

(** every throws type is an exception: its underlying type names an exception of the file or of
    the include its prefix names *)
Theorem c11_validated_throws_exceptions : forall fuel f incs,
  (S (length (fr_typedefs f)) <= fuel)%nat -> cvalidate fuel f incs = ROk ->
  forall s m a, In s (fr_services f) -> In m (sv_methods s) -> In a (m_throws m) ->
  is_exception fuel f incs (reduce f incs) (f_type a) = Some true.
Proof. exact validated_throws. Qed.
Print Assumptions c11_validated_throws_exceptions.

Theorem c11_validated_throws_refuted :
  cvalidate_pinned 10 w_throws [] = ROk
  /\ is_exception 10 w_throws [] (reduce w_throws []) (ty0 "S") = Some false
  /\ exists m, cvalidate 10 w_throws [] = RErr m.
Proof. exact throws_pinned_refuted. Qed.
Print Assumptions c11_validated_throws_refuted.

(** field ids and field names of every struct, union and exception are pairwise distinct; a
    oneway method returns nothing and throws nothing; a constant that is an identifier names a
    constant or an enum value that exists *)
Theorem c11_validated_members : forall fuel f incs,
  (S (length (fr_typedefs f)) <= fuel)%nat -> cvalidate fuel f incs = ROk ->
  (forall s, In s (fr_structs f ++ fr_unions f ++ fr_exceptions f) ->
             NoDup (map f_id (s_fields s)) /\ NoDup (map f_name (s_fields s)))
  /\ (forall s m, In s (fr_services f) -> In m (sv_methods s) -> m_oneway m = true ->
                  m_return m = None /\ m_throws m = [])
  /\ (forall c name, In c (fr_constants f) -> c_value c = CIdent name -> check_identifier f incs name = ROk).
Proof. exact validated_members. Qed.
Print Assumptions c11_validated_members.

(** every scope of a validated file names each prefix variable once (each becomes a parameter of the
    generated publisher and subscriber): the check added by the repair of C11-K12, in the model
    whose diagnostics the judge compares byte for byte with Frugal.validate *)
Theorem c11_validated_scope_prefix_variables_distinct : forall fuel f incs,
  (S (length (fr_typedefs f)) <= fuel)%nat -> cvalidate fuel f incs = ROk ->
  forall s, In s (fr_scopes f) -> NoDup (p_vars (sc_prefix s)).
Proof. exact validated_prefix_vars. Qed.
Print Assumptions c11_validated_scope_prefix_variables_distinct.

Theorem c11_validated_dup_names_refuted :
  cvalidate_pinned 10 w_dupname [] = ROk
  /\ (forall s, In s (fr_structs w_dupname) -> ~ NoDup (map f_name (s_fields s)))
  /\ exists m, cvalidate 10 w_dupname [] = RErr m.
Proof. exact dup_names_pinned_refuted. Qed.
Print Assumptions c11_validated_dup_names_refuted.

(** every constant value and every default value (of a field of a struct, union or exception, of
    an argument, of a declared exception) of a file which passed validation conforms to its
    declared type.  [conforms home sc t v] (Proofs/CompilerValidateProofs.v, an inductive
    predicate): with the typedefs of [t] followed, each in the file which declares it, down to a
    type [t'] read in the scope [sc'] -- a string literal for string or binary; a bool literal for
    bool; a double literal for double; an integer literal for i8/byte, i16, i32 within the range of
    the type, for i64 and for double, or for an enum one of whose values has that number; a list
    literal for a list or set whose elements conform to the element type; a map literal for a map
    whose keys and values conform to the key and value types; for a struct, union or exception a map
    literal whose keys are strings or identifiers and in which the value under the name of a field
    conforms to the type of that field read in the file which declares the struct; an identifier
    which names a constant (of the file or of an include) whose declared type, typedefs followed,
    is of the same kind (any integer type for an integer type, an integer or double for a double,
    string or binary, the same container, an enum or a struct of the same name), or a value of the
    enum [t'] names.  (Was known finding C11-K13, repaired.) *)
Theorem c11_validated_constants_fit : forall fuel f incs,
  cvalidate fuel f incs = ROk ->
  let home : vscope := (f, incs) in
  (forall c, In c (fr_constants f) -> conforms home home (c_type c) (c_value c))
  /\ (forall s fd v, In s (fr_structs f ++ fr_unions f ++ fr_exceptions f) -> In fd (s_fields s) ->
                     f_default fd = Some v -> conforms home home (f_type fd) v)
  /\ (forall sv m fd v, In sv (fr_services f) -> In m (sv_methods sv) -> In fd (m_args m ++ m_throws m) ->
                        f_default fd = Some v -> conforms home home (f_type fd) v).
Proof. exact validated_constants_fit. Qed.
Print Assumptions c11_validated_constants_fit.

(** the checker decides [conforms] soundly for one value in any scope (no hypothesis on the fuel:
    out of fuel is not acceptance) *)
Theorem c11_check_value_sound : forall fuel home what v sc t,
  check_value fuel home what sc t v = ROk -> conforms home sc t v.
Proof. exact check_value_sound. Qed.
Print Assumptions c11_check_value_sound.

(** the value pass never crashes and never runs out of the stated fuel on a file whose
    declarations passed validation over validated includes: every typedef chain it follows, in the
    file or in any file reached through includes, ends within the weight of the tree, and no nil
    element type is dereferenced *)
Theorem c11_value_pass_total : forall fuel f incs,
  file_names_ok f -> incs_wellvalidated incs -> (validate_fuel f incs <= fuel)%nat ->
  cvalidate_decls fuel f incs = ROk ->
  graceful (vr_res (check_values fuel f incs)).
Proof. exact value_pass_total_res. Qed.
Print Assumptions c11_value_pass_total.

(** the code as it was (finding C11-K13): const list<i32> x = 5, const i32 y = "hello",
    const list<i32> z = [nope] passed validation; the repaired validation reports each *)
Theorem c11_validated_constants_fit_pinned_refuted :
  cvalidate_pinned 10 w_consts [] = ROk
  /\ forallb (fun c => shape_fits (c_type c) (c_value c)) (firstn 2 (fr_constants w_consts)) = false
  /\ check_identifier w_consts [] (T "nope") <> ROk
  /\ cvalidate 10 (only_const 0) [] = RErr (T "Invalid value for constant x: expected list<i32>, got integer 5")
  /\ cvalidate 10 (only_const 1) [] = RErr (T "Invalid value for constant y: expected i32, got a string")
  /\ cvalidate 10 (only_const 2) [] = RErr (T "Referenced constant nope not found")
  /\ cvalidate 10 w_consts [] = RErr (T "Invalid value for constant x: expected list<i32>, got integer 5").
Proof. exact constants_fit_pinned_refuted. Qed.
Print Assumptions c11_validated_constants_fit_pinned_refuted.

(** non-vacuity: a two-file program with values of every shape is accepted, and its values conform *)
Example c11_constants_fit_nonvacuous :
  match cparse_program vx_fs [T "root.frugal"] with
  | POk (FTree _ f incs) => cvalidate (validate_fuel f incs) f incs = ROk /\ length (fr_constants f) = 7%nat
                            /\ values_conform f incs
  | _ => False
  end.
Proof. exact values_example_full. Qed.

(** still FALSE of the code (finding C11-K15): no constant is defined in terms of itself.
    const i32 a = b, const i32 b = a passes validation (each reference names a constant of the
    right kind); the generators emit the circular references *)
Theorem c11_constant_cycle_accepted_refuted :
  cvalidate 10 w_const_cycle [] = ROk
  /\ c_value (nth 0 (fr_constants w_const_cycle) (mkconst None [] (ty0 "i32") COther [])) = CIdent (T "b")
  /\ c_value (nth 1 (fr_constants w_const_cycle) (mkconst None [] (ty0 "i32") COther [])) = CIdent (T "a").
Proof. exact constant_cycle_accepted_refuted. Qed.
Print Assumptions c11_constant_cycle_accepted_refuted.

(** include cycles are detected by the cleaned path of the file.  For every file system and every
    chain of files being parsed: a file whose path is on the chain is reported as a circular
    include; a file whose path is NOT on the chain but whose name is (a different file of the same
    name) is reported as a duplicate file name, with the two paths -- never as circular.  (Was known
    finding C11-K14: cycles were detected by bare file name.) *)
Theorem c11_include_cycle_by_path : forall fuel fs p visited e name,
  pfs_get fs p = Some e -> file_stem p = Some name ->
  (In p (map snd visited) -> cparse (S fuel) fs p visited = PErr (circular_msg visited name))
  /\ (~ In p (map snd visited) -> In name (map fst visited) ->
      exists q, In (name, q) visited /\ cparse (S fuel) fs p visited = PErr (duplicate_msg name p q)).
Proof. exact include_check_by_path. Qed.
Print Assumptions c11_include_cycle_by_path.

(** x.frugal including sub/x.frugal (a different file, no cycle): the included file parses on its
    own; the program is rejected because includes and generated code are named after the file name,
    and the diagnostic says so *)
Theorem c11_include_same_name_diagnosed :
  cparse_program w_same_name [T "sub"; T "x.frugal"] = POk (FTree (T "x") empty_frugal [])
  /\ cparse_program w_same_name [T "x.frugal"]
     = PErr (T "Include sub/x.frugal: Duplicate file name x: sub/x.frugal is included by way of x.frugal (includes and generated code are named after the file name)").
Proof. exact include_same_name_diagnosed. Qed.
Print Assumptions c11_include_same_name_diagnosed.

(** the code as it was: the same program was rejected as 'Circular include: [x x]' *)
Theorem c11_include_same_name_pinned_refuted :
  pfs_get w_same_name [T "sub"; T "x.frugal"] = Some (FParsed empty_frugal)
  /\ cparse_program_pinned w_same_name [T "sub"; T "x.frugal"] = POk (FTree (T "x") empty_frugal [])
  /\ cparse_program_pinned w_same_name [T "x.frugal"] = PErr (T "Include sub/x.frugal: Circular include: [x x]").
Proof. exact include_same_name_pinned_refuted. Qed.
Print Assumptions c11_include_same_name_pinned_refuted.

(** two different files of one name which never are on one chain of includes are accepted (so is a
    file reached along two chains); a file which includes itself under another spelling of its path
    is a cycle *)
Example c11_include_paths_examples :
  (exists t, cparse_program w_off_chain [T "r.frugal"] = POk t)
  /\ cparse_program w_self_spelled [T "s.frugal"] = PErr (T "Include d/../s.frugal: Circular include: [s s]").
Proof. exact include_paths_examples. Qed.

Example c11_validation_nonvacuous :
  fs_names_ok ex_fs
  /\ match cparse_program ex_fs [T "root.frugal"] with
     | POk (FTree name f incs) => name = T "root" /\ length incs = 1%nat
                                  /\ cvalidate (validate_fuel f incs) f incs = ROk
     | _ => False
     end.
Proof. exact validation_nonvacuous. Qed.

(** ** Scope prefixes (findings triage; was known finding C11-K12, repaired)

    These theorems are about [validate] of Model/ParserFiles.v, what the C10 judge replays against
    ParseFrugal on whole programs: it is [cvalidate] above with the diagnostic text forgotten
    (c10_validate_agrees_with_c11), so they are corollaries of the theorems of this file. *)
From FV Require Import Model.ParserStrings Model.ParserAst Model.Parser Model.ParserFiles Proofs.ParserProofs
     Proofs.DfxValidateProofs.

(** a file that passes validation names every prefix variable once in every scope (so the
    parameter lists the generators derive from the prefix have no repeated name), and every
    operation type of every scope is a valid type *)
Theorem c11_validated_prefix_variables_distinct : forall f incs,
  ParserFiles.validate f incs = VOk ->
  forall s, In s (fr_scopes f) ->
    NoDup (p_vars (sc_prefix s))
    /\ forall o, In o (sc_ops s) -> valid_ty (reduce f incs) (o_type o) = true.
Proof. exact validate_prefix_variables_distinct. Qed.
Print Assumptions c11_validated_prefix_variables_distinct.

(** a scope whose prefix repeats a variable is an error of validation: not accepted, not a panic *)
Theorem c11_dup_prefix_variable_is_error : forall rf s,
  has_dup (p_vars (sc_prefix s)) = true -> exists m, check_scope rf s = RErr m.
Proof. exact check_scope_dup_rejected. Qed.
Print Assumptions c11_dup_prefix_variable_is_error.

(** on program text through the PEG parser: "scope Sc prefix a.{zone}.{zone} { op: E }" is rejected
    by ParseFrugal, the same scope with {zone}.{user} is accepted *)
Theorem c11_dup_prefix_variable_rejected :
  is_ferr (parse_program [(main_frugal, dfx_dup_prefix_text)] main_frugal) = true
  /\ is_fok (parse_program [(main_frugal, dfx_two_vars_text)] main_frugal) = true.
Proof. exact dup_prefix_variable_rejected. Qed.
Print Assumptions c11_dup_prefix_variable_rejected.

(** the validation of scopes as it was before the repair ([check_scope_pinned]) accepted the
    scopes of that program, whose prefix variables are [zone; zone] *)
Theorem c11_dup_prefix_variable_accepted_pinned_refuted :
  exists f, parse_idl dfx_dup_prefix_text = Parser.POk f
    /\ map (fun s => p_vars (sc_prefix s)) (fr_scopes f) = [[dfx_zone; dfx_zone]]
    /\ rall (check_scope_pinned (reduce f [])) (fr_scopes f) = ROk
    /\ exists m, rall (check_scope (reduce f [])) (fr_scopes f) = RErr m.
Proof. exact dup_prefix_variable_accepted_pinned. Qed.
Print Assumptions c11_dup_prefix_variable_accepted_pinned_refuted.
