(** C11 — the compiler is total: valid IDL yields valid code, bad input a diagnostic.
    Only theorem statements, each closed by [exact] of a lemma from Proofs/.

    What is a theorem here: termination and panic-freedom of the shared front end and of the
    generator helpers (typedef resolution after validation, the classification helpers, the
    identifier casing helpers, -gen parsing).  What is NOT a theorem (explored by
    tools/props/c11.py against the real binary, see DESIGN.md C11 "Limits"): that every file
    emitted by the eight generators is well-formed, and termination of the PEG parser (C10). *)
From Coq Require Import ZArith List.
From FV Require Import Model.CompilerTotal Proofs.CompilerTotalProofs.
Import ListNotations.
Open Scope Z_scope.

(** ** Typedef resolution *)

(** c11_validate_implies_acyclic + c11_underlying_terminates: if a file passed validation (with
    the circular-typedef check) and so did, recursively, everything it includes, then
    UnderlyingType returns for EVERY non-nil type within [weight f] calls (number of typedefs
    in the file and its includes + number of files): no unbounded recursion, no panic. *)
Theorem c11_underlying_terminates : forall f,
  wellvalidated f -> forall t, t <> TNil -> exists u, underlying (weight f) f t = COk u.
Proof. exact underlying_terminates. Qed.
Print Assumptions c11_underlying_terminates.

(** the check the judge runs on every tree the real parser produced implies the hypothesis *)
Theorem c11_validated_b_sound : forall d f,
  validated_b d f = true -> names_ok_b d f = true -> wellvalidated f.
Proof. exact validated_b_sound. Qed.
Print Assumptions c11_validated_b_sound.

Example c11_wellvalidated_nonvacuous :
  (* root: include inc; typedef inc.U T; typedef list<T> L; struct M {1: T a, 2: L b}
     inc : typedef i32 T; typedef T U *)
  let inc := Frugal [([84], Ty s_i32 TNil TNil); ([85], Ty [84] TNil TNil)] [] [] [] [] [] [] in
  let root := Frugal [([84], Ty [105;110;99;46;85] TNil TNil); ([76], Ty s_list TNil (Ty [84] TNil TNil))]
                     [[77]] [] [] [] [Ty [84] TNil TNil; Ty [76] TNil TNil] [([105;110;99], inc)] in
  validated_b 3 root = true /\ names_ok_b 3 root = true
  /\ underlying_t root (Ty [84] TNil TNil) = COk (Ty s_i32 TNil TNil)
  /\ underlying_t root (Ty [76] TNil TNil) = COk (Ty s_list TNil (Ty [84] TNil TNil)).
Proof. vm_compute. repeat split. Qed.

(** the code as pinned: typedef B A; typedef A B passes validation and UnderlyingType never
    returns (F10; the Go process dies of a stack overflow); the repaired validation rejects it *)
Theorem c11_cyclic_typedef_diverges_refuted :
  validate_typedefs_pinned cyc_file = true
  /\ forallb (is_valid_type cyc_file) (uses cyc_file) = true
  /\ forall fuel, underlying_pinned fuel cyc_file (Ty [65] TNil TNil) = CFuel.
Proof. exact cyclic_typedef_diverges_pinned. Qed.
Print Assumptions c11_cyclic_typedef_diverges_refuted.

Theorem c11_cyclic_typedef_rejected_after_repair : validate_types cyc_file = false.
Proof. exact cyclic_typedef_rejected. Qed.
Print Assumptions c11_cyclic_typedef_rejected_after_repair.

(** the code as pinned (F15): a VALID acyclic program whose chain goes through an include loops
    forever because the chain is continued in the wrong file's scope; repaired: resolves to i32 *)
Theorem c11_include_scope_loops_refuted :
  validated_b 3 f15_root = true
  /\ (forall fuel, underlying_pinned fuel f15_root (Ty [84] TNil TNil) = CFuel)
  /\ underlying_t f15_root (Ty [84] TNil TNil) = COk (Ty s_i32 TNil TNil).
Proof. exact include_scope_pinned_loops. Qed.
Print Assumptions c11_include_scope_loops_refuted.

(** ** Classification helpers *)

(** IsStruct never panics on a validated program (IsEnum never does on a non-nil type) *)
Theorem c11_is_struct_total : forall f t,
  wellvalidated f -> t <> TNil -> exists b, is_struct f t = COk b.
Proof. exact is_struct_total. Qed.
Print Assumptions c11_is_struct_total.

(** Go getEnumFromThriftType on a validated program, any include structure: no nil dereference,
    no unbounded recursion; only its own panic("not a valid thrift type") is left *)
Theorem c11_classification_no_crash_partial : forall f t,
  wellvalidated f -> t <> TNil ->
  (exists z, go_enum_from_thrift_type f t = COk z) \/ go_enum_from_thrift_type f t = CPanic CPExplicit.
Proof. exact go_enum_no_crash_but_explicit. Qed.
Print Assumptions c11_classification_no_crash_partial.

(** c11_classification_total, proved for a file without includes: for every type the parser can
    produce the helper returns a wire type.
    FULL STATEMENT (not provable, see the refutation below):
      forall f t, wellvalidated f -> shaped f -> parser_shaped t = true -> is_valid_type f t = true ->
      exists z, go_enum_from_thrift_type f t = COk z.
    Missing for files with includes: the result of UnderlyingType for a typedef of an include
    is a name; when it names a type of the include's own include, that name is resolved in the
    asking file's scope (absent, or a different file of the same name). *)
Theorem c11_classification_total_partial : forall f t,
  wellvalidated f -> incs f = [] -> shaped_file f -> parser_shaped t = true -> t <> TNil ->
  exists z, go_enum_from_thrift_type f t = COk z.
Proof. exact go_enum_total_single_file. Qed.
Print Assumptions c11_classification_total_partial.

(** the full statement is false of the (repaired) code: a validated program on which the Go
    classification helper panics, and one on which IsUnion dereferences nil.  Both are replayed
    on the real compiler on every run (known findings C11-K1..K3, K9). *)
Theorem c11_classification_total_refuted :
  validated_b 3 far_root = true /\ names_ok_b 3 far_root = true
  /\ is_valid_type far_root far_t = true /\ parser_shaped far_t = true
  /\ go_enum_from_thrift_type far_root far_t = CPanic CPExplicit.
Proof. exact classification_panics_on_far_names. Qed.
Print Assumptions c11_classification_total_refuted.

Theorem c11_is_union_total_refuted :
  validated_b 3 nil_root = true /\ names_ok_b 3 nil_root = true
  /\ is_valid_type nil_root (Ty [109;105;100;46;84] TNil TNil) = true
  /\ is_union nil_root (Ty [109;105;100;46;84] TNil TNil) = CPanic CPNil.
Proof. exact is_union_panics_on_far_names. Qed.
Print Assumptions c11_is_union_total_refuted.

(** ** Identifier casing helpers *)

(** every casing helper of the generators returns (no index panic) on every identifier the IDL
    grammar accepts *)
Theorem c11_casing_total : forall s,
  is_identifier s = true ->
  (exists r, snake_to_camel s = COk r) /\ (exists r, title s = COk r)
  /\ (forall svc, exists r, title_service_name s svc = COk r)
  /\ (exists r, to_constant_name s = COk r) /\ (exists r, to_file_name s = COk r)
  /\ (exists r, lowercase_first_letter s = COk r) /\ (exists r, lowercase_first_character s = COk r).
Proof. exact casing_total_on_identifiers. Qed.
Print Assumptions c11_casing_total.

(** the Go helper on every string at all *)
Theorem c11_snake_to_camel_total_all_strings : forall s, exists r, snake_to_camel s = COk r.
Proof. exact snake_to_camel_total. Qed.
Print Assumptions c11_snake_to_camel_total_all_strings.

Example c11_casing_nonvacuous :
  is_identifier [95;102;111;111;95;95;105;100;95] = true (* "_foo__id_" *)
  /\ snake_to_camel [95;102;111;111;95;95;105;100;95] = COk [70;111;111;73;68] (* "FooID" *)
  /\ title [110;101;119;95;116;104;105;110;103] = COk [78;101;119;84;104;105;110;103;95] (* new_thing -> NewThing_ *)
  /\ to_constant_name [97;85;82;76;80;97;116;104] = COk [65;95;85;82;76;95;80;65;84;72]. (* aURLPath -> A_URL_PATH *)
Proof. vm_compute. repeat split. Qed.

(** the code as pinned (F11): the legal identifier "_a" panics the Go generator *)
Theorem c11_underscore_panics_refuted :
  exists s, is_identifier s = true /\ snake_to_camel_pinned s = CPanic CPIndex
            /\ title_pinned s = CPanic CPIndex.
Proof. exact underscore_panics_pinned. Qed.
Print Assumptions c11_underscore_panics_refuted.

(** ** The -gen parameter *)

(** c11_bad_option_is_error: whatever the text, parsing the -gen value and resolving the generator
    either succeeds with a language that has a generator and options of that language only, or
    returns an error; it never indexes out of range *)
Theorem c11_gen_param_total : forall gen,
  (exists lang m, resolve_gen gen = COk (lang, m) /\ mem lang generator_langs = true
                  /\ (m = [] \/ opts_valid lang m))
  \/ resolve_gen gen = CErr.
Proof. exact resolve_gen_total. Qed.
Print Assumptions c11_gen_param_total.

(** an option the language does not have makes the option loop fail, wherever it stands (unless an
    earlier option already did) *)
Theorem c11_bad_option_is_error : forall lang pre o post,
  validate_option lang (match split 61 o with w :: _ => w | [] => [] end) = false ->
  forall m, opts_valid lang m ->
  clean_options lang (pre ++ o :: post) m = CErr
  \/ exists o', In o' pre /\ validate_option lang (match split 61 o' with w :: _ => w | [] => [] end) = false.
Proof. exact unknown_option_is_error. Qed.
Print Assumptions c11_bad_option_is_error.

Example c11_gen_nonvacuous :
  (* "go:async,package_prefix=a/b" *)
  resolve_gen [103;111;58;97;115;121;110;99;44;112;97;99;107;97;103;101;95;112;114;101;102;105;120;61;97;47;98]
  = COk (s_go, [([97;115;121;110;99], []); ([112;97;99;107;97;103;101;95;112;114;101;102;105;120], [97;47;98])])
  /\ resolve_gen [103;111;58;122] = CErr            (* "go:z" *)
  /\ resolve_gen [99;111;98;111;108] = CErr.        (* "cobol" *)
Proof. vm_compute. repeat split. Qed.

(** ** Scope prefixes (findings triage; was known finding C11-K12, repaired)

    These theorems are about [validate] of Model/ParserFiles.v, the transcription of
    Frugal.validate that the C10 judge replays against ParseFrugal on whole programs. *)
From FV Require Import Model.ParserStrings Model.ParserAst Model.Parser Model.ParserFiles Proofs.ParserProofs
     Proofs.DfxValidateProofs.

(** a file that passes validation names every prefix variable once in every scope (so the
    parameter lists the generators derive from the prefix have no repeated name), and every
    operation type of every scope is a valid type *)
Theorem c11_validated_prefix_variables_distinct : forall f incs,
  ParserFiles.validate f incs = VOk ->
  forall s, In s (fr_scopes f) ->
    NoDup (p_vars (sc_prefix s))
    /\ forall o, In o (sc_ops s) -> valid_type f incs (o_type o) = Some true.
Proof. exact validate_prefix_variables_distinct. Qed.
Print Assumptions c11_validated_prefix_variables_distinct.

(** a scope whose prefix repeats a variable is an error of validation: not accepted, not a panic *)
Theorem c11_dup_prefix_variable_is_error : forall f incs s,
  has_dup (p_vars (sc_prefix s)) = true -> validate_scope f incs s = VErr.
Proof. exact validate_scope_dup_rejected. Qed.
Print Assumptions c11_dup_prefix_variable_is_error.

(** on program text through the PEG parser: "scope Sc prefix a.{zone}.{zone} { op: E }" is rejected
    by ParseFrugal, the same scope with {zone}.{user} is accepted *)
Theorem c11_dup_prefix_variable_rejected :
  is_ferr (parse_program [(main_frugal, dfx_dup_prefix_text)] main_frugal) = true
  /\ is_fok (parse_program [(main_frugal, dfx_two_vars_text)] main_frugal) = true.
Proof. exact dup_prefix_variable_rejected. Qed.
Print Assumptions c11_dup_prefix_variable_rejected.

(** the validation of scopes as it was before the repair ([validate_scopes_pinned]) accepted the
    scopes of that program, whose prefix variables are [zone; zone] *)
Theorem c11_dup_prefix_variable_accepted_pinned_refuted :
  exists f, parse_idl dfx_dup_prefix_text = POk f
    /\ map (fun s => p_vars (sc_prefix s)) (fr_scopes f) = [[dfx_zone; dfx_zone]]
    /\ validate_scopes_pinned f [] = VOk
    /\ validate_scopes f [] = VErr.
Proof. exact dup_prefix_variable_accepted_pinned. Qed.
Print Assumptions c11_dup_prefix_variable_accepted_pinned_refuted.
