(** C11 — the compiler is total: valid IDL yields valid code, bad input a diagnostic.
    Only theorem statements, each closed by [exact] of a lemma from Proofs/. *)
From Coq Require Import ZArith List.
From FV Require Import Model.CompilerTotal Proofs.CompilerTotalProofs.
Import ListNotations.
Open Scope Z_scope.

(** every casing helper of the generators returns (no index panic) on every identifier the IDL
    grammar accepts; the Go helpers snakeToCamel/title/titleServiceName on every string *)
Theorem c11_casing_total : forall s,
  is_identifier s = true ->
  (exists r, snake_to_camel s = COk r) /\ (exists r, title s = COk r)
  /\ (forall svc, exists r, title_service_name s svc = COk r)
  /\ (exists r, to_constant_name s = COk r) /\ (exists r, to_file_name s = COk r)
  /\ (exists r, lowercase_first_letter s = COk r) /\ (exists r, lowercase_first_character s = COk r).
Proof. exact casing_total_on_identifiers. Qed.
Print Assumptions c11_casing_total.

Theorem c11_snake_to_camel_total_all_strings : forall s, exists r, snake_to_camel s = COk r.
Proof. exact snake_to_camel_total. Qed.
Print Assumptions c11_snake_to_camel_total_all_strings.

(** the code as pinned (before the repair of F11): identifier "_a" panics the Go generator *)
Theorem c11_underscore_panics_refuted :
  exists s, is_identifier s = true /\ snake_to_camel_pinned s = CPanic CPIndex
            /\ title_pinned s = CPanic CPIndex.
Proof. exact underscore_panics_pinned. Qed.
Print Assumptions c11_underscore_panics_refuted.
