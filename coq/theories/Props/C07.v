(** C07 -- pub/sub delivers each message once, intact, and isolates bad messages.
    Only theorem statements, each closed by [exact] of a lemma from Proofs/PubSubProofs.v.

    The model (Model/PubSub.v): a broker that is a topic-filtered FIFO (ASSUMPTION, built into the
    [NPub]/[SPub] steps: a message is appended to the subscription's queue iff the subscription exists
    at the broker and the subject is the subscribed one), the nats.go / go-stomp client queues, and the
    frugal subscriber transports as interleaving state machines: every theorem quantifies over ALL
    event sequences ([tr]) the machine accepts, i.e. over all publish sequences (valid, malformed,
    foreign-topic: any topic and any bytes) and all schedules of the delivery goroutine and the workers.
    [dlv] is what the transport + generated callback do with one frame ([deliver], instantiated in
    c07_valid_frame_delivered_intact with the Frugal header codec of C04, TBinary's message envelope
    and the generated reader of C02).
    [owed dlv topic 0 pubs]: the invocations (publish index, headers, request) owed for the publish
    sequence [pubs] = those of its messages that are on [topic] and decode ([dlv b = Deliver h p]), in
    publish order.  [n_log s]: the handler invocations in the order they started.
    [nquiescent s]: no internal step is enabled (all queues drained, all handlers returned). *)
From Coq Require Import ZArith List Bool Lia Permutation.
From FV Require Import Base.Res Base.Bytes Model.Headers Model.Receivers Model.ThriftBin Model.PubSub
  Proofs.HeadersMapProofs Proofs.ThriftBinGoProofs Proofs.PubSubProofs Proofs.PubSubFrameProofs.
Import ListNotations.
Local Open Scope nat_scope.

(** NATS, one worker, no Unsubscribe, no frame on which the callback panics: at every moment the
    invocation sequence is a prefix of what is owed, in publish order with equal headers and payload;
    once everything has drained it is exactly what is owed. *)
Theorem c07_single_worker_exact : forall P (dlv : bytes -> outcome P) topic cap tr s,
  0 < cap -> nrun dlv (ninit P topic 1 cap) tr = Some s -> unsub_free tr -> crash_free P dlv tr ->
  (exists rest, owed dlv topic 0 (npubs tr) = n_log s ++ rest) /\
  (nquiescent P dlv s -> n_log s = owed dlv topic 0 (npubs tr)).
Proof. exact nats_single_worker_exact. Qed.
Print Assumptions c07_single_worker_exact.

(** NATS, any number of workers and ANY history (Unsubscribe, panicking frames included): the
    invocations are a sub-multiset of what is owed and no publish index occurs twice (at most once,
    nothing invented); without Unsubscribe and panics, at quiescence the multiset is exactly what is
    owed (exactly once). *)
Theorem c07_n_workers_multiset : forall P (dlv : bytes -> outcome P) topic nw cap tr s,
  nrun dlv (ninit P topic nw cap) tr = Some s ->
  (exists rest, Permutation (n_log s ++ rest) (owed dlv topic 0 (npubs tr))) /\
  NoDup (map i_id (n_log s)) /\
  (0 < nw -> 0 < cap -> unsub_free tr -> crash_free P dlv tr -> nquiescent P dlv s ->
   Permutation (n_log s) (owed dlv topic 0 (npubs tr))).
Proof. exact nats_n_workers_multiset. Qed.
Print Assumptions c07_n_workers_multiset.

(** A malformed message (anything [dlv] discards) costs nothing: no worker ever leaves its loop, and at
    quiescence EVERY published message that is on the topic and decodes has been delivered, whatever
    was published around it. *)
Theorem c07_bad_message_isolated : forall P (dlv : bytes -> outcome P) topic nw cap tr s,
  0 < nw -> 0 < cap -> nrun dlv (ninit P topic nw cap) tr = Some s -> unsub_free tr -> crash_free P dlv tr ->
  Forall alive (n_workers s) /\
  (nquiescent P dlv s -> forall k b h p, nth_error (npubs tr) k = Some (topic, b) -> dlv b = Deliver h p ->
                         In (mkInv k h p) (n_log s)).
Proof. exact nats_bad_message_isolated. Qed.
Print Assumptions c07_bad_message_isolated.

(** Every invocation, in every history, is for a message that was published on the subscribed topic,
    and carries exactly the headers and request that message decodes to. *)
Theorem c07_foreign_never_delivered : forall P (dlv : bytes -> outcome P) topic nw cap tr s i,
  nrun dlv (ninit P topic nw cap) tr = Some s -> In i (n_log s) ->
  exists b, nth_error (npubs tr) (i_id i) = Some (topic, b) /\ dlv b = Deliver (i_hdrs i) (i_val i).
Proof. exact nats_invocations_are_published. Qed.
Print Assumptions c07_foreign_never_delivered.

(** After Unsubscribe returned ([tr1] is everything before it), whatever happens next ([tr2]: more
    publishes, workers draining or quitting), every invocation that ever starts is for one of the
    messages published before Unsubscribe. *)
Theorem c07_nothing_starts_after_unsubscribe : forall P (dlv : bytes -> outcome P) topic nw cap tr1 tr2 s1 s2,
  nrun dlv (ninit P topic nw cap) tr1 = Some s1 ->
  nrun dlv s1 (NUnsub :: tr2) = Some s2 ->
  forall i, In i (n_log s2) -> i_id i < length (npubs tr1).
Proof. exact nats_nothing_after_unsubscribe. Qed.
Print Assumptions c07_nothing_starts_after_unsubscribe.

(** * STOMP (processMessages as repaired: keeps its callback, drops and drains once Unsubscribe started) *)

(** one loop: publish order, prefix at every moment, exact at quiescence *)
Theorem c07_single_worker_exact_stomp : forall P (dlv : bytes -> outcome P) topic cap tr s,
  0 < cap -> srun dlv (sinit P topic cap) tr = Some s -> sunsub_free tr -> scrash_free P dlv tr ->
  (exists rest, owed dlv topic 0 (spubs tr) = s_log s ++ rest) /\
  (squiescent P dlv s -> s_log s = owed dlv topic 0 (spubs tr)).
Proof. exact stomp_exact. Qed.
Print Assumptions c07_single_worker_exact_stomp.

(** every history: at most once, only messages published on the subscribed topic, intact *)
Theorem c07_foreign_never_delivered_stomp : forall P (dlv : bytes -> outcome P) topic cap tr s,
  srun dlv (sinit P topic cap) tr = Some s ->
  (exists rest, Permutation (s_log s ++ rest) (owed dlv topic 0 (spubs tr))) /\
  NoDup (map i_id (s_log s)) /\
  (forall i, In i (s_log s) ->
     exists b, nth_error (spubs tr) (i_id i) = Some (topic, b) /\ dlv b = Deliver (i_hdrs i) (i_val i)).
Proof. exact stomp_at_most_once. Qed.
Print Assumptions c07_foreign_never_delivered_stomp.

Theorem c07_bad_message_isolated_stomp : forall P (dlv : bytes -> outcome P) topic cap tr s,
  0 < cap -> srun dlv (sinit P topic cap) tr = Some s -> sunsub_free tr -> scrash_free P dlv tr ->
  loop_alive (s_loop s) /\
  (squiescent P dlv s -> forall k b h p, nth_error (spubs tr) k = Some (topic, b) -> dlv b = Deliver h p ->
                         In (mkInv k h p) (s_log s)).
Proof. exact stomp_bad_message_isolated. Qed.
Print Assumptions c07_bad_message_isolated_stomp.

(** from the moment Unsubscribe is CALLED no handler invocation starts any more, whatever is still
    buffered and whatever is published later *)
Theorem c07_nothing_starts_after_unsubscribe_stomp : forall P (dlv : bytes -> outcome P) tr2 s1 s1' s2,
  sstep dlv s1 SUnsubCall = Some s1' -> srun dlv s1' tr2 = Some s2 -> s_log s2 = s_log s1.
Proof. exact stomp_nothing_after_unsubscribe. Qed.
Print Assumptions c07_nothing_starts_after_unsubscribe_stomp.

(** Unsubscribe can always return: while it waits (the RECEIPT is somewhere behind any number of
    buffered messages, sub.C possibly full) and no handler is running, the read loop and the stopped
    processing loop alone ([sdrive]: internal steps only) reach a state where its return is enabled.
    (Before the repair the stopped loop stopped receiving: with sub.C full this state was a deadlock.) *)
Theorem c07_unsubscribe_completes_stomp : forall P (dlv : bytes -> outcome P) fuel s,
  s_unsub s = UWaiting -> s_stop s = true -> In SReceipt (s_in s) -> 0 < s_cap s ->
  (s_loop s = LIdle \/ s_loop s = LDrain) ->
  2 * length (s_in s) + length (s_c s) + (match s_loop s with LIdle => 1 | _ => 0 end) + 1 <= fuel ->
  exists s', srun dlv s (sdrive P dlv fuel s) = Some s' /\
             (s_closed s = false -> sstep dlv s' SUnsubRet <> None) /\
             Forall (fun e => s_internal e = true) (sdrive P dlv fuel s).
Proof. exact stomp_unsubscribe_completes. Qed.
Print Assumptions c07_unsubscribe_completes_stomp.

(** * Frame level: "intact" *)

(** For every declared type, every well-formed Go value [v] of it (C02's [gwf]), every header map
    (distinct keys, containing the op id, total size below 2^31) in whatever order Go iterated it, and
    every operation name: the frame the generated publisher hands to the transport
    ([publish_frame]: 4-byte size, v0 headers, strict TBinary message begin, generated Write) is
    delivered by the subscriber side ([deliver]: length check, prefix dropped, ReadRequestHeader,
    ReadMessageBegin, operation name check, generated Read) to the handler with the publisher's headers
    (all but the op id, which the receiver renews) and a request equal to [v]. *)
Theorem c07_valid_frame_delivered_intact : forall e t v hdrs op o,
  gwf e t v ->
  (header_size hdrs < 2147483648)%Z -> NoDup (keys hdrs) ->
  Headers.lookup opid_header hdrs = Some o ->
  (zlen op <= max_message_size)%Z ->
  exists payload fuel0,
    gwrite e t v = Ok payload /\
    forall fuel, fuel0 <= fuel ->
      deliver val (gread fuel e t) op (publish_frame hdrs op payload) = Deliver (remove_key opid_header hdrs) v.
Proof. exact valid_frame_delivered_intact. Qed.
Print Assumptions c07_valid_frame_delivered_intact.

(** a frame shorter than the 4-byte prefix is discarded (the worker / loop continues) *)
Theorem c07_short_frame_discarded : forall P rd op frame, (zlen frame < 4)%Z -> deliver P rd op frame = Discard.
Proof. exact deliver_short. Qed.
Print Assumptions c07_short_frame_discarded.

(** * Non-vacuity: a two-worker NATS run with a short frame, a foreign-topic message and two valid
    ones (delivered out of publish order by the two workers), then quiescent; a STOMP run with an
    Unsubscribe that drops a buffered message. *)
Local Open Scope Z_scope.
Definition ex_dlv (b : bytes) : outcome Z :=
  match b with [x] => Deliver [] x | [] => Discard | _ => Discard end.
Definition ex_tr : list nev :=
  [NPub [1] [7]; NPub [1] []; NPub [2] [9]; NPub [1] [8];
   NDispatch; NEnqueue; NDispatch; NEnqueue; NDispatch; NEnqueue;
   NTake 0; NTake 1; NStart 1; NTake 1; NStart 1; NStart 0; NDone 1; NDone 0].
Example c07_nonvacuous_nats :
  exists s, nrun ex_dlv (ninit Z [1] 2 4) ex_tr = Some s /\
            n_log s = [mkInv 3 [] 8; mkInv 0 [] 7] /\
            owed ex_dlv [1] 0 (npubs ex_tr) = [mkInv 0 [] 7; mkInv 3 [] 8] /\
            unsub_free ex_tr /\ crash_free Z ex_dlv ex_tr /\
            (forall e, n_internal e = true -> In e [NDispatch; NEnqueue; NTake 0; NTake 1; NStart 0; NStart 1; NDone 0; NDone 1; NQuit 0; NQuit 1] ->
                       nstep ex_dlv s e = None).
Proof.
  eexists. split; [vm_compute; reflexivity|]. split; [reflexivity|]. split; [reflexivity|]. split.
  - unfold unsub_free, ex_tr. cbn. intuition discriminate.
  - split.
    + intros t b Hin. unfold ex_dlv. destruct b as [|x [|y r]]; discriminate.
    + intros e _ Hin. cbn in Hin. repeat (destruct Hin as [<-|Hin]; [vm_compute; reflexivity|]). contradiction.
Qed.

Example c07_nonvacuous_stomp :
  exists s, srun ex_dlv (sinit Z [1] 16) [SPub [1] [7]; SPub [1] [8]; SFeed; SFeed; SRecv; SUnsubCall; SDone false; SRecv; SStop; SFeed; SDrained; SUnsubRet; SPub [1] [9]] = Some s /\
            s_log s = [mkInv 0 [] 7] /\ s_unsub s = UDone /\ s_loop s = LExit /\ s_acks s = [0%nat].
Proof. eexists. split; [vm_compute; reflexivity|]. repeat split. Qed.
