(** C07 -- pub/sub delivers each message once, intact, and isolates bad messages.
    Only theorem statements, each closed by [exact] of a lemma from Proofs/PubSubProofs.v.

    The model (Model/PubSub.v): a broker that is a topic-filtered FIFO (ASSUMPTION, built into the
    [NPub]/[SPub] steps: a message is appended to the subscription's queue iff the subscription exists
    at the broker and the subject is the subscribed one), the nats.go / go-stomp client queues, and the
    frugal subscriber transports as interleaving state machines: every theorem quantifies over ALL
    event sequences ([tr]) the machine accepts, i.e. over all publish sequences (valid, malformed,
    foreign-topic: any topic and any bytes) and all schedules of the delivery goroutine and the workers.
    [dlv] is what the transport + generated callback do with one frame ([deliver], instantiated in
    c07_valid_frame_delivered_intact with the Frugal header codec of C04, TBinary's message envelope
    and the generated reader of C02).
    [owed dlv topic 0 pubs]: the invocations (publish index, headers, request) owed for the publish
    sequence [pubs] = those of its messages that are on [topic] and decode ([dlv b = Deliver h p]), in
    publish order.  [n_log s]: the handler invocations in the order they started.
    [nquiescent s]: no internal step is enabled (all queues drained, all handlers returned). *)
From Coq Require Import ZArith List Bool Lia Permutation.
From FV Require Import Base.Res Base.Bytes Model.Headers Model.PubSub Proofs.PubSubProofs.
Import ListNotations.
Local Open Scope nat_scope.

(** NATS, one worker, no Unsubscribe, no frame on which the callback panics: at every moment the
    invocation sequence is a prefix of what is owed, in publish order with equal headers and payload;
    once everything has drained it is exactly what is owed. *)
Theorem c07_single_worker_exact : forall P (dlv : bytes -> outcome P) topic cap tr s,
  0 < cap -> nrun dlv (ninit P topic 1 cap) tr = Some s -> unsub_free tr -> crash_free P dlv tr ->
  (exists rest, owed dlv topic 0 (npubs tr) = n_log s ++ rest) /\
  (nquiescent P dlv s -> n_log s = owed dlv topic 0 (npubs tr)).
Proof. exact nats_single_worker_exact. Qed.
Print Assumptions c07_single_worker_exact.

(** NATS, any number of workers and ANY history (Unsubscribe, panicking frames included): the
    invocations are a sub-multiset of what is owed and no publish index occurs twice (at most once,
    nothing invented); without Unsubscribe and panics, at quiescence the multiset is exactly what is
    owed (exactly once). *)
Theorem c07_n_workers_multiset : forall P (dlv : bytes -> outcome P) topic nw cap tr s,
  nrun dlv (ninit P topic nw cap) tr = Some s ->
  (exists rest, Permutation (n_log s ++ rest) (owed dlv topic 0 (npubs tr))) /\
  NoDup (map i_id (n_log s)) /\
  (0 < nw -> 0 < cap -> unsub_free tr -> crash_free P dlv tr -> nquiescent P dlv s ->
   Permutation (n_log s) (owed dlv topic 0 (npubs tr))).
Proof. exact nats_n_workers_multiset. Qed.
Print Assumptions c07_n_workers_multiset.

(** A malformed message (anything [dlv] discards) costs nothing: no worker ever leaves its loop, and at
    quiescence EVERY published message that is on the topic and decodes has been delivered, whatever
    was published around it. *)
Theorem c07_bad_message_isolated : forall P (dlv : bytes -> outcome P) topic nw cap tr s,
  0 < nw -> 0 < cap -> nrun dlv (ninit P topic nw cap) tr = Some s -> unsub_free tr -> crash_free P dlv tr ->
  Forall alive (n_workers s) /\
  (nquiescent P dlv s -> forall k b h p, nth_error (npubs tr) k = Some (topic, b) -> dlv b = Deliver h p ->
                         In (mkInv k h p) (n_log s)).
Proof. exact nats_bad_message_isolated. Qed.
Print Assumptions c07_bad_message_isolated.

(** Every invocation, in every history, is for a message that was published on the subscribed topic,
    and carries exactly the headers and request that message decodes to. *)
Theorem c07_foreign_never_delivered : forall P (dlv : bytes -> outcome P) topic nw cap tr s i,
  nrun dlv (ninit P topic nw cap) tr = Some s -> In i (n_log s) ->
  exists b, nth_error (npubs tr) (i_id i) = Some (topic, b) /\ dlv b = Deliver (i_hdrs i) (i_val i).
Proof. exact nats_invocations_are_published. Qed.
Print Assumptions c07_foreign_never_delivered.

(** After Unsubscribe returned ([tr1] is everything before it), whatever happens next ([tr2]: more
    publishes, workers draining or quitting), every invocation that ever starts is for one of the
    messages published before Unsubscribe. *)
Theorem c07_nothing_starts_after_unsubscribe : forall P (dlv : bytes -> outcome P) topic nw cap tr1 tr2 s1 s2,
  nrun dlv (ninit P topic nw cap) tr1 = Some s1 ->
  nrun dlv s1 (NUnsub :: tr2) = Some s2 ->
  forall i, In i (n_log s2) -> i_id i < length (npubs tr1).
Proof. exact nats_nothing_after_unsubscribe. Qed.
Print Assumptions c07_nothing_starts_after_unsubscribe.
