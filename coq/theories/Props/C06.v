(** C06 — the inbound path never stalls: no head-of-line blocking.
    Same model as C01. "Never stalls" = the single reader (adapter read loop / NATS subscription
    callback) has an enabled step in EVERY state, with no premise about any caller: slow, timed
    out, abandoned requests and any number of duplicates cannot matter. [tk] ranges over the
    adapter and the NATS transport. *)
From Coq Require Import ZArith List String.
From FV Require Import Model.Registry Proofs.RegistryProofs.
From FV Require Gen.CtxLockSites Model.LockPaths Proofs.LockPathsProofs.
Import ListNotations.
Open Scope Z_scope.

(** in every state whatsoever the reader can take its next step: hand over (or drop) the frame it
    looked up, or accept the next frame *)
Theorem c06_reader_never_blocks : forall tk s,
  match rd s with
  | RLooked _ _ => exists s', step tk false s EDeliver = Some s'
  | RIdle => forall f, exists s', step tk false s (EArrive f) = Some s'
  end.
Proof. exact reader_never_blocks. Qed.
Print Assumptions c06_reader_never_blocks.

(** NATS: an idle reader (subscription callback) also accepts any status 503 message *)
Theorem c06_reader_accepts_503_nats : forall s op,
  rd s = RIdle -> exists s', step KNats false s (EArrive503 op) = Some s'.
Proof. exact reader_accepts_503. Qed.
Print Assumptions c06_reader_accepts_503_nats.

(** the response to an in-flight request whose channel is empty is delivered and taken, regardless
    of what was received before and of the state of every other request *)
Theorem c06_fresh_response_delivered : forall tk s i f,
  rd s = RIdle -> (i < ncallers s)%nat ->
  c_phase (callers s i) = CSelect -> c_chan (callers s i) = [] ->
  reg_lookup (reg s) (f_op f) = Some i ->
  exists s', run tk false s [EArrive f; EDeliver; ETake i TResult] = Some s'
             /\ c_phase (callers s' i) = CTook TResult (Some f).
Proof. exact fresh_response_delivered. Qed.
Print Assumptions c06_fresh_response_delivered.

(** NATS: likewise a 503 for a waiting request reaches it and it returns SERVICE_NOT_AVAILABLE *)
Theorem c06_fresh_503_delivered_nats : forall s i op,
  rd s = RIdle -> (i < ncallers s)%nat ->
  c_phase (callers s i) = CSelect -> c_chan (callers s i) = [] ->
  reg_lookup (reg s) op = Some i ->
  exists s', run KNats false s [EArrive503 op; EDeliver; ETake i TResult; EUnregister i] = Some s'
             /\ c_phase (callers s' i) = CDone ONotAvail.
Proof. exact fresh_503_delivered. Qed.
Print Assumptions c06_fresh_503_delivered_nats.

(** a frame is dropped only when its target already holds a frame with the same op id *)
Theorem c06_drop_is_harmless : forall s j f x xs,
  inv s -> rd s = RLooked j f -> c_chan (callers s j) = x :: xs -> f_op x = f_op f.
Proof. exact drop_is_harmless. Qed.
Print Assumptions c06_drop_is_harmless.

(** the pinned tree (blocking channel send in dispatch) is refuted: a reachable state in which the
    reader is blocked and stays blocked along EVERY continuation - no frame (and, on NATS, no status
    message) is ever looked up or delivered again (three frames for one op id: DESIGN.md F4,
    replayed on the real code). The same schedule wedges both transports. *)
Theorem c06_reader_can_wedge_refuted : forall tk,
  exists evs s, run tk true (init (fun _ => 7) (fun _ => true) 1) evs = Some s /\ wedged s
    /\ forall evs' s', run tk true s evs' = Some s' ->
         wedged s' /\ ~ In EDeliver evs' /\ (forall f, ~ In (EArrive f) evs') /\ (forall op, ~ In (EArrive503 op) evs').
Proof.
  intros tk.
  exists [ERegister 0; ERelease 0; EArrive {| f_op := 7; f_tag := 1 |}; EDeliver; ETake 0 TResult;
          EArrive {| f_op := 7; f_tag := 2 |}; EDeliver; EArrive {| f_op := 7; f_tag := 3 |}].
  destruct tk; (eexists; split; [vm_compute; reflexivity|]; split;
    [eexists 0%nat, _, _, _; vm_compute; repeat split
    |intros evs' s' H; eapply wedged_forever; [|exact H]; eexists 0%nat, _, _, _; vm_compute; repeat split]).
Qed.
Print Assumptions c06_reader_can_wedge_refuted.

(** the registry never runs code of a caller and never blocks on a channel while it holds its mutex
    (read or write): on every control-flow path of Register / Unregister / Execute / dispatch AS THEY
    ARE IN lib/go/registry.go NOW (Gen/CtxLockSites.v is regenerated from the source on every run), at
    each call of a method of a caller-supplied FContext, each function handed one and each channel
    send, the mutex is not held. A request whose context is slow to answer, or whose result channel is
    not taken, therefore holds up neither the reader's lookup nor another request's registration. *)
Theorem c06_nothing_foreign_under_the_registry_lock :
  forall name paths p pre post,
    In (name, paths) CtxLockSites.registry_foreign -> In p paths ->
    p = pre ++ CtxLockSites.FForeign :: post ->
    LockPaths.fheld false pre = false.
Proof. exact (LockPathsProofs.all_foreign_ok_spec _ (eq_refl : LockPaths.all_foreign_ok CtxLockSites.registry_foreign = true)). Qed.
Print Assumptions c06_nothing_foreign_under_the_registry_lock.

(** not vacuous: the regenerated paths do contain foreign operations - Register (a method of the
    fRegistry interface) asks the caller's context for its op id, and it does so before it locks *)
Example c06_foreign_operations_exist :
  existsb (fun m => andb (String.eqb (fst m) "fRegistryImpl.Register"%string) (existsb LockPaths.has_foreign (snd m)))
          CtxLockSites.registry_foreign = true.
Proof. vm_compute; reflexivity. Qed.
