(** C12 — size limits are enforced exactly and reported, never silently.
    Only theorem statements, each closed by [exact] of a lemma from Proofs/SizeLimitProofs.v.
    The model (Model/SizeLimit.v) follows the repaired code; messages are sequences of
    transport-level writes (any sequence whatsoever, so every protocol encoder is covered);
    Thrift's binary protocol is additionally modelled value -> writes. *)
From Coq Require Import ZArith List Bool Lia.
From FV Require Import Model.SizeLimit Proofs.SizeLimitProofs.
From FV Require Gen.Consts Proofs.ConstsAgree.
Import ListNotations.
Open Scope Z_scope.

(** The bounded output buffer, from its initial state, for EVERY sequence of Write /
    WriteString / WriteByte calls and every limit: the sequence is rejected iff the limit is
    positive and the framed total (4-byte prefix included) exceeds it — not earlier, not later;
    an accepted sequence is stored completely; after a rejection the buffer is the initial one. *)
Theorem c12_buffer_exact : forall lim ops, ops_nonneg ops -> ops <> [] ->
  (snd (run_ops (new_buf lim) ops) = false <-> 0 < lim /\ lim < 4 + ops_size ops)
  /\ (snd (run_ops (new_buf lim) ops) = true ->
      fst (run_ops (new_buf lim) ops) = mkbuf lim (4 + ops_size ops))
  /\ (snd (run_ops (new_buf lim) ops) = false -> fst (run_ops (new_buf lim) ops) = new_buf lim).
Proof. exact buffer_exact. Qed.
Print Assumptions c12_buffer_exact.

(** limit 0 = unbounded: nothing is ever rejected *)
Theorem c12_buffer_unbounded : forall ops, ops_nonneg ops ->
  run_ops (new_buf 0) ops = (mkbuf 0 (4 + ops_size ops), true).
Proof. exact buffer_unbounded. Qed.
Print Assumptions c12_buffer_unbounded.

(** whatever had been written, a rejection leaves the initial buffer (limit kept, Len = 4) *)
Theorem c12_reject_resets : forall ops b,
  snd (run_ops b ops) = false -> fst (run_ops b ops) = new_buf (limit b).
Proof. exact run_ops_reject_resets. Qed.
Print Assumptions c12_reject_resets.

(** one buffer reused for any number of messages: each message is judged exactly as on a fresh
    buffer, whatever happened to the messages before it *)
Theorem c12_buffer_reuse : forall msgs b, len b = 4 ->
  buffer_session b msgs = map (fresh_result (limit b)) msgs.
Proof. exact buffer_session_independent. Qed.
Print Assumptions c12_buffer_reuse.

(** Request side, every transport (NATS; HTTP with any request/response limits), every message
    (any header block, any sequence of protocol writes), every reply the server might produce:
    the call fails with REQUEST_TOO_LARGE iff the transport's limit is positive and the framed
    size exceeds it; exactly then nothing is handed to the transport; otherwise the complete
    frame is handed over. *)
Theorem c12_request_exact : forall t m r, msg_ok m ->
  (out (call t m r) = ReqTooLarge <-> 0 < request_limit t /\ request_limit t < framed_size m)
  /\ (sent (call t m r) = None <-> 0 < request_limit t /\ request_limit t < framed_size m)
  /\ (~ (0 < request_limit t /\ request_limit t < framed_size m) ->
      sent (call t m r) = Some (framed_size m)).
Proof. exact call_request_exact. Qed.
Print Assumptions c12_request_exact.

(** the same for FStandardClient.Oneway *)
Theorem c12_oneway_exact : forall t m r, msg_ok m ->
  (out (oneway t m r) = ReqTooLarge <-> 0 < request_limit t /\ request_limit t < framed_size m)
  /\ (sent (oneway t m r) = None <-> 0 < request_limit t /\ request_limit t < framed_size m)
  /\ (~ (0 < request_limit t /\ request_limit t < framed_size m) ->
      sent (oneway t m r) = Some (framed_size m)).
Proof. exact oneway_request_exact. Qed.
Print Assumptions c12_oneway_exact.

(** the same through Thrift's binary protocol, stated on message VALUES: the request is
    rejected iff 4 + headers + binary-encoded size of the message exceeds the limit *)
Theorem c12_request_exact_binary : forall t h nl v r, 5 <= h -> 0 <= nl -> tval_ok v ->
  (out (call t (binary_msg h nl v) r) = ReqTooLarge /\ sent (call t (binary_msg h nl v) r) = None)
  <-> (0 < request_limit t /\ request_limit t < 4 + h + bin_message_size nl v).
Proof. exact binary_request_exact. Qed.
Print Assumptions c12_request_exact_binary.

(** the binary protocol's writes add up to the size the Thrift specification gives *)
Theorem c12_binary_encoder_size : forall v, ops_size (enc_binary v) = bin_size v.
Proof. exact enc_binary_size. Qed.
Print Assumptions c12_binary_encoder_size.

(** the client's buffer carries the transport's own limit, so the transports' late checks
    (nats_transport.go checkMessageSize, http_transport.go Request) can no longer fire *)
Theorem c12_transport_check_redundant : forall t m n, 0 <= hdr m -> ops_nonneg (body m) ->
  prepare (request_limit t) m = Some n -> transport_check t n = true.
Proof. exact transport_check_redundant. Qed.
Print Assumptions c12_transport_check_redundant.

(** Publishers (NATS; STOMP with any maxPublishSize): rejected with REQUEST_TOO_LARGE iff over
    the limit, exactly then nothing reaches the broker, otherwise the complete frame does. *)
Theorem c12_publish_exact : forall p m, msg_ok m ->
  (fst (publish p m) = ReqTooLarge <-> 0 < publish_limit p /\ publish_limit p < framed_size m)
  /\ (snd (publish p m) = None <-> 0 < publish_limit p /\ publish_limit p < framed_size m)
  /\ (~ (0 < publish_limit p /\ publish_limit p < framed_size m) ->
      publish p m = (OkReply, Some (framed_size m))).
Proof. exact publish_exact. Qed.
Print Assumptions c12_publish_exact.

(** STOMP: maxPublishSize <= 0 (an int) means no limit, also through the uint conversion *)
Theorem c12_stomp_unlimited : forall mps m, mps <= 0 -> -9223372036854775808 <= mps -> msg_ok m ->
  framed_size m < 9223372036854775808 ->
  publish (PStomp mps) m = (OkReply, Some (framed_size m)).
Proof. exact stomp_unlimited. Qed.
Print Assumptions c12_stomp_unlimited.

(** Response side.  For an accepted request: if the reply exceeds the server-side limit (NATS:
    framed reply > 1 MiB) or the client-requested HTTP limit (unframed reply > limit), the
    caller gets RESPONSE_TOO_LARGE — not a timeout, not truncated data; if it does not exceed
    it, the caller gets the complete reply.
    PARTIAL in one respect: for NATS the hypothesis [error_reply_fits] asks that the
    RESPONSE_TOO_LARGE exception message with the op-id-only header block (method name, op id,
    fixed text) itself fits into 1 MiB; it fails only for a method name of about 1 MiB.
    Full statement (not provable, false for such method names):
      forall t m r, msg_ok m -> reply_ok r -> accepted -> response_exceeds t r ->
        out (call t m r) = RespTooLarge. *)
Theorem c12_response_reported_partial : forall t m r, msg_ok m -> reply_ok r ->
  ~ (0 < request_limit t /\ request_limit t < framed_size m) ->
  (match t with
   | TNats => nats_max < reply_size r
   | THttp _ resp => 0 < resp /\ resp < rhdr r + ops_size (rbody r)
   end ->
   match t with TNats => err_size nats_max r <= nats_max | THttp _ _ => True end ->
     out (call t m r) = RespTooLarge /\ sent (call t m r) = Some (framed_size m))
  /\ (~ match t with
        | TNats => nats_max < reply_size r
        | THttp _ resp => 0 < resp /\ resp < rhdr r + ops_size (rbody r)
        end ->
     out (call t m r) = OkReply /\ sent (call t m r) = Some (framed_size m)
     /\ back (call t m r) = Some (reply_size r)).
Proof. exact call_response. Qed.
Print Assumptions c12_response_reported_partial.

(** sizes never make a call end silently: the outcome is the reply, REQUEST_TOO_LARGE or
    RESPONSE_TOO_LARGE — never a timeout (same proviso) *)
Theorem c12_never_silent_partial : forall t m r, msg_ok m -> reply_ok r ->
  match t with TNats => err_size nats_max r <= nats_max | THttp _ _ => True end ->
  out (call t m r) = OkReply \/ out (call t m r) = ReqTooLarge \/ out (call t m r) = RespTooLarge.
Proof. exact call_never_silent. Qed.
Print Assumptions c12_never_silent_partial.

(** After a failure the same client, transport and server keep working: in any sequence of
    calls on one transport — any mix of oversize and ordinary ones, op ids (FContexts) reused
    or not — every call has exactly the result it has on its own, and the client transport's
    registry of in-flight op ids is empty again after every call. *)
Theorem c12_after_failure_works : forall t calls,
  session t [] calls = ([], map (expected_step t) calls).
Proof. exact session_independent. Qed.
Print Assumptions c12_after_failure_works.

(** the error code the server writes is the one the client converts; the NATS client limit
    equals the NATS server's reply-buffer limit *)
Theorem c12_codes_agree :
  app_response_too_large_written = app_response_too_large_mapped
  /\ process_reply FTooLarge = RespTooLarge
  /\ request_limit TNats = nats_max /\ publish_limit PNats = nats_max.
Proof. exact codes_agree. Qed.
Print Assumptions c12_codes_agree.

(** What the defect F5 was (pinned code): a string went past the limit unnoticed; the repaired
    buffer rejects it. *)
Theorem c12_pinned_string_bypass : forall lim n, 0 < lim -> lim < 4 + n ->
  run_ops_pinned (new_buf lim) [WS n] = (mkbuf lim (4 + n), true)
  /\ run_ops (new_buf lim) [WS n] = (new_buf lim, false).
Proof. exact pinned_bypass. Qed.
Print Assumptions c12_pinned_string_bypass.

(** the limits and exception codes of the model are the constants of lib/go as they are now
    (Gen/Consts.v is regenerated from the source on every build) *)
Theorem c12_constants_are_the_sources :
  SizeLimit.nats_max = Consts.go_natsMaxMessageSize
  /\ SizeLimit.transport_request_too_large = Consts.go_TRANSPORT_EXCEPTION_REQUEST_TOO_LARGE
  /\ SizeLimit.transport_response_too_large = Consts.go_TRANSPORT_EXCEPTION_RESPONSE_TOO_LARGE
  /\ SizeLimit.app_response_too_large_written = Consts.go_APPLICATION_EXCEPTION_RESPONSE_TOO_LARGE
  /\ SizeLimit.app_response_too_large_mapped = Consts.go_APPLICATION_EXCEPTION_RESPONSE_TOO_LARGE.
Proof.
  destruct ConstsAgree.frame_limits_agree as (_ & A).
  destruct ConstsAgree.exception_codes_agree as (B & C & D & E & _). auto.
Qed.
Print Assumptions c12_constants_are_the_sources.

(** non-vacuity: concrete messages on both sides of each limit *)
Example c12_nonvacuous_request :
  let v := VStruct [VI32; VStr 100; VList [VBin 3; VBin 4]] in
  let m := binary_msg 54 4 v in
  let r := mkreply 34 20 (enc_binary_message 4 (VStruct [VStr 50])) (enc_binary_message 4 (VStruct [VStr 29; VI32])) in
  msg_ok m /\ reply_ok r /\ framed_size m = 212
  /\ out (call (THttp 212 0) m r) = OkReply /\ sent (call (THttp 212 0) m r) = Some 212
  /\ out (call (THttp 211 0) m r) = ReqTooLarge /\ sent (call (THttp 211 0) m r) = None
  /\ out (call (THttp 0 108) m r) = OkReply /\ out (call (THttp 0 107) m r) = RespTooLarge
  /\ out (call TNats m r) = OkReply.
Proof.
  cbv zeta. split; [apply binary_msg_ok; cbn; intuition lia|].
  split; [unfold reply_ok; cbn [rhdr mhdr rbody ebody]; repeat split; try lia;
          apply ops_nonneg_app; try apply enc_binary_nonneg; cbn; repeat constructor; unfold op_nonneg; cbn [op_size]; lia|].
  vm_compute. repeat split; reflexivity.
Qed.

Example c12_nonvacuous_response_nats :
  let m := binary_msg 54 4 (VStruct [VI32]) in
  let big := mkreply 34 20 (enc_binary_message 4 (VStruct [VStr 1048576])) (enc_binary_message 4 (VStruct [VStr 29; VI32])) in
  let fit := mkreply 34 20 (enc_binary_message 4 (VStruct [VStr 1048514])) (enc_binary_message 4 (VStruct [VStr 29; VI32])) in
  let bighdr := mkreply 1048600 20 (enc_binary_message 4 (VStruct [VStr 5])) (enc_binary_message 4 (VStruct [VStr 29; VI32])) in
  reply_size fit = 1048576
  /\ call TNats m fit = mkres OkReply (Some 82) (Some 1048576)
  /\ out (call TNats m big) = RespTooLarge
  /\ call TNats m bighdr = mkres RespTooLarge (Some 82) (Some 84).
Proof. vm_compute. repeat split; reflexivity. Qed.

Example c12_nonvacuous_session :
  let small := binary_msg 54 4 (VStruct [VI32]) in
  let huge := binary_msg 54 4 (VStruct [VStr 2000000]) in
  let r := mkreply 34 20 (enc_binary_message 4 (VStruct [VStr 50])) (enc_binary_message 4 (VStruct [VStr 29; VI32])) in
  snd (session TNats [] [(7, huge, r); (7, small, r); (8, huge, r); (7, small, r)])
  = [SOut (mkres ReqTooLarge None None); SOut (mkres OkReply (Some 82) (Some 112));
     SOut (mkres ReqTooLarge None None); SOut (mkres OkReply (Some 82) (Some 112))].
Proof. vm_compute. reflexivity. Qed.
