(** C15 - transport failure is detected, reported once and recoverable, repeatedly.
    Only theorem statements, each closed by [exact] of a lemma from Proofs/LifecycleProofs.v.
    The model (Model/Lifecycle.v) follows lib/go/adapter_transport.go after the repair
    "fix: adapter transport gives every Open its own close signal" ([Fixed]); [Pinned] is the
    same code with the single shared close-signal channel of the tree as found. *)
From Coq Require Import ZArith List Bool.
From FV Require Import Base.Bytes Model.Lifecycle Proofs.LifecycleProofs.
Import ListNotations.
Open Scope Z_scope.

(** For every history (any interleaving of user calls, stream events, read-loop steps and
    monitor steps the model accepts) and every generation of the connection: a generation that
    has ended has published exactly one cause on its Closed() channel, the open one none. *)
Theorem c15_closed_and_reported_once : forall pol m p tr s,
  run Fixed pol (init m p) tr = Some s ->
  forall g, (1 <= g <= gen s)%nat ->
    if Nat.eqb g (gen s) && is_open s then pub s g = [] else exists c, pub s g = [c].
Proof. exact reported_once. Qed.
Print Assumptions c15_closed_and_reported_once.
