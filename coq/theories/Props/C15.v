(** C15 - transport failure is detected, reported once and recoverable, repeatedly.
    Only theorem statements, each closed by [exact] of a lemma from Proofs/LifecycleProofs.v.

    The model (Model/Lifecycle.v) is an interleaving small-step semantics of
    lib/go/adapter_transport.go (Open, readLoop, readFrame, close), the framing and error
    wrapping of lib/go/framed_transport.go, and lib/go/transport_monitor.go.  [Fixed] is the
    code after "fix: adapter transport gives every Open its own close signal"; [Pinned] is the
    same code with the single shared close-signal channel of the tree as found.  A history
    [tr] is any list of events (user calls, chunks and errors delivered to a read loop, single
    steps of any read loop, single steps of the monitor runner, each with the underlying
    transport's answer) that the model accepts: [run v pol (init monitor preopen) tr = Some s].
    All theorems quantify over every such history, every policy and both initial flags. *)
From Coq Require Import ZArith List Bool.
From FV Require Import Base.Bytes Model.Lifecycle Proofs.LifecycleProofs Proofs.LifecycleFramesProofs.
Import ListNotations.
Open Scope Z_scope.

(** ** reported exactly once *)

(** every generation of the connection that has ended has published exactly one cause on its
    Closed() channel; the one that is open has published none *)
Theorem c15_closed_and_reported_once : forall pol m p tr s,
  run Fixed pol (init m p) tr = Some s ->
  forall g, (1 <= g <= gen s)%nat ->
    if Nat.eqb g (gen s) && is_open s then pub s g = [] else exists c, pub s g = [c].
Proof. exact reported_once. Qed.
Print Assumptions c15_closed_and_reported_once.

(** ** detected: every way the stream can end or fail closes the transport with that cause *)

(** at whatever point of a frame the current read loop stands ([buf] = bytes of the unfinished
    frame received so far), for every error [k] the underlying Read can return: the read loop's
    two steps are enabled and leave the transport closed, the cause [classify |buf| k]
    published once on this generation's channel, recorded as a close, and queued for the
    monitor when its queue is empty *)
Theorem c15_failure_detected_and_closed : forall pol m p tr s buf k,
  run Fixed pol (init m p) tr = Some s ->
  loops s (gen s) = LReading buf ->
  exists s3, run Fixed pol s [EReadErr (gen s) k; ELoop (gen s) 0; ELoop (gen s) 1] = Some s3
    /\ is_open s3 = false /\ gen s3 = gen s /\ pub s3 (gen s) = [classify (zlen buf) k]
    /\ loops s3 (gen s) = LExited
    /\ closes s3 = closes s ++ [classify (zlen buf) k]
    /\ (mon_set s = true -> mon_sig s = None -> mon_sig s3 = Some (classify (zlen buf) k)).
Proof. exact read_failure_closes. Qed.
Print Assumptions c15_failure_detected_and_closed.

(** the same from the two intermediate points of the read loop (this covers an oversize frame,
    which arrives at [LSawErr 3], and a frame the registry rejects, which arrives at [LAtClose 4 4]) *)
Theorem c15_pending_failure_closes : forall pol m p tr s c,
  run Fixed pol (init m p) tr = Some s ->
  is_open s = true -> loops s (gen s) = LSawErr c ->
  exists s1 s2 l, step Fixed pol s (ELoop (gen s) 0) = Some (s1, [l])
    /\ step Fixed pol s1 (ELoop (gen s) 1) = Some (s2, [5; Z.of_nat (gen s); c])
    /\ is_open s2 = false /\ gen s2 = gen s /\ pub s2 (gen s) = [c] /\ loops s2 (gen s) = LExited
    /\ closes s2 = closes s ++ [c]
    /\ (mon_set s = true -> mon_sig s = None -> mon_sig s2 = Some c).
Proof. exact saw_err_closes. Qed.
Print Assumptions c15_pending_failure_closes.

Theorem c15_rejected_frame_closes : forall pol m p tr s c l,
  run Fixed pol (init m p) tr = Some s ->
  is_open s = true -> loops s (gen s) = LAtClose c l ->
  exists s', step Fixed pol s (ELoop (gen s) 1) = Some (s', [5; Z.of_nat (gen s); c])
    /\ is_open s' = false /\ gen s' = gen s /\ pub s' (gen s) = [c] /\ loops s' (gen s) = LExited
    /\ closes s' = closes s ++ [c]
    /\ (mon_set s = true -> mon_sig s = None -> mon_sig s' = Some c).
Proof. exact at_close_closes. Qed.
Print Assumptions c15_rejected_frame_closes.

(** while the transport is open a read loop of the current generation is alive (reading, or
    holding an error it is about to report), provided the underlying Close never fails when a
    read loop calls it (if it does, the code leaves the transport open without a reader) *)
Theorem c15_live_reader_while_open : forall pol m p tr s,
  Forall (fun e => loop_close_ok e = true) tr ->
  run Fixed pol (init m p) tr = Some s ->
  is_open s = true -> live (loops s (gen s)).
Proof. exact live_reader. Qed.
Print Assumptions c15_live_reader_while_open.

(** ** every cut point of every inbound stream *)

(** for every byte stream and every way of cutting it into chunks that the read loop has consumed
    without meeting an error: the bytes are exactly the encodings (4-byte size, body) of the
    frames handed to the registry - all accepted, in order - followed by an unfinished frame
    [buf'] (fewer than 4 bytes, or fewer than its size field announces).  So whatever chunking
    delivers the first k bytes of a multi-frame stream, the loop has executed the frames that
    lie wholly inside them and stands |buf'| bytes into the next one. *)
Theorem c15_frames_any_chunking : forall chunks buf' done',
  Forall bytes_ok chunks ->
  feed_all [] chunks [] = Some (buf', done') ->
  exists e, concat chunks = stream e ++ buf' /\ done' = frames_of e /\ Forall good e /\ incomplete buf'.
Proof. exact frames_any_chunking. Qed.
Print Assumptions c15_frames_any_chunking.

(** [feed_all] is what the model's EFeed steps compute on the read loop's buffer, and those steps
    move nothing else *)
Theorem c15_feed_steps : forall pol g chunks s buf done buf' done',
  loops s g = LReading buf ->
  feed_all buf chunks done = Some (buf', done') ->
  exists s', run Fixed pol s (map (EFeed g) chunks) = Some s'
    /\ loops s' g = LReading buf' /\ is_open s' = is_open s /\ gen s' = gen s /\ pub s' = pub s
    /\ (forall i, i <> g -> loops s' i = loops s i).
Proof. exact feed_all_run. Qed.
Print Assumptions c15_feed_steps.

(** and the cause a read error then gets depends only on that position: between frames, inside
    the 4-byte header, inside the body (with c15_failure_detected_and_closed: for every cut
    offset and every error the transport ends closed with exactly this cause) *)
Theorem c15_cause_by_cut_position : forall n k, 0 <= n ->
  classify n k =
  match k with
  | EofTte => if n =? 0 then 0 else 6
  | EofRaw => if n =? 0 then 1 else if n <? 4 then 2 else 6
  | ErrRaw t => if n <? 4 then 1000 + 10 * t else 1000 + 10 * t + 1
  | ErrTte t => 1000 + 10 * t + 2
  | ClosedErr => 5
  end.
Proof. exact classify_by_position. Qed.
Print Assumptions c15_cause_by_cut_position.

(** ** the cause is nil only for Close() or an error classified as end of file *)

(** (1) [classify] is nil exactly for an END_OF_FILE exception that arrives between two frames (no
    byte of a next frame received); (2) a step that publishes does so on the current generation's
    channel while closing it, with nil for Close() and the calling loop's recorded cause
    otherwise; (3) a loop about to close carries cause nil exactly in the EOF branch; (4) a
    loop holding "error, cause nil" got it from a read error so classified *)
Theorem c15_nil_cause_only_for_close_or_eof :
  (forall n k, rkind_wf k -> (classify n k = 0 <-> k = EofTte /\ n = 0))
  /\ (forall pol m p tr s e s' o g,
        run Fixed pol (init m p) tr = Some s -> step Fixed pol s e = Some (s', o) -> pub s' g <> pub s g ->
        g = gen s /\ is_open s = true /\ is_open s' = false /\
        exists c, pub s' g = pub s g ++ [c] /\
          ((e = EClose 1 /\ c = 0) \/ (exists l, e = ELoop g 1 /\ loops s g = LAtClose c l)))
  /\ (forall pol m p tr s g c l,
        run Fixed pol (init m p) tr = Some s -> loops s g = LAtClose c l -> (c = 0 <-> l = 2))
  /\ (forall pol s e s' o g,
        step Fixed pol s e = Some (s', o) -> loops s' g = LSawErr 0 ->
        loops s g = LSawErr 0 \/
        exists buf k, e = EReadErr g k /\ loops s g = LReading buf /\ classify (zlen buf) k = 0).
Proof. exact nil_cause_chain. Qed.
Print Assumptions c15_nil_cause_only_for_close_or_eof.

(** ** Open, Close and IsOpen never block and answer consistently; read loops never block *)

Theorem c15_no_deadlock : forall pol m p tr s,
  run Fixed pol (init m p) tr = Some s ->
  step Fixed pol s EIsOpen = Some (s, [b2z (is_open s && under s)])
  /\ (if is_open s then step Fixed pol s (EOpen 0) = Some (s, [1])                    (* ALREADY_OPEN *)
      else if under s then exists s', step Fixed pol s (EOpen 3) = Some (s', [0]) /\ is_open s' = true
      else (exists s', step Fixed pol s (EOpen 1) = Some (s', [0]) /\ is_open s' = true)
           /\ step Fixed pol s (EOpen 2) = Some (s, [3]))
  /\ (if is_open s
      then (exists s', step Fixed pol s (EClose 1) = Some (s', [0; Z.of_nat (gen s); 0]) /\ is_open s' = false)
           /\ step Fixed pol s (EClose 2) = Some (s, [3])
      else step Fixed pol s (EClose 0) = Some (s, [2]))                                (* NOT_OPEN *)
  /\ (forall g, (exists c, loops s g = LSawErr c) \/ (exists c l, loops s g = LAtClose c l) ->
                exists a r, step Fixed pol s (ELoop g a) = Some r).
Proof. exact no_deadlock. Qed.
Print Assumptions c15_no_deadlock.

(** ** generations are independent (the invariant the repair establishes) *)

(** a step of read loop [g] touches no other generation's close signal or Closed() channel, and
    changes the open flag only if [g] is the current generation - in any state at all *)
Theorem c15_generations_independent : forall pol s g a s' o,
  step Fixed pol s (ELoop g a) = Some (s', o) ->
  (forall i, i <> g -> sig s' i = sig s i /\ pub s' i = pub s i)
  /\ (is_open s' <> is_open s -> g = gen s)
  /\ gen s' = gen s.
Proof. exact generations_independent'. Qed.
Print Assumptions c15_generations_independent.

(** the tree as found: (1) after failure, reopen, failure the transport is open, its read loop is
    gone and nothing was published for the second failure; (2) after failure and reopen no
    Close() step exists - the send on the full close signal blocks with the mutex held *)
Theorem c15_stale_close_token_refuted :
  (exists s, run Pinned pol0 (init false false) tr_silent = Some s
     /\ is_open s = true /\ loops s (gen s) = LExited /\ pub s (gen s) = [] /\ closes s = [1070])
  /\ (exists s, run Pinned pol0 (init false false) tr_deadlock = Some s
     /\ is_open s = true /\ forall a, step Pinned pol0 s (EClose a) = None).
Proof. exact (conj pinned_silent_second_failure pinned_close_deadlock). Qed.
Print Assumptions c15_stale_close_token_refuted.

(** ** the monitor *)

(** whenever the runner is waiting before a reopen attempt: fewer than MaxReopenAttempts attempts
    have failed (so at most MaxReopenAttempts are ever made per close), every wait after the
    first is at most MaxWait, and for non-negative settings the wait is exactly InitialWait,
    then min(2^k * InitialWait, MaxWait) *)
Theorem c15_reopens_as_policy_allows : forall pol m p tr s prev w,
  run Fixed pol (init m p) tr = Some s -> mon s = MWait prev w ->
  0 <= prev < p_max pol
  /\ (prev = 0 -> w = p_init pol)
  /\ (0 < prev -> w <= p_maxw pol)
  /\ (0 <= p_init pol -> 0 <= p_maxw pol -> w = wait_of pol prev).
Proof. exact mon_waits. Qed.
Print Assumptions c15_reopens_as_policy_allows.

(** F13, left in the code (known finding): the first wait is not capped by MaxWait *)
Theorem c15_first_wait_uncapped_refuted :
  exists pol tr s w, run Fixed pol (init true false) tr = Some s /\ mon s = MWait 0 w /\ p_maxw pol < w.
Proof. exact first_wait_uncapped. Qed.
Print Assumptions c15_first_wait_uncapped_refuted.

(** when the user leaves reopening to the monitor ([run_polite]: no Open() while a notification
    is queued or being handled), a live runner has been handed the cause of every close, in
    order, except that the latest may still be in its queue *)
Theorem c15_monitor_notified_every_time : forall pol p tr s,
  run_polite Fixed pol (init true p) tr = Some s ->
  mon s <> MDone ->
  handled s ++ pending s = closes s.
Proof. exact told_every_close. Qed.
Print Assumptions c15_monitor_notified_every_time.

(** recoverable, again and again: in every state reached that way in which an unclean close is
    queued for an idle runner with a policy that allows reopening, the runner's two steps are
    enabled and give an open transport of the next generation with a fresh read loop, an empty
    Closed() channel and an idle runner with an empty queue - the situation after a first Open *)
Theorem c15_recoverable_repeatedly : forall pol p tr s c,
  run_polite Fixed pol (init true p) tr = Some s ->
  mon s = MIdle -> mon_sig s = Some c -> c <> 0 -> 0 < p_max pol ->
  exists s1 s2,
    step Fixed pol s EMonRecv = Some (s1, [2; c; 1; p_init pol])
    /\ step Fixed pol s1 (EMon (if under s then 3 else 1)) = Some (s2, [4; 0; 0; 0; 0])
    /\ is_open s2 = true /\ gen s2 = S (gen s) /\ loops s2 (gen s2) = LReading []
    /\ pub s2 (gen s2) = [] /\ mon s2 = MIdle /\ mon_sig s2 = None.
Proof. exact recoverable. Qed.
Print Assumptions c15_recoverable_repeatedly.

(** repaired (was known finding C15-eof-inside-frame-clean): a stream that ends inside a frame -
    after 1..3 header bytes with an END_OF_FILE exception, or in the body with plain io.EOF - is
    reported as an unclean close: error 6 on Closed(), OnClosedUncleanly, the runner goes on to
    reopen; the same END_OF_FILE between frames still is a clean close *)
Theorem c15_eof_inside_frame_reported_unclean :
  (exists s, run Fixed pol0 (init true false) tr_cut_body = Some s
     /\ pub s 1%nat = [6] /\ handled s = [6] /\ mon s = MWait 0 5 /\ is_open s = false)
  /\ (exists s, run Fixed pol0 (init true false) tr_cut_header = Some s
     /\ pub s 1%nat = [6] /\ handled s = [6] /\ mon s = MWait 0 5 /\ is_open s = false)
  /\ (exists s, run Fixed pol0 (init true false) tr_cut_boundary = Some s
     /\ pub s 1%nat = [0] /\ handled s = [0] /\ mon s = MDone /\ is_open s = false).
Proof. exact eof_inside_frame_unclean. Qed.
Print Assumptions c15_eof_inside_frame_reported_unclean.

(** for every error and every cut position inside a frame the cause is not nil (with
    c15_failure_detected_and_closed: the transport ends closed with that non-nil cause, and with
    c15_nil_cause_only_for_close_or_eof: nil on Closed() means Close() or END_OF_FILE between frames) *)
Theorem c15_read_error_inside_frame_never_clean : forall n k,
  rkind_wf k -> n <> 0 -> classify n k <> 0.
Proof. exact classify_inside_frame_not_nil. Qed.
Print Assumptions c15_read_error_inside_frame_never_clean.

(** the classification of the code before that repair ([classify_pinned]): END_OF_FILE after two
    header bytes, io.EOF after one body byte, and END_OF_FILE at any position were nil causes *)
Theorem c15_eof_inside_frame_clean_pinned_refuted :
  classify_pinned 2 EofTte = 0 /\ classify_pinned 5 EofRaw = 0
  /\ forall n, classify_pinned n EofTte = 0.
Proof. exact classify_pinned_nil_inside_frame. Qed.
Print Assumptions c15_eof_inside_frame_clean_pinned_refuted.

(** ** the hypotheses are satisfiable by non-trivial histories *)

(** two failures in a row around a reopen by hand, then Close() after a third open *)
Example c15_nonvacuous_history :
  exists s, run Fixed pol0 (init false false)
              (tr_silent ++ [ELoop 2 1; EOpen 1; EFeed 3 [0; 0; 0]; EClose 1; ELoop 3 0]) = Some s
    /\ gen s = 3%nat /\ is_open s = false /\ pub s 1%nat = [1070] /\ pub s 2%nat = [1080] /\ pub s 3%nat = [0]
    /\ loops s 3%nat = LExited.
Proof. eexists. split; [vm_compute; reflexivity|]. cbn. auto 10. Qed.

(** a polite history with a monitor: failure, two failed reopen attempts, success, second failure *)
Example c15_nonvacuous_monitor :
  let pol := {| p_max := 3; p_init := 2; p_maxw := 3 |} in
  exists s, run_polite Fixed pol (init true false)
              [EOpen 1; EReadErr 1 (ErrTte 4); ELoop 1 0; ELoop 1 1; EMonRecv; EMon 2; EMon 2; EMon 1;
               EReadErr 2 (ErrRaw 9); ELoop 2 0; ELoop 2 1] = Some s
    /\ mon s = MIdle /\ mon_sig s = Some 1090 /\ handled s = [1042] /\ closes s = [1042; 1090] /\ gen s = 2%nat.
Proof. eexists. split; [vm_compute; reflexivity|]. cbn. auto 10. Qed.

Example c15_nonvacuous_waiting :
  let pol := {| p_max := 3; p_init := 2; p_maxw := 3 |} in
  exists s, run Fixed pol (init true false)
              [EOpen 1; EReadErr 1 (ErrTte 4); ELoop 1 0; ELoop 1 1; EMonRecv; EMon 2; EMon 2] = Some s
    /\ mon s = MWait 2 3.
Proof. eexists. split; [vm_compute; reflexivity|]. reflexivity. Qed.

(** three frames (the middle one carries a header block with _opid = 7), cut into chunks of 5 bytes and cut short
    2 bytes into the third: two frames executed, two bytes of unfinished frame *)
Example c15_nonvacuous_frames :
  let f := [0;0;0;0;14;0;0;0;5;95;111;112;105;100;0;0;0;1;55] in
  let chunks := [[0;0;0;19;0]; [0;0;0;14;0]; [0;0;5;95;111]; [112;105;100;0;0]; [0;1;55;0;0]; [0;19;0;0;0]; [0;14;0;0;0]; [5;95;111;112;105]; [100;0;0;0;1]; [55;0;0]] in
  exec_ok f = true /\
  feed_all [] chunks [] = Some ([0;0], [(19, true); (19, true)]).
Proof. vm_compute. split; reflexivity. Qed.
