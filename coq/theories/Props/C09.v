(** C09 — the request context travels with the call and back.
    Contexts: Model/Context.v (heap model of FContextImpl, ReadRequestHeader, ReadResponseHeader);
    the wire: Model/Headers.v (marshal / read_header, proved inverse in C04). [send_request] writes
    the caller's request headers, lets them travel as bytes and reads them into a new server-side
    context; [send_response] does the same for the handler's response headers, into the caller's
    context. Transport and protocol below the header block are not part of this statement (the
    header block is the same bytes for every transport and protocol: C04; end-to-end: C03). *)
From Coq Require Import ZArith List.
From FV Require Import Base.Res Base.Bytes Model.Headers Model.Receivers Model.Context
  Proofs.HeadersMapProofs Proofs.ContextProofs Proofs.ContextWireProofs Proofs.ContextCallProofs.
Import ListNotations.
Open Scope Z_scope.

(** the handler's context holds exactly the caller's headers (all names but _opid: user headers,
    correlation id, timeout), a FRESH op id, and a response map carrying the request's op id and the
    correlation id and nothing else; the caller's context is untouched *)
Theorem c09_server_sees_request : forall s i p c pe op s',
  good s -> ctx_at s i = Some c -> header_size (req_of s c) < 2147483648 ->
  nth_error (protos s) p = Some pe ->
  lookup opid_header (req_of s c) = Some op ->
  send_request s i p = Some s' ->
  exists c2, ctxs s' = ctxs s ++ [c2]
    /\ (forall k, k <> opid_header -> lookup k (req_of s' c2) = lookup k (req_of s c))
    /\ lookup opid_header (req_of s' c2) = Some (format_uint ((next_op s + 1) mod two64))
    /\ correlation_id s' c2 = correlation_id s c
    /\ timeout_of s' c2 = timeout_of s c
    /\ lookup opid_header (resp_of s' c2) = Some op
    /\ (correlation_id s c <> [] -> lookup cid_header (resp_of s' c2) = Some (correlation_id s c))
    /\ (forall k, k <> opid_header -> k <> cid_header -> lookup k (resp_of s' c2) = None)
    /\ req_of s' c = req_of s c /\ resp_of s' c = resp_of s c.
Proof. exact request_travels. Qed.
Print Assumptions c09_server_sees_request.

(** a request without an op id is rejected: no context is produced and nothing changes *)
Theorem c09_missing_opid_rejected : forall s i p c pe,
  good s -> ctx_at s i = Some c -> header_size (req_of s c) < 2147483648 ->
  nth_error (protos s) p = Some pe -> lookup opid_header (req_of s c) = None ->
  send_request s i p = Some s.
Proof. exact missing_opid_rejected. Qed.
Print Assumptions c09_missing_opid_rejected.

(** every response header the handler set (any name but _opid) is on the caller's context when the
    call returns; headers the caller already had and the handler did not set are kept; a handler-set
    _opid cannot displace the caller's; the caller's request headers are untouched *)
Theorem c09_caller_sees_handler_headers : forall s j i cj ci s',
  good s -> ctx_at s j = Some cj -> ctx_at s i = Some ci ->
  header_size (resp_of s cj) < 2147483648 ->
  send_response s j i = Some s' ->
  (forall k, k <> opid_header ->
     lookup k (resp_of s' ci) = match lookup k (resp_of s cj) with
                                | Some v => Some v
                                | None => lookup k (resp_of s ci)
                                end)
  /\ lookup opid_header (resp_of s' ci) = lookup opid_header (resp_of s ci)
  /\ req_of s' ci = req_of s ci.
Proof. exact response_travels. Qed.
Print Assumptions c09_caller_sees_handler_headers.

(** the timeout travels as whole milliseconds: SetTimeout(d) then Timeout() = (d quot 1ms) * 1ms *)
Theorem c09_timeout_whole_milliseconds : forall ms,
  0 <= ms < 9223372036854775808 -> parse_int (format_int ms) = Some ms.
Proof. exact parse_format_int_nonneg. Qed.
Print Assumptions c09_timeout_whole_milliseconds.

(** THE WHOLE CALL ([whole_call]: the function the correspondence judge runs for every call made
    through a real FBaseProcessor, normal replies and RESPONSE_TOO_LARGE error replies alike): the
    caller's context carries an op id, the handler adds [hadd] to the context it is given, the
    response headers fit a frame. When the call returns, under every name but _opid the caller's
    response map holds the handler context's entry if there is one -- the handler's LAST value for
    that name, or the correlation id under _cid -- and otherwise what the caller had before; the
    caller's _opid entry and request headers are untouched; and the handler's context held exactly
    the caller's request headers under all names but _opid, with a fresh op id. *)
Theorem c09_whole_call : forall s i c op hadd s',
  good s -> ctx_at s i = Some c -> header_size (req_of s c) < 2147483648 ->
  lookup opid_header (req_of s c) = Some op ->
  header_size (handler_resp op (correlation_id s c) hadd) < 2147483648 ->
  whole_call s i hadd = Some s' ->
  (forall k, k <> opid_header ->
     lookup k (resp_of s' c) =
       match lookup k (handler_resp op (correlation_id s c) hadd) with
       | Some v => Some v
       | None => lookup k (resp_of s c)
       end)
  /\ lookup opid_header (resp_of s' c) = lookup opid_header (resp_of s c)
  /\ req_of s' c = req_of s c
  /\ exists cj, nth_error (ctxs s') (length (ctxs s)) = Some cj
       /\ (forall k, k <> opid_header -> lookup k (req_of s' cj) = lookup k (req_of s c))
       /\ lookup opid_header (req_of s' cj) = Some (format_uint ((next_op s + 1) mod two64))
       /\ resp_of s' cj = handler_resp op (correlation_id s c) hadd.
Proof. exact whole_call_spec. Qed.
Print Assumptions c09_whole_call.

(** what the handler's entry is, name by name: its last value for the name, else the correlation id
    under _cid, else the request's op id under _opid, else nothing *)
Theorem c09_handler_entry : forall op cid hadd k,
  lookup k (handler_resp op cid hadd) =
    match lookup k hadd with
    | Some v => Some v
    | None => if bytes_eqb k cid_header then (match cid with [] => None | _ => Some cid end)
              else if bytes_eqb k opid_header then Some op else None
    end.
Proof. exact handler_entry. Qed.
Print Assumptions c09_handler_entry.

(** the fresh op id of the handler's context differs from the op id of every context that exists
    (so it can be used for onward calls): C17's c17_opids_distinct applied to the extended history *)

(** non-vacuity: a call with user headers, a correlation id and a 1.5 ms timeout; the handler adds
    two response headers and tries to overwrite _opid *)
Example c09_nonvacuous :
  let ops := [ONew [99; 105; 100]; ONewProto; OAdd 0 MReq [117] [49]; OSetTimeout 0 1500000] in
  match run (init 6) ops with
  | Some s =>
    match send_request s 0 0 with
    | Some s1 =>
      match run s1 [OAdd 1 MResp [114] [50]; OAdd 1 MResp opid_header [57; 57]] with
      | Some s2 =>
        match send_response s2 1 0 with
        | Some s3 =>
          let c0 := nth 0 (ctxs s3) (Build_ctx 0 0 0 true) in
          let c1 := nth 1 (ctxs s3) (Build_ctx 0 0 0 true) in
          lookup [117] (req_of s3 c1) = Some [49]
          /\ correlation_id s3 c1 = [99; 105; 100]
          /\ timeout_of s3 c1 = 1000000
          /\ opid_of s3 c1 <> opid_of s3 c0
          /\ lookup [114] (resp_of s3 c0) = Some [50]
          /\ lookup cid_header (resp_of s3 c0) = Some [99; 105; 100]
          /\ lookup opid_header (resp_of s3 c0) = None
        | None => False
        end
      | None => False
      end
    | None => False
    end
  | None => False
  end.
Proof. vm_compute. repeat split; discriminate. Qed.

(** non-vacuity of c09_whole_call: its premises hold on a concrete call and its conclusion is visible *)
Example c09_whole_call_nonvacuous :
  let ops := [ONew [99; 105; 100]; OAdd 0 MReq [117] [49]] in
  let hadd := [([114], [50]); ([114], [51]); (opid_header, [57])] in
  match run (init 6) ops with
  | Some s =>
    match ctx_at s 0, whole_call s 0 hadd with
    | Some c, Some s' =>
      header_size (req_of s c) < 2147483648
      /\ lookup opid_header (req_of s c) = Some [55]
      /\ header_size (handler_resp [55] (correlation_id s c) hadd) < 2147483648
      /\ lookup [114] (resp_of s' c) = Some [51]
      /\ lookup cid_header (resp_of s' c) = Some [99; 105; 100]
      /\ lookup opid_header (resp_of s' c) = None
    | _, _ => False
    end
  | None => False
  end.
Proof. vm_compute. repeat split; discriminate. Qed.
