(** C20 — NATS server shutdown drains: accepted requests answered, none lost or duplicated.
    Only theorem statements, each closed by [exact] of a lemma from Proofs/. *)
From Coq Require Import ZArith List Bool Arith Permutation.
From FV Require Import Model.NatsServer Proofs.NatsServerProofs.
Import ListNotations.

(** termination half of the progress theorem: on every schedule, every step other than a client
    publishing or the user calling Stop strictly decreases a natural-number measure; hence every
    run of such steps from s is at most [measure s] long (no livelock, for every worker count,
    queue length, number of subscriptions and every state, reachable or not). *)
Theorem c20_measure_decreases : forall s e s',
  internal e = true -> step s e = Some s' -> measure s' < measure s.
Proof. exact measure_decreases. Qed.
Print Assumptions c20_measure_decreases.

Theorem c20_internal_runs_bounded : forall evs s s',
  forallb internal evs = true -> run s evs = Some s' -> length evs + measure s' <= measure s.
Proof. exact internal_run_bounded. Qed.
Print Assumptions c20_internal_runs_bounded.
