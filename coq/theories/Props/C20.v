(** C20 — NATS server shutdown drains: accepted requests answered, none lost or duplicated.
    Only theorem statements, each closed by [exact] of a lemma from Proofs/.

    The model (Model/NatsServer.v) is an interleaving small-step semantics of fNatsServer
    (Serve, Stop, handler, worker, drainNatsMessages) together with the nats.go client
    (per-subscription delivery goroutine, Drain/checkDrained, Flush, Barrier) and the broker's
    routing.  [reachable n w q s]: s is reached from the state after Serve has subscribed to n
    subjects and started w workers on a work queue of length q, by ANY sequence of events: any
    number of requests published at any time on any subject, with or without reply subject, with
    or without output, Stop called at any point, every interleaving of the goroutines.
    Worker count, queue length (0 = unbuffered included) and number of subjects are universally
    quantified; the only hypothesis is w >= 1 where stated (with w = 0 nothing is ever processed
    and Stop deadlocks: Example c20_zero_workers_deadlock). *)
From Coq Require Import ZArith List Bool Arith Permutation.
From FV Require Import Model.NatsServer Proofs.NatsServerProofs.
Import ListNotations.

(** conservation: every published request is on the wire, was dropped by the broker (no interest)
    or was accepted; every accepted request is in exactly one of: pending in the client library /
    in the handler, discarded for lack of a reply subject, in the work queue, in a worker,
    finished.  None is lost, and the replies are those of the finished requests with output. *)
Theorem c20_conservation : forall n w q s, reachable n w q s ->
  Permutation (published (g s)) (wire s ++ dropped (g s) ++ accepted (g s))
  /\ Permutation (accepted (g s))
       (flat_map sub_msgs (subs s) ++ noreply (g s) ++ workc s ++ flat_map worker_msgs (workers s)
        ++ finished (g s))
  /\ lost (g s) = []
  /\ replied (g s) = map mid (filter has_out (finished (g s))).
Proof. exact conservation_perm. Qed.
Print Assumptions c20_conservation.

(** a request that reaches the broker before Stop is called is accepted (delivered to the
    server's subscription) *)
Theorem c20_received_before_stop_accepted : forall n w q s m rest, reachable n w q s ->
  stop s = TNotCalled -> wire s = m :: rest -> msub m < n ->
  exists s', step s EArrive = Some s' /\ accepted (g s') = accepted (g s) ++ [m] /\ wire s' = rest.
Proof. exact before_stop_accepted. Qed.
Print Assumptions c20_received_before_stop_accepted.

(** when Serve has returned, Stop has returned, every accepted request (whenever it was accepted:
    before or during Stop) has been discarded for lack of a reply subject or processed to the end
    exactly once, its reply published iff it produced output, and nothing is left anywhere *)
Theorem c20_all_before_stop_replied : forall n w q s, reachable n w q s -> 1 <= w -> serve s = SReturned ->
  stop s = TReturned
  /\ Permutation (accepted (g s)) (noreply (g s) ++ finished (g s))
  /\ Permutation (startedl (g s)) (finished (g s))
  /\ replied (g s) = map mid (filter has_out (finished (g s)))
  /\ workc s = [] /\ Forall quiet (subs s) /\ Forall (fun x => x = WExited) (workers s).
Proof. exact returned_all_done. Qed.
Print Assumptions c20_all_before_stop_replied.

(** ... split by reply subject: the accepted requests that carry a reply subject are exactly the
    processed ones (equal as multisets: each exactly once), those without were discarded *)
Theorem c20_accepted_with_reply_processed_once : forall n w q s,
  reachable n w q s -> 1 <= w -> serve s = SReturned ->
  Permutation (filter has_reply (accepted (g s))) (finished (g s))
  /\ Permutation (filter (fun m => negb (has_reply m)) (accepted (g s))) (noreply (g s)).
Proof. exact returned_by_reply. Qed.
Print Assumptions c20_accepted_with_reply_processed_once.

(** no request id is answered twice (in any reachable state) *)
Theorem c20_replies_unique : forall n w q s, reachable n w q s ->
  NoDup (map mid (published (g s))) -> NoDup (replied (g s)).
Proof. exact replies_unique. Qed.
Print Assumptions c20_replies_unique.

(** after Stop has returned nothing is accepted any more, whatever happens next ... *)
Theorem c20_none_after_stop : forall n w q evs s s', reachable n w q s ->
  stop s = TReturned -> run s evs = Some s' -> accepted (g s') = accepted (g s) /\ stop s' = TReturned.
Proof. exact none_after_stop. Qed.
Print Assumptions c20_none_after_stop.

(** ... and only accepted requests are ever started *)
Theorem c20_only_accepted_started : forall n w q s m, reachable n w q s ->
  In m (startedl (g s)) -> In m (accepted (g s)).
Proof. exact started_incl_accepted. Qed.
Print Assumptions c20_only_accepted_started.

(** close(workC) is reached only when no handler is running or can run again: no send on a closed
    channel, no pending request dropped by the client library *)
Theorem c20_no_send_on_closed : forall n w q s, reachable n w q s ->
  crashed s = false /\ lost (g s) = [] /\ (closed s = true -> Forall quiet (subs s)).
Proof. exact no_send_on_closed. Qed.
Print Assumptions c20_no_send_on_closed.

(** progress, part 1 (no deadlock): once Stop has been called, in every reachable state either
    both Stop and Serve have returned or a step of the system itself is enabled — queue full,
    unbuffered queue, handler blocked, all included *)
Theorem c20_progress : forall n w q s, reachable n w q s -> 1 <= w -> stop s <> TNotCalled ->
  (serve s = SReturned /\ stop s = TReturned) \/ exists e, internal e = true /\ step s e <> None.
Proof. exact progress_enabled. Qed.
Print Assumptions c20_progress.

(** progress, part 2 (no livelock): every step other than a client publishing or the user calling
    Stop strictly decreases a natural-number measure, in every state *)
Theorem c20_measure_decreases : forall s e s',
  internal e = true -> step s e = Some s' -> measure s' < measure s.
Proof. exact measure_decreases. Qed.
Print Assumptions c20_measure_decreases.

Theorem c20_internal_runs_bounded : forall evs s s',
  forallb internal evs = true -> run s evs = Some s' -> length evs + measure s' <= measure s.
Proof. exact internal_run_bounded. Qed.
Print Assumptions c20_internal_runs_bounded.

(** hence on EVERY schedule Stop and Serve return: any run from a state where Stop has been called
    that cannot be extended by a step of the system ends with both returned ... *)
Theorem c20_every_schedule_returns : forall n w q s evs s',
  reachable n w q s -> 1 <= w -> stop s <> TNotCalled ->
  run s evs = Some s' ->
  (forall e, internal e = true -> step s' e = None) ->
  serve s' = SReturned /\ stop s' = TReturned.
Proof. exact maximal_runs_return. Qed.
Print Assumptions c20_every_schedule_returns.

(** ... and such a run exists and is at most [measure s] steps long *)
Theorem c20_return_reachable : forall n w q, 1 <= w -> forall k s,
  measure s <= k -> reachable n w q s -> stop s <> TNotCalled ->
  exists evs s', forallb internal evs = true /\ run s evs = Some s'
                 /\ serve s' = SReturned /\ stop s' = TReturned /\ length evs <= measure s.
Proof. exact can_return. Qed.
Print Assumptions c20_return_reachable.

(* ------------------------------------------------------------------ non-vacuity *)
(** a scheduler that always fires the first enabled event of the system *)
Fixpoint drive (fuel : nat) (s : st) : st :=
  match fuel with
  | O => s
  | S f => match find (enabled s) (candidates s) with
           | Some e => match step s e with Some s' => drive f s' | None => s end
           | None => s
           end
  end.

Definition rq (i : Z) (sb : nat) : msg := mkMsg i sb true true.

(** 1 worker, queue of length 1, burst of 4 (longer than queue + worker), one request without reply
    subject, one without output, Stop called while everything is still on the wire, one request
    published after everything has returned *)
Example c20_nonvacuous_full_queue :
  exists s, run (init 1 1 1)
                [EPublish (rq 1 0); EPublish (rq 2 0); EPublish (mkMsg 3 0 false true);
                 EPublish (mkMsg 4 0 true false); EPublish (rq 5 0);
                 EArrive; EArrive; EArrive; EArrive; EArrive; EPop 0; EEnq 0; EPop 0; EStopCall] = Some s
  /\ let s' := drive 200 s in
     serve s' = SReturned /\ stop s' = TReturned /\ replied (g s') = [1; 2; 5]%Z
     /\ map mid (noreply (g s')) = [3]%Z /\ map mid (finished (g s')) = [1; 2; 4; 5]%Z
     /\ (exists s2, run s' [EPublish (rq 6 0); EArrive] = Some s2 /\ map mid (dropped (g s2)) = [6]%Z).
Proof. eexists. split; [vm_compute; reflexivity|]. vm_compute. repeat split. eexists. split; reflexivity. Qed.

(** unbuffered queue, 2 subjects, 3 workers *)
Example c20_nonvacuous_unbuffered :
  let s := drive 300 (match run (init 2 3 0)
                        [EPublish (rq 1 0); EPublish (rq 2 1); EPublish (rq 3 1); EPublish (rq 4 0);
                         EArrive; EArrive; EStopCall; EArrive; EArrive] with Some s => s | None => init 0 0 0 end) in
  serve s = SReturned /\ stop s = TReturned /\ length (replied (g s)) = 4.
Proof. vm_compute. repeat split. Qed.

(** the hypothesis 1 <= w is necessary: without workers a single accepted request blocks its
    handler for ever, the barrier never fires and Stop never returns *)
Example c20_zero_workers_deadlock :
  exists s, run (init 1 0 0)
                [EPublish (rq 1 0); EArrive; EPop 0; EStopCall; ERecvQuit; EStopClose; EDrainSub;
                 EBrokerUnsub 0; EFlush; EBarrier] = Some s
  /\ quiescent s = true /\ serve s = SBarrierSet /\ stop s = TWaitDone.
Proof. eexists. split; [vm_compute; reflexivity|]. vm_compute. repeat split. Qed.
