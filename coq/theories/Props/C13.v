(** C13 — every call returns within its FContext timeout (logic; wall-clock punctuality is measured).
    Same model as C01 plus the timeout arithmetic of Model/Context.v. The theorems say that the
    deadline branch of the select cannot be disabled by anything another actor does (a stalled
    write or flush is another goroutine's disabled step), that the outcome is classified by the
    branch taken, that no registration is left behind, and that every positive timeout yields a
    deadline. That the Go timer fires and the goroutine is scheduled within the allowance is
    measured by the harness, not proved. *)
From Coq Require Import ZArith List Lia.
From FV Require Model.Context.
From FV Require Import Model.Registry Proofs.RegistryProofs.
Import ListNotations.
Open Scope Z_scope.

(** a caller waiting in its select with a deadline can always take the timeout branch - whatever the
    send goroutine, the reader and all other callers are doing - and that step touches nothing else *)
Theorem c13_timeout_branch_always_enabled : forall b s i,
  (i < ncallers s)%nat -> c_phase (callers s i) = CSelect -> c_deadline (callers s i) = true ->
  exists s', step b s (ETake i TTimeout) = Some s' /\ c_phase (callers s' i) = CTook TTimeout None
             /\ reg s' = reg s /\ rd s' = rd s /\ (forall j, j <> i -> callers s' j = callers s j).
Proof. exact timeout_branch_enabled. Qed.
Print Assumptions c13_timeout_branch_always_enabled.

(** the deferred Unregister always runs, and the reported outcome is TIMED_OUT exactly when the
    timeout branch was taken, the send error exactly when that branch was taken, and the frame
    otherwise - never two of them *)
Theorem c13_outcome_classification : forall b s i t got,
  (i < ncallers s)%nat -> c_phase (callers s i) = CTook t got -> (t = TResult -> got <> None) ->
  exists s' o, step b s (EUnregister i) = Some s' /\ c_phase (callers s' i) = CDone o
    /\ (o = OTimedOut <-> t = TTimeout) /\ (o = OSendErr <-> t = TSendErr)
    /\ (forall f, o = OOk f <-> (t = TResult /\ got = Some f)).
Proof. exact unregister_outcome. Qed.
Print Assumptions c13_outcome_classification.

(** a finished request - success, timeout or send error - leaves no registration behind *)
Theorem c13_no_registration_left : forall b ops dl n evs s i o,
  distinct_ops ops n -> run b (init ops dl n) evs = Some s -> (i < n)%nat ->
  c_phase (callers s i) = CDone o -> reg_lookup (reg s) (ops i) = None.
Proof. exact done_not_registered. Qed.
Print Assumptions c13_no_registration_left.

(** every positive timeout is stored as at least one millisecond, so ToContext gives it a deadline
    (before the repair a timeout below 1 ms became 0 = "no deadline": DESIGN.md F12) *)
Theorem c13_positive_timeout_has_deadline : forall ns, 0 < ns -> 0 < Context.quot_ms ns.
Proof.
  intros ns H. unfold Context.quot_ms, Context.ns_per_ms.
  destruct ((Z.quot ns 1000000 =? 0) && (0 <? ns))%bool eqn:E; [lia|].
  assert (0 <= Z.quot ns 1000000) by (apply Z.quot_pos; lia).
  apply Bool.andb_false_iff in E. destruct E as [E|E]; [apply Z.eqb_neq in E; lia | apply Z.ltb_ge in E; lia].
Qed.
Print Assumptions c13_positive_timeout_has_deadline.

Example c13_nonvacuous :
  Context.quot_ms 500000 = 1 /\ Context.quot_ms 1500000 = 1 /\ Context.quot_ms 20000000 = 20 /\
  match run false (init (fun _ => 5) (fun _ => true) 1) [ERegister 0; ERelease 0; ETake 0 TTimeout; EUnregister 0] with
  | Some s => c_phase (callers s 0) = CDone OTimedOut /\ reg s = []
  | None => False
  end.
Proof. vm_compute. repeat split. Qed.
