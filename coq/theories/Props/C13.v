(** C13 — every call returns within its FContext timeout (logic; wall-clock punctuality is measured).
    Same model as C01 plus the timeout arithmetic of Model/Context.v. The theorems say that the
    deadline branch of the select cannot be disabled by anything another actor does (a stalled
    write or flush is another goroutine's disabled step), that the outcome is classified by the
    branch taken, that no registration is left behind ON ANY EXIT PATH (on NATS: not open, empty
    frame, Register error, oversize detected after Register, publish error, timeout, 503, result),
    and that every positive timeout yields a deadline. That the Go timer fires and the goroutine is
    scheduled within the allowance is measured by the harness, not proved. *)
From Coq Require Import ZArith List Lia.
From FV Require Model.Context.
From FV Require Import Model.Registry Proofs.RegistryProofs.
Import ListNotations.
Open Scope Z_scope.

(** a caller waiting in its select with a deadline can always take the timeout branch - whatever the
    send goroutine, the reader and all other callers are doing - and that step touches nothing else *)
Theorem c13_timeout_branch_always_enabled : forall tk b s i,
  (i < ncallers s)%nat -> c_phase (callers s i) = CSelect -> c_deadline (callers s i) = true ->
  exists s', step tk b s (ETake i TTimeout) = Some s' /\ c_phase (callers s' i) = CTook TTimeout None
             /\ reg s' = reg s /\ rd s' = rd s /\ (forall j, j <> i -> callers s' j = callers s j).
Proof. intros tk b s i Hi Hp Hd. apply timeout_branch_enabled; auto. Qed.
Print Assumptions c13_timeout_branch_always_enabled.

(** NATS: time.After(ctx.Timeout()) needs no deadline flag - the branch is enabled for EVERY waiting
    request, also one whose timeout is 0 *)
Theorem c13_timeout_branch_always_enabled_nats : forall b s i,
  (i < ncallers s)%nat -> c_phase (callers s i) = CSelect ->
  exists s', step KNats b s (ETake i TTimeout) = Some s' /\ c_phase (callers s' i) = CTook TTimeout None
             /\ reg s' = reg s /\ rd s' = rd s /\ (forall j, j <> i -> callers s' j = callers s j).
Proof. intros b s i Hi Hp. apply timeout_branch_enabled; auto. Qed.
Print Assumptions c13_timeout_branch_always_enabled_nats.

(** the deferred Unregister always runs, and the reported outcome is TIMED_OUT exactly when the
    timeout branch was taken, the send error exactly when that branch was taken, and the frame
    otherwise - never two of them (adapter; [TTooLarge] is not a way to leave the adapter's Request) *)
Theorem c13_outcome_classification : forall b s i t got,
  (i < ncallers s)%nat -> c_phase (callers s i) = CTook t got -> (t = TResult -> got <> None) -> t <> TTooLarge ->
  exists s' o, step KAdapter b s (EUnregister i) = Some s' /\ c_phase (callers s' i) = CDone o
    /\ (o = OTimedOut <-> t = TTimeout) /\ (o = OSendErr <-> t = TSendErr)
    /\ (forall f, o = OOk f <-> (t = TResult /\ got = Some f)).
Proof. exact unregister_outcome. Qed.
Print Assumptions c13_outcome_classification.

(** NATS: every way of leaving Request after Register succeeded - oversize, publish error, timeout,
    result - runs the deferred Unregister, which removes the request's op id from the registry, and
    the outcome is determined by the way taken; a result is SERVICE_NOT_AVAILABLE exactly when it is
    the empty frame *)
Theorem c13_outcome_classification_nats : forall b s i t got,
  (i < ncallers s)%nat -> c_phase (callers s i) = CTook t got -> (t = TResult -> got <> None) ->
  exists s' o, step KNats b s (EUnregister i) = Some s' /\ c_phase (callers s' i) = CDone o
    /\ reg s' = reg_remove (reg s) (c_op (callers s i))
    /\ (o = OTimedOut <-> t = TTimeout) /\ (o = OSendErr <-> t = TSendErr) /\ (o = OTooLarge <-> t = TTooLarge)
    /\ (o = ONotAvail <-> (t = TResult /\ exists f, got = Some f /\ is_na f = true))
    /\ (forall f, o = OOk f <-> (t = TResult /\ got = Some f /\ is_na f = false)).
Proof. exact unregister_outcome_nats. Qed.
Print Assumptions c13_outcome_classification_nats.

(** a finished request - whatever its outcome - leaves no registration behind *)
Theorem c13_no_registration_left : forall tk b ops dl dk n evs s i o,
  distinct_ops ops n -> run tk b (initd ops dl dk n) evs = Some s -> (i < n)%nat ->
  c_phase (callers s i) = CDone o -> reg_lookup (reg s) (ops i) = None.
Proof. exact done_not_registered. Qed.
Print Assumptions c13_no_registration_left.

(** ... and without any assumption on the op ids: no registry entry points at the channel of a
    finished request, on EVERY exit path ([o] ranges over all eight outcomes) of either transport *)
Theorem c13_no_registration_left_any_opids : forall tk b ops dl dk n evs s i o,
  run tk b (initd ops dl dk n) evs = Some s -> c_phase (callers s i) = CDone o ->
  forall k, ~ In (k, i) (reg s).
Proof. exact done_no_entry. Qed.
Print Assumptions c13_no_registration_left_any_opids.

(** a request whose FContext carries a malformed op id (a negative number in the model; getOpID fails)
    registers nothing - Register refuses it (before the repair it was registered under key 0, which
    Unregister could never remove: the NATS Request returned getOpID's error and left a registration
    behind) - so also this exit path leaves the registry as it found it *)
Theorem c13_malformed_opid_registers_nothing : forall tk b s i,
  (i < ncallers s)%nat -> c_phase (callers s i) = CNew -> c_op (callers s i) < 0 ->
  (tk = KNats -> c_data (callers s i) <> DEmpty) ->
  exists s', step tk b s (ERegister i) = Some s'
    /\ c_phase (callers s' i) = match tk with KNats => CDone ORegErr | KAdapter => CParked end
    /\ reg s' = reg s /\ rd s' = rd s /\ (forall k, k <> i -> callers s' k = callers s k).
Proof. exact malformed_opid_registers_nothing. Qed.
Print Assumptions c13_malformed_opid_registers_nothing.

(** every positive timeout is stored as at least one millisecond, so ToContext gives it a deadline
    (before the repair a timeout below 1 ms became 0 = "no deadline": DESIGN.md F12) *)
Theorem c13_positive_timeout_has_deadline : forall ns, 0 < ns -> 0 < Context.quot_ms ns.
Proof.
  intros ns H. unfold Context.quot_ms, Context.ns_per_ms.
  destruct ((Z.quot ns 1000000 =? 0) && (0 <? ns))%bool eqn:E; [lia|].
  assert (0 <= Z.quot ns 1000000) by (apply Z.quot_pos; lia).
  apply Bool.andb_false_iff in E. destruct E as [E|E]; [apply Z.eqb_neq in E; lia | apply Z.ltb_ge in E; lia].
Qed.
Print Assumptions c13_positive_timeout_has_deadline.

Example c13_nonvacuous :
  Context.quot_ms 500000 = 1 /\ Context.quot_ms 1500000 = 1 /\ Context.quot_ms 20000000 = 20 /\
  match run KAdapter false (init (fun _ => 5) (fun _ => true) 1) [ERegister 0; ERelease 0; ETake 0 TTimeout; EUnregister 0] with
  | Some s => c_phase (callers s 0) = CDone OTimedOut /\ reg s = []
  | None => False
  end.
Proof. vm_compute. repeat split. Qed.

(** NATS: oversize is detected after Register (the registration exists in between and receives
    frames), a publish error and a timeout without deadline flag; all three leave the registry empty *)
Example c13_nonvacuous_nats :
  let dk := fun i => match i with 0%nat => DTooLarge | _ => DNormal end in
  match run KNats false (initd (fun i => 5 + Z.of_nat i) (fun _ => false) dk 3)
            [ERegister 0; ERegister 1; ERegister 2] with
  | Some s => reg s = [(7, 2%nat); (6, 1%nat); (5, 0%nat)]
  | None => False
  end /\
  match run KNats false (initd (fun i => 5 + Z.of_nat i) (fun _ => false) dk 3)
            [ERegister 0; ERegister 1; ERegister 2; ERelease 0; EPublishFail 1; ERelease 2; ETake 2 TTimeout;
             EUnregister 1; EUnregister 2; EUnregister 0] with
  | Some s => c_phase (callers s 0) = CDone OTooLarge /\ c_phase (callers s 1) = CDone OSendErr
              /\ c_phase (callers s 2) = CDone OTimedOut /\ reg s = []
  | None => False
  end.
Proof. vm_compute. repeat split. Qed.
