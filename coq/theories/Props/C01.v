(** C01 — under multiplexing every RPC gets exactly its own response.
    Model/Registry.v: interleaving semantics of registry.go + Request of the adapter transport
    ([KAdapter]) and of the NATS transport ([KNats], with fNatsTransport.handler's status-503 path);
    every theorem quantifies over ALL event sequences the model accepts: any number of callers, any
    interleaving of caller / send-goroutine / clock / environment / reader steps, any arrival
    sequence (permutations, duplicates, late frames, op ids never issued, 503 status messages).
    Theorems stated with [tk] hold for both transports; [_nats] ones are specific to NATS. *)
From Coq Require Import ZArith List.
From FV Require Import Model.Registry Proofs.RegistryProofs.
From FV Require Gen.CtxLockSites Model.LockPaths.
Import ListNotations.
Open Scope Z_scope.

(** a request completes successfully only with a frame carrying its own op id *)
Theorem c01_own_response : forall tk b ops dl n evs s i f,
  run tk b (init ops dl n) evs = Some s -> c_phase (callers s i) = CDone (OOk f) -> f_op f = ops i.
Proof. intros tk b ops dl n. exact (own_response tk b ops dl (fun _ => DNormal) n). Qed.
Print Assumptions c01_own_response.

(** ... more precisely, on either transport and for any request data (normal, empty, oversize): the
    returned frame carries the request's op id, is one of the frames that reached dispatch during
    the run (nothing is invented) and - on NATS - is not the empty "service not available" frame *)
Theorem c01_own_response_nats : forall tk b ops dl dk n evs s i f,
  run tk b (initd ops dl dk n) evs = Some s -> c_phase (callers s i) = CDone (OOk f) ->
  f_op f = ops i /\ In f (arrivals evs) /\ (tk = KNats -> is_na f = false).
Proof. exact own_response_arrived. Qed.
Print Assumptions c01_own_response_nats.

(** a frame whose op id is not registered (never issued; completed or timed out and unregistered)
    leaves the whole state unchanged *)
Theorem c01_unregistered_frames_inert : forall tk b s f,
  rd s = RIdle -> reg_lookup (reg s) (f_op f) = None -> step tk b s (EArrive f) = Some s.
Proof. exact unregistered_arrival_inert. Qed.
Print Assumptions c01_unregistered_frames_inert.

(** NATS: so does a status 503 message for an op id that is not registered *)
Theorem c01_unregistered_503_inert_nats : forall b s op,
  rd s = RIdle -> reg_lookup (reg s) op = None -> step KNats b s (EArrive503 op) = Some s.
Proof. exact unregistered_503_inert. Qed.
Print Assumptions c01_unregistered_503_inert_nats.

(** a frame (duplicate, late) for a request that has already left its select - completed, timed out
    or failed, but not yet unregistered - changes nobody's outcome: every continuation reaches the
    same phases for every caller with or without it *)
Theorem c01_late_frames_change_no_outcome : forall tk s f j evs t,
  rd s = RIdle -> reg_lookup (reg s) (f_op f) = Some j -> past_select (c_phase (callers s j)) ->
  run tk false s (EArrive f :: EDeliver :: evs) = Some t ->
  exists t', run tk false s evs = Some t' /\ forall i, c_phase (callers t i) = c_phase (callers t' i).
Proof. exact late_frame_changes_no_outcome. Qed.
Print Assumptions c01_late_frames_change_no_outcome.

(** NATS: the same for a late or duplicate status 503 message *)
Theorem c01_late_503_changes_no_outcome_nats : forall s op j evs t,
  rd s = RIdle -> reg_lookup (reg s) op = Some j -> past_select (c_phase (callers s j)) ->
  run KNats false s (EArrive503 op :: EDeliver :: evs) = Some t ->
  exists t', run KNats false s evs = Some t' /\ forall i, c_phase (callers t i) = c_phase (callers t' i).
Proof. exact late_503_changes_no_outcome. Qed.
Print Assumptions c01_late_503_changes_no_outcome_nats.

(** a request completes at most once: its outcome never changes afterwards, whatever arrives *)
Theorem c01_at_most_one_completion : forall tk b evs s s' i o,
  run tk b s evs = Some s' -> c_phase (callers s i) = CDone o -> c_phase (callers s' i) = CDone o.
Proof. exact run_done_stable. Qed.
Print Assumptions c01_at_most_one_completion.

(** when every caller has returned the registry is empty (either transport, any request data) *)
Theorem c01_registry_empties : forall tk b ops dl dk n evs s,
  run tk b (initd ops dl dk n) evs = Some s ->
  (forall i, (i < n)%nat -> exists o, c_phase (callers s i) = CDone o) -> reg s = [].
Proof. exact registry_empties. Qed.
Print Assumptions c01_registry_empties.

(** with pairwise distinct op ids (C17) a request in flight (whose op id is well-formed, i.e. not
    negative in the model) is registered under its own op id and nobody else's frame can reach its
    channel; one that is not in flight, or whose op id is malformed, is not registered *)
Theorem c01_registered_iff_in_flight : forall tk b ops dl dk n evs s,
  distinct_ops ops n -> run tk b (initd ops dl dk n) evs = Some s -> reg_ok ops n s.
Proof. exact run_reg_ok. Qed.
Print Assumptions c01_registered_iff_in_flight.

(** the mutual-exclusion assumption of the model, discharged on data REGENERATED from lib/go/registry.go
    (Gen/CtxLockSites.v): every access to the channels map on every control-flow path of Register /
    Unregister / Execute / dispatch lies inside a matching critical section, writes inside exclusive
    ones (see c17_guarded_accesses_never_conflict for what the discipline implies) *)
Theorem c01_registry_guarded : LockPaths.all_guarded CtxLockSites.registry_methods = true.
Proof. vm_compute. reflexivity. Qed.
Print Assumptions c01_registry_guarded.

(** NATS, ANY op ids (two concurrent requests may share one FContext): Register's error is returned,
    so a request in flight always owns the registration of its op id ... *)
Theorem c01_in_flight_owns_registration_nats : forall b ops dl dk n evs s i,
  run KNats b (initd ops dl dk n) evs = Some s -> (i < n)%nat ->
  in_flight (c_phase (callers s i)) -> reg_lookup (reg s) (ops i) = Some i.
Proof. exact nats_in_flight_owns. Qed.
Print Assumptions c01_in_flight_owns_registration_nats.

(** ... and the request that meets the registration of another one returns the Register error having
    changed nothing: registry, reader and every other request are untouched *)
Theorem c01_register_error_inert_nats : forall b s i j,
  (i < ncallers s)%nat -> c_phase (callers s i) = CNew -> c_data (callers s i) <> DEmpty ->
  reg_lookup (reg s) (c_op (callers s i)) = Some j ->
  exists s', step KNats b s (ERegister i) = Some s' /\ c_phase (callers s' i) = CDone ORegErr
    /\ reg s' = reg s /\ rd s' = rd s /\ (forall k, k <> i -> callers s' k = callers s k).
Proof. exact nats_register_error_inert. Qed.
Print Assumptions c01_register_error_inert_nats.

(** NATS: a status 503 for one op id affects only the request registered under it: lookup and
    hand-over leave the registry, the phase of every request and every OTHER request's channel as
    they were; the target's channel either receives the empty frame or (full) stays as it is *)
Theorem c01_503_affects_only_its_request_nats : forall s op j s',
  rd s = RIdle -> reg_lookup (reg s) op = Some j -> run KNats false s [EArrive503 op; EDeliver] = Some s' ->
  reg s' = reg s /\ rd s' = RIdle /\ ncallers s' = ncallers s /\
  (forall k, k <> j -> callers s' k = callers s k) /\
  c_phase (callers s' j) = c_phase (callers s j) /\
  (c_chan (callers s' j) = c_chan (callers s j) \/ c_chan (callers s' j) = [na_frame op]).
Proof. exact nats_503_local. Qed.
Print Assumptions c01_503_affects_only_its_request_nats.

(** NATS: a request reports SERVICE_NOT_AVAILABLE only if a 503 for ITS op id reached dispatch during
    the run; the adapter transport never reports it *)
Theorem c01_not_available_only_after_own_503_nats : forall b ops dl dk n evs s i,
  run KNats b (initd ops dl dk n) evs = Some s -> c_phase (callers s i) = CDone ONotAvail ->
  In (na_frame (ops i)) (arrivals evs).
Proof. exact not_avail_only_own_503. Qed.
Print Assumptions c01_not_available_only_after_own_503_nats.

Theorem c01_adapter_never_reports_not_available : forall b ops dl dk n evs s i,
  run KAdapter b (initd ops dl dk n) evs = Some s -> c_phase (callers s i) <> CDone ONotAvail.
Proof. exact adapter_never_not_avail. Qed.
Print Assumptions c01_adapter_never_reports_not_available.

(** non-vacuity: three callers; responses permuted, one duplicated, one for an unknown op id, one late *)
Example c01_nonvacuous :
  let ops := fun i => match i with 0%nat => 11 | 1%nat => 12 | _ => 13 end in
  let fr := fun o t => {| f_op := o; f_tag := t |} in
  let evs := [ERegister 0; ERegister 1; ERegister 2; ERelease 0; ERelease 1; ERelease 2;
              EArrive (fr 13 1); EDeliver; EArrive (fr 99 2); EArrive (fr 11 3); EDeliver;
              EArrive (fr 11 4); EDeliver;                     (* duplicate for caller 0: dropped *)
              ETake 2 TResult; ETake 0 TResult; EUnregister 0; ETake 1 TTimeout; EUnregister 1;
              EArrive (fr 12 5);                               (* late: caller 1 is gone *)
              EUnregister 2] in
  match run KAdapter false (init ops (fun _ => true) 3) evs with
  | Some s => c_phase (callers s 0) = CDone (OOk (fr 11 3))
              /\ c_phase (callers s 1) = CDone OTimedOut
              /\ c_phase (callers s 2) = CDone (OOk (fr 13 1)) /\ reg s = []
  | None => False
  end.
Proof. vm_compute. repeat split. Qed.

(** non-vacuity, NATS: six callers. 0 and 1 share an op id (1 gets the Register error while 0 is in
    flight); 2 gets a 503 for its op id; 3 sends an empty (4-byte) frame; 4 is oversize and a frame for
    its op id arrives while it is registered; 5 finds the transport closed. Every outcome but publish
    error occurs, the 503 for caller 2 leaves caller 0 alone, and the registry ends empty. *)
Example c01_nonvacuous_nats :
  let ops := fun i => match i with 0%nat => 11 | 1%nat => 11 | 2%nat => 12 | 3%nat => 13 | 4%nat => 14 | _ => 15 end in
  let dk := fun i => match i with 3%nat => DEmpty | 4%nat => DTooLarge | _ => DNormal end in
  let fr := fun o t => {| f_op := o; f_tag := t |} in
  let evs := [ERegister 0; ERegister 1; ERegister 2; ERegister 3; ERegister 4; ENotOpen 5;
              ERelease 0; ERelease 2;
              EArrive (fr 14 7); EDeliver;                     (* lands in the oversize caller's channel *)
              ERelease 4; EUnregister 4;
              EArrive503 12; EDeliver; EArrive503 12; EDeliver;  (* second 503: dropped *)
              EArrive503 77;                                   (* 503 for an unknown op id *)
              ETake 2 TResult; EUnregister 2;
              EArrive (fr 11 9); EDeliver; ETake 0 TResult; EUnregister 0] in
  match run KNats false (initd ops (fun _ => false) dk 6) evs with
  | Some s => c_phase (callers s 0) = CDone (OOk (fr 11 9))
              /\ c_phase (callers s 1) = CDone ORegErr
              /\ c_phase (callers s 2) = CDone ONotAvail
              /\ c_phase (callers s 3) = CDone OEmpty
              /\ c_phase (callers s 4) = CDone OTooLarge
              /\ c_phase (callers s 5) = CDone ONotOpen /\ reg s = []
  | None => False
  end.
Proof. vm_compute. repeat split. Qed.

(** observation (outside the property's quantifier: two CONCURRENT requests sharing one FContext): the
    adapter transport ignores Register's error, so the second request's deferred Unregister deletes
    the first one's registration and the first one's response is dropped as "unregistered"; on NATS
    the second request is refused and the first one completes *)
Example c01_shared_fcontext_adapter_vs_nats :
  let fr := {| f_op := 11; f_tag := 1 |} in
  match run KAdapter false (init (fun _ => 11) (fun _ => true) 2)
            [ERegister 0; ERegister 1; ERelease 0; ERelease 1; ETake 1 TTimeout; EUnregister 1; EArrive fr] with
  | Some s => rd s = RIdle /\ c_chan (callers s 0) = [] /\ c_phase (callers s 0) = CSelect /\ reg s = []
  | None => False
  end /\
  match run KNats false (init (fun _ => 11) (fun _ => true) 2)
            [ERegister 0; ERegister 1; ERelease 0; EArrive fr; EDeliver; ETake 0 TResult; EUnregister 0] with
  | Some s => c_phase (callers s 0) = CDone (OOk fr) /\ c_phase (callers s 1) = CDone ORegErr /\ reg s = []
  | None => False
  end.
Proof. vm_compute. repeat split. Qed.
