(** C01 — under multiplexing every RPC gets exactly its own response.
    Model/Registry.v: interleaving semantics of registry.go + fAdapterTransport.Request; every
    theorem quantifies over ALL event sequences the model accepts: any number of callers, any
    interleaving of caller / send-goroutine / clock / reader steps, any arrival sequence
    (permutations, duplicates, late frames, op ids never issued). *)
From Coq Require Import ZArith List.
From FV Require Import Model.Registry Proofs.RegistryProofs.
From FV Require Gen.CtxLockSites Model.LockPaths.
Import ListNotations.
Open Scope Z_scope.

(** a request completes successfully only with a frame carrying its own op id *)
Theorem c01_own_response : forall b ops dl n evs s i f,
  run b (init ops dl n) evs = Some s -> c_phase (callers s i) = CDone (OOk f) -> f_op f = ops i.
Proof. exact own_response. Qed.
Print Assumptions c01_own_response.

(** a frame whose op id is not registered (never issued; completed or timed out and unregistered)
    leaves the whole state unchanged *)
Theorem c01_unregistered_frames_inert : forall b s f,
  rd s = RIdle -> reg_lookup (reg s) (f_op f) = None -> step b s (EArrive f) = Some s.
Proof. exact unregistered_arrival_inert. Qed.
Print Assumptions c01_unregistered_frames_inert.

(** a frame (duplicate, late) for a request that has already left its select - completed, timed out
    or failed, but not yet unregistered - changes nobody's outcome: every continuation reaches the
    same phases for every caller with or without it *)
Theorem c01_late_frames_change_no_outcome : forall s f j evs t,
  rd s = RIdle -> reg_lookup (reg s) (f_op f) = Some j -> past_select (c_phase (callers s j)) ->
  run false s (EArrive f :: EDeliver :: evs) = Some t ->
  exists t', run false s evs = Some t' /\ forall i, c_phase (callers t i) = c_phase (callers t' i).
Proof. exact late_frame_changes_no_outcome. Qed.
Print Assumptions c01_late_frames_change_no_outcome.

(** a request completes at most once: its outcome never changes afterwards, whatever arrives *)
Theorem c01_at_most_one_completion : forall b evs s s' i o,
  run b s evs = Some s' -> c_phase (callers s i) = CDone o -> c_phase (callers s' i) = CDone o.
Proof. exact run_done_stable. Qed.
Print Assumptions c01_at_most_one_completion.

(** when every caller has returned the registry is empty *)
Theorem c01_registry_empties : forall b ops dl n evs s,
  run b (init ops dl n) evs = Some s ->
  (forall i, (i < n)%nat -> exists o, c_phase (callers s i) = CDone o) -> reg s = [].
Proof. exact registry_empties. Qed.
Print Assumptions c01_registry_empties.

(** with pairwise distinct op ids (C17) a request in flight is registered under its own op id and
    nobody else's frame can reach its channel; one that is not in flight is not registered *)
Theorem c01_registered_iff_in_flight : forall b ops dl n evs s,
  distinct_ops ops n -> run b (init ops dl n) evs = Some s -> reg_ok ops n s.
Proof. exact run_reg_ok. Qed.
Print Assumptions c01_registered_iff_in_flight.

(** the mutual-exclusion assumption of the model, discharged on data REGENERATED from lib/go/registry.go
    (Gen/CtxLockSites.v): every access to the channels map on every control-flow path of Register /
    Unregister / Execute / dispatch lies inside a matching critical section, writes inside exclusive
    ones (see c17_guarded_accesses_never_conflict for what the discipline implies) *)
Theorem c01_registry_guarded : LockPaths.all_guarded CtxLockSites.registry_methods = true.
Proof. vm_compute. reflexivity. Qed.
Print Assumptions c01_registry_guarded.

(** non-vacuity: three callers; responses permuted, one duplicated, one for an unknown op id, one late *)
Example c01_nonvacuous :
  let ops := fun i => match i with 0%nat => 11 | 1%nat => 12 | _ => 13 end in
  let fr := fun o t => {| f_op := o; f_tag := t |} in
  let evs := [ERegister 0; ERegister 1; ERegister 2; ERelease 0; ERelease 1; ERelease 2;
              EArrive (fr 13 1); EDeliver; EArrive (fr 99 2); EArrive (fr 11 3); EDeliver;
              EArrive (fr 11 4); EDeliver;                     (* duplicate for caller 0: dropped *)
              ETake 2 TResult; ETake 0 TResult; EUnregister 0; ETake 1 TTimeout; EUnregister 1;
              EArrive (fr 12 5);                               (* late: caller 1 is gone *)
              EUnregister 2] in
  match run false (init ops (fun _ => true) 3) evs with
  | Some s => c_phase (callers s 0) = CDone (OOk (fr 11 3))
              /\ c_phase (callers s 1) = CDone OTimedOut
              /\ c_phase (callers s 2) = CDone (OOk (fr 13 1)) /\ reg s = []
  | None => False
  end.
Proof. vm_compute. repeat split. Qed.
