(** C14 — the server answers every two-way request exactly once with a well-formed reply.
    Model: Model/Processor.v (FBaseProcessor.Process, the generated per-method Process, SendReply /
    SendError / trapError, the three servers, N writers on one shared output), Model/LockDiscipline.v over
    Gen/LockSites.v (regenerated from processor.go and generator.go on every build).
    Only statements here; proofs in Proofs/ProcessorProofs.v, Proofs/ProcessorReplyProofs.v,
    Proofs/LockDisciplineProofs.v. *)
From Coq Require Import ZArith List Bool Permutation.
From FV Require Import Base.Res Base.Bytes Model.Headers Model.ThriftBin Model.Processor Model.LockDiscipline
                       Gen.LockSites.
From FV Require Import Proofs.ThriftBinProofs Proofs.ProcessorProofs Proofs.ProcessorReplyProofs
                       Proofs.LockDisciplineProofs.
Import ListNotations.
Open Scope Z_scope.

(** ** exactly one reply, with the request's op id and the type / exception kind of the table.
    For EVERY service table, handler, error text and frame: if the frame's headers carry an op id and its
    envelope is decodable ([expected_answer] is defined), Process returns nil and what it writes on a
    framed output with nothing pending is: nothing (a oneway call that succeeds), or exactly one frame
    which the independent reader [classify_reply] classifies as REPLY resp. EXCEPTION of the expected
    kind, carrying the request's op id.  [expected_answer] is the table of the property:
    unknown method -> UNKNOWN_METHOD (whether or not the arguments can be skipped: F14, repaired);
    arguments not decodable -> PROTOCOL_ERROR; handler value or declared exception -> REPLY, or
    INTERNAL_ERROR if the value cannot be written (repaired); TApplicationException -> its own type;
    any other error -> INTERNAL_ERROR.
    Hypotheses: the handler does not overwrite the "_opid" response header and its exception type ids
    are int32 ([handler_ok]); the reply is shorter than 2 GiB. *)
Theorem c14_exactly_one_reply : forall svc h etext frame opid a,
  handler_ok h ->
  expected_answer svc h frame = Some (opid, a) ->
  out_size (snd (process svc h true etext frame)) < 2147483648 ->
  fst (process svc h true etext frame) = false /\
  answered (snd (process svc h true etext frame)) opid a.
Proof. exact process_exactly_one. Qed.
Print Assumptions c14_exactly_one_reply.

(** for ANY input whatsoever (also undecodable), at most one whole frame and nothing left pending *)
Theorem c14_at_most_one_frame : forall svc h etext frame s,
  f_pending s = [] ->
  exists fs, framed_run s (snd (process svc h true etext frame)) = mkfs [] (f_sent s ++ fs) /\
             (length fs <= 1)%nat.
Proof. exact process_at_most_one_frame. Qed.
Print Assumptions c14_at_most_one_frame.

(** F14 settled: an unknown method is answered UNKNOWN_METHOD whatever bytes follow the envelope *)
Theorem c14_unknown_method_always_answered : forall svc h hdrs opid name mt seq junk,
  header_size hdrs < 2147483648 -> zlen name < 2147483648 -> 0 <= mt < 256 -> in_range 4 seq ->
  Headers.lookup opid_header (to_map hdrs) = Some opid ->
  find_method svc name = None ->
  expected_answer svc h (marshal hdrs ++ write_message_begin name mt seq ++ junk)
  = Some (opid, AExc ex_unknown_method).
Proof. exact unknown_method_always_answered. Qed.
Print Assumptions c14_unknown_method_always_answered.

(** ** replies of concurrently processed requests are never interleaved.
    Any number of goroutines, each processing any list of requests, ONE shared framed output, EVERY
    schedule that obeys the mutex and runs everybody to completion: nothing is left pending, the output is
    the sequence of the sections' own frames in the order the mutex was taken, and it is a permutation
    of the replies each request gets on an output of its own. *)
Theorem c14_no_interleaving : forall svc h (reqs : list (list (bytes * bytes))) sched s,
  wrun (winit (map (sections_of svc h) reqs)) sched = Some s -> all_done s = true ->
  f_pending (w_out s) = [] /\
  f_sent (w_out s) = flat_map frames_of (w_log s) /\
  Permutation (f_sent (w_out s)) (flat_map (own_frames svc h) (concat reqs)).
Proof. exact concurrent_process_no_interleaving. Qed.
Print Assumptions c14_no_interleaving.

(** the same for arbitrary critical sections that leave nothing pending (not only Process's) *)
Theorem c14_no_interleaving_general : forall todos sched s,
  Forall closed (concat todos) ->
  wrun (winit todos) sched = Some s -> all_done s = true ->
  f_pending (w_out s) = [] /\
  f_sent (w_out s) = flat_map frames_of (w_log s) /\
  Permutation (w_log s) (concat todos) /\
  Permutation (f_sent (w_out s)) (flat_map frames_of (concat todos)).
Proof. exact writers_no_interleaving. Qed.
Print Assumptions c14_no_interleaving_general.

(** the mutex never wedges the writers: while somebody has work left somebody can step *)
Theorem c14_writers_progress : forall todos sched s,
  wrun (winit todos) sched = Some s -> all_done s = false -> exists i s', wstep s i = Some s'.
Proof. exact writers_progress. Qed.
Print Assumptions c14_writers_progress.

(** every use of the output protocol reachable from an exported function of processor.go happens
    while writeMu is held, no function takes it twice or leaves with it, delegation to a processor
    function happens with the mutex free, and the generated per-method Process touches the output only
    through SendError / SendReply — decided on Gen/LockSites.v, which the translator regenerates
    from the sources on every build. *)
Theorem c14_writes_guarded :
  sites_guarded processor_sites = true /\
  generated_other_oprot_uses = 0%nat /\
  (0 < count_writes processor_sites)%nat /\ (0 < generated_send_calls)%nat.
Proof. exact processor_writes_guarded. Qed.
Print Assumptions c14_writes_guarded.

(** ** isolation on one connection (FSimpleServer, after the repair: one frame at a time).
    Whatever the requests are — unknown methods, failing handlers, malformed or surplus arguments,
    unwritable results — the connection's output is the concatenation of the reply each request gets on
    an output of its own, for the requests up to the first one Process itself fails on (undecodable
    headers or envelope: the server stops serving that connection, kept behaviour), and nothing is ever
    left pending in front of a later reply. *)
Theorem c14_isolation_same_connection : forall svc h frames,
  f_pending (c_out (simple_conn svc h frames)) = [] /\
  f_sent (c_out (simple_conn svc h frames)) = flat_map (own_frames svc h) (served svc h frames).
Proof. exact simple_conn_isolated. Qed.
Print Assumptions c14_isolation_same_connection.

Theorem c14_all_served : forall svc h frames,
  Forall (fun fe => fst (process svc h true (snd fe) (fst fe)) = false) frames ->
  served svc h frames = frames.
Proof. exact served_all. Qed.
Print Assumptions c14_all_served.

(** ** isolation across messages and servers: what the NATS server publishes and what the HTTP handler
    returns for a message is that message's own reply — the very bytes the framed path sends — a
    function of the message alone. *)
Theorem c14_isolation_other_messages : forall svc h etext frame,
  match own_frames svc h (frame, etext) with
  | [] => nats_frame svc h etext frame = None /\
          (http_frame svc h etext frame = H500 \/ http_frame svc h etext frame = H200 [])
  | [f] => nats_frame svc h etext frame = Some f /\ http_frame svc h etext frame = H200 f
  | _ => False
  end.
Proof. exact servers_agree. Qed.
Print Assumptions c14_isolation_other_messages.

(** ** the hypotheses are satisfiable, the statements not vacuous *)
Definition ex_svc : list mdesc :=
  [mkmd [112; 105; 110; 103] false (fun b => match b with 0 :: r => Ok (VRec [], r) | _ => Err EEOF end);
   mkmd [110; 111; 116; 101] true (fun b => match b with 0 :: r => Ok (VRec [], r) | _ => Err EEOF end)].
Definition ex_handler : handler :=
  fun name _ _ => ([], if Headers.bytes_eqb name [112; 105; 110; 103] then HResult [8; 0; 0; 0; 0; 0; 7; 0] true
                       else HOther [111; 111; 112; 115]).
Definition ex_hdrs : list hpair := [(opid_header, [52; 50]); (cid_header, [99])].
Definition ex_frame (name args : bytes) : bytes := marshal ex_hdrs ++ write_message_begin name mt_call 0 ++ args.

Example c14_ex_handler_ok : handler_ok ex_handler.
Proof. intros name hdrs args. unfold ex_handler. destruct (Headers.bytes_eqb _ _); split; exact I || reflexivity. Qed.

Example c14_ex_table :
  expected_answer ex_svc ex_handler (ex_frame [112; 105; 110; 103] [0]) = Some ([52; 50], AReply) /\
  expected_answer ex_svc ex_handler (ex_frame [112; 105; 110; 103] [12]) = Some ([52; 50], AExc ex_protocol_error) /\
  expected_answer ex_svc ex_handler (ex_frame [110; 111; 116; 101] [0]) = Some ([52; 50], AExc ex_internal_error) /\
  expected_answer ex_svc ex_handler (ex_frame [120] [99; 99]) = Some ([52; 50], AExc ex_unknown_method) /\
  classify_reply (concat (frames_of (snd (process ex_svc ex_handler true [] (ex_frame [120] [99; 99])))))
  = Some ([52; 50], Some ex_unknown_method).
Proof. vm_compute. repeat split; reflexivity. Qed.

(** two writers, a schedule that alternates between them and runs both to completion (a writer that tries
    to take the mutex while the other holds it is not enabled: such schedules are not runs) *)
Example c14_ex_schedule :
  let reqs := [[(ex_frame [112; 105; 110; 103] [0], [])]; [(ex_frame [120] [99], []); (ex_frame [112; 105; 110; 103] [1], [])]] in
  match wrun (winit (map (sections_of ex_svc ex_handler) reqs)) [1; 1; 1; 1; 1; 0; 0; 0; 0; 0; 1; 1; 1; 1; 1]%nat with
  | Some s => all_done s = true /\ length (f_sent (w_out s)) = 3%nat
  | None => False
  end.
Proof. vm_compute. split; reflexivity. Qed.

(** * Bounded outputs (Model/ProcessorBounded.v; proofs in Proofs/ProcessorBoundedProofs.v).
    The servers write into outputs that reject what does not fit: FNatsServer into a TMemoryOutputBuffer of
    1 MiB, any caller of Process into NewTMemoryOutputBuffer(limit); the HTTP handler compares afterwards.
    [process_b lim chunk svc h can_reset etext frame] is Process write by write: every transport write of
    WriteResponseHeader / WriteMessageBegin / result.Write ([chunk]: how the generated Write cuts the result) /
    TApplicationException.Write with its fate, the buffer emptying itself on a rejected write, trapError,
    sendError's second attempt under the op-id-only header block, the unknown-method answer.
    [lim = None]: an output that rejects nothing; [Some l]: NewTMemoryOutputBuffer(l).
    [fits lim n]: an empty buffer accepts a message of n bytes (see [c14_fits_meaning]). *)
From FV Require Import Model.ProcessorBounded Proofs.ProcessorBoundedProofs.

Theorem c14_fits_meaning : forall lim n,
  fits lim n = true <-> match lim with Some l => l <= 0 \/ n + 4 <= l | None => True end.
Proof. exact fits_iff. Qed.
Print Assumptions c14_fits_meaning.

(** ** the theorems above are the instance limit = None: for every frame, service, handler and cutting of
    the result, the bounded model with no limit returns the same error flag, leaves in a memory buffer
    exactly what [process] leaves, and its writes (their fate forgotten) cannot be told apart from
    [process]'s events by any framed or memory output. *)
Theorem c14_bounded_refines_unbounded : forall chunk svc h can_reset etext frame,
  chunk_ok chunk ->
  fst (process_b None chunk svc h can_reset etext frame) = fst (process svc h can_reset etext frame) /\
  same_output (erase (bo_trace (snd (process_b None chunk svc h can_reset etext frame))))
              (snd (process svc h can_reset etext frame)) /\
  bo_data (snd (process_b None chunk svc h can_reset etext frame)) = mem_run (snd (process svc h can_reset etext frame)).
Proof. exact process_b_refines. Qed.
Print Assumptions c14_bounded_refines_unbounded.

(** ** the write-by-write run leaves exactly what the table by sizes says, for EVERY limit, plan (handler
    outcome, response headers, method name), error text and cutting: [spec_plan] never looks at single writes. *)
Theorem c14_bounded_exact : forall lim chunk etext p,
  chunk_ok chunk ->
  fst (run_plan lim chunk true etext p) = fst (spec_plan lim true etext p) /\
  bo_data (snd (run_plan lim chunk true etext p)) = snd (spec_plan lim true etext p) /\
  closed_out (snd (run_plan lim chunk true etext p)).
Proof. exact run_plan_spec. Qed.
Print Assumptions c14_bounded_exact.

(** ** at most one whole message is flushed, for ANY frame whatsoever and any limit: either the buffer is
    empty and no Flush happened, or there was exactly one Flush, it was the last event, and the buffer is
    not empty ([closed_out]). *)
Theorem c14_bounded_at_most_one_frame : forall lim chunk svc h etext frame,
  chunk_ok chunk -> closed_out (snd (process_b lim chunk svc h true etext frame)).
Proof. exact process_b_closed. Qed.
Print Assumptions c14_bounded_at_most_one_frame.

(** ** whatever is flushed is a well-formed REPLY or EXCEPTION carrying the REQUEST's op id, for every
    limit, handler outcome, set of response headers and request with decodable headers and envelope
    (hypotheses as for [c14_exactly_one_reply]; [plan_small]: lengths fit an int32). *)
Theorem c14_bounded_reply_carries_request_opid : forall lim chunk svc h etext frame opid a,
  chunk_ok chunk -> handler_ok h ->
  expected_answer svc h frame = Some (opid, a) ->
  plan_small etext (plan_of svc h etext frame) ->
  let s := snd (process_b lim chunk svc h true etext frame) in
  closed_out s /\ (bo_data s = [] \/ exists k, classify_reply (bo_data s) = Some (opid, k)).
Proof. exact process_b_wellformed. Qed.
Print Assumptions c14_bounded_reply_carries_request_opid.

(** the plan of such a request is well-formed with the request's op id in its response headers and is the
    row of the table [expected_answer] names — this connects the plan-level theorems below to requests *)
Theorem c14_bounded_plan_of_request : forall svc h etext frame opid a,
  handler_ok h ->
  expected_answer svc h frame = Some (opid, a) ->
  plan_wf opid (plan_of svc h etext frame) /\ plan_answer (plan_of svc h etext frame) = a /\
  plan_of svc h etext frame <> PFail.
Proof. exact plan_of_request. Qed.
Print Assumptions c14_bounded_plan_of_request.

(** ** SendReply.  The reply is the normal one iff it fits; if it does not fit (or its Write fails before
    the limit is reached: INTERNAL_ERROR) the answer is an EXCEPTION of kind RESPONSE_TOO_LARGE — with all
    response headers if that fits — and an answer IS left whenever the exception under the op-id-only header
    block fits, i.e. whenever
        min_error_frame opid name kind etext = 34 + |op id| + |method name| + |exception struct|  <=  limit;
    when even that does not fit the buffer is empty (Process still returns nil: the error is only logged). *)
Theorem c14_bounded_reply : forall lim chunk etext rh name rb wok opid,
  chunk_ok chunk ->
  plan_wf opid (PReply rh name rb wok) -> plan_small etext (PReply rh name rb wok) ->
  let r := run_plan lim chunk true etext (PReply rh name rb wok) in
  let out := bo_data (snd r) in
  let normal := msg_bytes rh name mt_reply rb in
  let kind := if fits lim (zlen normal) then ex_internal_error else ex_response_too_large in
  fst r = false /\
  (fits lim (zlen normal) = true -> wok = true -> out = normal /\ classify_reply out = Some (opid, None)) /\
  (fits lim (zlen normal) = false \/ wok = false ->
     (fits lim (zlen (exc_bytes rh name kind etext)) = true -> out = exc_bytes rh name kind etext) /\
     (fits lim (min_error_frame opid name kind etext - 4) = true -> classify_reply out = Some (opid, Some kind)) /\
     (fits lim (min_error_frame opid name kind etext - 4) = false -> out = [])).
Proof. exact bounded_reply. Qed.
Print Assumptions c14_bounded_reply.

(** in short, for a result that can be written: the output is the normal reply iff it fits, and whatever else
    is left is RESPONSE_TOO_LARGE exactly when it does not *)
Theorem c14_bounded_reply_iff_fits : forall lim chunk etext rh name rb opid,
  chunk_ok chunk ->
  plan_wf opid (PReply rh name rb true) -> plan_small etext (PReply rh name rb true) ->
  let out := bo_data (snd (run_plan lim chunk true etext (PReply rh name rb true))) in
  let normal := msg_bytes rh name mt_reply rb in
  (classify_reply out = Some (opid, None) <-> fits lim (zlen normal) = true) /\
  (out = normal <-> fits lim (zlen normal) = true) /\
  (out <> [] -> (classify_reply out = Some (opid, Some ex_response_too_large) <-> fits lim (zlen normal) = false)).
Proof. exact bounded_reply_iff. Qed.
Print Assumptions c14_bounded_reply_iff_fits.

(** ** SendError (undecodable arguments, TApplicationException, other handler error): the kind never
    changes; the exception goes out with all response headers if that fits, else with the op id only if that
    fits, else nothing is left. *)
Theorem c14_bounded_error : forall lim chunk etext rh name kind msg opid,
  chunk_ok chunk ->
  plan_wf opid (PError rh name kind msg) -> plan_small etext (PError rh name kind msg) ->
  let r := run_plan lim chunk true etext (PError rh name kind msg) in
  let out := bo_data (snd r) in
  fst r = false /\
  (fits lim (zlen (exc_bytes rh name kind msg)) = true -> out = exc_bytes rh name kind msg) /\
  (fits lim (min_error_frame opid name kind msg - 4) = true -> classify_reply out = Some (opid, Some kind)) /\
  (fits lim (min_error_frame opid name kind msg - 4) = false -> out = []).
Proof. exact bounded_error. Qed.
Print Assumptions c14_bounded_error.

(** ** unknown method (after fix 54aa11f: the same fallback): UNKNOWN_METHOD whenever the op-id-only
    exception fits; Process returns an error exactly when nothing could be left. *)
Theorem c14_bounded_unknown_method : forall lim chunk etext rh name opid,
  chunk_ok chunk ->
  plan_wf opid (PUnknown rh name) -> plan_small etext (PUnknown rh name) ->
  let r := run_plan lim chunk true etext (PUnknown rh name) in
  let out := bo_data (snd r) in
  let msg := unknown_function ++ name in
  (fst r = true <-> out = []) /\
  (fits lim (zlen (exc_bytes rh name ex_unknown_method msg)) = true -> out = exc_bytes rh name ex_unknown_method msg) /\
  (fits lim (min_error_frame opid name ex_unknown_method msg - 4) = true ->
   classify_reply out = Some (opid, Some ex_unknown_method)) /\
  (fits lim (min_error_frame opid name ex_unknown_method msg - 4) = false -> out = []).
Proof. exact bounded_unknown. Qed.
Print Assumptions c14_bounded_unknown_method.

(** Process returns an error for a request with decodable headers and envelope only in that last case *)
Theorem c14_bounded_process_error : forall lim chunk svc h etext frame opid a,
  chunk_ok chunk -> handler_ok h ->
  expected_answer svc h frame = Some (opid, a) ->
  fst (process_b lim chunk svc h true etext frame) = true ->
  a = AExc ex_unknown_method /\ bo_data (snd (process_b lim chunk svc h true etext frame)) = [].
Proof. exact process_b_error. Qed.
Print Assumptions c14_bounded_process_error.

(** ** servers.  FNatsServer publishes exactly what is left in its 1 MiB buffer; when nothing is left
    nothing is published: the caller's Request ends in its timeout.  The HTTP handler returns the unbounded
    answer, or 413 when the caller's x-frugal-payload-limit is exceeded (the client turns that into
    RESPONSE_TOO_LARGE): one answer in either case. *)
Theorem c14_bounded_nats_publishes : forall chunk svc h etext frame,
  chunk_ok chunk ->
  nats_frame_b chunk svc h etext frame =
  match bo_data (snd (process_b (Some nats_max) chunk svc h true etext frame)) with [] => None | d => Some d end.
Proof. exact nats_frame_b_spec. Qed.
Print Assumptions c14_bounded_nats_publishes.

Theorem c14_bounded_http_limit : forall limit chunk svc h etext frame,
  chunk_ok chunk ->
  http_frame_b limit chunk svc h etext frame =
  match http_frame svc h etext frame with
  | H500 => HB500
  | H200 body => if (0 <? limit) && (limit <? zlen body) then HB413 else HB200 body
  end.
Proof. exact http_frame_b_spec. Qed.
Print Assumptions c14_bounded_http_limit.

(** ** the two models of this code path agree: C12's model by sizes (Model/SizeLimit.v [server_bounded], what
    FNatsServer publishes for a reply) computes, on the sizes of the writes of the byte model, exactly the
    length and kind of what the byte model leaves — for every limit, headers, result, error text, cutting. *)
From FV Require Proofs.ProcessorBoundedSizeLimit.
Theorem c14_bounded_agrees_with_c12 : forall l chunk rh name rb etext,
  chunk_ok chunk ->
  FV.Model.SizeLimit.server_bounded l (ProcessorBoundedSizeLimit.size_view chunk rh name rb etext) =
  match snd (spec_plan (Some l) true etext (PReply rh name rb true)) with
  | [] => None
  | d => Some (if fits (Some l) (zlen (msg_bytes rh name mt_reply rb))
               then FV.Model.SizeLimit.FReply else FV.Model.SizeLimit.FTooLarge, 4 + zlen d)
  end.
Proof. exact ProcessorBoundedSizeLimit.server_bounded_agrees. Qed.
Print Assumptions c14_bounded_agrees_with_c12.

(** ** non-vacuity: a handler that adds a response header of 40 bytes and returns a 64-byte result.
    The reply frame is 4 + 163 bytes; the RESPONSE_TOO_LARGE exception with all headers 4 + 118 (error text of
    5 bytes), with the op id only 4 + 56. *)
Definition ex_chunk : bytes -> list bytes := fun b => split_sizes [1; 2; 4] b.
Definition ex_big : bytes := repeat 120 40.
Definition ex_handler_b : handler :=
  fun _ _ _ => ([([120], ex_big)], HResult ([11; 0; 0; 0; 0; 0; 57] ++ repeat 97 57 ++ [0]) true).
Definition ex_etext : bytes := [108; 105; 109; 105; 116].
Definition ex_req : bytes := ex_frame [112; 105; 110; 103] [0].
Definition ex_out (l : Z) : bool * bytes :=
  let r := process_b (Some l) ex_chunk ex_svc ex_handler_b true ex_etext ex_req in (fst r, bo_data (snd r)).

Definition r_headers_of (b : bytes) : list hpair := match parse_reply b with Ok r => r_headers r | _ => [] end.

Example c14_ex_chunk_ok : chunk_ok ex_chunk.
Proof. exact (split_sizes_ok [1; 2; 4]). Qed.

Example c14_ex_handler_b_ok : handler_ok ex_handler_b.
Proof. intros name hdrs args. split; [reflexivity|exact I]. Qed.

(** a reply that fits (limit = its frame size), one byte less: overflow, the exception with all headers fits;
    headers alone overflow: the op-id-only exception; nothing fits: nothing is left, Process returns nil *)
Example c14_ex_bounded :
  expected_answer ex_svc ex_handler_b ex_req = Some ([52; 50], AReply) /\
  (zlen (snd (ex_out 167)) = 163 /\ classify_reply (snd (ex_out 167)) = Some ([52; 50], None)) /\
  (zlen (snd (ex_out 166)) = 118 /\ classify_reply (snd (ex_out 166)) = Some ([52; 50], Some ex_response_too_large) /\
   Headers.lookup [120] (r_headers_of (snd (ex_out 166))) = Some ex_big) /\
  (zlen (snd (ex_out 121)) = 56 /\ classify_reply (snd (ex_out 121)) = Some ([52; 50], Some ex_response_too_large) /\
   Headers.lookup [120] (r_headers_of (snd (ex_out 121))) = None) /\
  min_error_frame [52; 50] [112; 105; 110; 103] ex_response_too_large ex_etext = 60 /\
  zlen (snd (ex_out 60)) = 56 /\
  ex_out 59 = (false, []) /\
  nats_frame_b ex_chunk ex_svc ex_handler_b ex_etext ex_req = Some (snd (ex_out 167)) /\
  http_frame_b 162 ex_chunk ex_svc ex_handler_b ex_etext ex_req = HB413 /\
  http_frame_b 163 ex_chunk ex_svc ex_handler_b ex_etext ex_req = HB200 (snd (ex_out 167)).
Proof. vm_compute. repeat split; reflexivity. Qed.

(** an unknown method on a buffer too small for any answer: Process returns the error *)
Example c14_ex_bounded_unknown :
  fst (process_b (Some 30) ex_chunk ex_svc ex_handler_b true [] (ex_frame [120] [0])) = true /\
  classify_reply (bo_data (snd (process_b (Some 70) ex_chunk ex_svc ex_handler_b true [] (ex_frame [120] [0]))))
  = Some ([52; 50], Some ex_unknown_method).
Proof. vm_compute. split; reflexivity. Qed.
