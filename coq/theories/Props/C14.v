(** C14 — the server answers every two-way request exactly once with a well-formed reply.
    Model: Model/Processor.v (FBaseProcessor.Process, the generated per-method Process, SendReply /
    SendError / trapError, the three servers, N writers on one shared output), Model/LockDiscipline.v over
    Gen/LockSites.v (regenerated from processor.go and generator.go on every build).
    Only statements here; proofs in Proofs/ProcessorProofs.v, Proofs/ProcessorReplyProofs.v,
    Proofs/LockDisciplineProofs.v. *)
From Coq Require Import ZArith List Bool Permutation.
From FV Require Import Base.Res Base.Bytes Model.Headers Model.ThriftBin Model.Processor Model.LockDiscipline
                       Gen.LockSites.
From FV Require Import Proofs.ThriftBinProofs Proofs.ProcessorProofs Proofs.ProcessorReplyProofs
                       Proofs.LockDisciplineProofs.
Import ListNotations.
Open Scope Z_scope.

(** ** exactly one reply, with the request's op id and the type / exception kind of the table.
    For EVERY service table, handler, error text and frame: if the frame's headers carry an op id and its
    envelope is decodable ([expected_answer] is defined), Process returns nil and what it writes on a
    framed output with nothing pending is: nothing (a oneway call that succeeds), or exactly one frame
    which the independent reader [classify_reply] classifies as REPLY resp. EXCEPTION of the expected
    kind, carrying the request's op id.  [expected_answer] is the table of the property:
    unknown method -> UNKNOWN_METHOD (whether or not the arguments can be skipped: F14, repaired);
    arguments not decodable -> PROTOCOL_ERROR; handler value or declared exception -> REPLY, or
    INTERNAL_ERROR if the value cannot be written (repaired); TApplicationException -> its own type;
    any other error -> INTERNAL_ERROR.
    Hypotheses: the handler does not overwrite the "_opid" response header and its exception type ids
    are int32 ([handler_ok]); the reply is shorter than 2 GiB. *)
Theorem c14_exactly_one_reply : forall svc h etext frame opid a,
  handler_ok h ->
  expected_answer svc h frame = Some (opid, a) ->
  out_size (snd (process svc h true etext frame)) < 2147483648 ->
  fst (process svc h true etext frame) = false /\
  answered (snd (process svc h true etext frame)) opid a.
Proof. exact process_exactly_one. Qed.
Print Assumptions c14_exactly_one_reply.

(** for ANY input whatsoever (also undecodable), at most one whole frame and nothing left pending *)
Theorem c14_at_most_one_frame : forall svc h etext frame s,
  f_pending s = [] ->
  exists fs, framed_run s (snd (process svc h true etext frame)) = mkfs [] (f_sent s ++ fs) /\
             (length fs <= 1)%nat.
Proof. exact process_at_most_one_frame. Qed.
Print Assumptions c14_at_most_one_frame.

(** F14 settled: an unknown method is answered UNKNOWN_METHOD whatever bytes follow the envelope *)
Theorem c14_unknown_method_always_answered : forall svc h hdrs opid name mt seq junk,
  header_size hdrs < 2147483648 -> zlen name < 2147483648 -> 0 <= mt < 256 -> in_range 4 seq ->
  Headers.lookup opid_header (to_map hdrs) = Some opid ->
  find_method svc name = None ->
  expected_answer svc h (marshal hdrs ++ write_message_begin name mt seq ++ junk)
  = Some (opid, AExc ex_unknown_method).
Proof. exact unknown_method_always_answered. Qed.
Print Assumptions c14_unknown_method_always_answered.

(** ** replies of concurrently processed requests are never interleaved.
    Any number of goroutines, each processing any list of requests, ONE shared framed output, EVERY
    schedule that obeys the mutex and runs everybody to completion: nothing is left pending, the output is
    the sequence of the sections' own frames in the order the mutex was taken, and it is a permutation
    of the replies each request gets on an output of its own. *)
Theorem c14_no_interleaving : forall svc h (reqs : list (list (bytes * bytes))) sched s,
  wrun (winit (map (sections_of svc h) reqs)) sched = Some s -> all_done s = true ->
  f_pending (w_out s) = [] /\
  f_sent (w_out s) = flat_map frames_of (w_log s) /\
  Permutation (f_sent (w_out s)) (flat_map (own_frames svc h) (concat reqs)).
Proof. exact concurrent_process_no_interleaving. Qed.
Print Assumptions c14_no_interleaving.

(** the same for arbitrary critical sections that leave nothing pending (not only Process's) *)
Theorem c14_no_interleaving_general : forall todos sched s,
  Forall closed (concat todos) ->
  wrun (winit todos) sched = Some s -> all_done s = true ->
  f_pending (w_out s) = [] /\
  f_sent (w_out s) = flat_map frames_of (w_log s) /\
  Permutation (w_log s) (concat todos) /\
  Permutation (f_sent (w_out s)) (flat_map frames_of (concat todos)).
Proof. exact writers_no_interleaving. Qed.
Print Assumptions c14_no_interleaving_general.

(** the mutex never wedges the writers: while somebody has work left somebody can step *)
Theorem c14_writers_progress : forall todos sched s,
  wrun (winit todos) sched = Some s -> all_done s = false -> exists i s', wstep s i = Some s'.
Proof. exact writers_progress. Qed.
Print Assumptions c14_writers_progress.

(** every use of the output protocol reachable from an exported function of processor.go happens
    while writeMu is held, no function takes it twice or leaves with it, delegation to a processor
    function happens with the mutex free, and the generated per-method Process touches the output only
    through SendError / SendReply — decided on Gen/LockSites.v, which the translator regenerates
    from the sources on every build. *)
Theorem c14_writes_guarded :
  sites_guarded processor_sites = true /\
  generated_other_oprot_uses = 0%nat /\
  (0 < count_writes processor_sites)%nat /\ (0 < generated_send_calls)%nat.
Proof. exact processor_writes_guarded. Qed.
Print Assumptions c14_writes_guarded.

(** ** isolation on one connection (FSimpleServer, after the repair: one frame at a time).
    Whatever the requests are — unknown methods, failing handlers, malformed or surplus arguments,
    unwritable results — the connection's output is the concatenation of the reply each request gets on
    an output of its own, for the requests up to the first one Process itself fails on (undecodable
    headers or envelope: the server stops serving that connection, kept behaviour), and nothing is ever
    left pending in front of a later reply. *)
Theorem c14_isolation_same_connection : forall svc h frames,
  f_pending (c_out (simple_conn svc h frames)) = [] /\
  f_sent (c_out (simple_conn svc h frames)) = flat_map (own_frames svc h) (served svc h frames).
Proof. exact simple_conn_isolated. Qed.
Print Assumptions c14_isolation_same_connection.

Theorem c14_all_served : forall svc h frames,
  Forall (fun fe => fst (process svc h true (snd fe) (fst fe)) = false) frames ->
  served svc h frames = frames.
Proof. exact served_all. Qed.
Print Assumptions c14_all_served.

(** ** isolation across messages and servers: what the NATS server publishes and what the HTTP handler
    returns for a message is that message's own reply — the very bytes the framed path sends — a
    function of the message alone. *)
Theorem c14_isolation_other_messages : forall svc h etext frame,
  match own_frames svc h (frame, etext) with
  | [] => nats_frame svc h etext frame = None /\
          (http_frame svc h etext frame = H500 \/ http_frame svc h etext frame = H200 [])
  | [f] => nats_frame svc h etext frame = Some f /\ http_frame svc h etext frame = H200 f
  | _ => False
  end.
Proof. exact servers_agree. Qed.
Print Assumptions c14_isolation_other_messages.

(** ** the hypotheses are satisfiable, the statements not vacuous *)
Definition ex_svc : list mdesc :=
  [mkmd [112; 105; 110; 103] false (fun b => match b with 0 :: r => Ok (VRec [], r) | _ => Err EEOF end);
   mkmd [110; 111; 116; 101] true (fun b => match b with 0 :: r => Ok (VRec [], r) | _ => Err EEOF end)].
Definition ex_handler : handler :=
  fun name _ _ => ([], if Headers.bytes_eqb name [112; 105; 110; 103] then HResult [8; 0; 0; 0; 0; 0; 7; 0] true
                       else HOther [111; 111; 112; 115]).
Definition ex_hdrs : list hpair := [(opid_header, [52; 50]); (cid_header, [99])].
Definition ex_frame (name args : bytes) : bytes := marshal ex_hdrs ++ write_message_begin name mt_call 0 ++ args.

Example c14_ex_handler_ok : handler_ok ex_handler.
Proof. intros name hdrs args. unfold ex_handler. destruct (Headers.bytes_eqb _ _); split; exact I || reflexivity. Qed.

Example c14_ex_table :
  expected_answer ex_svc ex_handler (ex_frame [112; 105; 110; 103] [0]) = Some ([52; 50], AReply) /\
  expected_answer ex_svc ex_handler (ex_frame [112; 105; 110; 103] [12]) = Some ([52; 50], AExc ex_protocol_error) /\
  expected_answer ex_svc ex_handler (ex_frame [110; 111; 116; 101] [0]) = Some ([52; 50], AExc ex_internal_error) /\
  expected_answer ex_svc ex_handler (ex_frame [120] [99; 99]) = Some ([52; 50], AExc ex_unknown_method) /\
  classify_reply (concat (frames_of (snd (process ex_svc ex_handler true [] (ex_frame [120] [99; 99])))))
  = Some ([52; 50], Some ex_unknown_method).
Proof. vm_compute. repeat split; reflexivity. Qed.

(** two writers, a schedule that alternates between them and runs both to completion (a writer that tries
    to take the mutex while the other holds it is not enabled: such schedules are not runs) *)
Example c14_ex_schedule :
  let reqs := [[(ex_frame [112; 105; 110; 103] [0], [])]; [(ex_frame [120] [99], []); (ex_frame [112; 105; 110; 103] [1], [])]] in
  match wrun (winit (map (sections_of ex_svc ex_handler) reqs)) [1; 1; 1; 1; 1; 0; 0; 0; 0; 0; 1; 1; 1; 1; 1]%nat with
  | Some s => all_done s = true /\ length (f_sent (w_out s)) = 3%nat
  | None => False
  end.
Proof. vm_compute. split; reflexivity. Qed.
