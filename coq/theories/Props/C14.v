(** C14 — the server answers every two-way request exactly once with a well-formed reply. *)
From Coq Require Import ZArith List Bool.
From FV Require Import Base.Res Base.Bytes Model.Headers Model.ThriftBin Model.Processor Proofs.ProcessorProofs.
Import ListNotations.
Open Scope Z_scope.

Theorem c14_message_is_one_frame : forall s hdrs name mt body,
  f_pending s = [] ->
  framed_run s (message_events hdrs name mt body) =
  mkfs [] (f_sent s ++ [marshal hdrs ++ write_message_begin name mt 0 ++ body]).
Proof. exact framed_message. Qed.
Print Assumptions c14_message_is_one_frame.
