(** C02 -- generated Go types encode and decode exactly what the IDL declares.
    Only theorem statements, each closed by [exact] of a lemma from Proofs/ThriftBinProofs.v.
    The model (Model/ThriftBin.v) has two layers: the TBinary codec directed by the declared type
    ([wenc] / [wdec] / [skip]) and the emitted struct code ([to_wire]: which fields Write emits;
    [from_wire]: what Read builds from New<T>()); [gwrite] / [gread] are the generated Write / Read. *)
From Coq Require Import ZArith List Bool Lia.
From FV Require Import Base.Res Base.Bytes Model.ThriftBin Proofs.ThriftBinProofs Proofs.ThriftBinGoProofs Model.GoGenPlan Proofs.GoGenPlanProofs.
From FV Require Import Model.ThriftCompact Proofs.ThriftCompactProofs.
From FV Require Import Model.DfxGoGenPlan Proofs.DfxGoGenPlanProofs.
Import ListNotations.
Open Scope Z_scope.

(** Round trip of the wire encoding, for every environment (typedef chains, enums, struct-likes,
    recursive types), every type and every well-typed wire value, nested containers to any depth:
    decoding with the declared type returns the value and leaves what follows untouched. *)
Theorem c02_codec_roundtrip : forall e t w fuel rest,
  wwt e t w -> (wsize w <= fuel)%nat ->
  wdec fuel e t (wenc e t w ++ rest) = Ok (w, rest).
Proof. exact codec_roundtrip. Qed.
Print Assumptions c02_codec_roundtrip.

(** Unknown fields are skipped: a reader that declares [decls] reads what a writer with a larger
    schema [ftyp] (agreeing on the reader's ids) wrote, and gets exactly the fields it declares,
    in order; the others (any type, nesting below Thrift's depth limit 64) are skipped. *)
Theorem c02_unknown_fields_skipped : forall e decls ftyp l,
  (forall id ft, ftyp_of decls id = Some ft -> ftyp id = Some ft) ->
  Forall (wwt_entry_by e ftyp) l ->
  Forall (fun ix => wdepth (snd ix) <= 64) l ->
  forall fuel rest, (size_fields l <= fuel)%nat ->
  wdec_fields fuel e decls (wenc_fields e ftyp l ++ rest) = Ok (filter (known decls) l, rest).
Proof. exact unknown_fields_skipped. Qed.
Print Assumptions c02_unknown_fields_skipped.

(** thrift.Skip by wire type consumes exactly one encoded value *)
Theorem c02_skip_exact : forall e w t fuel depth rest,
  wwt e t w -> (wsize w <= fuel)%nat -> wdepth w <= depth ->
  skip fuel depth (wtype e t) (wenc e t w ++ rest) = Ok rest.
Proof. exact skip_wenc. Qed.
Print Assumptions c02_skip_exact.

(** Field rules of the generated Write: the bytes of a struct-like are, for exactly the declared
    fields that are required/default or optional-and-set ([written]), in declaration order, the
    wire type of the declared (typedef-resolved) type, the declared id and the value, then STOP;
    a union is written only with exactly one field set. *)
Theorem c02_field_rules : forall e t ovs b,
  gwrite e t (VStruct ovs) = Ok b ->
  exists k decls l,
    shape_of e t = SStruct k decls /\
    (is_union k = true -> count_set e decls ovs = 1) /\
    written_spec e decls ovs l /\ map fst l = written_ids e decls ovs /\
    b = wenc_fields e (ftyp_of decls) l.
Proof. exact gwrite_struct. Qed.
Print Assumptions c02_field_rules.

Theorem c02_union_exactly_one : forall e t ovs b k decls,
  shape_of e t = SStruct k decls -> is_union k = true ->
  Forall (fun f => is_optional f = true) decls -> length decls = length ovs ->
  gwrite e t (VStruct ovs) = Ok b ->
  exists id w, b = wenc_fields e (ftyp_of decls) [(id, w)] /\ written_ids e decls ovs = [id].
Proof. exact union_one_field. Qed.
Print Assumptions c02_union_exactly_one.

(** Read rejects a missing required field, and accepts a union only with exactly one field set *)
Theorem c02_missing_required_rejected : forall e t l k decls f,
  shape_of e t = SStruct k decls -> In f decls -> fmod f = MRequired ->
  ~ In (fid f) (map fst l) ->
  forall g, from_wire e t (VRec l) <> Ok g.
Proof. exact missing_required_rejected. Qed.
Print Assumptions c02_missing_required_rejected.

Theorem c02_read_union_exactly_one : forall e t l k decls st,
  shape_of e t = SStruct k decls -> is_union k = true ->
  from_wire e t (VRec l) = Ok (VStruct st) -> count_set e decls st = 1.
Proof. exact read_union_one. Qed.
Print Assumptions c02_read_union_exactly_one.

(** The emitted struct code round-trips every Go value of a declared type ([gwf]: values in range,
    union with exactly one field set, field ids distinct and 16-bit, every written slot non-nil
    and well-formed, every unwritten (optional, unset) slot holding what New<T>() puts there):
    Read (Write v ++ rest) = (v, rest), through typedef chains, enums, nested containers and
    recursive struct-likes. *)
Theorem c02_roundtrip : forall e t v rest,
  gwf e t v ->
  exists b fuel0, gwrite e t v = Ok b /\
                  forall fuel, (fuel0 <= fuel)%nat -> gread fuel e t (b ++ rest) = Ok (v, rest).
Proof. exact write_read_roundtrip. Qed.
Print Assumptions c02_roundtrip.

(** ... and what it writes is a well-typed wire value of the declared type *)
Theorem c02_write_well_typed : forall e t v,
  gwf e t v -> exists w, to_wire e t v = Ok w /\ wwt e t w /\ from_wire e t w = Ok v.
Proof. exact go_struct_roundtrip. Qed.
Print Assumptions c02_write_well_typed.

(** "through typedefs and includes".

    The PINNED generator's typedef resolution (parser.Frugal.UnderlyingType before "fix:
    UnderlyingType follows a typedef found in an include in that include's scope and qualifies the
    result", Model/GoGenPlan.v [underlying_go]) continued a chain found in an included file in the
    including file's scope (F15; the known finding F15-go is stale: the probe
    typedef_chain_through_include of tools/props/c02.py builds now).  Statement that failed:
      forall p cur t fuel, wire_go fuel p cur t = wire_idl fuel p cur t.
    Witness: main includes inc; inc: typedef i32 T; typedef T U; main's field of type inc.U is an
    I32 (8) by the IDL and was a STRUCT (12) for the pinned generator. *)
Theorem c02_typedef_through_include_refuted :
  exists p cur t fuel, wire_idl fuel p cur t = 8 /\ wire_go fuel p cur t = 12.
Proof. exact f15_refuted. Qed.
Print Assumptions c02_typedef_through_include_refuted.

(** ... and the pinned function was right only under the side condition the quirk forces: every
    typedef reached through an include has a target that mentions no other declaration. *)
Theorem c02_typedef_resolution_partial : forall p cur,
  includes_closed p cur -> forall fuel t, wire_go fuel p cur t = wire_idl fuel p cur t.
Proof. exact underlying_agree. Qed.
Print Assumptions c02_typedef_resolution_partial.

(** The CURRENT function (Model/DfxGoGenPlan.v [underlying_go_fixed]: the chain is followed in the
    include's scope, the result renamed by qualifyType) resolves the F15 witnesses as the IDL means
    them (the pinned function did not) ... *)
Theorem c02_typedef_through_include_fixed :
  wire_idl 10 f15_prog 1 (PName (Some 7) 2) = 8 /\ wire_go_fixed 10 f15_prog 1 (PName (Some 7) 2) = 8
  /\ wire_go 10 f15_prog 1 (PName (Some 7) 2) = 12
  /\ wire_idl 10 f15_prog_enum 1 (PName (Some 7) 2) = 8
  /\ wire_go_fixed 10 f15_prog_enum 1 (PName (Some 7) 2) = 8
  /\ wire_go 10 f15_prog_enum 1 (PName (Some 7) 2) = 12.
Proof. exact f15_fixed. Qed.
Print Assumptions c02_typedef_through_include_fixed.

(** ... and agrees with the IDL for every type, chain and fuel whenever the typedef targets of the
    files that [cur] includes do not name a declaration of a further include (they may be base
    types, containers, or names of their own file: enums, structs, other typedefs); still partial:
    the full statement (no side condition) fails, next theorem *)
Theorem c02_typedef_resolution_fixed_partial : forall p cur,
  includes_local p cur -> forall fuel t, wire_go_fixed fuel p cur t = wire_idl fuel p cur t.
Proof. exact underlying_fixed_agree. Qed.
Print Assumptions c02_typedef_resolution_fixed_partial.

(** left in the code (known findings C11-K1/K2/K3/K9/K10/K11): a typedef of an include that stands
    for a declaration of the include's own include: qualifyType leaves the far name as it is, and in
    the asking file it names no include (root includes mid only; mid: include far, typedef far.E T;
    root's field mid.T is an enum, I32, by the IDL and a STRUCT for the generator) *)
Theorem c02_typedef_through_transitive_include_refuted :
  exists p cur t fuel, wire_idl fuel p cur t = 8 /\ wire_go_fixed fuel p cur t = 12.
Proof. exact transitive_include_refuted. Qed.
Print Assumptions c02_typedef_through_transitive_include_refuted.

Example c02_includes_local_nonvacuous :
  includes_local local_prog 1
  /\ wire_go_fixed 10 local_prog 1 (PName None 3) = 8
  /\ wire_go 10 local_prog 1 (PName None 3) = 12
  /\ wire_go_fixed 10 local_prog 1 (PName (Some 7) 4) = 15.
Proof. exact includes_local_nonvacuous. Qed.

(** args / result structs as base.go synthesises them *)
Theorem c02_args_no_optional : forall args f, In f (map args_field args) -> fmod f <> MOptional.
Proof. exact args_no_optional. Qed.
Print Assumptions c02_args_no_optional.
Theorem c02_result_all_optional : forall ret throws f,
  In f ((match ret with Some t => [mkField 0 MOptional t None] | None => [] end) ++ map opt_field throws) ->
  fmod f = MOptional.
Proof. exact result_all_optional. Qed.
Print Assumptions c02_result_all_optional.

(** Non-vacuity: a program with a typedef chain, an enum, nested containers, a union and defaults.
    1 E (enum)  2 T = E  3 U = T (chain)  4 P {1: i32 x; 2: optional i32 y = 5}
    5 Un {1: i32 a; 2: string b}   6 Big {1: required U c; 2: optional map<E, list<P>> m;
    3: set<i64> s; 4: optional Un u; 5: binary bn; 6: optional double d = bits 7} *)
Definition ex_env : env :=
  [ (1, DEnum [1; 2]); (2, DTypedef (TRef 1)); (3, DTypedef (TRef 2));
    (4, DStruct KStruct [mkField 1 MDefault TI32 None; mkField 2 MOptional TI32 (Some (VInt 5))]);
    (5, DStruct KUnion [mkField 1 MOptional TI32 None; mkField 2 MOptional TString None]);
    (6, DStruct KStruct [mkField 1 MRequired (TRef 3) None;
                         mkField 2 MOptional (TMap (TRef 1) (TList (TRef 4))) None;
                         mkField 3 MDefault (TSet TI64) None;
                         mkField 4 MOptional (TRef 5) None;
                         mkField 5 MDefault TBinary None;
                         mkField 6 MOptional TDouble (Some (VDouble 7))]) ].
Definition ex_val : val :=
  VStruct [ Some (VInt 2);
            Some (VMap [(VInt 1, VList [VStruct [Some (VInt (-3)); Some (VInt 5)]; VStruct [Some (VInt 9); Some (VInt 6)]])]);
            Some (VSet [VInt (-1); VInt 4294967296]);
            Some (VStruct [None; Some (VBytes [104; 105])]);
            None;
            Some (VDouble 7) ].
Example c02_nonvacuous :
  gwrite ex_env (TRef 6) ex_val =
  Ok [8;0;1;0;0;0;2;  13;0;2;8;15;0;0;0;1; 0;0;0;1; 12;0;0;0;2; 8;0;1;255;255;255;253;0; 8;0;1;0;0;0;9;8;0;2;0;0;0;6;0;
      14;0;3;10;0;0;0;2;255;255;255;255;255;255;255;255;0;0;0;1;0;0;0;0;
      12;0;4;11;0;2;0;0;0;2;104;105;0;  11;0;5;0;0;0;0;  0]
  /\ (forall b, gwrite ex_env (TRef 6) ex_val = Ok b ->
      gread 100 ex_env (TRef 6) (b ++ [42]) =
      Ok (VStruct [ Some (VInt 2);
                    Some (VMap [(VInt 1, VList [VStruct [Some (VInt (-3)); Some (VInt 5)]; VStruct [Some (VInt 9); Some (VInt 6)]])]);
                    Some (VSet [VInt (-1); VInt 4294967296]);
                    Some (VStruct [None; Some (VBytes [104; 105])]);
                    Some (VBytes []);
                    Some (VDouble 7) ], [42]))
  /\ (exists w, to_wire ex_env (TRef 6) ex_val = Ok w /\ wwt ex_env (TRef 6) w).
Proof.
  split; [vm_compute; reflexivity|]. split.
  - intros b H. vm_compute in H. injection H as <-. vm_compute. reflexivity.
  - eexists. split; [vm_compute; reflexivity|]. cbn. unfold in_range, int_ok. cbn. intuition lia.
Qed.

(** the hypothesis of [c02_roundtrip] is satisfiable by a nested value: Un{b = "hi"} and
    P{x = -3, y = 5 (its default: unset, not written)} *)
Example c02_gwf_nonvacuous :
  gwf ex_env (TRef 5) (VStruct [None; Some (VBytes [104; 105])])
  /\ gwf ex_env (TList (TRef 4)) (VList [VStruct [Some (VInt (-3)); Some (VInt 5)]; VStruct [Some (VInt 9); Some (VInt 6)]]).
Proof.
  assert (Hr : forall z, -100 <= z <= 100 -> in_range 4 z) by (intros z Hz; apply in_range_4; lia).
  assert (Hi : forall z, 0 <= z <= 100 -> in_range 2 z) by (intros z Hz; apply in_range_2; lia).
  assert (HP : forall a b, -100 <= a <= 100 -> -100 <= b <= 100 ->
                gwf ex_env (TRef 4) (VStruct [Some (VInt a); Some (VInt b)])).
  { intros a b Ha Hb.
    eapply gwf_struct with (k := KStruct); [reflexivity| | |discriminate|].
    - repeat constructor; cbn; intuition discriminate.
    - repeat constructor; cbn; apply Hi; lia.
    - constructor; [|constructor; [|constructor]].
      + split; [intros _; eexists; split; [reflexivity|]|intros H; discriminate H].
        eapply gwf_int with (n := 4%nat); [reflexivity|right; right; left; reflexivity|apply Hr; assumption].
      + split.
        * intros _. eexists; split; [reflexivity|].
          eapply gwf_int with (n := 4%nat); [reflexivity|right; right; left; reflexivity|apply Hr; assumption].
        * unfold written, isset. cbn. destruct (b =? 5) eqn:E; cbn; [|discriminate].
          intros _. apply Z.eqb_eq in E. subst. reflexivity. }
  split.
  - eapply gwf_struct with (k := KUnion); [reflexivity| | |intros _; reflexivity|].
    + repeat constructor; cbn; intuition discriminate.
    + repeat constructor; cbn; apply Hi; lia.
    + constructor; [|constructor; [|constructor]].
      * split; [intros H; discriminate H|intros _; reflexivity].
      * split; [intros _; eexists; split; [reflexivity|]|intros H; discriminate H].
        apply gwf_bytes; [left; reflexivity|cbn; lia].
  - eapply gwf_list; [reflexivity|cbn; lia|].
    constructor; [apply HP; lia|constructor; [apply HP; lia|constructor]].
Qed.

(** * The compact protocol (Model/ThriftCompact.v: Apache Thrift's TCompactProtocol as the generated
    code drives it; [cenc] / [cdec] / [cskip] the codec, [gcwrite] / [gcread] the generated Write /
    Read; the Go-struct layer [to_wire] / [from_wire] is the one of the binary theorems above).
    TJSON has no Coq specification: it stays differential (tools/props/c02.py). *)

(** zigzag: int32ToZigzag / int64ToZigzag (shift-and-xor, as in the Go source) map the signed range
    one-to-one onto the unsigned range, small magnitudes to small codes, and zigzagToInt32 /
    zigzagToInt64 invert them *)
Theorem c02_compact_zigzag32 : forall n, -2147483648 <= n < 2147483648 ->
  zigzag32 n = (if n <? 0 then -2 * n - 1 else 2 * n) /\ 0 <= zigzag32 n < 4294967296 /\
  unzigzag32 (zigzag32 n) = n.
Proof. exact (fun n H => conj (zigzag32_spec n H) (conj (zigzag32_range n H) (unzigzag32_zigzag32 n H))). Qed.
Print Assumptions c02_compact_zigzag32.

Theorem c02_compact_zigzag64 : forall n, -9223372036854775808 <= n < 9223372036854775808 ->
  zigzag64 n = (if n <? 0 then -2 * n - 1 else 2 * n) /\ 0 <= zigzag64 n < 18446744073709551616 /\
  unzigzag64 (zigzag64 n) = n.
Proof. exact (fun n H => conj (zigzag64_spec n H) (conj (zigzag64_range n H) (unzigzag64_zigzag64 n H))). Qed.
Print Assumptions c02_compact_zigzag64.

Theorem c02_compact_zigzag32_onto : forall u, 0 <= u < 4294967296 -> zigzag32 (unzigzag32 u) = u.
Proof. exact zigzag32_unzigzag32. Qed.
Print Assumptions c02_compact_zigzag32_onto.

(** varints: readVarint64 reads back what writeVarint32 / writeVarint64 wrote (any 64-bit pattern,
    1 to 10 bytes) and leaves what follows untouched *)
Theorem c02_compact_varint_roundtrip : forall u rest, 0 <= u < 18446744073709551616 ->
  read_varint (varint u ++ rest) = Ok (u, rest) /\ (1 <= length (varint u) <= 10)%nat.
Proof. exact (fun u rest H => conj (varint_roundtrip u rest H) (varint_length u)). Qed.
Print Assumptions c02_compact_varint_roundtrip.

(** field headers: from the same lastFieldId the reader gets back the id and the TType of the
    nibble; a nibble 1 / 2 (bool true / false) leaves the value pending for the next ReadBool;
    the header is one byte exactly when 0 < id - lastFieldId <= 15 *)
Theorem c02_compact_field_header : forall pb last id ct wt rest,
  in_range 2 last -> in_range 2 id -> 1 <= ct <= 13 -> ttype_of_ctype ct = Some wt ->
  c_field_hdr last (pb, cfield_hdr last id ct ++ rest) =
    Ok ((wt, id), (if (ct =? 1) || (ct =? 2) then Some (ct =? 1) else pb, rest)) /\
  (0 < id - last <= 15 -> cfield_hdr last id ct = [(id - last) * 16 + ct]) /\
  (id - last <= 0 \/ 15 < id - last -> cfield_hdr last id ct = ct :: varint32 (zigzag32 id)).
Proof.
  exact (fun pb last id ct wt rest Hl Hi Hc Ht =>
           conj (c_field_hdr_ok pb last id ct wt rest Hl Hi Hc Ht)
                (conj (cfield_hdr_short last id ct) (cfield_hdr_long last id ct))).
Qed.
Print Assumptions c02_compact_field_header.

(** Round trip of the compact wire encoding, for every environment, type and well-typed wire value
    (the same [wwt] as for binary), nested containers and structs to any depth (the last-field-id
    stack is the recursion), bools folded into field headers: a fresh reader (no pending bool)
    returns the value, has no pending bool left and leaves what follows untouched. *)
Theorem c02_compact_codec_roundtrip : forall e t w fuel rest,
  wwt e t w -> (wsize w <= fuel)%nat ->
  cdec fuel e t (None, cenc e t w ++ rest) = Ok (w, (None, rest)).
Proof. exact compact_codec_roundtrip. Qed.
Print Assumptions c02_compact_codec_roundtrip.

(** The emitted struct code round-trips every Go value of a declared type under the compact
    protocol: Read (Write v ++ rest) = (v, rest); same hypothesis [gwf] as [c02_roundtrip]. *)
Theorem c02_compact_roundtrip : forall e t v rest,
  gwf e t v ->
  exists b fuel0, gcwrite e t v = Ok b /\
                  forall fuel, (fuel0 <= fuel)%nat -> gcread fuel e t (b ++ rest) = Ok (v, rest).
Proof. exact compact_write_read_roundtrip. Qed.
Print Assumptions c02_compact_roundtrip.

(** Field rules under compact: exactly the fields [written] (required/default, or optional and set),
    in declaration order, as compact field headers (delta or long form from lastFieldId 0, bools
    folded) and values, then STOP *)
Theorem c02_compact_field_rules : forall e t ovs b,
  gcwrite e t (VStruct ovs) = Ok b ->
  exists k decls l,
    shape_of e t = SStruct k decls /\
    (is_union k = true -> count_set e decls ovs = 1) /\
    written_spec e decls ovs l /\ map fst l = written_ids e decls ovs /\
    b = cenc_fields e (ftyp_of decls) l 0.
Proof. exact gcwrite_struct. Qed.
Print Assumptions c02_compact_field_rules.

(** non-vacuity for compact: the value of [c02_nonvacuous] (typedef chain, enum, nested containers,
    union, defaults) with its bytes: 0x15 = field 1 (delta 1) i32, 0x1B map, 0x59 = key i32 / value
    list, 0x2C = 2 structs, 0x26 = 2 i64, 0x28 = field 2 (delta 2) binary ... *)
Example c02_compact_nonvacuous :
  gcwrite ex_env (TRef 6) ex_val =
  Ok [21;4;  27;1;89;2;44; 21;5;0; 21;18;21;12;0;  26;38;1;128;128;128;128;32;
      28;40;2;104;105;0;  24;0;  0]
  /\ (forall b, gcwrite ex_env (TRef 6) ex_val = Ok b ->
      gcread 100 ex_env (TRef 6) (b ++ [42]) =
      Ok (VStruct [ Some (VInt 2);
                    Some (VMap [(VInt 1, VList [VStruct [Some (VInt (-3)); Some (VInt 5)]; VStruct [Some (VInt 9); Some (VInt 6)]])]);
                    Some (VSet [VInt (-1); VInt 4294967296]);
                    Some (VStruct [None; Some (VBytes [104; 105])]);
                    Some (VBytes []);
                    Some (VDouble 7) ], [42])).
Proof.
  split; [vm_compute; reflexivity|].
  intros b H. vm_compute in H. injection H as <-. vm_compute. reflexivity.
Qed.

(** bools: folded into the header as a field (type 1 / 2, no value byte; long form for id 40),
    one byte each inside a container *)
Example c02_compact_bool_nonvacuous :
  let e := [(1, DStruct KStruct [mkField 1 MDefault TBool None; mkField 40 MDefault TBool None;
                                 mkField 41 MDefault (TList TBool) None])] in
  let v := VStruct [Some (VBool false); Some (VBool true); Some (VList [VBool true; VBool false])] in
  gcwrite e (TRef 1) v = Ok [18;  1;80;  25;33;1;2;  0] /\
  gcread 20 e (TRef 1) [18; 1;80; 25;33;1;2; 0; 7] = Ok (v, [7]).
Proof. split; vm_compute; reflexivity. Qed.

(** thrift.Skip over the compact protocol consumes exactly one encoded value (nesting below the
    depth limit) and leaves no bool pending *)
Theorem c02_compact_skip_exact : forall e w t fuel depth rest,
  wwt e t w -> (wsize w <= fuel)%nat -> wdepth w <= depth ->
  cskip fuel depth (wtype e t) (None, cenc e t w ++ rest) = Ok (None, rest).
Proof. exact compact_skip_exact. Qed.
Print Assumptions c02_compact_skip_exact.

(** Unknown fields are skipped under compact: a reader that declares [decls] reads what a writer with
    a larger schema [ftyp] (agreeing on the reader's ids) wrote from any lastFieldId, and gets
    exactly the fields it declares, in order; the others (any type, bools folded into their header,
    nesting below Thrift's depth limit 64) are skipped, and the field-id deltas stay in step. *)
Theorem c02_compact_unknown_fields_skipped : forall e decls ftyp l,
  (forall id ft, ftyp_of decls id = Some ft -> ftyp id = Some ft) ->
  Forall (wwt_entry_by e ftyp) l ->
  Forall (fun ix => wdepth (snd ix) <= 64) l ->
  forall fuel last rest, in_range 2 last -> (size_fields l <= fuel)%nat ->
  cdec_fields fuel e decls last (None, cenc_fields e ftyp l last ++ rest) = Ok (filter (known decls) l, (None, rest)).
Proof. exact compact_unknown_fields_skipped. Qed.
Print Assumptions c02_compact_unknown_fields_skipped.

(** binary and compact carry the same wire value: both readers return [w] from their own encoding *)
Theorem c02_compact_binary_same_value : forall e t w fuel r1 r2,
  wwt e t w -> (wsize w <= fuel)%nat ->
  exists s, cdec fuel e t (None, cenc e t w ++ r1) = Ok (w, s) /\ wdec fuel e t (wenc e t w ++ r2) = Ok (w, r2).
Proof. exact compact_binary_same_value. Qed.
Print Assumptions c02_compact_binary_same_value.

(** non-vacuity of the unknown-field theorem: a writer that also knows field 7 (a struct holding a
    bool and a list) and field 9 (bool) is read by a reader that declares only fields 1 and 12 *)
Example c02_compact_unknown_nonvacuous :
  let e := [(1, DStruct KStruct [mkField 1 MDefault TBool None; mkField 2 MDefault (TList TI32) None])] in
  let decls := [mkField 1 MDefault TI32 None; mkField 12 MDefault TString None] in
  let ftyp := fun id => if id =? 1 then Some TI32 else if id =? 7 then Some (TRef 1)
                        else if id =? 9 then Some TBool else if id =? 12 then Some TString else None in
  let l := [(1, VInt (-5)); (7, VRec [(1, VBool true); (2, VList [VInt 300])]); (9, VBool false); (12, VBytes [120])] in
  cenc_fields e ftyp l 0 = [21;9;  108; 17; 25;21;216;4; 0;  34;  56;1;120;  0] /\
  cdec_fields 20 e decls 0 (None, cenc_fields e ftyp l 0 ++ [9]) = Ok ([(1, VInt (-5)); (12, VBytes [120])], (None, [9])).
Proof. split; vm_compute; reflexivity. Qed.

(** No byte sequence makes the compact reader of the model panic: whatever the input, the pending
    bool, the declared type and the fuel, [cdec] and the generated Read [gcread] end in a value, an
    error or fuel exhaustion (the harness observes no panic either; a nil required struct field can
    only panic the *writer*, [nil_wire]) *)
Theorem c02_compact_read_never_panics : forall fuel e t b p st,
  gcread fuel e t b <> Panic p /\ cdec fuel e t st <> Panic p.
Proof. exact (fun fuel e t b p st => conj (compact_read_no_panic fuel e t b p) (compact_reader_no_panic fuel e t st p)). Qed.
Print Assumptions c02_compact_read_never_panics.

(** the compact encoding determines the value (and is prefix-free): two well-typed wire values of a
    type whose encodings, followed by anything, coincide are equal, and so is what follows *)
Theorem c02_compact_encoding_injective : forall e t w1 w2 r1 r2,
  wwt e t w1 -> wwt e t w2 -> cenc e t w1 ++ r1 = cenc e t w2 ++ r2 -> w1 = w2 /\ r1 = r2.
Proof. exact compact_encoding_injective. Qed.
Print Assumptions c02_compact_encoding_injective.
