(** C02 -- placeholder while the pipeline is brought up; replaced by the real theorems. *)
From Coq Require Import ZArith List.
From FV Require Import Base.Res Base.Bytes Model.ThriftBin.
Import ListNotations.
Open Scope Z_scope.

Theorem c02_args_have_no_optional : forall args f,
  In f (match mk_args args with DStruct _ fs => fs | _ => [] end) -> fmod f <> MOptional.
Proof.
  intros args f H. cbn in H. apply in_map_iff in H. destruct H as [g [<- _]].
  unfold args_field. destruct (fmod g) eqn:E; cbn; try rewrite E; discriminate.
Qed.
Print Assumptions c02_args_have_no_optional.
