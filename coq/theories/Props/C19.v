(** C19 — code generation is deterministic and location-independent.
    Only theorem statements, each closed by [exact] of a lemma from Proofs/.

    What is stated here (see the comment at the end for what is NOT):
    the compiler's output can depend on Go's randomised map iteration order only through the
    `range`-over-map sites of compiler/** (regenerated into Gen/MapSites.v on every run); every
    such site that can reach output follows a schema whose result is the same for every
    iteration order; the order in which files are generated and the directories they are
    written to are functions of the IDL content and options only. *)
From Coq Require Import String List ZArith Bool Permutation Sorting.Sorted.
From FV Require Import Model.MapOrder Proofs.MapOrderProofs Gen.MapSites Proofs.MapSitesProofs.
Import ListNotations.
Open Scope Z_scope.
Open Scope list_scope.

(** every map-iteration site of compiler/** that is reachable from compiler.Compile /
    GenerateFrugalWithOptions / parser.ParseFrugal is order-free in the sense of its class
    ([site_order_free]: for all iteration orders = all permutations of the entries) *)
Theorem c19_sites_order_free :
  Forall (fun s => ms_reach s = true -> site_order_free s) map_sites.
Proof. exact sites_order_free. Qed.
Print Assumptions c19_sites_order_free.

(** sorting with a comparison that is strict on the elements yields ONE list, whatever the
    order the elements were collected in and whatever (correct) algorithm sorts them *)
Theorem c19_sort_unique : forall (A : Type) (less : A -> A -> bool) (P : A -> Prop) (l l' out : list A),
  strict_on less P -> Forall P l -> Permutation l l' ->
  Permutation l' out -> inv_free less out ->
  out = sort_by less l.
Proof.
  intros A less P l l' out S HP H1 H2 H3.
  exact (any_sort_is_sort_by less P S l out HP (Permutation_trans H1 H2) H3).
Qed.
Print Assumptions c19_sort_unique.

(** collected keys + sort.Strings (dart addToPubspec, and the schema of every CSortedKeys site) *)
Theorem c19_sorted_keys_order_free : forall (V : Type) (iter iter' : list (str * V)),
  Permutation iter iter' -> sorted_keys_loop iter = sorted_keys_loop iter'.
Proof. exact @sorted_keys_order_free. Qed.
Print Assumptions c19_sorted_keys_order_free.

(** the HTML index: modules collected from a map keyed by file, sorted by Modules.Less *)
Theorem c19_html_modules_order_free : forall iter iter' : gomap module,
  keyed_by_file iter -> NoDup (map fst iter) -> Permutation iter iter' ->
  transitive_includes_from iter = transitive_includes_from iter'.
Proof. exact html_modules_order_free. Qed.
Print Assumptions c19_html_modules_order_free.

(** ... which was false of the comparator the tree had (Name only): the defect repaired by
    the commit "fix: html generator: break ties between same-named modules by file" *)
Theorem c19_html_modules_by_name_only_refuted :
  exists iter iter' : gomap module,
    Permutation iter iter' /\ NoDup (map fst iter) /\
    sorted_values_loop modules_less_by_name_only iter <> sorted_values_loop modules_less_by_name_only iter'.
Proof. exact sorted_values_order_sensitive. Qed.
Print Assumptions c19_html_modules_by_name_only_refuted.

(** transitiveIncludesRec: whatever order Go picks at EVERY `range module.ParsedIncludes`,
    the resulting map is the same *)
Theorem c19_rec_insert_order_free : forall fuel m acc out1 out2,
  file_functional fuel m ->
  trec_any fuel m acc out1 -> trec_any fuel m acc out2 -> map_equiv out1 out2.
Proof. exact rec_insert_order_free. Qed.
Print Assumptions c19_rec_insert_order_free.

(** the HTML index end to end: transitiveIncludesRec under ANY iteration orders, then `range
    moduleMap` in ANY order, then sort.Sort(Modules): one module list *)
Theorem c19_html_index_order_free : forall fuel m out1 out2 iter1 iter2,
  file_functional fuel m ->
  trec_any fuel m [] out1 -> trec_any fuel m [] out2 ->
  Permutation (dedup_keys out1) iter1 -> Permutation (dedup_keys out2) iter2 ->
  transitive_includes_from iter1 = transitive_includes_from iter2.
Proof. exact html_index_order_free. Qed.
Print Assumptions c19_html_index_order_free.

(** set-like stores commute *)
Theorem c19_set_insert_order_free : forall (V W : Type) keep kf (vf : str * V -> W) iter iter' t0,
  Permutation iter iter' -> consistent keep kf vf iter ->
  map_equiv (set_insert_loop keep kf vf iter t0) (set_insert_loop keep kf vf iter' t0).
Proof. exact @set_insert_order_free. Qed.
Print Assumptions c19_set_insert_order_free.

(** the order in which generateFrugalRec hands files to the generator does not depend on
    the layout of any ParsedIncludes map *)
Theorem c19_gen_plan_order_free : forall fuel uv m m' done acc,
  same_view fuel m m' -> gen_plan fuel uv m done acc = gen_plan fuel uv m' done acc.
Proof. exact gen_plan_view_free. Qed.
Print Assumptions c19_gen_plan_order_free.

(** scopes are generated in one order whatever order they were declared / collected in *)
Theorem c19_scope_order_free : forall l l' : list str,
  Permutation l l' -> sort_scopes l = sort_scopes l'.
Proof. exact sort_scopes_order_free. Qed.
Print Assumptions c19_scope_order_free.

(** output locations: relative to -out they do not depend on -out, and relative paths do not
    depend on a common absolute root *)
Theorem c19_rel_paths_location_free : forall root p q : path, rel (root ++ p) (root ++ q) = rel p q.
Proof. exact rel_common_root. Qed.
Print Assumptions c19_rel_paths_location_free.

Theorem c19_output_dir_location_free : forall lang out out' ns name,
  rel_output_dir lang out ns name = rel_output_dir lang out' ns name.
Proof. exact rel_output_dir_location_free. Qed.
Print Assumptions c19_output_dir_location_free.

Theorem c19_py_init_chain_location_free : forall root root' d,
  py_init_dirs root (root ++ d) = py_init_dirs root' (root' ++ d).
Proof. exact py_init_dirs_location_free. Qed.
Print Assumptions c19_py_init_chain_location_free.

(** global state: whatever compiles ran before in the same process, generation starts from the
    globals a fresh process would have *)
Theorem c19_compile_sees_fresh_globals : forall hist o generated,
  fst (compile_globals o generated (run_compiles hist globals_init)) = globals_set o globals_init.
Proof. exact compile_sees_fresh_globals. Qed.
Print Assumptions c19_compile_sees_fresh_globals.

(** ... and, read off the source on every run: every package-level variable of compiler/** that
    any function assigns belongs to package globals and Reset() restores it to its initialiser *)
Theorem c19_globals_reset_complete :
  forallb (fun d => restores d globals_reset) globals_decl = true /\
  forallb mutable_is_reset mutable_globals = true.
Proof. exact globals_reset_complete. Qed.
Print Assumptions c19_globals_reset_complete.

(** the json generator's collectFrugals does not depend on the layout of ParsedIncludes *)
Theorem c19_collect_frugals_order_free : forall fuel m m' used acc,
  same_view fuel m m' -> collect_frugals fuel m used acc = collect_frugals fuel m' used acc.
Proof. exact collect_frugals_view_free. Qed.
Print Assumptions c19_collect_frugals_order_free.

(** non-vacuity *)
Example c19_sites_nonvacuous :
  (length (filter ms_reach map_sites) >= 3)%nat /\
  existsb (fun s => negb (class_eqb (ms_class s) CLibSorted) && ms_reach s) map_sites = true.
Proof. vm_compute. repeat split; auto. Qed.

Example c19_html_nonvacuous :
  let a := Mod [47;97;47;120] [120] [] [] [] in
  let b := Mod [47;98;47;120] [120] [] [] [] in
  let root := Mod [47;109] [109] [([120], false); ([121], false)]
                  [([120], a); ([121], Mod [47;121] [121] [([120], false)] [([120], b)] [])] [] in
  map m_file (transitive_includes 5 root) = [[47;109]; [47;97;47;120]; [47;98;47;120]; [47;121]] /\
  trec_any 3 root [] (trec 3 root []) /\
  snd (gen_plan 5 false root [] []) = [[47;109]; [47;97;47;120]; [47;121]; [47;98;47;120]].
Proof.
  cbn zeta. split; [vm_compute; reflexivity|]. split; [|vm_compute; reflexivity].
  apply trec_is_an_execution. cbn. intros e [<-|[<-|[]]]; cbn; [tauto|].
  intros e [<-|[]]. cbn. tauto.
Qed.

(** NOT stated here (partial): that the generated TEXT is a function of the IDL and options.
    The text generators (several thousand lines per target language) are not modelled; the
    full statement

      forall program options run1 run2 cwd1 cwd2 root1 root2 out1 out2,
        emitted_files (compile program options run1 cwd1 root1 out1)
        = emitted_files (compile program options run2 cwd2 root2 out2)

    is checked by exploration only (sha256 of every emitted file over repeated runs and
    location changes, tools/props/c19.py).  The classification of loop bodies and the call
    graph behind [ms_reach] are a static analysis in translator/mapsites.go (trusted). *)
