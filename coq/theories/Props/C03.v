(** C03 -- a call through generated client and server code is faithful end to end.
    Only theorem statements, each closed by [exact] of a lemma from Proofs/GenCallProofs.v.

    The model (Model/GenCall.v) is the generated client method (args struct, FStandardClient.Call /
    Oneway: prepareMessage, processReply, result struct -> return value / exception), the frame, and
    the generated processor (FBaseProcessor.Process: request header, message header, dispatch by
    name through the processor map built along the extends chain; <svc>F<Method>.Process: args
    struct, handler, exception mapping, SendReply / SendError), over the TBinary codec and the
    generated struct codecs of Model/ThriftBin.v and the header codec of Model/Headers.v.
    Every function of the model takes the Thrift protocol as a parameter ([codec]: message header,
    TApplicationException, generated struct Write / Read, Skip); the unsuffixed names ([rpc_call],
    [respond], [process_reply] ...) are the TBinaryProtocol instances, the second half of this
    file states the same theorems for TCompactProtocol ([rpc_call_c compact_codec] ...), both
    obtained from one proof over the four round-trip laws [codec_ok].
    [rpc_call fuel e pm h registry m hdrs args] returns what the caller gets, the handler log and
    the reply the server produced; [registry] says whether the client transport dispatches replies
    by op id (adapter, NATS) or hands them over directly (HTTP, in-memory). *)
From Coq Require Import ZArith List Bool Lia.
From FV Require Import Base.Res Base.Bytes Base.GoSem Model.Headers Model.Receivers Model.ThriftBin Model.ThriftCompact
     Model.GenCall Proofs.ThriftBinProofs Proofs.ThriftBinGoProofs Proofs.GenCallProofs.
Import ListNotations.
Open Scope Z_scope.

(** Faithfulness of a two-way call.  For every environment (typedefs, enums, struct-likes), every
    method [m] the processor serves under its wire name, every argument tuple that is a value of
    the declared parameter types ([gwf]), every handler [h] whose outcome on these arguments is
    well-formed ([outcome_ok]: a returned value / raised exception of the declared type, message
    texts and type ids that fit their wire fields), every request header block that holds an op id:
    the handler is invoked exactly once, with exactly the caller's arguments, and the caller gets
    [map_outcome] of the handler's outcome:
      value returned            -> that value (nil pointer / container stays nil; an unset primitive reads as zero)
      declared exception        -> that exception (the first throws entry of its type)
      TApplicationException k t -> TApplicationException k t  (k = 100, RESPONSE_TOO_LARGE: TTransportException 101, as coded)
      any other error t, or an exception the method does not declare -> TApplicationException INTERNAL_ERROR
                                   "Internal error processing <method>: t"
    When replies are dispatched by op id the reply reaches this caller (its header block carries the
    caller's op id), provided the op id is a number and the reply fits a frame. *)
Theorem c03_call_faithful : forall e pm h registry m hdrs opid args,
  plookup (m_wire m) pm = Some m ->
  m_oneway m = false ->
  header_size hdrs < 2147483648 -> Headers.lookup opid_header hdrs = Some opid ->
  header_size (response_headers (to_map hdrs) opid) < 2147483648 ->
  zlen (m_wire m) < 2147483648 ->
  gwf e (TRef (m_args m)) (VStruct args) ->
  outcome_ok e m (h (m_wire m) args) ->
  (registry = true ->
   (exists n, parse_uint64 opid = Some n) /\
   forall reply, respond e (response_headers (to_map hdrs) opid) m (h (m_wire m) args) = Ok (Some reply) ->
                 zlen reply < 2147483648) ->
  exists fuel0, forall fuel, (fuel0 <= fuel)%nat ->
    exists reply,
      rpc_call fuel e pm h registry m hdrs args =
      Ok (map_outcome e m (h (m_wire m) args), [(m_wire m, args)], Some reply).
Proof. exact (call_faithful bin_codec bin_codec_ok). Qed.
Print Assumptions c03_call_faithful.

(** Methods inherited through extends behave identically: whatever method the generated client of
    service [s] resolves for a Go method name -- its own or one promoted from the embedded client of
    a base service, at any depth -- is served by the generated processor of [s] (whose map is built
    base first along the same chain), provided the wire names along the chain are distinct; the
    call then has exactly the outcome of [c03_call_faithful]. *)
Theorem c03_inherited_served : forall fuel ss s go m,
  NoDup (map fst (proc_entries fuel ss s)) ->
  client_resolve fuel ss s go = Some m ->
  plookup (m_wire m) (proc_entries fuel ss s) = Some m.
Proof. exact inherited_served. Qed.
Print Assumptions c03_inherited_served.

Theorem c03_inherited_call_faithful : forall fuel_s ss s go e h registry m hdrs opid args,
  NoDup (map fst (proc_entries fuel_s ss s)) ->
  client_resolve fuel_s ss s go = Some m ->
  m_oneway m = false ->
  header_size hdrs < 2147483648 -> Headers.lookup opid_header hdrs = Some opid ->
  header_size (response_headers (to_map hdrs) opid) < 2147483648 ->
  zlen (m_wire m) < 2147483648 ->
  gwf e (TRef (m_args m)) (VStruct args) ->
  outcome_ok e m (h (m_wire m) args) ->
  (registry = true ->
   (exists n, parse_uint64 opid = Some n) /\
   forall reply, respond e (response_headers (to_map hdrs) opid) m (h (m_wire m) args) = Ok (Some reply) ->
                 zlen reply < 2147483648) ->
  exists fuel0, forall fuel, (fuel0 <= fuel)%nat ->
    exists reply,
      rpc_call fuel e (proc_entries fuel_s ss s) h registry m hdrs args =
      Ok (map_outcome e m (h (m_wire m) args), [(m_wire m, args)], Some reply).
Proof. exact (service_call_faithful bin_codec bin_codec_ok). Qed.
Print Assumptions c03_inherited_call_faithful.

(** Oneway: the caller gets nil, the handler is invoked exactly once with the caller's arguments
    whatever it returns, and when it returns nil the processor writes nothing: no reply.
    (A oneway handler that fails does produce an EXCEPTION message -- SendError does not look at
    the message type; nobody waits for it.) *)
Theorem c03_oneway_no_reply : forall e pm h registry m hdrs opid args,
  plookup (m_wire m) pm = Some m ->
  m_oneway m = true ->
  header_size hdrs < 2147483648 -> Headers.lookup opid_header hdrs = Some opid ->
  zlen (m_wire m) < 2147483648 ->
  gwf e (TRef (m_args m)) (VStruct args) ->
  exists fuel0, forall fuel, (fuel0 <= fuel)%nat ->
    exists out,
      rpc_call fuel e pm h registry m hdrs args = Ok (CRet None, [(m_wire m, args)], out) /\
      (forall ov, h (m_wire m) args = HRet ov -> out = None).
Proof. exact (oneway_no_reply bin_codec bin_codec_ok). Qed.
Print Assumptions c03_oneway_no_reply.

(** A method the processor does not serve is rejected with UNKNOWN_METHOD "Unknown function <name>";
    no handler is invoked (arguments nested at most 64 deep: thrift.Skip's limit). *)
Theorem c03_unknown_method_rejected : forall e pm h m hdrs opid args,
  plookup (m_wire m) pm = None ->
  m_oneway m = false ->
  header_size hdrs < 2147483648 -> Headers.lookup opid_header hdrs = Some opid ->
  header_size (response_headers (to_map hdrs) opid) < 2147483648 ->
  zlen (s_unknown_function ++ m_wire m) < 2147483648 ->
  gwf e (TRef (m_args m)) (VStruct args) ->
  (forall w, to_wire e (TRef (m_args m)) (VStruct args) = Ok w -> wdepth w <= 64) ->
  exists fuel0, forall fuel, (fuel0 <= fuel)%nat ->
    exists reply,
      rpc_call fuel e pm h false m hdrs args =
      Ok (CAppExc AE_UNKNOWN_METHOD (s_unknown_function ++ m_wire m), [], Some reply).
Proof. exact (unknown_method_rejected bin_codec bin_codec_ok). Qed.
Print Assumptions c03_unknown_method_rejected.

(** The caller rejects a reply that carries another method name (WRONG_METHOD_NAME) or a message
    type that is neither REPLY nor EXCEPTION (INVALID_MESSAGE_TYPE), whatever the rest of it holds. *)
Theorem c03_wrong_method_or_type_rejected : forall e m fuel reply hs r1 nm typ seq r2,
  read_header reply = Ok (hs, r1) -> msg_begin_dec r1 = Ok (nm, typ, seq, r2) ->
  (nm <> m_wire m -> process_reply fuel e m reply = CAppExc AE_WRONG_METHOD_NAME (m_wire m ++ s_wrong_method)) /\
  (nm = m_wire m -> typ <> T_EXCEPTION -> typ <> T_REPLY ->
   process_reply fuel e m reply = CAppExc AE_INVALID_MESSAGE_TYPE (m_wire m ++ s_invalid_type)).
Proof. exact (wrong_reply_rejected bin_codec). Qed.
Print Assumptions c03_wrong_method_or_type_rejected.

(** the codecs the call is built from *)
Theorem c03_message_header_roundtrip : forall nm typ seq rest,
  0 <= typ < 256 -> zlen nm < 2147483648 -> in_range 4 seq ->
  msg_begin_dec (msg_begin_enc nm typ seq ++ rest) = Ok (nm, typ, seq, rest).
Proof. exact msg_begin_roundtrip. Qed.
Print Assumptions c03_message_header_roundtrip.

Theorem c03_application_exception_roundtrip : forall kind text rest fuel,
  (3 <= fuel)%nat -> zlen text < 2147483648 -> in_range 4 kind ->
  appexc_dec fuel (appexc_enc kind text ++ rest) [] 0 = Ok (text, kind, rest).
Proof. exact appexc_roundtrip. Qed.
Print Assumptions c03_application_exception_roundtrip.

(** Non-vacuity.  Program:
      1  exception Err { 1: string why }
      service Base    { string ping(1: i32 x) throws (1: Err e) }          args 10, result 11
      service Derived extends Base { oneway void fire(1: i32 n), void nop() }   args 12 / 14, result 13 / 15 *)
Definition ex_env : env :=
  [ (1, DStruct KException [mkField 1 MDefault TString None]);
    (10, mk_args [mkField 1 MDefault TI32 None]);
    (11, mk_result (Some TString) [mkField 1 MDefault (TRef 1) None]);
    (12, mk_args [mkField 1 MDefault TI32 None]);
    (13, mk_result None []);
    (14, mk_args []);
    (15, mk_result None []) ].
Definition ex_ping : method :=
  mkMethod [80; 105; 110; 103] [112; 105; 110; 103] false 10 11 (Some TString) [mkField 1 MDefault (TRef 1) None].
Definition ex_fire : method := mkMethod [70; 105; 114; 101] [102; 105; 114; 101] true 12 13 None [].
Definition ex_nop : method := mkMethod [78; 111; 112] [110; 111; 112] false 14 15 None [].
Definition ex_services : services :=
  [ (1, mkService None [ex_ping]); (2, mkService (Some 1) [ex_fire; ex_nop]) ].
(** request headers: _opid = "7", _cid = "c" *)
Definition ex_hdrs : list hpair := [ (opid_header, [55]); (cid_hdr, [99]) ].
Definition ex_pm := proc_entries 3 ex_services 2.

(** the derived client resolves the inherited method, and the derived processor serves it *)
Example c03_ex_inherited :
  client_resolve 3 ex_services 2 [80; 105; 110; 103] = Some ex_ping
  /\ NoDup (map fst ex_pm)
  /\ plookup (m_wire ex_ping) ex_pm = Some ex_ping.
Proof.
  split; [reflexivity|]. split; [|reflexivity].
  unfold ex_pm. cbn. repeat constructor; cbn; intuition discriminate.
Qed.

(** calls through the derived service, computed by the model: a value, a declared exception, an
    undeclared error, a TApplicationException, a oneway call (no reply), an unknown method *)
Example c03_ex_calls :
  (exists reply, rpc_call 50 ex_env ex_pm (fun _ _ => HRet (Some (VBytes [104; 105]))) true ex_ping ex_hdrs [Some (VInt 7)]
     = Ok (CRet (Some (VBytes [104; 105])), [([112; 105; 110; 103], [Some (VInt 7)])], Some reply))
  /\ (exists reply, rpc_call 50 ex_env ex_pm (fun _ _ => HDeclared 1 (VStruct [Some (VBytes [110; 111])]) []) true ex_ping ex_hdrs [Some (VInt (-1))]
     = Ok (CDeclared 1 (VStruct [Some (VBytes [110; 111])]), [([112; 105; 110; 103], [Some (VInt (-1))])], Some reply))
  /\ (exists reply, rpc_call 50 ex_env ex_pm (fun _ _ => HOther [120]) false ex_ping ex_hdrs [Some (VInt 0)]
     = Ok (CAppExc 6 (s_internal_error ++ [112; 105; 110; 103] ++ s_colon ++ [120]), [([112; 105; 110; 103], [Some (VInt 0)])], Some reply))
  /\ (exists reply, rpc_call 50 ex_env ex_pm (fun _ _ => HAppExc 42 [113]) true ex_nop ex_hdrs []
     = Ok (CAppExc 42 [113], [([110; 111; 112], [])], Some reply))
  /\ rpc_call 50 ex_env ex_pm (fun _ _ => HRet None) true ex_fire ex_hdrs [Some (VInt 3)]
     = Ok (CRet None, [([102; 105; 114; 101], [Some (VInt 3)])], None)
  /\ (exists reply, rpc_call 50 ex_env (proc_entries 3 ex_services 1) (fun _ _ => HRet None) false ex_nop ex_hdrs []
     = Ok (CAppExc 1 (s_unknown_function ++ [110; 111; 112]), [], Some reply)).
Proof. repeat split; try (eexists; vm_compute; reflexivity); vm_compute; reflexivity. Qed.

(** the hypotheses of [c03_call_faithful] are satisfiable: ping(7) answered with "hi" *)
Example c03_ex_hypotheses :
  let h : handler := fun _ _ => HRet (Some (VBytes [104; 105])) in
  plookup (m_wire ex_ping) ex_pm = Some ex_ping
  /\ header_size ex_hdrs < 2147483648 /\ Headers.lookup opid_header ex_hdrs = Some [55]
  /\ header_size (response_headers (to_map ex_hdrs) [55]) < 2147483648
  /\ gwf ex_env (TRef (m_args ex_ping)) (VStruct [Some (VInt 7)])
  /\ outcome_ok ex_env ex_ping (h (m_wire ex_ping) [Some (VInt 7)])
  /\ (exists n, parse_uint64 [55] = Some n).
Proof.
  cbv zeta. split; [reflexivity|]. split; [vm_compute; reflexivity|]. split; [reflexivity|].
  split; [vm_compute; reflexivity|]. split; [|split; [|eexists; vm_compute; reflexivity]].
  - eapply gwf_struct with (k := KStruct); [reflexivity| | |discriminate|].
    + repeat constructor; cbn; intuition discriminate.
    + repeat constructor; cbn; apply in_range_2; lia.
    + constructor; [|constructor].
      split; [intros _; eexists; split; [reflexivity|]|intros H; discriminate H].
      eapply gwf_int with (n := 4%nat); [reflexivity|right; right; left; reflexivity|apply in_range_4; lia].
  - cbn [outcome_ok]. intros _.
    eapply gwf_struct with (k := KStruct); [reflexivity| | |discriminate|].
    + repeat constructor; cbn; intuition discriminate.
    + repeat constructor; cbn; apply in_range_2; lia.
    + constructor; [|constructor; [|constructor]].
      * split; [intros _; eexists; split; [reflexivity|]|intros H; discriminate H].
        apply gwf_bytes; [left; reflexivity|cbn; lia].
      * split; [intros H; discriminate H|intros _; reflexivity].
Qed.

(** * The same call over TCompactProtocol

    [compact_codec]: the message envelope of compact_protocol.go (WriteMessageBegin: protocol id 0x82,
    version 1 | type << 5, varint seqid, varint-length name; ReadMessageBegin checks id and version),
    tApplicationException.Write / Read driven over compact field headers, and the args / result
    structs through the generated Write / Read over Model/ThriftCompact.v ([gcwrite] / [gcread], see
    c02_compact_roundtrip).  The statements are those above with [rpc_call_c compact_codec] etc. *)

(** the envelope: ReadMessageBegin reads back what WriteMessageBegin wrote; only three bits of the
    message type travel (CALL 1, REPLY 2, EXCEPTION 3, ONEWAY 4 fit) *)
Theorem c03_compact_message_header_roundtrip : forall nm typ seq rest,
  0 <= typ < 8 -> zlen nm < 2147483648 -> in_range 4 seq ->
  cmsg_begin_dec (cmsg_begin_enc nm typ seq ++ rest) = Ok (nm, typ, seq, rest).
Proof. exact cmsg_begin_roundtrip. Qed.
Print Assumptions c03_compact_message_header_roundtrip.

Theorem c03_compact_application_exception_roundtrip : forall kind text rest fuel,
  (3 <= fuel)%nat -> zlen text < 2147483648 -> in_range 4 kind ->
  cappexc_dec fuel (cappexc_enc kind text ++ rest) = Ok (text, kind, rest).
Proof. exact cappexc_roundtrip. Qed.
Print Assumptions c03_compact_application_exception_roundtrip.

(** both protocols satisfy the four laws the call theorems are proved from *)
Theorem c03_codecs_lawful : codec_ok bin_codec /\ codec_ok compact_codec.
Proof. exact (conj bin_codec_ok compact_codec_ok). Qed.
Print Assumptions c03_codecs_lawful.

Theorem c03_compact_call_faithful : forall e pm h registry m hdrs opid args,
  plookup (m_wire m) pm = Some m ->
  m_oneway m = false ->
  header_size hdrs < 2147483648 -> Headers.lookup opid_header hdrs = Some opid ->
  header_size (response_headers (to_map hdrs) opid) < 2147483648 ->
  zlen (m_wire m) < 2147483648 ->
  gwf e (TRef (m_args m)) (VStruct args) ->
  outcome_ok e m (h (m_wire m) args) ->
  (registry = true ->
   (exists n, parse_uint64 opid = Some n) /\
   forall reply, respond_c compact_codec e (response_headers (to_map hdrs) opid) m (h (m_wire m) args) = Ok (Some reply) ->
                 zlen reply < 2147483648) ->
  exists fuel0, forall fuel, (fuel0 <= fuel)%nat ->
    exists reply,
      rpc_call_c compact_codec fuel e pm h registry m hdrs args =
      Ok (map_outcome e m (h (m_wire m) args), [(m_wire m, args)], Some reply).
Proof. exact (call_faithful compact_codec compact_codec_ok). Qed.
Print Assumptions c03_compact_call_faithful.

Theorem c03_compact_inherited_call_faithful : forall fuel_s ss s go e h registry m hdrs opid args,
  NoDup (map fst (proc_entries fuel_s ss s)) ->
  client_resolve fuel_s ss s go = Some m ->
  m_oneway m = false ->
  header_size hdrs < 2147483648 -> Headers.lookup opid_header hdrs = Some opid ->
  header_size (response_headers (to_map hdrs) opid) < 2147483648 ->
  zlen (m_wire m) < 2147483648 ->
  gwf e (TRef (m_args m)) (VStruct args) ->
  outcome_ok e m (h (m_wire m) args) ->
  (registry = true ->
   (exists n, parse_uint64 opid = Some n) /\
   forall reply, respond_c compact_codec e (response_headers (to_map hdrs) opid) m (h (m_wire m) args) = Ok (Some reply) ->
                 zlen reply < 2147483648) ->
  exists fuel0, forall fuel, (fuel0 <= fuel)%nat ->
    exists reply,
      rpc_call_c compact_codec fuel e (proc_entries fuel_s ss s) h registry m hdrs args =
      Ok (map_outcome e m (h (m_wire m) args), [(m_wire m, args)], Some reply).
Proof. exact (service_call_faithful compact_codec compact_codec_ok). Qed.
Print Assumptions c03_compact_inherited_call_faithful.

Theorem c03_compact_oneway_no_reply : forall e pm h registry m hdrs opid args,
  plookup (m_wire m) pm = Some m ->
  m_oneway m = true ->
  header_size hdrs < 2147483648 -> Headers.lookup opid_header hdrs = Some opid ->
  zlen (m_wire m) < 2147483648 ->
  gwf e (TRef (m_args m)) (VStruct args) ->
  exists fuel0, forall fuel, (fuel0 <= fuel)%nat ->
    exists out,
      rpc_call_c compact_codec fuel e pm h registry m hdrs args = Ok (CRet None, [(m_wire m, args)], out) /\
      (forall ov, h (m_wire m) args = HRet ov -> out = None).
Proof. exact (oneway_no_reply compact_codec compact_codec_ok). Qed.
Print Assumptions c03_compact_oneway_no_reply.

Theorem c03_compact_unknown_method_rejected : forall e pm h m hdrs opid args,
  plookup (m_wire m) pm = None ->
  m_oneway m = false ->
  header_size hdrs < 2147483648 -> Headers.lookup opid_header hdrs = Some opid ->
  header_size (response_headers (to_map hdrs) opid) < 2147483648 ->
  zlen (s_unknown_function ++ m_wire m) < 2147483648 ->
  gwf e (TRef (m_args m)) (VStruct args) ->
  (forall w, to_wire e (TRef (m_args m)) (VStruct args) = Ok w -> wdepth w <= 64) ->
  exists fuel0, forall fuel, (fuel0 <= fuel)%nat ->
    exists reply,
      rpc_call_c compact_codec fuel e pm h false m hdrs args =
      Ok (CAppExc AE_UNKNOWN_METHOD (s_unknown_function ++ m_wire m), [], Some reply).
Proof. exact (unknown_method_rejected compact_codec compact_codec_ok). Qed.
Print Assumptions c03_compact_unknown_method_rejected.

(** wrong method name / wrong message type, whatever follows the envelope *)
Theorem c03_compact_wrong_method_or_type_rejected : forall e m fuel reply hs r1 nm typ seq r2,
  read_header reply = Ok (hs, r1) -> cmsg_begin_dec r1 = Ok (nm, typ, seq, r2) ->
  (nm <> m_wire m -> process_reply_c compact_codec fuel e m reply = CAppExc AE_WRONG_METHOD_NAME (m_wire m ++ s_wrong_method)) /\
  (nm = m_wire m -> typ <> T_EXCEPTION -> typ <> T_REPLY ->
   process_reply_c compact_codec fuel e m reply = CAppExc AE_INVALID_MESSAGE_TYPE (m_wire m ++ s_invalid_type)).
Proof. exact (wrong_reply_rejected compact_codec). Qed.
Print Assumptions c03_compact_wrong_method_or_type_rejected.

(** an EXCEPTION reply written by SendError / writeException is read by the caller as that
    TApplicationException (type 100, RESPONSE_TOO_LARGE: TTransportException 101, as coded) *)
Theorem c03_compact_exception_reply : forall e m rh kind text fuel,
  header_size rh < 2147483648 -> zlen (m_wire m) < 2147483648 ->
  in_range 4 kind -> zlen text < 2147483648 -> (3 <= fuel)%nat ->
  process_reply_c compact_codec fuel e m (exception_msg_c compact_codec rh (m_wire m) kind text) =
  if kind =? AE_RESPONSE_TOO_LARGE then CTransport TE_RESPONSE_TOO_LARGE text else CAppExc kind text.
Proof. exact (exception_reply_read compact_codec compact_codec_ok). Qed.
Print Assumptions c03_compact_exception_reply.

(** non-vacuity under compact: the calls of [c03_ex_calls], and the bytes of one request and its reply:
    header block (version 0, size 27, "_opid"="7", "_cid"="c"), 0x82, 0x21 = version 1 | CALL << 5,
    seqid 0, name length 4 "ping", field 1 (delta 1) i32 zigzag(7) = 14, STOP;
    reply: header block, 0x82, 0x41 = version 1 | REPLY << 5, 0, 4 "ping", field 0 (long form: type 8,
    zigzag id 0) length 2 "hi", STOP *)
Example c03_compact_ex_calls :
  (exists reply, rpc_call_c compact_codec 50 ex_env ex_pm (fun _ _ => HRet (Some (VBytes [104; 105]))) true ex_ping ex_hdrs [Some (VInt 7)]
     = Ok (CRet (Some (VBytes [104; 105])), [([112; 105; 110; 103], [Some (VInt 7)])], Some reply))
  /\ (exists reply, rpc_call_c compact_codec 50 ex_env ex_pm (fun _ _ => HDeclared 1 (VStruct [Some (VBytes [110; 111])]) []) true ex_ping ex_hdrs [Some (VInt (-1))]
     = Ok (CDeclared 1 (VStruct [Some (VBytes [110; 111])]), [([112; 105; 110; 103], [Some (VInt (-1))])], Some reply))
  /\ (exists reply, rpc_call_c compact_codec 50 ex_env ex_pm (fun _ _ => HOther [120]) false ex_ping ex_hdrs [Some (VInt 0)]
     = Ok (CAppExc 6 (s_internal_error ++ [112; 105; 110; 103] ++ s_colon ++ [120]), [([112; 105; 110; 103], [Some (VInt 0)])], Some reply))
  /\ (exists reply, rpc_call_c compact_codec 50 ex_env ex_pm (fun _ _ => HAppExc 42 [113]) true ex_nop ex_hdrs []
     = Ok (CAppExc 42 [113], [([110; 111; 112], [])], Some reply))
  /\ rpc_call_c compact_codec 50 ex_env ex_pm (fun _ _ => HRet None) true ex_fire ex_hdrs [Some (VInt 3)]
     = Ok (CRet None, [([102; 105; 114; 101], [Some (VInt 3)])], None)
  /\ (exists reply, rpc_call_c compact_codec 50 ex_env (proc_entries 3 ex_services 1) (fun _ _ => HRet None) false ex_nop ex_hdrs []
     = Ok (CAppExc 1 (s_unknown_function ++ [110; 111; 112]), [], Some reply)).
Proof. repeat split; try (eexists; vm_compute; reflexivity); vm_compute; reflexivity. Qed.

Example c03_compact_ex_bytes :
  client_prepare_c compact_codec ex_env ex_ping ex_hdrs [Some (VInt 7)] =
  Ok ([0; 0;0;0;27; 0;0;0;5; 95;111;112;105;100; 0;0;0;1; 55; 0;0;0;4; 95;99;105;100; 0;0;0;1; 99]
      ++ [130; 33; 0; 4; 112;105;110;103] ++ [21; 14; 0])
  /\ (forall req, client_prepare_c compact_codec ex_env ex_ping ex_hdrs [Some (VInt 7)] = Ok req ->
      server_process_c compact_codec 50 ex_env ex_pm (fun _ _ => HRet (Some (VBytes [104; 105]))) req =
      Ok (Some ([0; 0;0;0;27; 0;0;0;5; 95;111;112;105;100; 0;0;0;1; 55; 0;0;0;4; 95;99;105;100; 0;0;0;1; 99]
                ++ [130; 65; 0; 4; 112;105;110;103] ++ [8; 0; 2; 104;105; 0]),
          [([112; 105; 110; 103], [Some (VInt 7)])])).
Proof.
  split; [vm_compute; reflexivity|]. intros req H. vm_compute in H. injection H as <-. vm_compute. reflexivity.
Qed.

(** * Several calls in flight at once through one generated client

    Model/GenCallConc.v composes the registry model of C01 (Model/Registry.v: Register / Unregister /
    Execute / dispatch and Request of the adapter and NATS transports, as an interleaving small-step
    system over callers, send goroutines, clock, environment and the single reader) with the call
    model above: the frame [reply_frame j] the reader dispatches for call [j] carries the op id that
    Execute reads from the header block of the server's reply to [j] ([server_reply j], a function
    of the request and of the handler's outcome for it alone -- the generated processor keeps no
    state between requests), and [conc_outcome i o] is what the generated client method returns to
    caller [i] once Request has returned [o] (processReply on the frame's payload).
    [alone_outcome i] is the outcome of [rpc_call_c] for the same call made alone. *)
From FV Require Import Model.Registry Model.GenCallConc Proofs.RegistryProofs Proofs.GenCallConcProofs.

(** For either protocol ([cd]), either transport ([tk]), the pinned or the repaired dispatch ([b]), any
    number [n] of callers whose op ids are pairwise distinct (C17) and each of whose replies is
    delivered when the call is made alone ([delivered_aloneb]: Execute finds the caller's op id in
    the reply's header block), EVERY event sequence the registry model accepts -- any interleaving of
    callers, send goroutines, timeouts and reader steps -- in which the frames reaching dispatch are
    server replies to these calls in any order, duplicated or late ([net_okb]; on NATS also status
    503 messages): a two-way caller to which Request returns a frame gets exactly the outcome of
    the same call made alone.  (Corollary of c01_own_response and of the server being a function.) *)
Theorem c03_concurrent_calls_independent : forall cd fuel e pm calls tk b dl n evs s i f,
  distinct_ops (call_op calls) n ->
  all_below n (delivered_aloneb cd fuel e pm calls) = true ->
  run tk b (init (call_op calls) dl n) evs = Some s ->
  net_okb cd fuel e pm calls tk n evs = true ->
  (i < n)%nat -> m_oneway (cc_m (calls i)) = false ->
  c_phase (callers s i) = CDone (OOk f) ->
  exists c, conc_outcome cd fuel e pm calls i (OOk f) = Some c /\ alone_outcome cd fuel e pm calls i = Some c.
Proof. exact concurrent_calls_independent. Qed.
Print Assumptions c03_concurrent_calls_independent.

(** ... because the frame it was handed is the reply to its own request, never another caller's *)
Theorem c03_concurrent_calls_own_reply : forall cd fuel e pm calls tk b dl n evs s i f,
  distinct_ops (call_op calls) n ->
  all_below n (delivered_aloneb cd fuel e pm calls) = true ->
  run tk b (init (call_op calls) dl n) evs = Some s ->
  net_okb cd fuel e pm calls tk n evs = true ->
  (i < n)%nat ->
  c_phase (callers s i) = CDone (OOk f) ->
  reply_frame cd fuel e pm calls i = Some f.
Proof. exact concurrent_calls_own_reply. Qed.
Print Assumptions c03_concurrent_calls_own_reply.

(** With the hypotheses of [c03_call_faithful] for each of the [n] calls (a lawful protocol, methods
    served, well-typed arguments and handler outcomes, numeric op ids, replies that fit a frame):
    in every interleaving every caller that gets a frame gets [map_outcome] of its own handler's
    outcome. *)
Theorem c03_concurrent_calls_faithful : forall cd, codec_ok cd -> forall e pm calls n,
  distinct_ops (call_op calls) n ->
  (forall j, (j < n)%nat ->
     let c := calls j in
     exists opid,
       plookup (m_wire (cc_m c)) pm = Some (cc_m c) /\
       m_oneway (cc_m c) = false /\
       header_size (cc_hdrs c) < 2147483648 /\ Headers.lookup opid_header (cc_hdrs c) = Some opid /\
       header_size (response_headers (to_map (cc_hdrs c)) opid) < 2147483648 /\
       zlen (m_wire (cc_m c)) < 2147483648 /\
       gwf e (TRef (m_args (cc_m c))) (VStruct (cc_args c)) /\
       outcome_ok e (cc_m c) (cc_h c (m_wire (cc_m c)) (cc_args c)) /\
       (exists k, parse_uint64 opid = Some k) /\
       (forall reply, respond_c cd e (response_headers (to_map (cc_hdrs c)) opid) (cc_m c)
                                (cc_h c (m_wire (cc_m c)) (cc_args c)) = Ok (Some reply) ->
                      zlen reply < 2147483648)) ->
  exists fuel0, forall fuel, (fuel0 <= fuel)%nat ->
    forall tk b dl evs s i f,
      run tk b (init (call_op calls) dl n) evs = Some s ->
      net_okb cd fuel e pm calls tk n evs = true ->
      (i < n)%nat -> c_phase (callers s i) = CDone (OOk f) ->
      conc_outcome cd fuel e pm calls i (OOk f) =
      Some (map_outcome e (cc_m (calls i)) (cc_h (calls i) (m_wire (cc_m (calls i))) (cc_args (calls i)))).
Proof. exact concurrent_calls_faithful. Qed.
Print Assumptions c03_concurrent_calls_faithful.

(** Non-vacuity: three calls in flight through the derived client of the example program, op ids 7, 8, 9:
    ping(7) answered "hi", ping(-1) answered with the declared exception, nop answered with a
    TApplicationException.  The replies arrive in the order 2, 0, 0 again (dropped), 1 and are taken in
    yet another order; every hypothesis of [c03_concurrent_calls_independent] holds, the run is accepted,
    and every caller ends with the outcome of its call made alone (both protocols). *)
Definition ex_conc_calls : nat -> ccall := fun i =>
  match i with
  | 0%nat => mkCcall ex_ping [ (opid_header, [55]); (cid_hdr, [99]) ] [Some (VInt 7)]
                     (fun _ _ => HRet (Some (VBytes [104; 105])))
  | 1%nat => mkCcall ex_ping [ (opid_header, [56]); (cid_hdr, [99]) ] [Some (VInt (-1))]
                     (fun _ _ => HDeclared 1 (VStruct [Some (VBytes [110; 111])]) [])
  | _ => mkCcall ex_nop [ (opid_header, [57]) ] [] (fun _ _ => HAppExc 42 [113])
  end.
Definition ex_fr (j : nat) (op : Z) : frame := {| f_op := op; f_tag := Z.of_nat j |}.
Definition ex_conc_evs : list ev :=
  [ERegister 0; ERegister 1; ERegister 2; ERelease 0; ERelease 1; ERelease 2; ESendOk 1; ESendOk 0; ESendOk 2;
   EArrive (ex_fr 2 9); EDeliver; EArrive (ex_fr 0 7); EDeliver; EArrive (ex_fr 0 7); EDeliver;
   EArrive (ex_fr 1 8); EDeliver;
   ETake 1 TResult; ETake 2 TResult; EUnregister 2; ETake 0 TResult; EUnregister 0; EUnregister 1].

Example c03_concurrent_nonvacuous :
  forall cd, cd = bin_codec \/ cd = compact_codec ->
  distinct_ops (call_op ex_conc_calls) 3
  /\ all_below 3 (delivered_aloneb cd 50 ex_env ex_pm ex_conc_calls) = true
  /\ net_okb cd 50 ex_env ex_pm ex_conc_calls KAdapter 3 ex_conc_evs = true
  /\ match run KAdapter false (init (call_op ex_conc_calls) (fun _ => true) 3) ex_conc_evs with
     | Some s =>
       c_phase (callers s 0) = CDone (OOk (ex_fr 0 7))
       /\ c_phase (callers s 1) = CDone (OOk (ex_fr 1 8))
       /\ c_phase (callers s 2) = CDone (OOk (ex_fr 2 9))
       /\ conc_outcome cd 50 ex_env ex_pm ex_conc_calls 0 (OOk (ex_fr 0 7)) = Some (CRet (Some (VBytes [104; 105])))
       /\ conc_outcome cd 50 ex_env ex_pm ex_conc_calls 1 (OOk (ex_fr 1 8)) = Some (CDeclared 1 (VStruct [Some (VBytes [110; 111])]))
       /\ conc_outcome cd 50 ex_env ex_pm ex_conc_calls 2 (OOk (ex_fr 2 9)) = Some (CAppExc 42 [113])
       /\ alone_outcome cd 50 ex_env ex_pm ex_conc_calls 0 = Some (CRet (Some (VBytes [104; 105])))
       /\ alone_outcome cd 50 ex_env ex_pm ex_conc_calls 1 = Some (CDeclared 1 (VStruct [Some (VBytes [110; 111])]))
       /\ alone_outcome cd 50 ex_env ex_pm ex_conc_calls 2 = Some (CAppExc 42 [113])
     | None => False
     end.
Proof.
  intros cd Hcd. split.
  - intros i j Hi Hj. destruct i as [|[|[|i]]]; destruct j as [|[|[|j]]]; try lia;
      intros H; vm_compute in H; try discriminate H; reflexivity.
  - destruct Hcd as [-> | ->]; vm_compute; repeat split.
Qed.
