(** C03 -- placeholder, replaced below *)
From Coq Require Import ZArith List Bool Lia.
From FV Require Import Base.Res Base.Bytes Model.ThriftBin Model.GenCall Proofs.GenCallProofs.
Import ListNotations.
Open Scope Z_scope.

Theorem c03_bytes_eqb_refl : forall b, ThriftBin.bytes_eqb b b = true.
Proof. exact bytes_eqb_refl. Qed.
Print Assumptions c03_bytes_eqb_refl.
