(** C16 — middleware intercepts every call exactly once, in the declared order.
    Only theorem statements, each closed by [exact] of a lemma from Proofs/MiddlewareProofs.v.

    Vocabulary (Model/Middleware.v): a handler maps the argument list to (trace, results | panic);
    [mw_of s] is the middleware with id [ms_id s] that records what it is given, rewrites the
    arguments with [ms_pre s], calls next once, records what came back and rewrites it with
    [ms_post s]; [compose] is composeMiddleware; [new_client], [new_processor],
    [processor_add_middleware], [new_publisher], [new_subscriber]/[subscribe] are the generated
    constructors over a heap of Go slices; [rpc] and [pubsub] are one call end to end. *)
From Coq Require Import ZArith List Bool Arith.
From FV Require Import Model.Middleware Proofs.MiddlewareProofs.
Import ListNotations.

(** composeMiddleware and AddMiddleware for ARBITRARY middleware (any Go function of the type):
    later-listed wraps earlier; AddMiddleware is one more element at the end *)
Theorem c16_later_wraps_earlier : forall (V : Type) (ms : list (middleware V)) (m : middleware V) (core : handler V),
  compose core (ms ++ [m]) = m (compose core ms)
  /\ add_middleware m (compose core ms) = compose core (ms ++ [m]).
Proof. exact later_wraps_earlier. Qed.
Print Assumptions c16_later_wraps_earlier.

(** for every list [ms] (any length, observing or rewriting), every proxied function and all
    arguments: one invocation = the entries from the last listed to the first, the proxied function
    once, the exits from the first listed to the last — every middleware exactly once, properly
    nested; the k-th from the outside sees the caller's arguments as rewritten by the k outer ones,
    the proxied function receives [args_in], the k-th from the inside sees the function's results as
    rewritten by the k inner ones, the caller receives [res_out]; after a panic of the proxied
    function there are the entries and no exit *)
Theorem c16_each_once_nested : forall (V : Type) (ms : list (mwspec V)) (core : handler V) a ctr ro,
  core (args_in (rev ms) a) = (ctr, ro) ->
  match ro with
  | Some r =>
    compose core (map mw_of ms) a
    = (enter_events (rev ms) a ++ ctr ++ exit_events ms r, Some (res_out ms r))
  | None => compose core (map mw_of ms) a = (enter_events (rev ms) a ++ ctr, None)
  end
  /\ enter_ids (enter_events (rev ms) a) = rev (map ms_id ms)
  /\ (forall r, exit_ids (exit_events ms r) = map ms_id ms)
  /\ (forall k m, nth_error (rev ms) k = Some m ->
        nth_error (enter_events (rev ms) a) k = Some (EEnter (ms_id m) (args_in (firstn k (rev ms)) a)))
  /\ (forall r k m, nth_error ms k = Some m ->
        nth_error (exit_events ms r) k = Some (EExit (ms_id m) (res_out (firstn k ms) r))).
Proof. intros V. exact each_once_nested. Qed.
Print Assumptions c16_each_once_nested.

(** observers are transparent: the proxied function gets the caller's arguments, the caller its results *)
Theorem c16_observers_transparent : forall (V : Type) (ms : list (mwspec V)) (a r : list V),
  Forall observer ms -> args_in (rev ms) a = a /\ res_out ms r = r.
Proof. exact observers_transparent. Qed.
Print Assumptions c16_observers_transparent.

(** the generated wiring, for every heap and every way the variadic lists are passed (spare
    capacity or not), provided the slices are well formed and the provider's slice does not lie in
    the spare capacity of the constructor's:
    client with extends — every method of every level of the chain is composed with
    constructor ++ provider, once (not once per level), and the caller's and the provider's slices
    read the same afterwards *)
Theorem c16_extends_same_client : forall (V : Type) (chain : list (list (handler V))) (h : mheap V) prov mw,
  wf_slice h prov -> wf_slice h mw -> append_safe prov mw ->
  snd (new_client h prov mw chain)
  = map (map (fun c => compose c (slice_elems h mw ++ slice_elems h prov))) chain
  /\ slice_elems (fst (new_client h prov mw chain)) mw = slice_elems h mw
  /\ slice_elems (fst (new_client h prov mw chain)) prov = slice_elems h prov
  /\ wf_slice (fst (new_client h prov mw chain)) mw
  /\ wf_slice (fst (new_client h prov mw chain)) prov.
Proof. intros V. exact new_client_spec. Qed.
Print Assumptions c16_extends_same_client.

(** processor with extends and AddMiddleware: every entry of the process map, own and inherited, is
    composed with constructor ++ added (in the order of the AddMiddleware calls), each once *)
Theorem c16_extends_same_processor : forall (V : Type) (h : mheap V) mw (added : list (middleware V))
    (chain : list (list (handler V))),
  fold_left (fun pm m => processor_add_middleware m pm) added (new_processor h mw chain)
  = map (map (fun c => compose c (slice_elems h mw ++ added))) chain.
Proof. intros V. exact new_processor_spec. Qed.
Print Assumptions c16_extends_same_processor.

(** publisher, and subscriber as long as the slice it kept still reads as it did after construction *)
Theorem c16_wiring_publisher : forall (V : Type) (ops : list (handler V)) (h : mheap V) prov mw,
  wf_slice h prov -> wf_slice h mw ->
  snd (new_publisher h prov mw ops)
  = map (fun c => compose c (slice_elems h mw ++ slice_elems h prov)) ops.
Proof. intros V. exact new_publisher_spec. Qed.
Print Assumptions c16_wiring_publisher.

Theorem c16_wiring_subscriber_partial : forall (V : Type) (h : mheap V) prov mw (h' : mheap V) (core : handler V),
  wf_slice h prov -> wf_slice h mw ->
  slice_elems h' (snd (new_subscriber h prov mw))
  = slice_elems (fst (new_subscriber h prov mw)) (snd (new_subscriber h prov mw)) ->
  subscribe h' (snd (new_subscriber h prov mw)) core
  = compose core (slice_elems h mw ++ slice_elems h prov).
Proof. intros V. exact new_subscriber_spec. Qed.
Print Assumptions c16_wiring_subscriber_partial.
(* full statement (false, see c16_subscriber_keeps_callers_array_refuted): for EVERY later heap h'
   reached by the program, Subscribe<Op> composes constructor ++ provider.  What is missing is
   exactly the side condition above; it holds when the constructor list was passed with cap = len: *)
Theorem c16_subscriber_full_slice_safe : forall (V : Type) (h : mheap V) prov mw xs,
  wf_slice h mw -> s_cap mw <= s_len mw ->
  let h1 := fst (new_subscriber h prov mw) in
  let sub := snd (new_subscriber h prov mw) in
  slice_elems (fst (go_append h1 mw xs)) sub = slice_elems h1 sub.
Proof. intros V. exact new_subscriber_full_frame. Qed.
Print Assumptions c16_subscriber_full_slice_safe.

(** DEFECT (known finding C16-subscriber-aliases-caller-slice): New<Scope>Subscriber keeps
    append(middleware, provider.GetMiddleware()...) — cells of the caller's backing array when it has
    spare capacity.  Witness: base slice [m1] with cap 2, providers P1 = [m2], P2 = [m9];
    s1 := NewSubscriber(P1, base...), s2 := NewSubscriber(P2, base...); a delivery to a
    subscription made through s1 afterwards runs m9 and m1 — P2's middleware, and P1's own m2 never. *)
Theorem c16_subscriber_keeps_callers_array_refuted :
  exists (h : mheap Z) (ctor prov1 prov2 : slice) (cs ps : list (mwspec Z)) (core : handler Z) (a : list Z),
    wf_slice h ctor /\ wf_slice h prov1 /\ wf_slice h prov2
    /\ append_safe prov1 ctor /\ append_safe prov2 ctor
    /\ slice_elems h ctor = map mw_of cs /\ slice_elems h prov1 = map mw_of ps
    /\ let '(h1, sub1) := new_subscriber h prov1 ctor in
       let '(h2, sub2) := new_subscriber h1 prov2 ctor in
       enter_ids (fst (subscribe h1 sub1 core a)) = rev (map ms_id (cs ++ ps))
       /\ enter_ids (fst (subscribe h2 sub1 core a)) <> rev (map ms_id (cs ++ ps)).
Proof. exact subscriber_keeps_callers_array_refuted. Qed.
Print Assumptions c16_subscriber_keeps_callers_array_refuted.

(** provider middleware wrap constructor middleware: a method composed with constructor ++ provider
    enters the provider's (last listed first), then the constructor's; exits mirror *)
Theorem c16_provider_wraps_constructor : forall (V : Type) (cs ps : list (mwspec V)) (core : handler V) a ctr ro,
  core (args_in (rev (cs ++ ps)) a) = (ctr, ro) ->
  enter_ids (fst (compose core (map mw_of (cs ++ ps)) a))
  = rev (map ms_id ps) ++ rev (map ms_id cs) ++ enter_ids ctr
  /\ exit_ids (fst (compose core (map mw_of (cs ++ ps)) a))
     = exit_ids ctr ++ match ro with Some _ => map ms_id cs ++ map ms_id ps | None => [] end.
Proof. intros V. exact provider_outside_constructor. Qed.
Print Assumptions c16_provider_wraps_constructor.

(** one RPC through generated client, wire, generated processor, user handler, for all client lists
    [cms] (= constructor ++ provider) and processor lists [pms] (= constructor ++ added), all
    arity-preserving rewrites: the full ordered trace; the handler receives exactly the
    arguments as rewritten from the outside in (client side, wire, server side), the caller exactly
    the results as rewritten from the inside out *)
Theorem c16_rewrites_are_what_the_other_side_sees_rpc :
  forall (V : Type) nin nret wargs wres (cms pms : list (mwspec V)) user a,
  length a = nin ->
  Forall (arity_pre nin) cms -> Forall (arity_pre nin) pms ->
  Forall (arity_post nret) cms -> Forall (arity_post nret) pms ->
  (forall x, length x = nin -> length (wargs x) = nin) ->
  (forall x, length x = nret -> length (wres x) = nret) ->
  (forall x, length x = nin -> length (user x) = nret) ->
  let a_c := args_in (rev cms) a in
  let a_s := args_in (rev pms) (wargs a_c) in
  let r_s := res_out pms (user a_s) in
  let r_c := res_out cms (wres r_s) in
  rpc nin nret wargs wres (fun core => compose core (map mw_of cms))
      (fun core => compose core (map mw_of pms)) user a
  = (enter_events (rev cms) a ++ [ECore 1 []] ++ enter_events (rev pms) (wargs a_c)
       ++ [ECore 0 a_s] ++ exit_events pms (user a_s) ++ exit_events cms (wres r_s),
     Some r_c).
Proof. intros V. exact rpc_trace. Qed.
Print Assumptions c16_rewrites_are_what_the_other_side_sees_rpc.

(** one publish through generated publisher, transport, generated subscriber callback, user handler:
    delivered iff the topic variables as the publisher's middleware left them are the subscriber's;
    the full ordered trace in both cases *)
Theorem c16_rewrites_are_what_the_other_side_sees_pubsub :
  forall (V : Type) nvars eqb nilv wargs sub_vars (pms sms : list (mwspec V)) herr ctx vars req c' vars' req',
  (forall x y, eqb x y = true <-> x = y) ->
  length vars = nvars -> length vars' = nvars ->
  Forall (arity_pre 2) sms ->
  Forall (arity_post 1) pms -> Forall (arity_post 1) sms ->
  (forall x, length x = 2 -> length (wargs x) = 2) ->
  args_in (rev pms) (ctx :: vars ++ [req]) = c' :: vars' ++ [req'] ->
  let a_s := args_in (rev sms) (wargs [c'; req']) in
  let r_s := res_out sms [herr] in
  pubsub nvars eqb nilv wargs sub_vars (fun core => compose core (map mw_of pms))
         (fun core => compose core (map mw_of sms)) herr (ctx :: vars ++ [req])
  = if list_eqb eqb vars' sub_vars
    then (enter_events (rev pms) (ctx :: vars ++ [req]) ++ [ECore 1 []]
            ++ enter_events (rev sms) (wargs [c'; req']) ++ [ECore 2 a_s] ++ exit_events sms [herr]
            ++ [ERet 1 r_s] ++ exit_events pms [nilv],
          Some (res_out pms [nilv]))
    else (enter_events (rev pms) (ctx :: vars ++ [req]) ++ [ECore 1 []] ++ exit_events pms [nilv],
          Some (res_out pms [nilv])).
Proof. intros V. exact pubsub_trace. Qed.
Print Assumptions c16_rewrites_are_what_the_other_side_sees_pubsub.

(** arity: Go's reflect call and the generated [len(ret) != n] checks.  A list that changes the
    number of arguments panics before the proxied function is reached (all entries, no exit); one
    that changes the number of results panics in the generated stub after all exits *)
Theorem c16_arity_break_panics : forall (V : Type) nin nret (f : handler V) (ms : list (mwspec V)) a,
  (length (args_in (rev ms) a) <> nin ->
   arity_stub nret (new_method nin f (map mw_of ms)) a = (enter_events (rev ms) a, None))
  /\ (forall ctr r, length (args_in (rev ms) a) = nin -> f (args_in (rev ms) a) = (ctr, Some r) ->
      length (res_out ms r) <> nret ->
      arity_stub nret (new_method nin f (map mw_of ms)) a
      = (enter_events (rev ms) a ++ ctr ++ exit_events ms r, None)).
Proof. exact arity_break_panics. Qed.
Print Assumptions c16_arity_break_panics.

(* ------------------------------------------------------------------------------------------- *)
(** non-vacuity: a rewriting instance (client list [m1 rewrites arg 1; m2], processor list [m3
    rewrites the result]) satisfies the hypotheses and computes to the stated trace *)
Open Scope Z_scope.
Definition ex_m1 : mwspec Z := {| ms_id := 1; ms_pre := fun a => match a with c :: _ :: t => c :: 50 :: t | _ => a end;
                                  ms_post := fun r => r |}.
Definition ex_m2 : mwspec Z := obs 2.
Definition ex_m3 : mwspec Z := {| ms_id := 3; ms_pre := fun a => a;
                                  ms_post := fun r => match r with _ :: t => 60 :: t | _ => r end |}.
Example c16_example_rpc :
  rpc 2 2 (fun a => a) (fun r => r) (fun core => compose core (map mw_of [ex_m1; ex_m2]))
      (fun core => compose core (map mw_of [ex_m3])) (fun _ => [7; 0]) [100; 5]
  = ([EEnter 2 [100; 5]; EEnter 1 [100; 5]; ECore 1 []; EEnter 3 [100; 50]; ECore 0 [100; 50];
      EExit 3 [7; 0]; EExit 1 [60; 0]; EExit 2 [60; 0]], Some [60; 0]).
Proof. reflexivity. Qed.
Example c16_example_hyps :
  Forall (arity_pre 2) [ex_m1; ex_m2] /\ Forall (arity_post 2) [ex_m3].
Proof.
  split; repeat constructor; intros l H; destruct l as [|x [|y [|z t]]]; cbn in *; try discriminate; reflexivity.
Qed.
Example c16_example_client_with_extends :
  let '(h0, ctor) := alloc ([] : mheap Z) [mw_of (obs 1)] 3 nil_mw in
  let '(h1, prov) := alloc h0 [mw_of (obs 2); mw_of (obs 3)] 0 nil_mw in
  map (map (fun m => enter_ids (fst (m [100])))) (snd (new_client h1 prov ctor [[wit_core]; [wit_core; wit_core]]))
  = [[[3; 2; 1]]; [[3; 2; 1]; [3; 2; 1]]].
Proof. reflexivity. Qed.
