(** C08 — publisher and subscriber agree on the topic, in every target language.
    Only theorem statements, each closed by [exact] of a lemma from Proofs/. *)
From Coq Require Import ZArith List Bool String.
From FV Require Import Model.Topic Proofs.TopicProofs.
Import ListNotations.
Open Scope Z_scope.

(** pinned tree (before the repair 'fix: Go scope topics join ... with the -delim delimiter'):
    with -delim / a Go publisher and a Java subscriber of the same operation use different topics *)
Theorem c08_go_ignores_delim_refuted :
  exists delim sc op pfx vals t1 t2,
    in_domain Go delim sc op pfx = true /\ in_domain Java delim sc op pfx = true /\
    topic pinned Go Pub delim sc op pfx vals = Some t1 /\
    topic pinned Java Sub delim sc op pfx vals = Some t2 /\ t1 <> t2.
Proof. exact pinned_go_ignores_delim. Qed.
Print Assumptions c08_go_ignores_delim_refuted.

(** pinned tree (before 'fix: Python scope topics use the title-cased scope name'): for a
    lower-case scope name a Python publisher and a Java subscriber use different topics *)
Theorem c08_python_case_differs_refuted :
  exists delim sc op pfx vals t1 t2,
    in_domain Py delim sc op pfx = true /\ in_domain Java delim sc op pfx = true /\
    topic pinned Py Pub delim sc op pfx vals = Some t1 /\
    topic pinned Java Sub delim sc op pfx vals = Some t2 /\ t1 <> t2.
Proof. exact pinned_python_case_differs. Qed.
Print Assumptions c08_python_case_differs_refuted.
