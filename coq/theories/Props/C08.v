(** C08 — publisher and subscriber agree on the topic, in every target language.
    Only theorem statements, each closed by [exact] of a lemma from Proofs/.

    [topic q l sd delim scope op prefix vals] (Model/Topic.v) is the string the publish
    (sd = Pub) / subscribe (sd = Sub) method generated for language l computes as its topic:
    the model emits the op / prefix / topic statements of that generator and evaluates them
    under the target language's rules for string literals, format calls / interpolation and
    scoping; [None] = the emitted code is ill-formed or outside the modelled fragment.
    [fixed] is the tree under test (after the two repairs), [pinned] the tree before them.
    [spec_topic] = prefix with the i-th variable replaced by the i-th value ++ delim (if there
    is a prefix) ++ Title(scope) ++ delim ++ op.

    Side conditions, all decidable and explicit:
      parse_prefix pfx = Some g   the parser accepts the prefix (every {\w*} is an identifier of >= 2 chars)
      vars_safe l sd op vars      variable names distinct, not another parameter / local / the delimiter constant
      in_domain l delim sc op pfx scope and op are identifiers without '.'; prefix and delimiter contain no
                                  quote of the language's literal, backslash or control character; and, only
                                  when the prefix has variables: no '%' (Go, Java, Dart), no other brace token
                                  (Python); Go: no '%' in the delimiter; Dart: no '$' (a variable followed by an
                                  identifier character is in the domain since the Dart generator emits ${name} there).
    Runtime values [vals] are arbitrary byte strings. *)
From Coq Require Import ZArith List Bool String.
From FV Require Import Model.Topic Proofs.TopicProofs.
Import ListNotations.
Open Scope Z_scope.

(** every generated publisher and subscriber, in every language, uses exactly the specified topic *)
Theorem c08_matches_spec : forall l sd delim sc op pfx g vals,
  parse_prefix pfx = Some g -> List.length vals = List.length (vars_of g) ->
  vars_safe l sd op (vars_of g) = true -> in_domain l delim sc op pfx = true ->
  topic fixed l sd delim sc op pfx vals = Some (spec_topic delim sc op pfx vals).
Proof. exact matches_spec. Qed.
Print Assumptions c08_matches_spec.

(** publisher and subscriber of the same operation agree *)
Theorem c08_pub_eq_sub : forall l delim sc op pfx g vals,
  parse_prefix pfx = Some g -> List.length vals = List.length (vars_of g) ->
  vars_safe l Pub op (vars_of g) = true -> vars_safe l Sub op (vars_of g) = true ->
  in_domain l delim sc op pfx = true ->
  exists t, topic fixed l Pub delim sc op pfx vals = Some t /\ topic fixed l Sub delim sc op pfx vals = Some t.
Proof. exact pub_eq_sub. Qed.
Print Assumptions c08_pub_eq_sub.

(** the same string in Go, Java, Dart and Python, publisher or subscriber *)
Theorem c08_all_languages_equal : forall l1 sd1 l2 sd2 delim sc op pfx g vals,
  parse_prefix pfx = Some g -> List.length vals = List.length (vars_of g) ->
  vars_safe l1 sd1 op (vars_of g) = true -> in_domain l1 delim sc op pfx = true ->
  vars_safe l2 sd2 op (vars_of g) = true -> in_domain l2 delim sc op pfx = true ->
  exists t, topic fixed l1 sd1 delim sc op pfx vals = Some t /\ topic fixed l2 sd2 delim sc op pfx vals = Some t.
Proof. exact all_languages_equal. Qed.
Print Assumptions c08_all_languages_equal.

(** no side condition at all: for every input, pinned or repaired, a language's publisher and
    subscriber are generated from the same delimiter constant and the same op / prefix / topic
    statements (Go orders them differently) *)
Theorem c08_emitted_pub_sub_same : forall q l delim sc op pfx,
  match emit q l Pub delim sc op pfx, emit q l Sub delim sc op pfx with
  | Some a, Some b => p_consts a = p_consts b /\ forall s, In s (p_body a) <-> In s (p_body b)
  | None, None => True
  | _, _ => False
  end.
Proof. exact emitted_pub_sub_same. Qed.
Print Assumptions c08_emitted_pub_sub_same.

(** no side condition on prefix, delimiter, names or values, pinned or repaired generators:
    whenever the publisher's and the subscriber's topic statements of a language both evaluate,
    they evaluate to the same string (so every disagreement the model can exhibit is between
    languages, never inside one) *)
Theorem c08_pub_sub_agree_when_defined : forall q l delim sc op pfx vals a b,
  topic q l Pub delim sc op pfx vals = Some a ->
  topic q l Sub delim sc op pfx vals = Some b -> a = b.
Proof. exact pub_sub_agree_when_defined. Qed.
Print Assumptions c08_pub_sub_agree_when_defined.

(** the specification substitutes the variables and nothing else: putting every variable's own
    text {name} back yields the prefix *)
Theorem c08_subst_identity : forall pfx,
  subst_pos (segments pfx) (map (fun n => 123 :: n ++ [125]) (vars_of (segments pfx))) = pfx.
Proof. exact subst_identity. Qed.
Print Assumptions c08_subst_identity.

(** pinned tree (before the repair 'fix: Go scope topics join ... with the -delim delimiter'):
    with -delim / a Go publisher and a Java subscriber of the same operation use different topics *)
Theorem c08_go_ignores_delim_refuted :
  exists delim sc op pfx vals t1 t2,
    in_domain Go delim sc op pfx = true /\ in_domain Java delim sc op pfx = true /\
    topic pinned Go Pub delim sc op pfx vals = Some t1 /\
    topic pinned Java Sub delim sc op pfx vals = Some t2 /\ t1 <> t2.
Proof. exact pinned_go_ignores_delim. Qed.
Print Assumptions c08_go_ignores_delim_refuted.

(** pinned tree (before 'fix: Python scope topics use the title-cased scope name'): for a
    lower-case scope name a Python publisher and a Java subscriber use different topics *)
Theorem c08_python_case_differs_refuted :
  exists delim sc op pfx vals t1 t2,
    in_domain Py delim sc op pfx = true /\ in_domain Java delim sc op pfx = true /\
    topic pinned Py Pub delim sc op pfx vals = Some t1 /\
    topic pinned Java Sub delim sc op pfx vals = Some t2 /\ t1 <> t2.
Proof. exact pinned_python_case_differs. Qed.
Print Assumptions c08_python_case_differs_refuted.

(** was known finding C08-dart-delim-after-variable, repaired: with -delim _ and a prefix ending in
    a variable (outside [dart_follow]) the Dart statements read 'foo.${user}_' and Dart uses the
    specified topic, like Go (and Java, Python); the general statement is c08_matches_spec, whose
    domain for Dart no longer excludes these inputs *)
Theorem c08_dart_delim_after_variable :
  exists delim sc op pfx vals,
    in_domain Go delim sc op pfx = true /\ in_domain Java delim sc op pfx = true /\
    in_domain Py delim sc op pfx = true /\ in_domain Dart delim sc op pfx = true /\
    dart_follow (segments pfx) delim = false /\
    vars_safe Dart Pub op (vars_of (segments pfx)) = true /\
    topic fixed Go Pub delim sc op pfx vals = Some (spec_topic delim sc op pfx vals) /\
    topic fixed Dart Pub delim sc op pfx vals = Some (spec_topic delim sc op pfx vals) /\
    topic fixed Dart Sub delim sc op pfx vals = Some (spec_topic delim sc op pfx vals).
Proof. exact dart_delim_after_variable_ok. Qed.
Print Assumptions c08_dart_delim_after_variable.

(** the prefix statement as the generator emitted it before the repair ([dart_prefix_raw_pinned]):
    'foo.$user_', which has no value when user is bound and user_ is not; the repaired one,
    'foo.${user}_', evaluates to foo.<user>_ *)
Theorem c08_dart_delim_after_variable_pinned_refuted :
  exists delim pfx praw v,
    dart_prefix_raw_pinned delim pfx (segments pfx) = Some praw /\
    praw = lit "foo.$user_" /\
    dart_run praw DN [(lit "user", v)] = None /\
    dart_prefix_raw delim pfx (segments pfx) = Some (lit "foo.${user}_") /\
    dart_run (lit "foo.${user}_") DN [(lit "user", v)] = Some (lit "foo." ++ v ++ lit "_").
Proof. exact dart_delim_after_variable_pinned. Qed.
Print Assumptions c08_dart_delim_after_variable_pinned_refuted.

(** the repair changes nothing where no variable is followed by an identifier character: the
    emitted prefix statement is the one emitted before (this is why the golden files of the
    compiler tests, generated with the delimiter '.', are unchanged) *)
Theorem c08_dart_prefix_unchanged_on_old_domain : forall delim pfx,
  dart_follow (segments pfx) delim = true ->
  dart_prefix_raw delim pfx (segments pfx) = dart_prefix_raw_pinned delim pfx (segments pfx).
Proof. exact dart_prefix_raw_unchanged. Qed.
Print Assumptions c08_dart_prefix_unchanged_on_old_domain.

(** the side conditions are not an artefact: what each template does with its metacharacters
    ('%' under fmt.Sprintf / String.format, '$' in Dart (an identifier-continuing delimiter is handled),
    foreign brace tokens under str.format, a variable called op) *)
Theorem c08_metachar_witnesses :
  topic fixed Go Pub (lit ".") (lit "Events") (lit "created") (lit "100%%.{user}") [lit "bob"]
    = Some (lit "100%.bob.Events.created")
  /\ spec_topic (lit ".") (lit "Events") (lit "created") (lit "100%%.{user}") [lit "bob"]
    = lit "100%%.bob.Events.created"
  /\ topic fixed Java Sub (lit ".") (lit "Events") (lit "created") (lit "100%%.{user}") [lit "bob"]
    = Some (lit "100%.bob.Events.created")
  /\ topic fixed Go Pub (lit ".") (lit "Events") (lit "created") (lit "100%.{user}") [lit "bob"] = None
  /\ topic fixed Dart Pub (lit ".") (lit "Events") (lit "created") (lit "a$user.{user}") [lit "bob"]
    = Some (lit "abob.bob.Events.created")
  /\ topic fixed Dart Pub (lit "_") (lit "Events") (lit "created") (lit "foo.{user}") [lit "bob"]
    = Some (lit "foo.bob_Events_created")
  /\ topic fixed Go Pub (lit "_") (lit "Events") (lit "created") (lit "foo.{user}") [lit "bob"]
    = Some (lit "foo.bob_Events_created")
  /\ topic fixed Py Pub (lit ".") (lit "Events") (lit "created") (lit "{a-b}.{user}") [lit "bob"] = None
  /\ topic fixed Java Pub (lit ".") (lit "Events") (lit "created") (lit "{a-b}.{user}") [lit "bob"]
    = Some (lit "{a-b}.bob.Events.created")
  /\ topic fixed Py Pub (lit ".") (lit "Events") (lit "created") (lit "{op}") [lit "bob"]
    = Some (lit "created.Events.created")
  /\ topic fixed Go Pub (lit ".") (lit "Events") (lit "created") (lit "{op}") [lit "bob"] = None.
Proof. exact metachar_witnesses. Qed.
Print Assumptions c08_metachar_witnesses.

(** the hypotheses are satisfiable by a non-trivial instance: lower-case scope name, two
    variables, a static UTF-8 token, delimiter '/', values full of format metacharacters *)
Example c08_nonvacuous :
  let delim := lit "/" in let sc := lit "my_events" in let op := lit "EventCreated" in
  let pfx := [102; 111; 111; 46; 123; 117; 115; 101; 114; 125; 46; 195; 169; 46; 123; 97; 98; 95; 99; 125] in
  let vals := [lit "100%s{}$op"; lit "it's ""q"" \"] in
  parse_prefix pfx = Some (segments pfx)
  /\ vars_of (segments pfx) = [lit "user"; lit "ab_c"]
  /\ forallb (fun l => in_domain l delim sc op pfx && vars_safe l Pub op (vars_of (segments pfx))
                       && vars_safe l Sub op (vars_of (segments pfx))) [Go; Java; Dart; Py] = true
  /\ map (fun l => topic fixed l Pub delim sc op pfx vals) [Go; Java; Dart; Py]
     = map (fun l => topic fixed l Sub delim sc op pfx vals) [Go; Java; Dart; Py]
  /\ topic fixed Dart Sub delim sc op pfx vals
     = Some (lit "foo.100%s{}$op." ++ [195; 169] ++ lit ".it's ""q"" \/My_events/EventCreated").
Proof. vm_compute. repeat split; reflexivity. Qed.

(** README.md: "published on Events.EventCreated", "foo.bar.Events.EventCreated" *)
Example c08_readme_examples :
  spec_topic (lit ".") (lit "Events") (lit "EventCreated") [] [] = lit "Events.EventCreated"
  /\ spec_topic (lit ".") (lit "Events") (lit "EventCreated") (lit "foo.bar") [] = lit "foo.bar.Events.EventCreated"
  /\ spec_topic (lit ".") (lit "Events") (lit "EventCreated") (lit "foo.{user}") [lit "bill"]
     = lit "foo.bill.Events.EventCreated".
Proof. vm_compute. repeat split; reflexivity. Qed.
