(** C18 — the IDL audit flags every breaking change and nothing else.
    Only theorem statements, each closed by [exact] of a lemma from Proofs/.
    Model: Model/Audit.v (audit.go, function by function, after the repair of the include-scoped
    typedef resolution); catalogue of breaking changes: Proofs/AuditSpec.v ([Breaking]);
    compatible edits: Proofs/AuditCompat.v ([Renamed], [cosmetic], [insert_field]). *)
From Coq Require Import ZArith List Bool.
From Coq Require String.
From FV Require Import Base.Bytes Model.Audit Proofs.AuditSpec Proofs.AuditProofs Proofs.AuditCompat
     Proofs.AuditCorollaries Proofs.AuditFuel.
Import ListNotations.
Open Scope Z_scope.

(** For every pair of parsed programs (root declarations + table of parsed files): Audit returns
    an error iff the new program contains one of the documented breaking changes, at whatever
    position, nesting depth or typedef/include chain.  [converged] excludes only the runs in which
    the model hit its fuel bound, i.e. cyclic typedefs, on which audit.go itself does not
    terminate. *)
Theorem c18_fails_iff_breaking : forall fuel po pn,
  converged (audit fuel po pn) = true ->
  (audit_fails fuel po pn = true <-> Breaking po pn).
Proof. exact (fun fuel po pn => audit_fails_iff_breaking po pn fuel). Qed.
Print Assumptions c18_fails_iff_breaking.

(** The same without the fuel caveat: when every type expression of both programs has a normal
    form ([Normalizing]: typedefs acyclic), every fuel large enough makes the model converge, and
    the verdict is the catalogue's. *)
Theorem c18_fails_iff_breaking_acyclic : forall po pn,
  Normalizing po -> Normalizing pn ->
  exists f0, forall f, (f0 <= f)%nat ->
    converged (audit f po pn) = true /\ (audit_fails f po pn = true <-> Breaking po pn).
Proof. exact audit_fails_iff_breaking_normalizing. Qed.
Print Assumptions c18_fails_iff_breaking_acyclic.

(** The scope-prefix rule of the model (normalise, then compare strings) is the declarative one:
    same dot-separated pieces up to the names inside braces. *)
Theorem c18_prefix_rule : forall a b,
  PrefixEquiv a b <-> normalize_prefix a = normalize_prefix b.
Proof. exact PrefixEquiv_spec. Qed.
Print Assumptions c18_prefix_rule.

(** Type expressions have at most one normal form, so "the types differ" is well defined. *)
Theorem c18_normal_form_unique : forall P sc t r r',
  Resolves P sc t r -> Resolves P sc t r' -> r = r'.
Proof. exact (fun P sc t r r' H H' => Resolves_fun P sc t r H r' H'). Qed.
Print Assumptions c18_normal_form_unique.

(** Identical programs pass.  Needs: declarations of one kind have distinct names (a repeated
    struct name with different bodies fails its own audit — the parser does not reject it), and
    acyclic typedefs. *)
Theorem c18_identity_passes : forall p,
  WfNames p -> Normalizing p ->
  exists f0, forall f, (f0 <= f)%nat -> converged (audit f p p) = true /\ audit_fails f p p = false.
Proof. exact (fun p => renamed_passes_eventually p p (Renamed_refl p)). Qed.
Print Assumptions c18_identity_passes.

(** The documented compatible edits pass, applied anywhere and all at once: every field, argument
    and exception rewritten by any [g] that keeps id, modifier and type (renames, default values);
    every enum variant renamed; every scope prefix replaced by one that differs only in variable
    names; namespaces and constants replaced by anything. *)
Theorem c18_compatible_edits_pass : forall p g h hp ns cs,
  (forall f, field_eq f (g f)) ->
  (forall s, PrefixEquiv (sc_prefix s) (hp s)) ->
  WfNames p -> Normalizing p ->
  exists f0, forall f, (f0 <= f)%nat ->
    converged (audit f p (cosmetic g h hp ns cs p)) = true
    /\ audit_fails f p (cosmetic g h hp ns cs p) = false.
Proof.
  exact (fun p g h hp ns cs Hg Hp =>
           renamed_passes_eventually p _ (cosmetic_renamed g h hp ns cs p Hg Hp)).
Qed.
Print Assumptions c18_compatible_edits_pass.

(** renaming one variable of a prefix is such a replacement *)
Theorem c18_prefix_variable_rename : forall pre post v w,
  Forall DotFree pre -> Forall DotFree post -> DotFree v -> DotFree w ->
  PrefixEquiv (join_dot (pre ++ (123 :: v ++ [125]) :: post)) (join_dot (pre ++ (123 :: w ++ [125]) :: post)).
Proof. exact prefix_variable_renamed. Qed.
Print Assumptions c18_prefix_variable_rename.

(** A non-required field with a fresh id added at any position of a struct, exception or union
    passes. *)
Theorem c18_added_optional_field_passes : forall p k sname pos f,
  f_mod f <> Required ->
  (forall s, In s (structs_of k p) -> s_name s = sname -> ~ In (f_id f) (map f_id (s_fields s))) ->
  WfNames p -> Normalizing p ->
  exists f0, forall fuel, (f0 <= fuel)%nat ->
    converged (audit fuel p (insert_field k sname pos f p)) = true
    /\ audit_fails fuel p (insert_field k sname pos f p) = false.
Proof.
  exact (fun p k sname pos f Hm Hf =>
           renamed_passes_eventually p _ (insert_field_renamed k sname pos f p Hm Hf)).
Qed.
Print Assumptions c18_added_optional_field_passes.

(** Position independence: a field whose type changed is found by its id wherever it stands in the
    field list, whatever the depth at which the normal forms differ, and through any chain of
    typedefs and includes leading to them (same for arguments, return types, operations). *)
Theorem c18_position_independent_field : forall fuel po pn k s s' o n r r',
  converged (audit fuel po pn) = true ->
  In s (structs_of k po) -> Denotes s_name (structs_of k pn) (s_name s) s' ->
  Denotes f_id (s_fields s) (f_id o) o -> Denotes f_id (s_fields s') (f_id o) n ->
  Resolves po 0 (f_type o) r -> Resolves pn 0 (f_type n) r' -> r <> r' ->
  audit_fails fuel po pn = true.
Proof. exact (fun fuel po pn k s s' o n r r' Hc => retyped_field_found fuel po pn Hc k s s' o n r r'). Qed.
Print Assumptions c18_position_independent_field.

Theorem c18_position_independent_argument : forall fuel po pn sv sv' m m' o n r r',
  converged (audit fuel po pn) = true ->
  In sv (p_services po) -> Denotes sv_name (p_services pn) (sv_name sv) sv' ->
  In m (sv_methods sv) -> Denotes m_name (sv_methods sv') (m_name m) m' ->
  Denotes f_id (m_args m) (f_id o) o -> Denotes f_id (m_args m') (f_id o) n ->
  Resolves po 0 (f_type o) r -> Resolves pn 0 (f_type n) r' -> r <> r' ->
  audit_fails fuel po pn = true.
Proof. exact (fun fuel po pn sv sv' m m' o n r r' Hc => retyped_argument_found fuel po pn Hc sv sv' m m' o n r r'). Qed.
Print Assumptions c18_position_independent_argument.

Theorem c18_position_independent_return : forall fuel po pn sv sv' m m' r r',
  converged (audit fuel po pn) = true ->
  In sv (p_services po) -> Denotes sv_name (p_services pn) (sv_name sv) sv' ->
  In m (sv_methods sv) -> Denotes m_name (sv_methods sv') (m_name m) m' ->
  Resolves po 0 (m_ret m) r -> Resolves pn 0 (m_ret m') r' -> r <> r' ->
  audit_fails fuel po pn = true.
Proof. exact (fun fuel po pn sv sv' m m' r r' Hc => retyped_return_found fuel po pn Hc sv sv' m m' r r'). Qed.
Print Assumptions c18_position_independent_return.

Theorem c18_position_independent_operation : forall fuel po pn s s' o o' r r',
  converged (audit fuel po pn) = true ->
  In s (p_scopes po) -> Denotes sc_name (p_scopes pn) (sc_name s) s' ->
  In o (sc_ops s) -> Denotes o_name (sc_ops s') (o_name o) o' ->
  Resolves po 0 (o_type o) r -> Resolves pn 0 (o_type o') r' -> r <> r' ->
  audit_fails fuel po pn = true.
Proof. exact (fun fuel po pn s s' o o' r r' Hc => retyped_operation_found fuel po pn Hc s s' o o' r r'). Qed.
Print Assumptions c18_position_independent_operation.

(** * Examples: the hypotheses are satisfiable by non-trivial instances *)
Module Examples.
  Import String.StringSyntax.
  Definition b (s : String.string) : bytes := s2b s.
  Definition base (s : String.string) : ty := Ty (b s) TNil TNil.
  Local Open Scope string_scope.

  (** the two-file witness of defect F15 (DESIGN.md section 7):
        inc.frugal : typedef i32 T   typedef T U   typedef list<T> L      (new: typedef i64 T)
        main.frugal: include "inc.frugal"   struct S { 1: string a, 2: inc.U f, 3: inc.L g } *)
  Definition inc_file (t : String.string) : file :=
    mkFile (b "inc") [(b "T", base t); (b "U", base "T"); (b "L", Ty (b "list") TNil (base "T"))] [].
  Definition main_file : file := mkFile (b "main") [] [(b "inc", 1%nat)].
  Definition struct_S : strct :=
    mkStruct (b "S") [mkField 1 (b "a") Default (base "string") [];
                      mkField 2 (b "f") Default (base "inc.U") [];
                      mkField 3 (b "g") Optional (base "inc.L") []].
  Definition prog (t : String.string) : program :=
    mkProgram [main_file; inc_file t] [] [] [] [] [struct_S] [] [] [].

  (** before the repair `frugal -audit` passed this pair (exit 0); the repaired code and its model fail it *)
  Example c18_include_chain_found :
    converged (audit 10 (prog "i32") (prog "i64")) = true
    /\ audit_fails 10 (prog "i32") (prog "i64") = true
    /\ Breaking (prog "i32") (prog "i64").
  Proof.
    assert (H : converged (audit 10 (prog "i32") (prog "i64")) = true) by (vm_compute; reflexivity).
    split; [exact H|]. split; [vm_compute; reflexivity|].
    apply (c18_fails_iff_breaking 10 _ _ H). vm_compute; reflexivity.
  Qed.

  (** the same change seen through the position-independence theorem: third field, one level
      inside a list, behind a typedef chain of length 2 declared in an include *)
  Example c18_position_independent_instance :
    Resolves (prog "i32") 0 (base "inc.L") (Ty (b "list") TNil (base "i32"))
    /\ Resolves (prog "i64") 0 (base "inc.L") (Ty (b "list") TNil (base "i64")).
  Proof. split; apply (resolve_sound 10); vm_compute; reflexivity. Qed.

  (** hypotheses of the passing theorems hold for this program: distinct names, normalising typedefs *)
  Example c18_wf_instance : WfNames (prog "i32").
  Proof.
    constructor; cbn; unfold Unique; cbn; try (constructor; fail); try (intros ? []; fail).
    intros [| |]; cbn; repeat constructor; intros [].
  Qed.

  Example c18_normalizing_instance : Normalizing (prog "i32").
  Proof.
    apply Normalizing_intro. intros sc n d body H. unfold typedef_step, declaring in H.
    assert (G : forall i, get_file (prog "i32") (S (S i)) = None) by (intros [|i]; reflexivity).
    destruct (is_empty (include_name n)); destruct sc as [|[|sc]]; try rewrite G in H; cbn in H;
      repeat match type of H with context [if ?c then _ else _] => destruct c; cbn in H end;
      try discriminate; inversion H; subst;
      (split; [discriminate | eexists; apply (resolve_sound 10); vm_compute; reflexivity]).
  Qed.

  Example c18_identity_instance :
    converged (audit 10 (prog "i32") (prog "i32")) = true /\ audit_fails 10 (prog "i32") (prog "i32") = false.
  Proof. split; vm_compute; reflexivity. Qed.

  (** why [WfNames] is a hypothesis of the passing theorems: the parser accepts two structs with
      the same name, and such a program fails the audit against itself
      (struct S { 1: i32 a }  struct S { 1: i64 a }; replayed on the real `frugal -audit x x`: exit 1) *)
  Definition dup_prog : program :=
    mkProgram [mkFile (b "dup") [] []] [] [] [] []
              [mkStruct (b "S") [mkField 1 (b "a") Default (base "i32") []];
               mkStruct (b "S") [mkField 1 (b "a") Default (base "i64") []]] [] [] [].
  Example c18_identity_needs_distinct_names :
    converged (audit 10 dup_prog dup_prog) = true /\ audit_fails 10 dup_prog dup_prog = true.
  Proof. split; vm_compute; reflexivity. Qed.

  (** a limit of the documented catalogue itself (types are compared by name): an enum replaced by
      a struct of the same name is "enum removed" (a warning) and the field that uses it keeps its
      type name, so the audit passes although the field's wire type changes
      (enum Foo { A }  struct S { 1: Foo f }   ->   struct Foo {}  struct S { 1: Foo f };
       replayed on the real `frugal -audit`: one WARNING, exit 0) *)
  Definition kind_old : program :=
    mkProgram [mkFile (b "k") [] []] [] [] [] [mkEnum (b "Foo") [mkEnumV (b "A") 0]]
              [mkStruct (b "S") [mkField 1 (b "f") Default (base "Foo") []]] [] [] [].
  Definition kind_new : program :=
    mkProgram [mkFile (b "k") [] []] [] [] [] []
              [mkStruct (b "Foo") []; mkStruct (b "S") [mkField 1 (b "f") Default (base "Foo") []]] [] [] [].
  Example c18_kind_change_outside_catalogue :
    converged (audit 10 kind_old kind_new) = true /\ audit_fails 10 kind_old kind_new = false.
  Proof. split; vm_compute; reflexivity. Qed.
End Examples.
