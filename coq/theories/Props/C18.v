(** C18 — the IDL audit flags every breaking change and nothing else.
    Only theorem statements, each closed by [exact] of a lemma from Proofs/.
    Model: Model/Audit.v (audit.go, function by function); catalogue: Proofs/AuditSpec.v. *)
From Coq Require Import ZArith List Bool.
From FV Require Import Base.Bytes Model.Audit Proofs.AuditSpec Proofs.AuditProofs.
Import ListNotations.
Open Scope Z_scope.

(** For every pair of parsed programs (root declarations + table of parsed files), whatever the
    position, nesting depth or typedef/include chain involved: Audit returns an error iff the new
    program contains one of the documented breaking changes.  [converged] excludes only the runs
    in which the model hit its fuel bound, i.e. cyclic typedefs, on which audit.go itself does not
    terminate; it holds for every fuel large enough when typedefs are acyclic. *)
Theorem c18_fails_iff_breaking : forall fuel po pn,
  converged (audit fuel po pn) = true ->
  (audit_fails fuel po pn = true <-> Breaking po pn).
Proof. exact (fun fuel po pn => audit_fails_iff_breaking po pn fuel). Qed.
Print Assumptions c18_fails_iff_breaking.
