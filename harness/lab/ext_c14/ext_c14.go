// Package ext_c14 adds the lab op "c14" (property C14: the server answers every two-way request
// exactly once with a well-formed reply).  It drives the REAL generated processor of a lab service
// (F<Svc>Processor over frugal.FBaseProcessor, handler = lab stub forwarding to this package) with
// raw request frames, through
//
//	direct      processor.Process(iprot over the frame, oprot over a recording transport), one at a time
//	            (direct_reset: the recording transport also has a Reset method)
//	concurrent  N goroutines calling processor.Process, ONE shared output FProtocol over a
//	            TFramedTransport over a recording transport (the situation writeMu exists for)
//	simple      a real FSimpleServer on a loopback TCP socket; the frames of one connection are written
//	            one after another by a raw client that reads reply frames back
//	nats        a real FNatsServer (embedded nats-server); frames published with a reply inbox
//	http        the real NewFrugalHandlerFunc under httptest; one POST per frame ("limits": the
//	            x-frugal-payload-limit sent with each frame, 0 = none)
//	bounded     processor.Process with a fresh frugal.NewTMemoryOutputBuffer(limits[i]) per frame behind a
//	            transport that records every Write / WriteString / WriteByte with its fate, Flush and Reset
//
// and reports every reply frame byte for byte.  Nothing is parsed here: the driver
// (tools/props/c14.py) parses replies with its own reader and the Coq judge with the model's.
//
// Handler outcomes are scripted per request through the request header "x-c14" (a key into the
// "outcomes" table), so that the outcome is a function of the request alone, also under concurrency.
package ext_c14

import (
	"bytes"
	"context"
	"encoding/base64"
	"encoding/binary"
	"encoding/hex"
	"encoding/json"
	"errors"
	"fmt"
	"io"
	"net"
	"net/http"
	"net/http/httptest"
	"reflect"
	"sort"
	"strings"
	"sync"
	"time"

	frugal "github.com/Workiva/frugal/lib/go"
	"github.com/apache/thrift/lib/go/thrift"
	natsserver "github.com/nats-io/nats-server/v2/server"
	"github.com/nats-io/nats.go"

	labdriver "verifharness/lab/driver"
)

const keyHeader = "x-c14"

type outcome struct {
	K      string      `json:"k"`      // ret | declared | appexc | other
	Method string      `json:"method"` // Go method name the outcome is meant for
	Result string      `json:"result"` // registry key of the method's result struct ("" = none: oneway)
	Value  interface{} `json:"value"`  // JSON form of the result struct ({"0": v} / {"<id>": exception})
	Field  int         `json:"field"`  // declared: id of the exception field in the result struct
	Type   int32       `json:"type"`   // appexc: type id
	Msg    string      `json:"msg"`    // appexc / other: message (hex)
	Extra  [][2]string `json:"extra"`  // response headers the handler adds (hex pairs)
	// large inputs without large requests: a response header whose value is Pat repeated N times, the same
	// appended to the message, a string return value of Pad bytes
	ExtraRep []repSpec `json:"extra_rep"`
	MsgRep   *repSpec  `json:"msg_rep"`
	Pad      int       `json:"pad"`
}

type repSpec struct {
	K   string `json:"k"`   // hex
	Pat string `json:"pat"` // hex
	N   int    `json:"n"`
}

func (r repSpec) value() string {
	p, _ := hex.DecodeString(r.Pat)
	return strings.Repeat(string(p), r.N)
}

type traceEv struct {
	K  int    `json:"k"` // 0 write, 1 flush, 2 reset
	B  string `json:"b,omitempty"`
	Ok bool   `json:"ok"`
}

type connSpec struct {
	Frames []int `json:"frames"` // indexes into "frames", sent in this order on one connection
	// simple: number of bytes per TCP write (0 = one write per frame)
	Chunk int `json:"chunk"`
}

type request struct {
	Op       string             `json:"op"`
	Service  string             `json:"service"`
	Proto    string             `json:"proto"`
	Mode     string             `json:"mode"`
	Outcomes map[string]outcome `json:"outcomes"`
	Results  map[string]string  `json:"results"` // Go method name -> registry key of its result struct
	Frames   []string           `json:"frames"`  // hex, without the 4-byte size prefix
	Conns    []connSpec         `json:"conns"`   // simple: connections (run concurrently); default: one with all frames
	Workers  int                `json:"workers"` // nats: worker count; concurrent: goroutines
	QuietMs  int                `json:"quiet_ms"`
	Limits   []int              `json:"limits"` // bounded: buffer limit per frame; http: payload limit per frame
}

type callRec struct {
	Key     string `json:"key"`
	Method  string `json:"method"`
	Default bool   `json:"default"`
	Rb      string `json:"rb"`  // bytes result.Write emits for the value handed back (hex)
	Wok     bool   `json:"wok"` // whether that Write succeeds
	Args    string `json:"args"`
	Note    string `json:"note,omitempty"`
}

type frameObs struct {
	Replies []string  `json:"replies"` // reply frames (hex, without size prefix), in arrival order
	Err     int       `json:"err"`     // direct/concurrent: class of the error Process returned
	ErrText string    `json:"errtext,omitempty"`
	Written string    `json:"written,omitempty"` // direct: every byte written to the output transport
	Flushes int       `json:"flushes"`           // direct: number of Flush calls
	Status  int       `json:"status,omitempty"`  // http
	Raw     string    `json:"raw,omitempty"`     // http: decoded body (hex) when status is 200
	Timeout bool      `json:"timeout,omitempty"` // simple/nats: gave up waiting
	Trace   []traceEv `json:"trace,omitempty"`   // bounded: every call on the output transport
	HasData bool      `json:"hasdata,omitempty"` // bounded: HasWriteData() when Process returned
}

func init() {
	labdriver.RegisterOp("c14", run)
	labdriver.RegisterOp("c14_defaults", defaults)
}

func protoFactory(name string) (*frugal.FProtocolFactory, error) {
	switch name {
	case "", "binary":
		return frugal.NewFProtocolFactory(thrift.NewTBinaryProtocolFactoryConf(nil)), nil
	case "compact":
		return frugal.NewFProtocolFactory(thrift.NewTCompactProtocolFactoryConf(nil)), nil
	case "json":
		return frugal.NewFProtocolFactory(thrift.NewTJSONProtocolFactory()), nil
	}
	return nil, fmt.Errorf("unknown protocol %q", name)
}

// ---- result structs ----------------------------------------------------------------------------

// writePartial: the bytes Write emits, also when it fails part-way; panicked = Write panics (a
// value no server survives handing back: the handler falls back to its default then)
func writePartial(s labdriver.TStruct, proto string) (out []byte, ok bool, panicked bool) {
	buf := thrift.NewTMemoryBuffer()
	p, err := labdriver.Protocol(proto, buf)
	if err != nil {
		return nil, false, false
	}
	ok = true
	func() {
		defer func() {
			if recover() != nil {
				ok, panicked = false, true
			}
		}()
		if e := s.Write(context.Background(), p); e != nil {
			ok = false
		}
	}()
	p.Flush(context.Background())
	return append([]byte{}, buf.Bytes()...), ok, panicked
}

func fieldByID(reg *labdriver.Registry, name string, s labdriver.TStruct, id int) (reflect.Value, bool) {
	v := reflect.ValueOf(s).Elem()
	t := v.Type()
	if metas, ok := reg.Fields[name]; ok {
		for _, m := range metas {
			if m.ID == id {
				return v.FieldByName(m.GoName), true
			}
		}
		return reflect.Value{}, false
	}
	for i := 0; i < t.NumField(); i++ {
		tag := t.Field(i).Tag.Get("thrift")
		parts := strings.Split(tag, ",")
		if len(parts) >= 2 && parts[1] == fmt.Sprint(id) {
			return v.Field(i), true
		}
	}
	return reflect.Value{}, false
}

// defaultResult: what the generated Process writes when the handler returns its zero values
func defaultResult(reg *labdriver.Registry, name string) (labdriver.TStruct, error) {
	ctor, ok := reg.Structs[name]
	if !ok {
		return nil, fmt.Errorf("unknown result struct %q", name)
	}
	r := ctor()
	if f, ok := fieldByID(reg, name, r, 0); ok {
		// result.Success = &retval for primitives and enums; = retval (nil) otherwise
		if f.Kind() == reflect.Ptr && f.Type().Elem().Kind() != reflect.Struct {
			f.Set(reflect.New(f.Type().Elem()))
		}
	}
	return r, nil
}

func defaults(reg *labdriver.Registry, raw json.RawMessage) interface{} {
	var rq request
	if err := json.Unmarshal(raw, &rq); err != nil {
		return labdriver.Resp{"code": 103, "err": err.Error()}
	}
	out := map[string]interface{}{}
	for m, name := range rq.Results {
		if name == "" {
			continue
		}
		r, err := defaultResult(reg, name)
		if err != nil {
			return labdriver.Resp{"code": 103, "err": err.Error()}
		}
		b, ok, _ := writePartial(r, rq.Proto)
		out[m] = map[string]interface{}{"rb": hex.EncodeToString(b), "wok": ok}
	}
	return labdriver.Resp{"code": 0, "defaults": out}
}

// ---- the scripted handler ----------------------------------------------------------------------

type script struct {
	reg   *labdriver.Registry
	rq    *request
	mu    sync.Mutex
	calls []callRec
}

func (s *script) record(c callRec) {
	s.mu.Lock()
	s.calls = append(s.calls, c)
	s.mu.Unlock()
}

func (s *script) handle(service, method string, fctx frugal.FContext, args []interface{}) (interface{}, error) {
	key, _ := fctx.RequestHeader(keyHeader)
	rec := callRec{Key: key, Method: method}
	if dump, err := json.Marshal(s.dumpArgs(args)); err == nil {
		rec.Args = string(dump)
	}
	fallback := func(note string) (interface{}, error) {
		rec.Default = true
		rec.Note = note
		if name := s.rq.Results[method]; name != "" {
			if r, err := defaultResult(s.reg, name); err == nil {
				b, wok, _ := writePartial(r, s.rq.Proto)
				rec.Rb, rec.Wok = hex.EncodeToString(b), wok
			}
		}
		s.record(rec)
		return nil, nil
	}
	oc, ok := s.rq.Outcomes[key]
	if !ok || oc.Method != method {
		return fallback("")
	}
	for _, kv := range oc.Extra {
		k, _ := hex.DecodeString(kv[0])
		v, _ := hex.DecodeString(kv[1])
		fctx.AddResponseHeader(string(k), string(v))
	}
	for _, r := range oc.ExtraRep {
		k, _ := hex.DecodeString(r.K)
		fctx.AddResponseHeader(string(k), r.value())
	}
	msg, _ := hex.DecodeString(oc.Msg)
	if oc.MsgRep != nil {
		msg = append(msg, oc.MsgRep.value()...)
	}
	switch oc.K {
	case "appexc":
		s.record(rec)
		return nil, thrift.NewTApplicationException(oc.Type, string(msg))
	case "other":
		s.record(rec)
		return nil, errors.New(string(msg))
	}
	if oc.Result == "" { // void oneway
		s.record(rec)
		return nil, nil
	}
	r, err := s.reg.BuildStruct(oc.Result, oc.Value)
	if err != nil {
		return fallback("build error: " + err.Error())
	}
	if oc.Pad > 0 {
		if f, ok := fieldByID(s.reg, oc.Result, r, 0); ok && f.Kind() == reflect.Ptr && f.Type().Elem().Kind() == reflect.String {
			pad := reflect.New(f.Type().Elem())
			pad.Elem().SetString(strings.Repeat("r", oc.Pad))
			f.Set(pad)
		}
	}
	b, wok, panicked := writePartial(r, s.rq.Proto)
	if panicked {
		return fallback("result Write panics")
	}
	rec.Rb, rec.Wok = hex.EncodeToString(b), wok
	s.record(rec)
	if oc.K == "declared" {
		f, ok := fieldByID(s.reg, oc.Result, r, oc.Field)
		if !ok || f.IsNil() {
			return nil, errors.New("c14 harness: declared exception field missing")
		}
		return nil, f.Interface().(error)
	}
	f, ok := fieldByID(s.reg, oc.Result, r, 0)
	if !ok { // void method
		return nil, nil
	}
	if f.Kind() == reflect.Ptr && f.Type().Elem().Kind() != reflect.Struct {
		if f.IsNil() {
			return nil, nil
		}
		return f.Elem().Interface(), nil
	}
	return f.Interface(), nil
}

func (s *script) dumpArgs(args []interface{}) []interface{} {
	out := make([]interface{}, 0, len(args))
	for _, a := range args {
		func() {
			defer func() {
				if recover() != nil {
					out = append(out, "?")
				}
			}()
			out = append(out, s.reg.Dump(reflect.ValueOf(a)))
		}()
	}
	return out
}

// ---- recording transport -----------------------------------------------------------------------

type recTransport struct {
	mu      sync.Mutex
	buf     bytes.Buffer
	flushes int
	flushed int // length of buf at the last Flush
}

// recResetTransport additionally has the Reset method processor.go looks for: it drops what was
// written since the last Flush.
type recResetTransport struct {
	*recTransport
}

func (r recResetTransport) Reset() {
	r.mu.Lock()
	r.buf.Truncate(r.flushed)
	r.mu.Unlock()
}

func (r *recTransport) Open() error  { return nil }
func (r *recTransport) Close() error { return nil }
func (r *recTransport) IsOpen() bool { return true }
func (r *recTransport) Read(p []byte) (int, error) {
	return 0, io.EOF
}
func (r *recTransport) RemainingBytes() uint64 { return 0 }
func (r *recTransport) Write(p []byte) (int, error) {
	r.mu.Lock()
	r.buf.Write(p)
	r.mu.Unlock()
	return len(p), nil
}
func (r *recTransport) Flush(ctx context.Context) error {
	r.mu.Lock()
	r.flushes++
	r.flushed = r.buf.Len()
	r.mu.Unlock()
	return nil
}

// splitFrames cuts a byte stream of [size][payload] records; the rest (if any) is returned too
func splitFrames(b []byte) ([]string, []byte) {
	out := []string{}
	for len(b) >= 4 {
		n := int(binary.BigEndian.Uint32(b))
		if n > len(b)-4 {
			break
		}
		out = append(out, hex.EncodeToString(b[4:4+n]))
		b = b[4+n:]
	}
	return out, b
}

// ---- op ----------------------------------------------------------------------------------------

func run(reg *labdriver.Registry, raw json.RawMessage) interface{} {
	var rq request
	dec := json.NewDecoder(strings.NewReader(string(raw)))
	dec.UseNumber()
	if err := dec.Decode(&rq); err != nil {
		return labdriver.Resp{"code": 103, "err": err.Error()}
	}
	se, ok := reg.Services[rq.Service]
	if !ok {
		return labdriver.Resp{"code": 103, "err": "unknown service " + rq.Service}
	}
	pf, err := protoFactory(rq.Proto)
	if err != nil {
		return labdriver.Resp{"code": 103, "err": err.Error()}
	}
	frames := make([][]byte, len(rq.Frames))
	for i, h := range rq.Frames {
		b, err := hex.DecodeString(h)
		if err != nil {
			return labdriver.Resp{"code": 103, "err": err.Error()}
		}
		frames[i] = b
	}
	sc := &script{reg: reg, rq: &rq}
	proc := se.NewProcessor(sc.handle)
	obs := make([]frameObs, len(frames))
	for i := range obs {
		obs[i].Replies = []string{}
	}
	extra := labdriver.Resp{}
	switch rq.Mode {
	case "direct":
		runDirect(proc, pf, frames, obs, false)
	case "direct_reset":
		runDirect(proc, pf, frames, obs, true)
	case "concurrent":
		runConcurrent(proc, pf, frames, obs, rq.Workers, extra)
	case "simple":
		if err := runSimple(proc, pf, frames, obs, &rq); err != nil {
			return labdriver.Resp{"code": 103, "err": err.Error()}
		}
	case "nats":
		if err := runNats(proc, pf, frames, obs, &rq); err != nil {
			return labdriver.Resp{"code": 103, "err": err.Error()}
		}
	case "http":
		runHTTP(proc, pf, frames, obs, rq.Limits)
	case "bounded":
		runBounded(proc, pf, frames, obs, rq.Limits)
	default:
		return labdriver.Resp{"code": 103, "err": "unknown mode " + rq.Mode}
	}
	sc.mu.Lock()
	calls := append([]callRec{}, sc.calls...)
	sc.mu.Unlock()
	sort.SliceStable(calls, func(i, j int) bool { return calls[i].Key < calls[j].Key })
	extra["code"] = 0
	extra["obs"] = obs
	extra["calls"] = calls
	return extra
}

func processOne(proc frugal.FProcessor, pf *frugal.FProtocolFactory, frame []byte, oprot *frugal.FProtocol) (code int, text string) {
	defer func() {
		if p := recover(); p != nil {
			code, text = 100, fmt.Sprint(p)
		}
	}()
	in := &thrift.TMemoryBuffer{Buffer: bytes.NewBuffer(append([]byte{}, frame...))}
	err := proc.Process(pf.GetProtocol(in), oprot)
	if err != nil {
		return labdriver.Classify(err), err.Error()
	}
	return 0, ""
}

func runDirect(proc frugal.FProcessor, pf *frugal.FProtocolFactory, frames [][]byte, obs []frameObs, withReset bool) {
	for i, f := range frames {
		rec := &recTransport{}
		var tr thrift.TTransport = rec
		if withReset {
			tr = recResetTransport{rec}
		}
		oprot := pf.GetProtocol(tr)
		obs[i].Err, obs[i].ErrText = processOne(proc, pf, f, oprot)
		obs[i].Written = hex.EncodeToString(rec.buf.Bytes())
		obs[i].Flushes = rec.flushes
	}
}

// ---- bounded output ----------------------------------------------------------------------------

// boundedRec stands between the protocol and a real TMemoryOutputBuffer and records every call with its
// fate.  It is a thrift.TRichTransport (so that the protocols keep calling WriteString / WriteByte) and
// has the Reset method processor.go looks for.
type boundedRec struct {
	inner  *frugal.TMemoryOutputBuffer
	events []traceEv
}

func (r *boundedRec) Open() error                { return r.inner.Open() }
func (r *boundedRec) Close() error               { return r.inner.Close() }
func (r *boundedRec) IsOpen() bool               { return r.inner.IsOpen() }
func (r *boundedRec) Read(p []byte) (int, error) { return r.inner.Read(p) }
func (r *boundedRec) ReadByte() (byte, error)    { return r.inner.ReadByte() }
func (r *boundedRec) RemainingBytes() uint64     { return r.inner.RemainingBytes() }
func (r *boundedRec) Write(p []byte) (int, error) {
	ev := traceEv{K: 0, B: hex.EncodeToString(p)}
	n, err := r.inner.Write(p)
	ev.Ok = err == nil
	r.events = append(r.events, ev)
	return n, err
}
func (r *boundedRec) WriteString(s string) (int, error) {
	ev := traceEv{K: 0, B: hex.EncodeToString([]byte(s))}
	n, err := r.inner.WriteString(s)
	ev.Ok = err == nil
	r.events = append(r.events, ev)
	return n, err
}
func (r *boundedRec) WriteByte(c byte) error {
	ev := traceEv{K: 0, B: hex.EncodeToString([]byte{c})}
	err := r.inner.WriteByte(c)
	ev.Ok = err == nil
	r.events = append(r.events, ev)
	return err
}
func (r *boundedRec) Flush(ctx context.Context) error {
	err := r.inner.Flush(ctx)
	r.events = append(r.events, traceEv{K: 1, Ok: err == nil})
	return err
}
func (r *boundedRec) Reset() {
	r.events = append(r.events, traceEv{K: 2, Ok: true})
	r.inner.Reset()
}

func runBounded(proc frugal.FProcessor, pf *frugal.FProtocolFactory, frames [][]byte, obs []frameObs, limits []int) {
	for i, f := range frames {
		lim := 0
		if i < len(limits) && limits[i] > 0 {
			lim = limits[i]
		}
		rec := &boundedRec{inner: frugal.NewTMemoryOutputBuffer(uint(lim))}
		oprot := pf.GetProtocol(rec)
		obs[i].Err, obs[i].ErrText = processOne(proc, pf, f, oprot)
		b := rec.inner.Bytes()
		if len(b) >= 4 {
			obs[i].Written = hex.EncodeToString(b[4:])
			if int(binary.BigEndian.Uint32(b)) != len(b)-4 {
				obs[i].ErrText += fmt.Sprintf(" [size prefix %d of a %d byte buffer]", binary.BigEndian.Uint32(b), len(b))
			}
		} else {
			obs[i].ErrText += fmt.Sprintf(" [buffer of %d bytes]", len(b))
		}
		obs[i].HasData = rec.inner.HasWriteData()
		obs[i].Trace = rec.events
		for _, e := range rec.events {
			if e.K == 1 {
				obs[i].Flushes++
			}
		}
	}
}

// runConcurrent: one shared output protocol; replies are recovered from the recorded byte stream.
// Which reply belongs to which request is decided by the driver (op id), not here.
func runConcurrent(proc frugal.FProcessor, pf *frugal.FProtocolFactory, frames [][]byte, obs []frameObs, workers int, extra labdriver.Resp) {
	if workers < 1 {
		workers = 4
	}
	rec := &recTransport{}
	framed := frugal.NewTFramedTransport(rec)
	oprot := pf.GetProtocol(framed)
	var wg sync.WaitGroup
	start := make(chan struct{})
	next := make(chan int, len(frames))
	for i := range frames {
		next <- i
	}
	close(next)
	for w := 0; w < workers; w++ {
		wg.Add(1)
		go func() {
			defer wg.Done()
			<-start
			for i := range next {
				obs[i].Err, obs[i].ErrText = processOne(proc, pf, frames[i], oprot)
			}
		}()
	}
	close(start)
	wg.Wait()
	fr, rest := splitFrames(rec.buf.Bytes())
	extra["stream_frames"] = fr
	extra["stream_rest"] = hex.EncodeToString(rest)
	extra["stream_flushes"] = rec.flushes
}

// ---- simple server -----------------------------------------------------------------------------

func runSimple(proc frugal.FProcessor, pf *frugal.FProtocolFactory, frames [][]byte, obs []frameObs, rq *request) error {
	st, err := thrift.NewTServerSocket("127.0.0.1:0")
	if err != nil {
		return err
	}
	if err := st.Listen(); err != nil {
		return err
	}
	addr := st.Addr().String()
	srv := frugal.NewFSimpleServer(proc, st, pf)
	go srv.Serve()
	defer srv.Stop()
	conns := rq.Conns
	if len(conns) == 0 {
		all := make([]int, len(frames))
		for i := range all {
			all[i] = i
		}
		conns = []connSpec{{Frames: all}}
	}
	quiet := time.Duration(rq.QuietMs) * time.Millisecond
	if quiet <= 0 {
		quiet = 150 * time.Millisecond
	}
	var wg sync.WaitGroup
	for _, c := range conns {
		wg.Add(1)
		go func(c connSpec) {
			defer wg.Done()
			simpleConn(addr, c, frames, obs, quiet)
		}(c)
	}
	wg.Wait()
	return nil
}

// simpleConn sends the frames of one connection strictly one after another: a frame is written,
// then one reply frame is read (none within 2*quiet: "timeout" is recorded for this frame); after
// the last frame the connection is read until it has been quiet for `quiet`.
func simpleConn(addr string, c connSpec, frames [][]byte, obs []frameObs, quiet time.Duration) {
	conn, err := net.Dial("tcp", addr)
	if err != nil {
		for _, i := range c.Frames {
			obs[i].Timeout = true
			obs[i].ErrText = "dial: " + err.Error()
		}
		return
	}
	defer conn.Close()
	for pos, i := range c.Frames {
		last := pos == len(c.Frames)-1
		msg := make([]byte, 4+len(frames[i]))
		binary.BigEndian.PutUint32(msg, uint32(len(frames[i])))
		copy(msg[4:], frames[i])
		if c.Chunk > 0 {
			for off := 0; off < len(msg); off += c.Chunk {
				end := off + c.Chunk
				if end > len(msg) {
					end = len(msg)
				}
				conn.Write(msg[off:end])
			}
		} else {
			conn.Write(msg)
		}
		// read replies
		got := 0
		for {
			// exactly one reply is awaited per frame; extras (if any) are looked for after the last
			// frame of the connection and are attributed by op id in the driver
			if got > 0 && !last {
				break
			}
			wait := quiet
			if got == 0 {
				wait = 2 * quiet
				if last {
					wait = 3 * quiet // nothing follows that a late reply could still be attributed to
				}
			}
			conn.SetReadDeadline(time.Now().Add(wait))
			var szb [4]byte
			if _, err := io.ReadFull(conn, szb[:]); err != nil {
				if got == 0 {
					obs[i].Timeout = true
				}
				break
			}
			n := binary.BigEndian.Uint32(szb[:])
			if n > 64<<20 {
				obs[i].ErrText = fmt.Sprintf("reply frame size %d", n)
				break
			}
			body := make([]byte, n)
			conn.SetReadDeadline(time.Now().Add(2 * time.Second))
			if _, err := io.ReadFull(conn, body); err != nil {
				obs[i].ErrText = "short reply frame: " + err.Error()
				break
			}
			obs[i].Replies = append(obs[i].Replies, hex.EncodeToString(body))
			got++
		}
	}
}

// ---- NATS server -------------------------------------------------------------------------------

var (
	natsOnce sync.Once
	natsSrv  *natsserver.Server
	natsURL  string
	natsErr  error
	natsSeq  int
)

func startNats() {
	natsSrv, natsErr = natsserver.NewServer(&natsserver.Options{Host: "127.0.0.1", Port: -1, NoLog: true, NoSigs: true, MaxPayload: 8 << 20})
	if natsErr != nil {
		return
	}
	go natsSrv.Start()
	if !natsSrv.ReadyForConnections(10 * time.Second) {
		natsErr = fmt.Errorf("nats server not ready")
		return
	}
	natsURL = natsSrv.ClientURL()
}

func runNats(proc frugal.FProcessor, pf *frugal.FProtocolFactory, frames [][]byte, obs []frameObs, rq *request) error {
	natsOnce.Do(startNats)
	if natsErr != nil {
		return natsErr
	}
	sconn, err := nats.Connect(natsURL, nats.NoReconnect())
	if err != nil {
		return err
	}
	defer sconn.Close()
	cconn, err := nats.Connect(natsURL, nats.NoReconnect())
	if err != nil {
		return err
	}
	defer cconn.Close()
	natsSeq++
	subject := fmt.Sprintf("c14.svc.%d", natsSeq)
	workers := rq.Workers
	if workers < 1 {
		workers = 1
	}
	srv := frugal.NewFNatsServerBuilder(sconn, proc, pf, []string{subject}).
		WithWorkerCount(uint(workers)).WithQueueLength(uint(len(frames) + 8)).Build()
	served := make(chan error, 1)
	go func() { served <- srv.Serve() }()
	// wait until the subscription is active
	for k := 0; k < 200; k++ {
		sconn.Flush()
		if n := natsSrv.NumSubscriptions(); n > 0 {
			break
		}
		time.Sleep(5 * time.Millisecond)
	}
	time.Sleep(20 * time.Millisecond)
	var mu sync.Mutex
	total := 0
	subs := []*nats.Subscription{}
	for i := range frames {
		i := i
		inbox := fmt.Sprintf("c14.reply.%d.%d", natsSeq, i)
		sub, err := cconn.Subscribe(inbox, func(m *nats.Msg) {
			mu.Lock()
			d := m.Data
			if len(d) >= 4 {
				obs[i].Replies = append(obs[i].Replies, hex.EncodeToString(d[4:]))
				if int(binary.BigEndian.Uint32(d)) != len(d)-4 {
					obs[i].ErrText = fmt.Sprintf("size prefix %d of a %d byte message", binary.BigEndian.Uint32(d), len(d))
				}
			} else {
				obs[i].Replies = append(obs[i].Replies, "")
				obs[i].ErrText = fmt.Sprintf("reply of %d bytes", len(d))
			}
			total++
			mu.Unlock()
		})
		if err != nil {
			return err
		}
		subs = append(subs, sub)
	}
	cconn.Flush()
	for i, f := range frames {
		msg := make([]byte, 4+len(f))
		binary.BigEndian.PutUint32(msg, uint32(len(f)))
		copy(msg[4:], f)
		cconn.PublishRequest(subject, fmt.Sprintf("c14.reply.%d.%d", natsSeq, i), msg)
	}
	cconn.Flush()
	// Stop drains: every request received is processed and answered before Serve returns
	time.Sleep(30 * time.Millisecond)
	stopped := make(chan error, 1)
	go func() { stopped <- srv.Stop() }()
	select {
	case <-stopped:
	case <-time.After(10 * time.Second):
		return fmt.Errorf("nats server Stop hangs")
	}
	select {
	case <-served:
	case <-time.After(10 * time.Second):
		return fmt.Errorf("nats server Serve does not return")
	}
	sconn.Flush()
	cconn.Flush()
	quiet := time.Duration(rq.QuietMs) * time.Millisecond
	if quiet <= 0 {
		quiet = 60 * time.Millisecond
	}
	time.Sleep(quiet)
	for _, s := range subs {
		s.Unsubscribe()
	}
	mu.Lock()
	defer mu.Unlock()
	for i := range obs {
		if len(obs[i].Replies) == 0 {
			obs[i].Timeout = true
		}
	}
	return nil
}

// ---- HTTP handler ------------------------------------------------------------------------------

func runHTTP(proc frugal.FProcessor, pf *frugal.FProtocolFactory, frames [][]byte, obs []frameObs, limits []int) {
	ts := httptest.NewServer(frugal.NewFrugalHandlerFunc(proc, pf))
	defer ts.Close()
	client := &http.Client{Timeout: 10 * time.Second}
	for i, f := range frames {
		msg := make([]byte, 4+len(f))
		binary.BigEndian.PutUint32(msg, uint32(len(f)))
		copy(msg[4:], f)
		body := base64.StdEncoding.EncodeToString(msg)
		req, _ := http.NewRequest("POST", ts.URL, strings.NewReader(body))
		req.Header.Set("Content-Type", "application/x-frugal")
		req.Header.Set("Content-Transfer-Encoding", "base64")
		if i < len(limits) && limits[i] > 0 {
			req.Header.Set("x-frugal-payload-limit", fmt.Sprint(limits[i]))
		}
		resp, err := client.Do(req)
		if err != nil {
			obs[i].Timeout = true
			obs[i].ErrText = err.Error()
			continue
		}
		b, _ := io.ReadAll(resp.Body)
		resp.Body.Close()
		obs[i].Status = resp.StatusCode
		if resp.StatusCode != 200 {
			obs[i].ErrText = strings.TrimSpace(string(b))
			continue
		}
		dec, err := base64.StdEncoding.DecodeString(string(b))
		if err != nil {
			obs[i].ErrText = "reply body is not base64: " + err.Error()
			continue
		}
		obs[i].Raw = hex.EncodeToString(dec)
		if len(dec) >= 4 {
			if int(binary.BigEndian.Uint32(dec)) != len(dec)-4 {
				obs[i].ErrText = fmt.Sprintf("size prefix %d of a %d byte body", binary.BigEndian.Uint32(dec), len(dec))
			}
			if len(dec) > 4 {
				obs[i].Replies = append(obs[i].Replies, hex.EncodeToString(dec[4:]))
			}
		}
	}
}
