// Package ext_c16 adds the C16 experiments (service middleware: every call exactly once, in the
// declared order) to the generated-code laboratory.  It is blank-imported into a lab driver through
// lab.py's extra_imports and registers the op "c16".
//
// One request builds, from the constructors the frugal compiler emitted for one seeded program,
//
//	kind "rpc":   provider(prov...) -> NewF<Svc>Client(provider, cctor...)  --loop-back FTransport-->
//	              NewF<Svc>Processor(stub, pctor...) + AddMiddleware(padd...) -> handler stub
//	kind "scope": New<Scope>Publisher(pprovider, pctor...) --in-memory publisher/subscriber pair-->
//	              New<Scope>Subscriber(sprovider, sctor...).Subscribe<Op>[Errorable](handler)
//
// with tracing / rewriting middleware at every attachment point, performs the call(s) and returns
// the ordered trace of middleware entries and exits with the values each of them saw, what the
// proxied method / the user's handler received and returned, and what the caller got back.
//
// Request (JSON):
//
//	{"op":"c16","kind":"rpc","service":"pkg.Svc","method":"GoName","args":[wire...],
//	 "ret":wire|null,"herr":ERR,"prov":[MW],"cctor":[MW],"pctor":[MW],"padd":[MW],
//	 "cstyle":STYLE,"pstyle":STYLE,"provstyle":STYLE,"poison":[MW],"calls":n,"proto":"binary","async":bool}
//	{"op":"c16","kind":"scope","scope":"pkg.Scope","opname":"Op","vars":[str],"value":wire,"herr":ERR,
//	 "errorable":bool,"ector":bool (New<Scope>ErrorableSubscriber instead of New<Scope>Subscriber),"pprov":[MW],"pctor":[MW],"sprov":[MW],"sctor":[MW],"shared":bool,
//	 "pstyle":STYLE,"sstyle":STYLE,"provstyle":STYLE,"poison":[MW],"calls":n,"proto":"binary"}
//	MW    = {"id":n,"pre":[RW],"post":[RW],"inplace":bool}
//	RW    = {"k":"set","pos":i,"v":wire} | {"k":"seterr","pos":i,"err":ERR} | {"k":"hdr"} |
//	        {"k":"trunc","pos":n} | {"k":"app"}
//	ERR   = null | {"k":"exc","type":"pkg.Exc","value":wire} | {"k":"app","type":n,"msg":s} | {"k":"plain","msg":s}
//	STYLE = {"literal":bool,"spare":n}   how the variadic middleware list is passed: f(p, a, b) or f(p, s...)
//	        with cap(s) = len(s)+spare
//	"poison": after the object under test is constructed, the same constructor is called again with
//	        the SAME middleware slice and a different provider that carries these middleware
//
// Response: {"code":0,"runs":[{"events":[EV],"ret":dump,"err":errdump,"panic":msg|null}],"wraps":{id:n},
//
//	"zero":dump of the zero value of the return type,"nmethods":n}
//	EV = ["enter",id,methodName,[ctxdump, dump...]] | ["exit",id,[dump...]] |
//	     ["core",where,name,[dumps]]   where = "handler" | "transport" | "subhandler"
//	     | ["ret","callback",[errdump]]   the subscriber's FAsyncCallback returned
package ext_c16

import (
	"encoding/json"
	"errors"
	"fmt"
	"reflect"
	"sort"
	"strconv"
	"strings"
	"time"

	frugal "github.com/Workiva/frugal/lib/go"
	"github.com/apache/thrift/lib/go/thrift"

	labdriver "verifharness/lab/driver"
)

func init() {
	labdriver.RegisterOp("c16", run)
}

// New<Scope>ErrorableSubscriber constructors (the lab registry lists New<Scope>Subscriber only);
// tools/props/c16.py writes a file into the generated program that registers them here.
var errorableCtors = map[string]interface{}{}

func RegisterErrorable(scope string, ctor interface{}) { errorableCtors[scope] = ctor }

type errSpec struct {
	K     string      `json:"k"`
	Type  interface{} `json:"type"`
	Value interface{} `json:"value"`
	Msg   string      `json:"msg"`
}

type rwSpec struct {
	K   string      `json:"k"`
	Pos int         `json:"pos"`
	V   interface{} `json:"v"`
	Err *errSpec    `json:"err"`
}

type mwSpec struct {
	ID      int      `json:"id"`
	Pre     []rwSpec `json:"pre"`
	Post    []rwSpec `json:"post"`
	InPlace bool     `json:"inplace"`
}

type style struct {
	Literal bool `json:"literal"`
	Spare   int  `json:"spare"`
}

type request struct {
	Kind    string        `json:"kind"`
	Service string        `json:"service"`
	Method  string        `json:"method"`
	Args    []interface{} `json:"args"`
	Ret     interface{}   `json:"ret"`
	HErr    *errSpec      `json:"herr"`
	Prov    []mwSpec      `json:"prov"`
	CCtor   []mwSpec      `json:"cctor"`
	PCtor   []mwSpec      `json:"pctor"`
	PAdd    []mwSpec      `json:"padd"`
	CStyle  style         `json:"cstyle"`
	PStyle  style         `json:"pstyle"`
	SStyle  style         `json:"sstyle"`
	PrStyle style         `json:"provstyle"`
	Poison  []mwSpec      `json:"poison"`
	Calls   int           `json:"calls"`
	Proto   string        `json:"proto"`

	Scope     string      `json:"scope"`
	OpName    string      `json:"opname"`
	Vars      []string    `json:"vars"`
	Value     interface{} `json:"value"`
	Errorable bool        `json:"errorable"`
	PProv     []mwSpec    `json:"pprov"`
	SProv     []mwSpec    `json:"sprov"`
	SCtor     []mwSpec    `json:"sctor"`
	Shared    bool        `json:"shared"`
	// SCtorViaProviderSpare > 0: the subscriber's constructor list is what GetMiddleware() of a provider returns whose own
	// list was passed as a slice with that much spare capacity (GetMiddleware hands out a copy: exact capacity)
	SCtorViaProviderSpare int `json:"sctor_via_provider_spare"`
	Async     bool        `json:"async"` // rpc: call <Method>Async (programs generated with -gen go:async)
	ECtor     bool        `json:"ector"` // build the subscriber with New<Scope>ErrorableSubscriber
}

// a Results value a middleware kept after its invocation returned, with what it held then
type kept struct {
	res  frugal.Results
	dump []interface{}
}

type exp struct {
	retained []kept
	inplace  bool // some middleware of this request rewrites Results in place: nothing is kept then
	extra    bool // the extra call after the scripted ones: the handler returns the zero value
	built  map[string]interface{}
	reg    *labdriver.Registry
	names  map[reflect.Type]string
	events []interface{}
	wraps  map[string]int
	phase  string
}

var (
	fctxType = reflect.TypeOf((*frugal.FContext)(nil)).Elem()
	errType  = reflect.TypeOf((*error)(nil)).Elem()
	mwType   = reflect.TypeOf(frugal.ServiceMiddleware(nil))
)

func bad(format string, a ...interface{}) labdriver.Resp {
	return labdriver.Resp{"code": 103, "err": fmt.Sprintf(format, a...)}
}

func run(reg *labdriver.Registry, raw json.RawMessage) interface{} {
	var q request
	dec := json.NewDecoder(strings.NewReader(string(raw)))
	dec.UseNumber()
	if err := dec.Decode(&q); err != nil {
		return bad("bad request: %v", err)
	}
	e := &exp{reg: reg, names: map[reflect.Type]string{}, wraps: map[string]int{}, built: map[string]interface{}{}}
	for name, ctor := range reg.Structs {
		e.names[reflect.TypeOf(ctor())] = name
	}
	if q.Calls <= 0 {
		q.Calls = 1
	}
	switch q.Kind {
	case "rpc":
		return e.rpc(&q)
	case "scope":
		return e.scope(&q)
	}
	return bad("unknown kind %q", q.Kind)
}

// ------------------------------------------------------------------------------------------
// values

func (e *exp) dumpValue(x interface{}) interface{} {
	if x == nil {
		return nil
	}
	if c, ok := x.(frugal.FContext); ok {
		return e.dumpCtx(c)
	}
	if err, ok := x.(error); ok {
		return e.dumpErr(err)
	}
	return e.dump(reflect.ValueOf(x))
}

// dump is labdriver's Dump made canonical: the entries of Go maps (Thrift maps and sets) sorted
func (e *exp) dump(v reflect.Value) interface{} {
	if !v.IsValid() {
		return nil
	}
	return e.canon(v.Type(), e.reg.Dump(v))
}

func (e *exp) fieldTypes(t reflect.Type) map[string]reflect.Type {
	out := map[string]reflect.Type{}
	for i := 0; i < t.NumField(); i++ {
		f := t.Field(i)
		parts := strings.Split(f.Tag.Get("thrift"), ",")
		if len(parts) >= 2 {
			if _, err := strconv.Atoi(parts[1]); err == nil {
				out[parts[1]] = f.Type
			}
		}
	}
	if len(out) == 0 {
		for _, m := range e.reg.Fields[e.names[reflect.PtrTo(t)]] {
			if sf, ok := t.FieldByName(m.GoName); ok {
				out[strconv.Itoa(m.ID)] = sf.Type
			}
		}
	}
	return out
}

func (e *exp) canon(t reflect.Type, d interface{}) interface{} {
	if d == nil {
		return nil
	}
	switch t.Kind() {
	case reflect.Ptr:
		return e.canon(t.Elem(), d)
	case reflect.Struct:
		m, ok := d.(map[string]interface{})
		if !ok {
			return d
		}
		ft := e.fieldTypes(t)
		out := map[string]interface{}{}
		for k, v := range m {
			if tt, ok := ft[k]; ok {
				out[k] = e.canon(tt, v)
			} else {
				out[k] = v
			}
		}
		return out
	case reflect.Slice:
		l, ok := d.([]interface{})
		if !ok || t.Elem().Kind() == reflect.Uint8 {
			return d
		}
		out := make([]interface{}, len(l))
		for i, x := range l {
			out[i] = e.canon(t.Elem(), x)
		}
		return out
	case reflect.Map:
		l, ok := d.([]interface{})
		if !ok {
			return d
		}
		type ent struct {
			key string
			val interface{}
		}
		ents := make([]ent, 0, len(l))
		for _, x := range l {
			kv, ok := x.([]interface{})
			if !ok || len(kv) != 2 {
				return d
			}
			pair := []interface{}{e.canon(t.Key(), kv[0]), e.canon(t.Elem(), kv[1])}
			b, _ := json.Marshal(pair)
			ents = append(ents, ent{string(b), pair})
		}
		sort.Slice(ents, func(i, j int) bool { return ents[i].key < ents[j].key })
		out := make([]interface{}, len(ents))
		for i, x := range ents {
			out[i] = x.val
		}
		return out
	}
	return d
}

// an FContext is shown as its correlation id and the request headers the middleware added
func (e *exp) dumpCtx(c frugal.FContext) interface{} {
	hs := []string{}
	for k := range c.RequestHeaders() {
		if strings.HasPrefix(k, "mw") {
			hs = append(hs, k)
		}
	}
	sort.Strings(hs)
	return map[string]interface{}{"cid": c.CorrelationID(), "hdr": hs}
}

func (e *exp) dumpErr(err error) interface{} {
	if err == nil {
		return nil
	}
	if name, ok := e.names[reflect.TypeOf(err)]; ok {
		return map[string]interface{}{"k": "exc", "type": name, "value": e.dump(reflect.ValueOf(err))}
	}
	var ae thrift.TApplicationException
	if errors.As(err, &ae) {
		return map[string]interface{}{"k": "app", "type": int(ae.TypeId()), "msg": ae.Error()}
	}
	var te thrift.TTransportException
	if errors.As(err, &te) {
		return map[string]interface{}{"k": "transport", "type": int(te.TypeId()), "msg": te.Error()}
	}
	return map[string]interface{}{"k": "plain", "msg": err.Error()}
}

func (e *exp) dumpList(xs []interface{}) []interface{} {
	out := make([]interface{}, len(xs))
	for i, x := range xs {
		out[i] = e.dumpValue(x)
	}
	return out
}

func (e *exp) buildErr(s *errSpec) (error, error) {
	if s == nil {
		return nil, nil
	}
	switch s.K {
	case "exc":
		name, _ := s.Type.(string)
		v, err := e.reg.BuildStruct(name, s.Value)
		if err != nil {
			return nil, err
		}
		ev, ok := v.(error)
		if !ok {
			return nil, fmt.Errorf("%s is not an exception", name)
		}
		return ev, nil
	case "app":
		n := 0
		switch t := s.Type.(type) {
		case json.Number:
			i, _ := t.Int64()
			n = int(i)
		case float64:
			n = int(t)
		}
		return thrift.NewTApplicationException(int32(n), s.Msg), nil
	case "plain":
		return errors.New(s.Msg), nil
	}
	return nil, fmt.Errorf("unknown error kind %q", s.K)
}

// rewrite of one list of values, prepared against the Go types of the positions
type rewrite struct {
	kind string
	pos  int
	val  interface{}
}

func (e *exp) prepare(rws []rwSpec, types []reflect.Type) ([]rewrite, error) {
	out := []rewrite{}
	for _, r := range rws {
		switch r.K {
		case "set":
			if r.Pos < 0 || r.Pos >= len(types) {
				return nil, fmt.Errorf("rewrite position %d out of range", r.Pos)
			}
			v, err := e.reg.Build(types[r.Pos], r.V)
			if err != nil {
				return nil, err
			}
			out = append(out, rewrite{"set", r.Pos, v.Interface()})
		case "seterr":
			ev, err := e.buildErr(r.Err)
			if err != nil {
				return nil, err
			}
			out = append(out, rewrite{"set", r.Pos, ev})
		case "hdr", "app":
			out = append(out, rewrite{r.K, 0, nil})
		case "trunc":
			out = append(out, rewrite{"trunc", r.Pos, nil})
		default:
			return nil, fmt.Errorf("unknown rewrite %q", r.K)
		}
	}
	return out, nil
}

func applyRewrites(id int, rws []rewrite, xs []interface{}, inplace bool) []interface{} {
	if len(rws) == 0 {
		return xs
	}
	if !inplace {
		xs = append([]interface{}{}, xs...)
	}
	for _, r := range rws {
		switch r.kind {
		case "set":
			if r.pos < len(xs) {
				xs[r.pos] = r.val
			}
		case "hdr":
			if len(xs) > 0 {
				if c, ok := xs[0].(frugal.FContext); ok {
					c.AddRequestHeader("mw"+strconv.Itoa(id), "1")
				}
			}
		case "trunc":
			if r.pos < len(xs) {
				xs = xs[:r.pos]
			}
		case "app":
			xs = append(xs, nil)
		}
	}
	return xs
}

// ------------------------------------------------------------------------------------------
// middleware

func (e *exp) middleware(spec mwSpec, argTypes, resTypes []reflect.Type) (frugal.ServiceMiddleware, error) {
	pre, err := e.prepare(spec.Pre, argTypes)
	if err != nil {
		return nil, fmt.Errorf("middleware %d pre: %v", spec.ID, err)
	}
	post, err := e.prepare(spec.Post, resTypes)
	if err != nil {
		return nil, fmt.Errorf("middleware %d post: %v", spec.ID, err)
	}
	id := spec.ID
	if spec.InPlace {
		e.inplace = true
	}
	vals := func(rws []rewrite) []interface{} {
		out := []interface{}{}
		for _, r := range rws {
			out = append(out, e.dumpValue(r.val))
		}
		return out
	}
	e.built["mw"+strconv.Itoa(id)] = map[string]interface{}{"pre": vals(pre), "post": vals(post)}
	return func(next frugal.InvocationHandler) frugal.InvocationHandler {
		e.wraps[e.phase+strconv.Itoa(id)]++
		return func(svc reflect.Value, method reflect.Method, args frugal.Arguments) frugal.Results {
			e.events = append(e.events, []interface{}{"enter", id, method.Name, e.dumpList(args)})
			res := next(svc, method, applyRewrites(id, pre, args, spec.InPlace))
			d := e.dumpList(res)
			e.events = append(e.events, []interface{}{"exit", id, d})
			if !e.extra && !e.inplace && len(e.retained) < 64 {
				// keep the Results VALUE itself (as a memoising middleware would); it must still hold
				// the same results after later invocations of the method
				e.retained = append(e.retained, kept{res: res, dump: d})
			}
			return applyRewrites(id, post, res, spec.InPlace)
		}
	}, nil
}

func (e *exp) middlewares(specs []mwSpec, argTypes, resTypes []reflect.Type, st style) ([]frugal.ServiceMiddleware, error) {
	out := make([]frugal.ServiceMiddleware, 0, len(specs)+st.Spare)
	for _, s := range specs {
		m, err := e.middleware(s, argTypes, resTypes)
		if err != nil {
			return nil, err
		}
		out = append(out, m)
	}
	if len(specs) == 0 && st.Spare == 0 {
		return nil, nil
	}
	return out, nil
}

// callVariadic calls ctor(first, mws...) the way the style says: with the slice itself (f(p, s...)) or
// with the elements spelled out (f(p, a, b, c), for which Go allocates a fresh slice).
func callVariadic(ctor interface{}, first reflect.Value, mws []frugal.ServiceMiddleware, st style) reflect.Value {
	f := reflect.ValueOf(ctor)
	if st.Literal {
		in := []reflect.Value{first}
		for _, m := range mws {
			in = append(in, reflect.ValueOf(m))
		}
		return f.Call(in)[0]
	}
	return f.CallSlice([]reflect.Value{first, reflect.ValueOf(mws)})[0]
}

func protoFactory(name string) (*frugal.FProtocolFactory, error) {
	switch name {
	case "", "binary":
		return frugal.NewFProtocolFactory(thrift.NewTBinaryProtocolFactoryConf(nil)), nil
	case "compact":
		return frugal.NewFProtocolFactory(thrift.NewTCompactProtocolFactoryConf(nil)), nil
	case "json":
		return frugal.NewFProtocolFactory(thrift.NewTJSONProtocolFactory()), nil
	}
	return nil, fmt.Errorf("unknown protocol %q", name)
}

// ------------------------------------------------------------------------------------------
// RPC: loop-back transport

type loopTransport struct {
	e    *exp
	proc frugal.FProcessor
	pf   *frugal.FProtocolFactory
}

func (t *loopTransport) SetMonitor(frugal.FTransportMonitor) {}
func (t *loopTransport) Closed() <-chan error                { return nil }
func (t *loopTransport) Open() error                         { return nil }
func (t *loopTransport) IsOpen() bool                        { return true }
func (t *loopTransport) Close() error                        { return nil }
func (t *loopTransport) GetRequestSizeLimit() uint           { return 0 }

func (t *loopTransport) exchange(payload []byte) ([]byte, error) {
	if len(payload) < 4 {
		return nil, errors.New("short frame")
	}
	in := thrift.NewTMemoryBuffer()
	in.Write(payload[4:])
	out := frugal.NewTMemoryOutputBuffer(0)
	if err := t.proc.Process(t.pf.GetProtocol(in), t.pf.GetProtocol(out)); err != nil {
		return nil, err
	}
	if !out.HasWriteData() {
		return nil, nil
	}
	return append([]byte{}, out.Bytes()...), nil
}

func (t *loopTransport) Oneway(ctx frugal.FContext, payload []byte) error {
	t.e.events = append(t.e.events, []interface{}{"core", "transport", "oneway", []interface{}{}})
	_, err := t.exchange(payload)
	return err
}

func (t *loopTransport) Request(ctx frugal.FContext, payload []byte) (thrift.TTransport, error) {
	t.e.events = append(t.e.events, []interface{}{"core", "transport", "request", []interface{}{}})
	b, err := t.exchange(payload)
	if err != nil {
		return nil, err
	}
	if b == nil {
		return nil, errors.New("c16: no reply")
	}
	res := thrift.NewTMemoryBuffer()
	res.Write(b[4:])
	return res, nil
}

func (e *exp) rpc(q *request) interface{} {
	entry, ok := e.reg.Services[q.Service]
	if !ok {
		return bad("unknown service %q", q.Service)
	}
	pf, err := protoFactory(q.Proto)
	if err != nil {
		return bad("%v", err)
	}
	// the Go types of the call: read off the generated client's method
	ctorT := reflect.TypeOf(entry.NewClient)
	mt, ok := ctorT.Out(0).MethodByName(q.Method)
	if !ok {
		return bad("no method %s on %s", q.Method, ctorT.Out(0))
	}
	argTypes := []reflect.Type{fctxType}
	for i := 2; i < mt.Type.NumIn(); i++ {
		argTypes = append(argTypes, mt.Type.In(i))
	}
	resTypes := []reflect.Type{}
	for i := 0; i < mt.Type.NumOut(); i++ {
		resTypes = append(resTypes, mt.Type.Out(i))
	}
	if len(q.Args) != len(argTypes)-1 {
		return bad("method %s takes %d arguments, %d given", q.Method, len(argTypes)-1, len(q.Args))
	}
	var hret interface{}
	var zero interface{}
	if len(resTypes) == 2 {
		v, err := e.reg.Build(resTypes[0], q.Ret)
		if err != nil {
			return bad("ret: %v", err)
		}
		hret = v.Interface()
		zero = e.dump(reflect.Zero(resTypes[0]))
	}
	herr, err := e.buildErr(q.HErr)
	if err != nil {
		return bad("herr: %v", err)
	}
	e.built["ret"] = e.dumpValue(hret)
	e.built["herr"] = e.dumpErr(herr)
	bargs := []interface{}{}
	for i, a := range q.Args {
		v, err := e.reg.Build(argTypes[i+1], a)
		if err != nil {
			return bad("arg %d: %v", i, err)
		}
		bargs = append(bargs, e.dump(v))
	}
	e.built["args"] = bargs
	lists := map[string][]frugal.ServiceMiddleware{}
	for name, x := range map[string]struct {
		specs []mwSpec
		st    style
	}{"prov": {q.Prov, q.PrStyle}, "cctor": {q.CCtor, q.CStyle}, "pctor": {q.PCtor, q.PStyle}, "padd": {q.PAdd, style{}},
		"poison": {q.Poison, style{}}} {
		l, err := e.middlewares(x.specs, argTypes, resTypes, x.st)
		if err != nil {
			return bad("%s: %v", name, err)
		}
		lists[name] = l
	}
	e.wraps = map[string]int{}
	e.phase = ""

	handler := func(service, method string, fctx frugal.FContext, args []interface{}) (interface{}, error) {
		all := append([]interface{}{fctx}, args...)
		e.events = append(e.events, []interface{}{"core", "handler", service + "." + method, e.dumpList(all)})
		if e.extra {
			if len(resTypes) == 2 {
				return reflect.Zero(resTypes[0]).Interface(), nil
			}
			return nil, nil
		}
		return hret, herr
	}
	// server side: NewF<Svc>Processor(handler, pctor...) then AddMiddleware in order
	var proc frugal.FProcessor
	if q.PStyle.Literal {
		proc = entry.NewProcessor(handler, append([]frugal.ServiceMiddleware{}, lists["pctor"]...)...)
	} else {
		proc = entry.NewProcessor(handler, lists["pctor"]...)
	}
	for _, m := range lists["padd"] {
		proc.AddMiddleware(m)
	}
	// client side
	tr := &loopTransport{e: e, proc: proc, pf: pf}
	var provider *frugal.FServiceProvider
	if q.PrStyle.Literal {
		provider = frugal.NewFServiceProvider(tr, pf, append([]frugal.ServiceMiddleware{}, lists["prov"]...)...)
	} else {
		provider = frugal.NewFServiceProvider(tr, pf, lists["prov"]...)
	}
	client := callVariadic(entry.NewClient, reflect.ValueOf(provider), lists["cctor"], q.CStyle)
	if len(q.Poison) > 0 {
		e.phase = "poison:"
		// a second client and processor built from the same middleware slices, another provider
		other := frugal.NewFServiceProvider(tr, pf, lists["poison"]...)
		callVariadic(entry.NewClient, reflect.ValueOf(other), lists["cctor"], q.CStyle)
		if !q.PStyle.Literal {
			entry.NewProcessor(handler, lists["pctor"]...)
		}
	}
	wraps := e.wraps

	in := []reflect.Value{}
	runs := []interface{}{}
	for c := 0; c < q.Calls; c++ {
		fctx := frugal.NewFContext("c16-" + strconv.Itoa(c))
		in = in[:0]
		in = append(in, reflect.ValueOf(fctx))
		for i, a := range q.Args {
			v, err := e.reg.Build(argTypes[i+1], a)
			if err != nil {
				return bad("arg %d: %v", i, err)
			}
			in = append(in, v)
		}
		e.events = []interface{}{}
		runs = append(runs, e.guarded(func(out map[string]interface{}) {
			name := q.Method
			if q.Async {
				name += "Async"
			}
			res := client.MethodByName(name).Call(in)
			if q.Async {
				// (r <-chan T, err <-chan error) or (err <-chan error): exactly one of them delivers
				cases := []reflect.SelectCase{{Dir: reflect.SelectRecv, Chan: res[len(res)-1]},
					{Dir: reflect.SelectRecv, Chan: reflect.ValueOf(time.After(10 * time.Second))}}
				if len(res) == 2 {
					cases = append(cases, reflect.SelectCase{Dir: reflect.SelectRecv, Chan: res[0]})
				}
				chosen, v, _ := reflect.Select(cases)
				out["err"] = nil
				switch chosen {
				case 0:
					if !v.IsNil() {
						out["err"] = e.dumpErr(v.Interface().(error))
					}
					if len(res) == 2 {
						out["ret"] = nil
					}
				case 1:
					panic("c16: nothing delivered by the Async method")
				case 2:
					out["ret"] = e.dump(v)
				}
				return
			}
			if len(res) == 2 {
				out["ret"] = e.dump(res[0])
			}
			last := res[len(res)-1]
			if last.IsNil() {
				out["err"] = nil
			} else {
				out["err"] = e.dumpErr(last.Interface().(error))
			}
		}))
	}
	// one more invocation of the same method with a different handler outcome, then look at the Results
	// values the middleware kept: an invocation must not reach into the results of an earlier one
	changed := 0
	if len(e.retained) > 0 && q.Calls > 0 {
		e.extra = true
		e.guarded(func(out map[string]interface{}) {
			name := q.Method
			if q.Async {
				name += "Async"
			}
			res := client.MethodByName(name).Call(in)
			if q.Async {
				reflect.Select([]reflect.SelectCase{{Dir: reflect.SelectRecv, Chan: res[len(res)-1]},
					{Dir: reflect.SelectRecv, Chan: reflect.ValueOf(time.After(2 * time.Second))}})
			}
		})
		e.extra = false
		for _, k := range e.retained {
			if !reflect.DeepEqual(e.dumpList(k.res), k.dump) {
				changed++
			}
		}
	}
	return labdriver.Resp{"code": 0, "runs": runs, "wraps": wraps, "zero": zero, "nret": len(resTypes), "built": e.built,
		"retained": len(e.retained), "retained_changed": changed}
}

// guarded runs one call; a panic ends the run with the events recorded so far
func (e *exp) guarded(f func(out map[string]interface{})) (out map[string]interface{}) {
	out = map[string]interface{}{"panic": nil}
	defer func() {
		if p := recover(); p != nil {
			out["panic"] = fmt.Sprint(p)
		}
		out["events"] = e.events
	}()
	f(out)
	return out
}

// ------------------------------------------------------------------------------------------
// pub/sub: in-memory transports

type bus struct {
	e    *exp
	subs []*memSub
	last []interface{}
}

type memPub struct{ b *bus }

func (p *memPub) Open() error               { return nil }
func (p *memPub) Close() error              { return nil }
func (p *memPub) IsOpen() bool              { return true }
func (p *memPub) GetPublishSizeLimit() uint { return 0 }
func (p *memPub) Publish(topic string, data []byte) error {
	p.b.e.events = append(p.b.e.events, []interface{}{"core", "transport", topic, []interface{}{}})
	if len(data) < 4 {
		return errors.New("short frame")
	}
	for _, s := range p.b.subs {
		if s.cb != nil && s.topic == topic {
			buf := thrift.NewTMemoryBuffer()
			buf.Write(data[4:])
			err := s.cb(buf)
			p.b.e.events = append(p.b.e.events, []interface{}{"ret", "callback", []interface{}{p.b.e.dumpErr(err)}})
			p.b.last = append(p.b.last, p.b.e.dumpErr(err))
		}
	}
	return nil
}

type memSub struct {
	b     *bus
	topic string
	cb    frugal.FAsyncCallback
}

func (s *memSub) Subscribe(topic string, cb frugal.FAsyncCallback) error {
	s.topic, s.cb = topic, cb
	return nil
}
func (s *memSub) Unsubscribe() error { s.cb = nil; return nil }
func (s *memSub) IsSubscribed() bool { return s.cb != nil }

type pubFactory struct{ b *bus }

func (f pubFactory) GetTransport() frugal.FPublisherTransport { return &memPub{f.b} }

type subFactory struct{ b *bus }

func (f subFactory) GetTransport() frugal.FSubscriberTransport {
	s := &memSub{b: f.b}
	f.b.subs = append(f.b.subs, s)
	return s
}

func (e *exp) scope(q *request) interface{} {
	entry, ok := e.reg.Scopes[q.Scope]
	if !ok {
		return bad("unknown scope %q", q.Scope)
	}
	pf, err := protoFactory(q.Proto)
	if err != nil {
		return bad("%v", err)
	}
	pubT := reflect.TypeOf(entry.NewPublisher).Out(0)
	pm, ok := pubT.MethodByName("Publish" + q.OpName)
	if !ok {
		return bad("no method Publish%s on %s", q.OpName, pubT)
	}
	// interface method: In(0) is fctx
	pubArgTypes := []reflect.Type{}
	for i := 0; i < pm.Type.NumIn(); i++ {
		pubArgTypes = append(pubArgTypes, pm.Type.In(i))
	}
	if len(pubArgTypes) != 2+len(q.Vars) {
		return bad("Publish%s takes %d prefix variables, %d given", q.OpName, len(pubArgTypes)-2, len(q.Vars))
	}
	valT := pubArgTypes[len(pubArgTypes)-1]
	subArgTypes := []reflect.Type{fctxType, valT}
	resTypes := []reflect.Type{errType}
	herr, err := e.buildErr(q.HErr)
	if err != nil {
		return bad("herr: %v", err)
	}
	mk := func(specs []mwSpec, types []reflect.Type, st style, what string) ([]frugal.ServiceMiddleware, error) {
		l, err := e.middlewares(specs, types, resTypes, st)
		if err != nil {
			return nil, fmt.Errorf("%s: %v", what, err)
		}
		return l, nil
	}
	pprov, err := mk(q.PProv, pubArgTypes, q.PrStyle, "pprov")
	if err != nil {
		return bad("%v", err)
	}
	pctor, err := mk(q.PCtor, pubArgTypes, q.PStyle, "pctor")
	if err != nil {
		return bad("%v", err)
	}
	sprov, err := mk(q.SProv, subArgTypes, q.PrStyle, "sprov")
	if err != nil {
		return bad("%v", err)
	}
	sctor, err := mk(q.SCtor, subArgTypes, q.SStyle, "sctor")
	if err != nil {
		return bad("%v", err)
	}
	poison, err := mk(q.Poison, subArgTypes, style{}, "poison")
	if err != nil {
		return bad("%v", err)
	}
	if q.SCtorViaProviderSpare > 0 && len(sctor) > 0 {
		roomy := make([]frugal.ServiceMiddleware, len(sctor), len(sctor)+q.SCtorViaProviderSpare)
		copy(roomy, sctor)
		sctor = frugal.NewFScopeProvider(nil, nil, nil, roomy...).GetMiddleware()
	}
	e.built["herr"] = e.dumpErr(herr)
	if bv, err := e.reg.Build(valT, q.Value); err == nil {
		e.built["value"] = e.dump(bv)
	}
	e.wraps = map[string]int{}
	e.phase = ""
	b := &bus{e: e}
	pprovider := frugal.NewFScopeProvider(pubFactory{b}, subFactory{b}, pf, pprov...)
	sprovider := pprovider
	if !q.Shared {
		sprovider = frugal.NewFScopeProvider(pubFactory{b}, subFactory{b}, pf, sprov...)
	}
	publisher := callVariadic(entry.NewPublisher, reflect.ValueOf(pprovider), pctor, q.PStyle)
	newSub := entry.NewSubscriber
	if q.ECtor {
		c, ok := errorableCtors[q.Scope]
		if !ok {
			return bad("no New...ErrorableSubscriber registered for %s", q.Scope)
		}
		newSub = c
	}
	subscriber := callVariadic(newSub, reflect.ValueOf(sprovider), sctor, q.SStyle)
	if len(q.Poison) > 0 {
		e.phase = "poison:"
		other := frugal.NewFScopeProvider(pubFactory{b}, subFactory{b}, pf, poison...)
		callVariadic(newSub, reflect.ValueOf(other), sctor, q.SStyle)
		callVariadic(entry.NewPublisher, reflect.ValueOf(other), pctor, q.PStyle)
	}
	// subscribe
	e.phase = ""
	subName := "Subscribe" + q.OpName
	if q.Errorable {
		subName += "Errorable"
	}
	if subscriber.Kind() == reflect.Interface {
		subscriber = subscriber.Elem() // the concrete *<scope>Subscriber implements both subscriber interfaces
	}
	sm := subscriber.MethodByName(subName)
	if !sm.IsValid() {
		return bad("no method %s on %s", subName, subscriber.Type())
	}
	hT := sm.Type().In(sm.Type().NumIn() - 1)
	hfn := reflect.MakeFunc(hT, func(in []reflect.Value) []reflect.Value {
		all := []interface{}{in[0].Interface(), in[1].Interface()}
		e.events = append(e.events, []interface{}{"core", "subhandler", q.OpName, e.dumpList(all)})
		if hT.NumOut() == 0 {
			return nil
		}
		ev := reflect.New(errType).Elem()
		if herr != nil {
			ev.Set(reflect.ValueOf(herr))
		}
		return []reflect.Value{ev}
	})
	sin := []reflect.Value{}
	for _, v := range q.Vars {
		sin = append(sin, reflect.ValueOf(v))
	}
	sin = append(sin, hfn)
	sres := sm.Call(sin)
	if !sres[1].IsNil() {
		return bad("subscribe: %v", sres[1].Interface())
	}
	wraps := e.wraps

	runs := []interface{}{}
	for c := 0; c < q.Calls; c++ {
		fctx := frugal.NewFContext("c16-" + strconv.Itoa(c))
		in := []reflect.Value{reflect.ValueOf(fctx)}
		for _, v := range q.Vars {
			in = append(in, reflect.ValueOf(v))
		}
		v, err := e.reg.Build(valT, q.Value)
		if err != nil {
			return bad("value: %v", err)
		}
		in = append(in, v)
		e.events = []interface{}{}
		b.last = []interface{}{}
		runs = append(runs, e.guarded(func(out map[string]interface{}) {
			defer func() { out["delivered"] = b.last }()
			res := publisher.MethodByName("Publish" + q.OpName).Call(in)
			if res[0].IsNil() {
				out["err"] = nil
			} else {
				out["err"] = e.dumpErr(res[0].Interface().(error))
			}
		}))
	}
	return labdriver.Resp{"code": 0, "runs": runs, "wraps": wraps, "built": e.built}
}

var _ = mwType
