// Package labdriver is the generic, reflection-based driver of the generated-code laboratory
// (DESIGN.md 2.4).  One binary is linked per generated program: a generated `main` registers the
// program's constructors (lab.py writes that registry) and calls Main, which then serves JSON-line
// requests on stdin.  Values are built and dumped through the emitted `thrift:"name,id,..."`
// struct tags (or, for `slim` output which has no tags, through field tables in the registry).
//
// JSON form of values (symmetric for build and dump):
//
//	bool            true/false
//	byte..i64, enum number (i64 may also be a decimal string)
//	double          16 hex digits of the IEEE bits
//	string, binary  hex of the bytes
//	list            [v, ...]            nil slice = null
//	set             [[v, true], ...]    nil map = null   (a Go set is map[T]bool)
//	map             [[k, v], ...]       nil map = null
//	struct-like     {"<field id>": v | null, ...}; built from New<T>() (declared defaults applied),
//	                fields that are absent keep what the constructor set; {"_zero": true} starts from &T{}
//	nil pointer     null
//
// Built-in ops (request {"op": ..., ...} -> response {"code": 0|errclass|100 panic|102 hang, ...}):
//
//	types                                  -> {"structs": [...], "services": [...], "scopes": [...]}
//	new    {type}                          -> {"value": dump of New<T>()}
//	write  {type, proto, value}            -> {"out": hex}         proto = binary | compact | json
//	read   {type, proto, bytes}            -> {"value": dump, "rest": unread byte count}
//	isset  {type, value}                   -> {"isset": {"<id>": bool}}   (fields that have an IsSet method)
//	tree   {proto, bytes}                  -> {"tree": schema-less decoding of one struct, "rest": n}
//	echo   {type, proto, value}            -> write then read back: {"out": hex, "value": dump}
//
// Other property checks add ops with RegisterOp from their own package (blank-imported into the
// generated main through lab.py's `extra_imports`).
package labdriver

import (
	"bufio"
	"context"
	"encoding/hex"
	"encoding/json"
	"fmt"
	"io"
	"math"
	"os"
	"reflect"
	"sort"
	"strconv"
	"strings"
	"time"

	frugal "github.com/Workiva/frugal/lib/go"
	"github.com/apache/thrift/lib/go/thrift"
)

// TStruct is what every generated struct-like implements.
type TStruct interface {
	Read(ctx context.Context, p thrift.TProtocol) error
	Write(ctx context.Context, p thrift.TProtocol) error
}

// HandlerFunc receives every call that reaches a generated handler stub (LabStub<Service>).
type HandlerFunc func(service, method string, fctx frugal.FContext, args []interface{}) (interface{}, error)

// FieldMeta describes one field of a struct-like when the emitted code carries no tags (slim).
type FieldMeta struct {
	ID     int
	GoName string
}

type ServiceEntry struct {
	NewClient    interface{} // func(*frugal.FServiceProvider, ...frugal.ServiceMiddleware) *F<Svc>Client
	NewProcessor func(h HandlerFunc, mw ...frugal.ServiceMiddleware) frugal.FProcessor
	Methods      []string // Go method names, own and inherited
}

type ScopeEntry struct {
	NewPublisher  interface{}
	NewSubscriber interface{}
}

type Registry struct {
	Structs  map[string]func() TStruct
	Fields   map[string][]FieldMeta
	Services map[string]ServiceEntry
	Scopes   map[string]ScopeEntry
	byType   map[reflect.Type]string
}

func NewRegistry() *Registry {
	return &Registry{Structs: map[string]func() TStruct{}, Fields: map[string][]FieldMeta{},
		Services: map[string]ServiceEntry{}, Scopes: map[string]ScopeEntry{}, byType: map[reflect.Type]string{}}
}

func (r *Registry) Struct(name string, ctor func() TStruct, fields ...FieldMeta) {
	r.Structs[name] = ctor
	if len(fields) > 0 {
		r.Fields[name] = fields
	}
	r.byType[reflect.TypeOf(ctor()).Elem()] = name
}
func (r *Registry) Service(name string, e ServiceEntry) { r.Services[name] = e }
func (r *Registry) Scope(name string, e ScopeEntry)     { r.Scopes[name] = e }

// OpFunc handles one request; it returns any JSON-encodable response.
type OpFunc func(reg *Registry, raw json.RawMessage) interface{}

var ops = map[string]OpFunc{}

func RegisterOp(name string, f OpFunc) { ops[name] = f }

// ------------------------------------------------------------------------------------------
// field tables

type fieldInfo struct {
	id    int
	index int
	name  string
}

func (r *Registry) fieldsOf(t reflect.Type) []fieldInfo {
	var out []fieldInfo
	for i := 0; i < t.NumField(); i++ {
		f := t.Field(i)
		tag := f.Tag.Get("thrift")
		if tag == "" {
			continue
		}
		parts := strings.Split(tag, ",")
		if len(parts) < 2 {
			continue
		}
		id, err := strconv.Atoi(parts[1])
		if err != nil {
			continue
		}
		out = append(out, fieldInfo{id, i, f.Name})
	}
	if len(out) == 0 && t.NumField() > 0 {
		if metas, ok := r.Fields[r.byType[t]]; ok {
			for _, m := range metas {
				if sf, ok := t.FieldByName(m.GoName); ok {
					out = append(out, fieldInfo{m.ID, sf.Index[0], m.GoName})
				}
			}
		}
	}
	return out
}

// ------------------------------------------------------------------------------------------
// build: JSON -> Go value

func (r *Registry) Build(t reflect.Type, j interface{}) (reflect.Value, error) {
	switch t.Kind() {
	case reflect.Ptr:
		if j == nil {
			return reflect.Zero(t), nil
		}
		if t.Elem().Kind() == reflect.Struct {
			return r.buildStruct(t, j)
		}
		p := reflect.New(t.Elem())
		v, err := r.Build(t.Elem(), j)
		if err != nil {
			return p, err
		}
		p.Elem().Set(v)
		return p, nil
	case reflect.Bool:
		b, ok := j.(bool)
		if !ok {
			return reflect.Zero(t), fmt.Errorf("want bool, got %T", j)
		}
		v := reflect.New(t).Elem()
		v.SetBool(b)
		return v, nil
	case reflect.Int8, reflect.Int16, reflect.Int32, reflect.Int64, reflect.Int:
		var s string
		switch x := j.(type) {
		case json.Number:
			s = x.String()
		case string:
			s = x
		default:
			return reflect.Zero(t), fmt.Errorf("want integer, got %T", j)
		}
		n, err := strconv.ParseInt(s, 10, 64)
		if err != nil {
			return reflect.Zero(t), err
		}
		v := reflect.New(t).Elem()
		v.SetInt(n)
		return v, nil
	case reflect.Float64:
		s, ok := j.(string)
		if !ok {
			return reflect.Zero(t), fmt.Errorf("want hex bits for double, got %T", j)
		}
		bits, err := strconv.ParseUint(s, 16, 64)
		if err != nil {
			return reflect.Zero(t), err
		}
		v := reflect.New(t).Elem()
		v.SetFloat(math.Float64frombits(bits))
		return v, nil
	case reflect.String:
		s, ok := j.(string)
		if !ok {
			return reflect.Zero(t), fmt.Errorf("want hex string, got %T", j)
		}
		b, err := hex.DecodeString(s)
		if err != nil {
			return reflect.Zero(t), err
		}
		v := reflect.New(t).Elem()
		v.SetString(string(b))
		return v, nil
	case reflect.Slice:
		if j == nil {
			return reflect.Zero(t), nil
		}
		if t.Elem().Kind() == reflect.Uint8 {
			s, ok := j.(string)
			if !ok {
				return reflect.Zero(t), fmt.Errorf("want hex for binary, got %T", j)
			}
			b, err := hex.DecodeString(s)
			if err != nil {
				return reflect.Zero(t), err
			}
			v := reflect.MakeSlice(t, len(b), len(b))
			reflect.Copy(v, reflect.ValueOf(b))
			return v, nil
		}
		arr, ok := j.([]interface{})
		if !ok {
			return reflect.Zero(t), fmt.Errorf("want array, got %T", j)
		}
		v := reflect.MakeSlice(t, 0, len(arr))
		for _, x := range arr {
			e, err := r.Build(t.Elem(), x)
			if err != nil {
				return v, err
			}
			v = reflect.Append(v, e)
		}
		return v, nil
	case reflect.Map:
		if j == nil {
			return reflect.Zero(t), nil
		}
		arr, ok := j.([]interface{})
		if !ok {
			return reflect.Zero(t), fmt.Errorf("want array of pairs, got %T", j)
		}
		m := reflect.MakeMapWithSize(t, len(arr))
		for _, x := range arr {
			pair, ok := x.([]interface{})
			if !ok || len(pair) != 2 {
				return m, fmt.Errorf("want [k, v] pair")
			}
			k, err := r.Build(t.Key(), pair[0])
			if err != nil {
				return m, err
			}
			e, err := r.Build(t.Elem(), pair[1])
			if err != nil {
				return m, err
			}
			m.SetMapIndex(k, e)
		}
		return m, nil
	}
	return reflect.Zero(t), fmt.Errorf("unsupported kind %s", t.Kind())
}

func (r *Registry) buildStruct(pt reflect.Type, j interface{}) (reflect.Value, error) {
	obj, ok := j.(map[string]interface{})
	if !ok {
		return reflect.Zero(pt), fmt.Errorf("want object for %s, got %T", pt, j)
	}
	var p reflect.Value
	name, known := r.byType[pt.Elem()]
	if _, zero := obj["_zero"]; zero || !known {
		p = reflect.New(pt.Elem())
	} else {
		p = reflect.ValueOf(r.Structs[name]())
	}
	for _, f := range r.fieldsOf(pt.Elem()) {
		x, present := obj[strconv.Itoa(f.id)]
		if !present {
			continue
		}
		fv := p.Elem().Field(f.index)
		v, err := r.Build(fv.Type(), x)
		if err != nil {
			return p, fmt.Errorf("field %d (%s): %v", f.id, f.name, err)
		}
		fv.Set(v)
	}
	return p, nil
}

// ------------------------------------------------------------------------------------------
// dump: Go value -> JSON

func (r *Registry) Dump(v reflect.Value) interface{} {
	switch v.Kind() {
	case reflect.Ptr:
		if v.IsNil() {
			return nil
		}
		if v.Elem().Kind() == reflect.Struct {
			out := map[string]interface{}{}
			for _, f := range r.fieldsOf(v.Elem().Type()) {
				out[strconv.Itoa(f.id)] = r.Dump(v.Elem().Field(f.index))
			}
			return out
		}
		return r.Dump(v.Elem())
	case reflect.Interface:
		if v.IsNil() {
			return nil
		}
		return r.Dump(v.Elem())
	case reflect.Bool:
		return v.Bool()
	case reflect.Int8, reflect.Int16, reflect.Int32, reflect.Int64, reflect.Int:
		return json.Number(strconv.FormatInt(v.Int(), 10))
	case reflect.Float64:
		return fmt.Sprintf("%016x", math.Float64bits(v.Float()))
	case reflect.String:
		return hex.EncodeToString([]byte(v.String()))
	case reflect.Slice:
		if v.IsNil() {
			return nil
		}
		if v.Type().Elem().Kind() == reflect.Uint8 {
			return hex.EncodeToString(v.Bytes())
		}
		out := make([]interface{}, 0, v.Len())
		for i := 0; i < v.Len(); i++ {
			out = append(out, r.Dump(v.Index(i)))
		}
		return out
	case reflect.Map:
		if v.IsNil() {
			return nil
		}
		out := make([]interface{}, 0, v.Len())
		it := v.MapRange()
		for it.Next() {
			out = append(out, []interface{}{r.Dump(it.Key()), r.Dump(it.Value())})
		}
		return out
	}
	return fmt.Sprintf("<unsupported %s>", v.Kind())
}

// ------------------------------------------------------------------------------------------
// protocols, error classes

func Protocol(name string, tr thrift.TTransport) (thrift.TProtocol, error) {
	switch name {
	case "", "binary":
		return thrift.NewTBinaryProtocolFactoryConf(nil).GetProtocol(tr), nil
	case "compact":
		return thrift.NewTCompactProtocolFactoryConf(nil).GetProtocol(tr), nil
	case "json":
		return thrift.NewTJSONProtocolFactory().GetProtocol(tr), nil
	}
	return nil, fmt.Errorf("unknown protocol %q", name)
}

// Classify: the error classes of harness/hx (Base/Res.v res_code).
func Classify(err error) int {
	if err == nil {
		return 0
	}
	if e, ok := err.(thrift.TTransportException); ok {
		switch e.TypeId() {
		case frugal.TRANSPORT_EXCEPTION_REQUEST_TOO_LARGE, frugal.TRANSPORT_EXCEPTION_RESPONSE_TOO_LARGE:
			return 1
		case frugal.TRANSPORT_EXCEPTION_NOT_OPEN:
			return 2
		case frugal.TRANSPORT_EXCEPTION_TIMED_OUT:
			return 3
		}
		return 6
	}
	if e, ok := err.(thrift.TProtocolException); ok {
		switch e.TypeId() {
		case thrift.INVALID_DATA:
			return 4
		case thrift.BAD_VERSION:
			return 5
		}
		if strings.Contains(err.Error(), "EOF") {
			return 6
		}
		return 7
	}
	if err == io.EOF || err == io.ErrUnexpectedEOF || strings.Contains(err.Error(), "EOF") {
		return 6
	}
	return 7
}

type Resp map[string]interface{}

func fail(code int, msg string) Resp { return Resp{"code": code, "err": msg} }

// Guard runs f with panic recovery and a watchdog.
func Guard(d time.Duration, f func() Resp) Resp {
	done := make(chan Resp, 1)
	go func() {
		defer func() {
			if p := recover(); p != nil {
				done <- Resp{"code": 100, "panic": fmt.Sprint(p)}
			}
		}()
		done <- f()
	}()
	select {
	case r := <-done:
		return r
	case <-time.After(d):
		return Resp{"code": 102, "err": "hang"}
	}
}

// ------------------------------------------------------------------------------------------
// built-in ops

type structReq struct {
	Op    string      `json:"op"`
	Type  string      `json:"type"`
	Proto string      `json:"proto"`
	Value interface{} `json:"value"`
	Bytes string      `json:"bytes"`
}

func decodeReq(raw json.RawMessage, into interface{}) error {
	dec := json.NewDecoder(strings.NewReader(string(raw)))
	dec.UseNumber()
	return dec.Decode(into)
}

func (r *Registry) newOf(name string) (TStruct, error) {
	c, ok := r.Structs[name]
	if !ok {
		return nil, fmt.Errorf("unknown type %q", name)
	}
	return c(), nil
}

// BuildStruct builds a registered struct-like from its JSON form.
func (r *Registry) BuildStruct(name string, j interface{}) (TStruct, error) {
	proto, err := r.newOf(name)
	if err != nil {
		return nil, err
	}
	v, err := r.Build(reflect.TypeOf(proto), j)
	if err != nil {
		return nil, err
	}
	if v.IsNil() {
		return nil, fmt.Errorf("null value for %s", name)
	}
	return v.Interface().(TStruct), nil
}

func WriteBytes(s TStruct, proto string) ([]byte, error) {
	buf := thrift.NewTMemoryBuffer()
	p, err := Protocol(proto, buf)
	if err != nil {
		return nil, err
	}
	if err := s.Write(context.Background(), p); err != nil {
		return nil, err
	}
	if err := p.Flush(context.Background()); err != nil {
		return nil, err
	}
	return append([]byte{}, buf.Bytes()...), nil
}

func ReadBytes(s TStruct, proto string, b []byte) (int, error) {
	buf := thrift.NewTMemoryBuffer()
	buf.Write(b)
	p, err := Protocol(proto, buf)
	if err != nil {
		return 0, err
	}
	err = s.Read(context.Background(), p)
	return buf.Len(), err
}

func init() {
	RegisterOp("types", func(r *Registry, raw json.RawMessage) interface{} {
		keys := func(m interface{}) []string {
			out := []string{}
			for _, k := range reflect.ValueOf(m).MapKeys() {
				out = append(out, k.String())
			}
			sort.Strings(out)
			return out
		}
		return Resp{"code": 0, "structs": keys(r.Structs), "services": keys(r.Services), "scopes": keys(r.Scopes)}
	})
	RegisterOp("new", func(r *Registry, raw json.RawMessage) interface{} {
		var q structReq
		if err := decodeReq(raw, &q); err != nil {
			return fail(103, err.Error())
		}
		s, err := r.newOf(q.Type)
		if err != nil {
			return fail(103, err.Error())
		}
		return Resp{"code": 0, "value": r.Dump(reflect.ValueOf(s))}
	})
	RegisterOp("write", func(r *Registry, raw json.RawMessage) interface{} {
		var q structReq
		if err := decodeReq(raw, &q); err != nil {
			return fail(103, err.Error())
		}
		s, err := r.BuildStruct(q.Type, q.Value)
		if err != nil {
			return fail(103, "build: "+err.Error())
		}
		out, err := WriteBytes(s, q.Proto)
		if err != nil {
			return Resp{"code": Classify(err), "err": err.Error()}
		}
		return Resp{"code": 0, "out": hex.EncodeToString(out)}
	})
	RegisterOp("echo", func(r *Registry, raw json.RawMessage) interface{} {
		var q structReq
		if err := decodeReq(raw, &q); err != nil {
			return fail(103, err.Error())
		}
		s, err := r.BuildStruct(q.Type, q.Value)
		if err != nil {
			return fail(103, "build: "+err.Error())
		}
		out, err := WriteBytes(s, q.Proto)
		if err != nil {
			return Resp{"code": Classify(err), "err": err.Error(), "stage": "write"}
		}
		back, _ := r.newOf(q.Type)
		rest, err := ReadBytes(back, q.Proto, out)
		if err != nil {
			return Resp{"code": Classify(err), "err": err.Error(), "stage": "read", "out": hex.EncodeToString(out)}
		}
		return Resp{"code": 0, "out": hex.EncodeToString(out), "value": r.Dump(reflect.ValueOf(back)), "rest": rest}
	})
	RegisterOp("read", func(r *Registry, raw json.RawMessage) interface{} {
		var q structReq
		if err := decodeReq(raw, &q); err != nil {
			return fail(103, err.Error())
		}
		s, err := r.newOf(q.Type)
		if err != nil {
			return fail(103, err.Error())
		}
		b, err := hex.DecodeString(q.Bytes)
		if err != nil {
			return fail(103, err.Error())
		}
		rest, err := ReadBytes(s, q.Proto, b)
		if err != nil {
			return Resp{"code": Classify(err), "err": err.Error(), "value": r.Dump(reflect.ValueOf(s)), "rest": rest}
		}
		return Resp{"code": 0, "value": r.Dump(reflect.ValueOf(s)), "rest": rest}
	})
	RegisterOp("isset", func(r *Registry, raw json.RawMessage) interface{} {
		var q structReq
		if err := decodeReq(raw, &q); err != nil {
			return fail(103, err.Error())
		}
		s, err := r.BuildStruct(q.Type, q.Value)
		if err != nil {
			return fail(103, "build: "+err.Error())
		}
		v := reflect.ValueOf(s)
		out := map[string]bool{}
		for _, f := range r.fieldsOf(v.Elem().Type()) {
			m := v.MethodByName("IsSet" + f.name)
			if m.IsValid() {
				out[strconv.Itoa(f.id)] = m.Call(nil)[0].Bool()
			}
		}
		return Resp{"code": 0, "isset": out}
	})
	RegisterOp("tree", func(r *Registry, raw json.RawMessage) interface{} {
		var q structReq
		if err := decodeReq(raw, &q); err != nil {
			return fail(103, err.Error())
		}
		b, err := hex.DecodeString(q.Bytes)
		if err != nil {
			return fail(103, err.Error())
		}
		buf := thrift.NewTMemoryBuffer()
		buf.Write(b)
		p, err := Protocol(q.Proto, buf)
		if err != nil {
			return fail(103, err.Error())
		}
		t, err := TreeStruct(context.Background(), p, 0)
		if err != nil {
			return Resp{"code": Classify(err), "err": err.Error()}
		}
		return Resp{"code": 0, "tree": t, "rest": buf.Len()}
	})
}

// ------------------------------------------------------------------------------------------
// schema-less reader (independent of the generated code): a struct is {"s": [[id, wiretype, v], ...]},
// list {"l": [etype, [v...]]}, set {"e": [etype, [v...]]}, map {"m": [ktype, vtype, [[k, v]...]]},
// bool true/false, integers numbers (i64 decimal string), double 16 hex digits, string/binary hex.

func TreeStruct(ctx context.Context, p thrift.TProtocol, depth int) (interface{}, error) {
	if depth > 64 {
		return nil, fmt.Errorf("depth limit")
	}
	if _, err := p.ReadStructBegin(ctx); err != nil {
		return nil, err
	}
	fields := []interface{}{}
	for {
		_, ft, id, err := p.ReadFieldBegin(ctx)
		if err != nil {
			return nil, err
		}
		if ft == thrift.STOP {
			break
		}
		v, err := TreeValue(ctx, p, ft, depth+1)
		if err != nil {
			return nil, err
		}
		fields = append(fields, []interface{}{int(id), int(ft), v})
		if err := p.ReadFieldEnd(ctx); err != nil {
			return nil, err
		}
	}
	if err := p.ReadStructEnd(ctx); err != nil {
		return nil, err
	}
	return map[string]interface{}{"s": fields}, nil
}

func TreeValue(ctx context.Context, p thrift.TProtocol, t thrift.TType, depth int) (interface{}, error) {
	switch t {
	case thrift.BOOL:
		return p.ReadBool(ctx)
	case thrift.BYTE:
		v, err := p.ReadByte(ctx)
		return int(v), err
	case thrift.I16:
		v, err := p.ReadI16(ctx)
		return int(v), err
	case thrift.I32:
		v, err := p.ReadI32(ctx)
		return int(v), err
	case thrift.I64:
		v, err := p.ReadI64(ctx)
		return strconv.FormatInt(v, 10), err
	case thrift.DOUBLE:
		v, err := p.ReadDouble(ctx)
		return fmt.Sprintf("%016x", math.Float64bits(v)), err
	case thrift.STRING:
		v, err := p.ReadString(ctx)
		return hex.EncodeToString([]byte(v)), err
	case thrift.STRUCT:
		return TreeStruct(ctx, p, depth)
	case thrift.LIST, thrift.SET:
		var et thrift.TType
		var n int
		var err error
		if t == thrift.LIST {
			et, n, err = p.ReadListBegin(ctx)
		} else {
			et, n, err = p.ReadSetBegin(ctx)
		}
		if err != nil {
			return nil, err
		}
		vals := []interface{}{}
		for i := 0; i < n; i++ {
			v, err := TreeValue(ctx, p, et, depth+1)
			if err != nil {
				return nil, err
			}
			vals = append(vals, v)
		}
		if t == thrift.LIST {
			err = p.ReadListEnd(ctx)
			return map[string]interface{}{"l": []interface{}{int(et), vals}}, err
		}
		err = p.ReadSetEnd(ctx)
		return map[string]interface{}{"e": []interface{}{int(et), vals}}, err
	case thrift.MAP:
		kt, vt, n, err := p.ReadMapBegin(ctx)
		if err != nil {
			return nil, err
		}
		vals := []interface{}{}
		for i := 0; i < n; i++ {
			k, err := TreeValue(ctx, p, kt, depth+1)
			if err != nil {
				return nil, err
			}
			v, err := TreeValue(ctx, p, vt, depth+1)
			if err != nil {
				return nil, err
			}
			vals = append(vals, []interface{}{k, v})
		}
		err = p.ReadMapEnd(ctx)
		return map[string]interface{}{"m": []interface{}{int(kt), int(vt), vals}}, err
	}
	return nil, fmt.Errorf("unknown wire type %d", t)
}

// ------------------------------------------------------------------------------------------

// Main serves requests until stdin closes.
func Main(reg *Registry) {
	in := bufio.NewReaderSize(os.Stdin, 1<<20)
	out := bufio.NewWriterSize(os.Stdout, 1<<20)
	defer out.Flush()
	dec := json.NewDecoder(in)
	enc := json.NewEncoder(out)
	for {
		var raw json.RawMessage
		if err := dec.Decode(&raw); err != nil {
			if err != io.EOF {
				fmt.Fprintln(os.Stderr, "labdriver:", err)
				out.Flush()
				os.Exit(3)
			}
			return
		}
		var head struct {
			Op string `json:"op"`
		}
		_ = json.Unmarshal(raw, &head)
		f, ok := ops[head.Op]
		var resp interface{}
		if !ok {
			resp = fail(103, "unknown op "+head.Op)
		} else {
			resp = Guard(20*time.Second, func() Resp {
				switch x := f(reg, raw).(type) {
				case Resp:
					return x
				default:
					return Resp{"code": 0, "result": x}
				}
			})
		}
		if err := enc.Encode(resp); err != nil {
			fmt.Fprintln(os.Stderr, "labdriver:", err)
			os.Exit(3)
		}
		out.Flush()
	}
}
