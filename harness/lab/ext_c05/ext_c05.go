// Package ext_c05 adds the lab op "c05thrift" (property C05: no received byte sequence can crash
// or wedge a process; here: the Thrift layer under the Frugal header).  It hands raw request
// payloads (header block + whatever follows) to the REAL generated processor of a lab service
// (F<Svc>Processor over frugal.FBaseProcessor, handler = lab stub) the way every server does:
//
//	direct   processor.Process(iprot over a TMemoryBuffer holding the payload, oprot over a
//	         recording buffer), one payload at a time
//	simple   a real FSimpleServer on a loopback TCP socket, one connection per payload: the frame is
//	         written, the reply frame (if any) read back, then a well-formed "canary" request is sent
//	         on a fresh connection and must be served
//
// Each payload runs in its own goroutine with recover and a watchdog; the bytes allocated while it
// ran (runtime.MemStats.TotalAlloc) and the time are reported.  Nothing is parsed here: the driver
// (tools/props/c05_thrift.py) classifies replies with its own reader, the Coq judge replays
// Model/ThriftLayer.v on the same bytes.
package ext_c05

import (
	"bytes"
	"encoding/binary"
	"encoding/hex"
	"encoding/json"
	"fmt"
	"io"
	"net"
	"runtime"
	"sync"
	"time"

	frugal "github.com/Workiva/frugal/lib/go"
	"github.com/apache/thrift/lib/go/thrift"

	labdriver "verifharness/lab/driver"
)

type request struct {
	Op        string   `json:"op"`
	Service   string   `json:"service"`
	Proto     string   `json:"proto"`
	Mode      string   `json:"mode"`
	Payloads  []string `json:"payloads"` // hex, without the 4-byte frame size
	Canary    string   `json:"canary"`   // simple: a well-formed request (hex)
	TimeoutMs int      `json:"timeout_ms"`
}

type obs struct {
	Err     int      `json:"err"`               // class of the error Process returned (0 = nil)
	ErrText string   `json:"errtext,omitempty"` //
	Reply   string   `json:"reply"`             // every byte written to the output (hex)
	Invoked []string `json:"invoked"`           // Go method names that reached the handler
	Panic   string   `json:"panic,omitempty"`
	Hang    bool     `json:"hang,omitempty"`
	Alloc   uint64   `json:"alloc"` // bytes allocated while the payload was processed
	Us      int64    `json:"us"`
	Canary  int      `json:"canary,omitempty"` // simple: 1 = the canary sent afterwards was answered
	Closed  bool     `json:"closed,omitempty"` // simple: the server closed the connection
}

func init() {
	labdriver.RegisterOp("c05thrift", run)
}

func protoFactory(name string) (*frugal.FProtocolFactory, error) {
	switch name {
	case "", "binary":
		return frugal.NewFProtocolFactory(thrift.NewTBinaryProtocolFactoryConf(nil)), nil
	case "compact":
		return frugal.NewFProtocolFactory(thrift.NewTCompactProtocolFactoryConf(nil)), nil
	case "json":
		return frugal.NewFProtocolFactory(thrift.NewTJSONProtocolFactory()), nil
	}
	return nil, fmt.Errorf("unknown protocol %q", name)
}

type recorder struct {
	mu      sync.Mutex
	invoked []string
}

func (r *recorder) handle(service, method string, fctx frugal.FContext, args []interface{}) (interface{}, error) {
	r.mu.Lock()
	r.invoked = append(r.invoked, method)
	r.mu.Unlock()
	return nil, nil
}

func (r *recorder) take() []string {
	r.mu.Lock()
	defer r.mu.Unlock()
	out := r.invoked
	if out == nil {
		out = []string{}
	}
	r.invoked = nil
	return out
}

func totalAlloc() uint64 {
	var m runtime.MemStats
	runtime.ReadMemStats(&m)
	return m.TotalAlloc
}

func run(reg *labdriver.Registry, raw json.RawMessage) interface{} {
	var rq request
	if err := json.Unmarshal(raw, &rq); err != nil {
		return labdriver.Resp{"code": 103, "err": err.Error()}
	}
	entry, ok := reg.Services[rq.Service]
	if !ok {
		return labdriver.Resp{"code": 103, "err": "unknown service " + rq.Service}
	}
	pf, err := protoFactory(rq.Proto)
	if err != nil {
		return labdriver.Resp{"code": 103, "err": err.Error()}
	}
	timeout := time.Duration(rq.TimeoutMs) * time.Millisecond
	if timeout <= 0 {
		timeout = 10 * time.Second
	}
	rec := &recorder{}
	proc := entry.NewProcessor(rec.handle)
	out := make([]obs, 0, len(rq.Payloads))
	switch rq.Mode {
	case "", "direct":
		for _, h := range rq.Payloads {
			p, err := hex.DecodeString(h)
			if err != nil {
				return labdriver.Resp{"code": 103, "err": err.Error()}
			}
			o := direct(proc, pf, p, timeout)
			o.Invoked = rec.take()
			out = append(out, o)
			if o.Hang {
				// the goroutine may still be running: do not attribute its work to the next payload
				return labdriver.Resp{"code": 0, "obs": out, "stopped": "hang"}
			}
		}
	case "simple":
		canary, _ := hex.DecodeString(rq.Canary)
		srvTr, err := thrift.NewTServerSocket("127.0.0.1:0")
		if err != nil {
			return labdriver.Resp{"code": 103, "err": err.Error()}
		}
		if err := srvTr.Listen(); err != nil {
			return labdriver.Resp{"code": 103, "err": err.Error()}
		}
		addr := srvTr.Addr().String()
		server := frugal.NewFSimpleServer(proc, srvTr, pf)
		go server.Serve()
		defer server.Stop()
		for _, h := range rq.Payloads {
			p, err := hex.DecodeString(h)
			if err != nil {
				return labdriver.Resp{"code": 103, "err": err.Error()}
			}
			a0 := totalAlloc()
			t0 := time.Now()
			o := exchange(addr, p, timeout)
			o.Us = time.Since(t0).Microseconds()
			o.Alloc = totalAlloc() - a0
			o.Invoked = rec.take()
			c := exchange(addr, canary, timeout)
			if c.Reply != "" && !c.Hang {
				o.Canary = 1
			}
			rec.take()
			out = append(out, o)
		}
	default:
		return labdriver.Resp{"code": 103, "err": "unknown mode " + rq.Mode}
	}
	return labdriver.Resp{"code": 0, "obs": out}
}

func direct(proc frugal.FProcessor, pf *frugal.FProtocolFactory, payload []byte, timeout time.Duration) obs {
	done := make(chan obs, 1)
	output := &thrift.TMemoryBuffer{Buffer: new(bytes.Buffer)}
	go func() {
		var o obs
		defer func() {
			if p := recover(); p != nil {
				o.Panic = fmt.Sprint(p)
				done <- o
			}
		}()
		input := &thrift.TMemoryBuffer{Buffer: bytes.NewBuffer(payload)}
		iprot := pf.GetProtocol(input)
		oprot := pf.GetProtocol(output)
		a0 := totalAlloc()
		t0 := time.Now()
		err := proc.Process(iprot, oprot)
		o.Us = time.Since(t0).Microseconds()
		o.Alloc = totalAlloc() - a0
		o.Err = labdriver.Classify(err)
		if err != nil {
			o.ErrText = err.Error()
			if len(o.ErrText) > 200 {
				o.ErrText = o.ErrText[:200]
			}
		}
		done <- o
	}()
	select {
	case o := <-done:
		o.Reply = hex.EncodeToString(output.Bytes())
		return o
	case <-time.After(timeout):
		return obs{Hang: true}
	}
}

// exchange writes one frame on a fresh connection and reads one reply frame back (or EOF).
func exchange(addr string, payload []byte, timeout time.Duration) obs {
	var o obs
	conn, err := net.DialTimeout("tcp", addr, timeout)
	if err != nil {
		o.Err, o.ErrText = 7, err.Error()
		return o
	}
	defer conn.Close()
	conn.SetDeadline(time.Now().Add(timeout))
	frame := make([]byte, 4+len(payload))
	binary.BigEndian.PutUint32(frame, uint32(len(payload)))
	copy(frame[4:], payload)
	if _, err := conn.Write(frame); err != nil {
		o.Err, o.ErrText = 7, err.Error()
		return o
	}
	// half-close: a server that answers nothing sees EOF and ends the connection
	if tc, ok := conn.(*net.TCPConn); ok {
		tc.CloseWrite()
	}
	var hdr [4]byte
	if _, err := io.ReadFull(conn, hdr[:]); err != nil {
		if ne, ok := err.(net.Error); ok && ne.Timeout() {
			o.Hang = true
		} else {
			o.Closed = true
		}
		return o
	}
	n := binary.BigEndian.Uint32(hdr[:])
	if n > 64<<20 {
		o.Err, o.ErrText = 7, "reply frame too large"
		return o
	}
	body := make([]byte, n)
	if _, err := io.ReadFull(conn, body); err != nil {
		o.Err, o.ErrText = 7, "short reply: "+err.Error()
		return o
	}
	o.Reply = hex.EncodeToString(body)
	return o
}
