// Package ext_c07 adds the pub/sub experiments of property C07 to the generated-code laboratory.
//
// Ops (registered with labdriver.RegisterOp; requests are JSON lines like every lab op):
//
//	c07_frames {scope, sop, items: [{cid, headers: [[k,v]..], vars: [..], value}]}
//	    runs the GENERATED publisher of the scope on a capturing FPublisherTransport and returns, per
//	    item, {"code", "topic", "hex" (the frame handed to the transport), "hdrs" (the publisher's
//	    FContext request headers after the call)}.  Nothing is sent anywhere.
//
//	c07_run {cases: [case..]}     runs the cases concurrently, each on its own embedded broker
//	    case = {transport: "nats"|"stomp", workers: n, scope, sop, vars: [..], script: [step..],
//	            expect: number of handler starts to wait for at the end, settle_ms}
//	    step = {"k":"pub", cid, headers, vars (default: the subscriber's), value, hold, herr}
//	               publish through the generated publisher over the real publisher transport
//	           {"k":"raw", "hex", "topic": ""|"<full topic>" (default: the subscribed topic)}
//	               publish bytes through the same broker connection the publisher transport uses
//	           {"k":"wait", "starts": n, "ends": m, "ms": t}   until n handler starts / m ends were seen
//	           {"k":"release", "cid"}                         let a held handler return
//	           {"k":"unsub", "ms": t}                         FSubscription.Unsubscribe() on its own goroutine; waits up to t for it
//	           {"k":"flush"}                                  round trip to the broker on the publishing connection
//	    response per case: {"code", "topic", "events": [..], "tap": [hex..]}
//	      events (one global order, recorded under one mutex):
//	        {"e":"pub","i":step index,"code":..,"hdrs":..}  logged BEFORE the publish call starts ("hdrs" filled in after)
//	        {"e":"start","cid","hdrs","val"}   handler entered (headers and dumped payload it was given)
//	        {"e":"end","cid"}                  handler about to return
//	        {"e":"unsub_call"} {"e":"unsub_ret","code"}  {"e":"unsub_pending"} (step gave up waiting) {"e":"unsub_hang"} (never returned)
//	        {"e":"wait_timeout","i"}           a wait step expired
//	        {"e":"final","starts":n}           all steps done, quiescence wait over
//	      tap: every frame a plain broker subscription on the same destination received, in order.
package ext_c07

import (
	"encoding/hex"
	"encoding/json"
	"errors"
	"fmt"
	"io"
	"net"
	"reflect"
	"strings"
	"sync"
	"time"

	frugal "github.com/Workiva/frugal/lib/go"
	"github.com/apache/thrift/lib/go/thrift"
	"github.com/go-stomp/stomp"
	"github.com/go-stomp/stomp/frame"
	stompserver "github.com/go-stomp/stomp/server"
	"github.com/nats-io/nats-server/v2/server"
	"github.com/nats-io/nats.go"

	labdriver "verifharness/lab/driver"
)

func init() {
	labdriver.RegisterOp("c07_frames", opFrames)
	labdriver.RegisterOp("c07_run", opRun)
}

// ------------------------------------------------------------------------------------------
// capturing publisher transport

type capture struct {
	mu     sync.Mutex
	topics []string
	frames [][]byte
}

func (c *capture) Open() error               { return nil }
func (c *capture) Close() error              { return nil }
func (c *capture) IsOpen() bool              { return true }
func (c *capture) GetPublishSizeLimit() uint { return 0 }
func (c *capture) Publish(topic string, data []byte) error {
	c.mu.Lock()
	defer c.mu.Unlock()
	c.topics = append(c.topics, topic)
	c.frames = append(c.frames, append([]byte{}, data...))
	return nil
}
func (c *capture) GetTransport() frugal.FPublisherTransport { return c }

type item struct {
	Cid     string      `json:"cid"`
	Headers [][2]string `json:"headers"`
	Vars    []string    `json:"vars"`
	Value   interface{} `json:"value"`
}

func protoFactory() *frugal.FProtocolFactory {
	return frugal.NewFProtocolFactory(thrift.NewTBinaryProtocolFactoryConf(nil))
}

// publisher wraps the generated <Scope>Publisher value.
type publisher struct {
	reg *labdriver.Registry
	v   reflect.Value
	op  string
}

func newPublisher(reg *labdriver.Registry, scope, op string, prov *frugal.FScopeProvider) (*publisher, error) {
	e, ok := reg.Scopes[scope]
	if !ok {
		return nil, fmt.Errorf("unknown scope %q", scope)
	}
	out := reflect.ValueOf(e.NewPublisher).Call([]reflect.Value{reflect.ValueOf(prov)})
	p := &publisher{reg: reg, v: out[0], op: op}
	if !p.v.MethodByName("Publish" + op).IsValid() {
		return nil, fmt.Errorf("scope %s has no op %s", scope, op)
	}
	if r := p.v.MethodByName("Open").Call(nil); !r[0].IsNil() {
		return nil, r[0].Interface().(error)
	}
	return p, nil
}

func (p *publisher) publish(it *item) (map[string]string, error) {
	m := p.v.MethodByName("Publish" + p.op)
	mt := m.Type()
	if mt.NumIn() != len(it.Vars)+2 {
		return nil, fmt.Errorf("Publish%s takes %d prefix variables, got %d", p.op, mt.NumIn()-2, len(it.Vars))
	}
	fctx := frugal.NewFContext(it.Cid)
	for _, kv := range it.Headers {
		fctx.AddRequestHeader(kv[0], kv[1])
	}
	args := []reflect.Value{reflect.ValueOf(fctx)}
	for _, v := range it.Vars {
		args = append(args, reflect.ValueOf(v))
	}
	req, err := p.reg.Build(mt.In(mt.NumIn()-1), it.Value)
	if err != nil {
		return nil, fmt.Errorf("build: %v", err)
	}
	args = append(args, req)
	r := m.Call(args)
	hdrs := fctx.RequestHeaders()
	if !r[0].IsNil() {
		return hdrs, r[0].Interface().(error)
	}
	return hdrs, nil
}

func opFrames(reg *labdriver.Registry, raw json.RawMessage) interface{} {
	var q struct {
		Scope string `json:"scope"`
		Op    string `json:"sop"`
		Items []item `json:"items"`
	}
	if err := decode(raw, &q); err != nil {
		return labdriver.Resp{"code": 103, "err": err.Error()}
	}
	cap := &capture{}
	pub, err := newPublisher(reg, q.Scope, q.Op, frugal.NewFScopeProvider(cap, nil, protoFactory()))
	if err != nil {
		return labdriver.Resp{"code": 103, "err": err.Error()}
	}
	out := []labdriver.Resp{}
	for i := range q.Items {
		n := len(cap.frames)
		r := labdriver.Guard(5*time.Second, func() labdriver.Resp {
			hdrs, err := pub.publish(&q.Items[i])
			if err != nil {
				return labdriver.Resp{"code": labdriver.Classify(err), "err": err.Error()}
			}
			return labdriver.Resp{"code": 0, "hdrs": hdrs}
		})
		if len(cap.frames) == n+1 {
			r["topic"] = cap.topics[n]
			r["hex"] = hex.EncodeToString(cap.frames[n])
		}
		out = append(out, r)
	}
	return labdriver.Resp{"code": 0, "items": out}
}

func decode(raw json.RawMessage, into interface{}) error {
	dec := json.NewDecoder(strings.NewReader(string(raw)))
	dec.UseNumber()
	return dec.Decode(into)
}

// ------------------------------------------------------------------------------------------
// brokers (one pair of connections + one tap connection per case)

type broker interface {
	pubFactory() frugal.FPublisherTransportFactory
	subFactory(workers uint) frugal.FSubscriberTransportFactory
	raw(topic string, data []byte) error // through the publishing connection; topic = frugal topic (no broker prefix)
	flush() error
	tap(topic string, sink func([]byte)) error
	syncSubs() error // the broker has registered every subscription made so far
	close()
}

type natsBroker struct {
	srv              *server.Server
	pubC, subC, tapC *nats.Conn
	proxy            net.Listener
}

// delayProxy forwards a client's bytes to the broker after a fixed delay (the other direction is immediate): a slow
// uplink, under which "Subscribe returned" and "the broker knows the subscription" are far apart unless Subscribe waits
func delayProxy(target string, d time.Duration) (net.Listener, string, error) {
	ln, err := net.Listen("tcp", "127.0.0.1:0")
	if err != nil {
		return nil, "", err
	}
	go func() {
		for {
			c, err := ln.Accept()
			if err != nil {
				return
			}
			s, err := net.Dial("tcp", target)
			if err != nil {
				c.Close()
				continue
			}
			go func() { io.Copy(c, s); c.Close() }()
			go func() {
				buf := make([]byte, 32768)
				for {
					n, err := c.Read(buf)
					if n > 0 {
						time.Sleep(d)
						s.Write(buf[:n])
					}
					if err != nil {
						s.Close()
						return
					}
				}
			}()
		}
	}()
	return ln, "nats://" + ln.Addr().String(), nil
}

func startNats(subDelayMs int) (broker, error) {
	s, err := server.NewServer(&server.Options{Host: "127.0.0.1", Port: -1, NoLog: true, NoSigs: true})
	if err != nil {
		return nil, err
	}
	go s.Start()
	if !s.ReadyForConnections(10 * time.Second) {
		return nil, errors.New("nats server not ready")
	}
	b := &natsBroker{srv: s}
	for _, c := range []**nats.Conn{&b.pubC, &b.subC, &b.tapC} {
		url := s.ClientURL()
		if c == &b.subC && subDelayMs > 0 {
			ln, purl, perr := delayProxy(strings.TrimPrefix(url, "nats://"), time.Duration(subDelayMs)*time.Millisecond)
			if perr != nil {
				b.close()
				return nil, perr
			}
			b.proxy, url = ln, purl
		}
		if *c, err = nats.Connect(url, nats.NoReconnect()); err != nil {
			b.close()
			return nil, err
		}
	}
	return b, nil
}
func (b *natsBroker) pubFactory() frugal.FPublisherTransportFactory {
	return frugal.NewFNatsPublisherTransportFactory(b.pubC)
}
func (b *natsBroker) subFactory(workers uint) frugal.FSubscriberTransportFactory {
	return frugal.NewFNatsSubscriberFactoryBuilder(b.subC).WithWorkerCount(workers).Build()
}
func (b *natsBroker) raw(topic string, data []byte) error {
	return b.pubC.Publish("frugal."+topic, data)
}
func (b *natsBroker) flush() error {
	if err := b.pubC.FlushTimeout(5 * time.Second); err != nil {
		return err
	}
	return nil
}
func (b *natsBroker) tap(topic string, sink func([]byte)) error {
	_, err := b.tapC.Subscribe("frugal."+topic, func(m *nats.Msg) { sink(append([]byte{}, m.Data...)) })
	if err != nil {
		return err
	}
	return b.tapC.FlushTimeout(5 * time.Second)
}
func (b *natsBroker) syncSubs() error {
	// only the harness's own tap: that the broker knows the SUBSCRIBER's subscription once Subscribe has
	// returned is the implementation's business (a message published after that must arrive)
	return b.tapC.FlushTimeout(5 * time.Second)
}
func (b *natsBroker) close() {
	for _, c := range []*nats.Conn{b.pubC, b.subC, b.tapC} {
		if c != nil {
			c.Close()
		}
	}
	if b.proxy != nil {
		b.proxy.Close()
	}
	b.srv.Shutdown()
}

type stompBroker struct {
	l, pl            net.Listener
	pubC, subC, tapC *stomp.Conn
}

// receiptProxy stands between the subscriber's connection and the embedded go-stomp server, which
// (unlike the brokers frugal is used with) never answers the receipt header that the go-stomp client
// puts on UNSUBSCRIBE, so that Subscription.Unsubscribe would wait forever.  The proxy produces that
// RECEIPT at the position in the server's outgoing frame sequence where a broker would: it forwards
// the UNSUBSCRIBE and then sends a fence message to a private topic it is subscribed to on the same
// connection; the server handles the frames of a connection in order and writes topic messages in
// order, so the fence comes back after every MESSAGE the server sent for the subscription, and is
// turned into the RECEIPT.
func receiptProxy(l net.Listener, upstream string) {
	for {
		c, err := l.Accept()
		if err != nil {
			return
		}
		u, err := net.Dial("tcp", upstream)
		if err != nil {
			c.Close()
			continue
		}
		go func() { // client -> server
			defer u.Close()
			defer c.Close()
			r, w := frame.NewReader(c), frame.NewWriter(u)
			for {
				f, err := r.Read()
				if err != nil {
					return
				}
				if f == nil {
					if w.Write(nil) != nil {
						return
					}
					continue
				}
				var after []*frame.Frame
				switch f.Command {
				case frame.CONNECT, frame.STOMP:
					after = append(after, frame.New(frame.SUBSCRIBE, frame.Id, "c07fence", frame.Destination, "/topic/c07.fence", frame.Ack, "auto"))
				case frame.UNSUBSCRIBE:
					if rid, ok := f.Header.Contains(frame.Receipt); ok {
						f.Header.Del(frame.Receipt)
						ff := frame.New(frame.SEND, frame.Destination, "/topic/c07.fence", frame.ContentLength, fmt.Sprint(len(rid)))
						ff.Body = []byte(rid)
						after = append(after, ff)
					}
				}
				if w.Write(f) != nil {
					return
				}
				for _, g := range after {
					if w.Write(g) != nil {
						return
					}
				}
			}
		}()
		go func() { // server -> client
			defer u.Close()
			defer c.Close()
			r, w := frame.NewReader(u), frame.NewWriter(c)
			for {
				f, err := r.Read()
				if err != nil {
					return
				}
				if f != nil && f.Command == frame.MESSAGE && f.Header.Get(frame.Subscription) == "c07fence" {
					f = frame.New(frame.RECEIPT, frame.ReceiptId, string(f.Body))
				}
				if w.Write(f) != nil {
					return
				}
			}
		}()
	}
}

func startStomp() (broker, error) {
	l, err := net.Listen("tcp", "127.0.0.1:0")
	if err != nil {
		return nil, err
	}
	go stompserver.Serve(l)
	pl, err := net.Listen("tcp", "127.0.0.1:0")
	if err != nil {
		l.Close()
		return nil, err
	}
	go receiptProxy(pl, l.Addr().String())
	b := &stompBroker{l: l, pl: pl}
	for _, c := range []**stomp.Conn{&b.pubC, &b.subC, &b.tapC} {
		addr := l.Addr().String()
		if c == &b.subC {
			addr = pl.Addr().String()
		}
		nc, err := net.Dial("tcp", addr)
		if err != nil {
			b.close()
			return nil, err
		}
		if *c, err = stomp.Connect(nc); err != nil {
			b.close()
			return nil, err
		}
	}
	return b, nil
}
func (b *stompBroker) pubFactory() frugal.FPublisherTransportFactory {
	return frugal.NewFStompPublisherTransportFactoryBuilder(b.pubC).Build()
}
func (b *stompBroker) subFactory(workers uint) frugal.FSubscriberTransportFactory {
	return frugal.NewFStompSubscriberTransportFactoryBuilder(b.subC).Build()
}
func (b *stompBroker) raw(topic string, data []byte) error {
	return b.pubC.Send("/topic/frugal."+topic, "application/octet-stream", data, stomp.SendOpt.Header("persistent", "true"))
}
func (b *stompBroker) flush() error {
	// a SEND with a receipt is answered after the broker processed it (and everything sent before it)
	return b.pubC.Send("/topic/c07.flush", "application/octet-stream", []byte{0}, stomp.SendOpt.Receipt)
}
func (b *stompBroker) tap(topic string, sink func([]byte)) error {
	sub, err := b.tapC.Subscribe("/topic/frugal."+topic, stomp.AckAuto)
	if err != nil {
		return err
	}
	go func() {
		for m := range sub.C {
			if m.Err != nil {
				return
			}
			sink(append([]byte{}, m.Body...))
		}
	}()
	return nil
}
func (b *stompBroker) syncSubs() error {
	// the server handles the frames of all connections through one FIFO request channel: once a later
	// SEND of the same connection is receipted, its SUBSCRIBE is queued before anything sent afterwards
	for _, c := range []*stomp.Conn{b.subC, b.tapC} {
		if err := c.Send("/topic/c07.sync", "application/octet-stream", []byte{0}, stomp.SendOpt.Receipt); err != nil {
			return err
		}
	}
	return nil
}
func (b *stompBroker) close() {
	for _, c := range []*stomp.Conn{b.pubC, b.subC, b.tapC} {
		if c != nil {
			done := make(chan struct{})
			go func(c *stomp.Conn) { defer close(done); c.Disconnect() }(c)
			select {
			case <-done:
			case <-time.After(500 * time.Millisecond):
			}
		}
	}
	b.l.Close()
	b.pl.Close()
}

// ------------------------------------------------------------------------------------------
// one case

type step struct {
	K       string      `json:"k"`
	Cid     string      `json:"cid"`
	Headers [][2]string `json:"headers"`
	Vars    []string    `json:"vars"`
	Value   interface{} `json:"value"`
	Hold    bool        `json:"hold"`
	Herr    bool        `json:"herr"`
	Hex     string      `json:"hex"`
	Topic   string      `json:"topic"`
	Starts  int         `json:"starts"`
	Ends    int         `json:"ends"`
	Ms      int         `json:"ms"`
}

type caseReq struct {
	Transport string   `json:"transport"`
	SubLinkDelayMs int `json:"sub_link_delay_ms"` // nats: every write of the SUBSCRIBER's connection reaches the broker this much later
	Workers   uint     `json:"workers"`
	Scope     string   `json:"scope"`
	Op        string   `json:"sop"`
	Vars      []string `json:"vars"`
	Script    []step   `json:"script"`
	Expect    int      `json:"expect"`
	SettleMs  int      `json:"settle_ms"`
	Hold      []string `json:"hold"` // cids whose handler blocks until released
	Herr      []string `json:"herr"` // cids whose handler returns an error
}

type recorder struct {
	mu     sync.Mutex
	cond   *sync.Cond
	events []labdriver.Resp
	starts int
	ends   int
	tap    []string
	gates  map[string]chan struct{}
	herr   map[string]bool
}

func (r *recorder) add(e labdriver.Resp) int {
	r.mu.Lock()
	defer r.mu.Unlock()
	r.events = append(r.events, e)
	r.cond.Broadcast()
	return len(r.events) - 1
}

// waitFor blocks until pred holds (under the lock) or the time is over.
func (r *recorder) waitFor(d time.Duration, pred func() bool) bool {
	deadline := time.Now().Add(d)
	t := time.AfterFunc(d, func() { r.mu.Lock(); r.cond.Broadcast(); r.mu.Unlock() })
	defer t.Stop()
	r.mu.Lock()
	defer r.mu.Unlock()
	for !pred() {
		if !time.Now().Before(deadline) {
			return false
		}
		r.cond.Wait()
	}
	return true
}

func runCase(reg *labdriver.Registry, c *caseReq) (resp labdriver.Resp) {
	var b broker
	var err error
	switch c.Transport {
	case "nats":
		b, err = startNats(c.SubLinkDelayMs)
	case "stomp":
		b, err = startStomp()
	default:
		err = fmt.Errorf("unknown transport %q", c.Transport)
	}
	if err != nil {
		return labdriver.Resp{"code": 103, "err": "broker: " + err.Error()}
	}
	defer b.close()
	e, ok := reg.Scopes[c.Scope]
	if !ok {
		return labdriver.Resp{"code": 103, "err": "unknown scope " + c.Scope}
	}
	rec := &recorder{gates: map[string]chan struct{}{}, herr: map[string]bool{}}
	rec.cond = sync.NewCond(&rec.mu)
	for _, cid := range c.Hold {
		rec.gates[cid] = make(chan struct{})
	}
	for _, cid := range c.Herr {
		rec.herr[cid] = true
	}
	released := map[string]bool{}
	release := func(cid string) {
		if g, ok := rec.gates[cid]; ok && !released[cid] {
			released[cid] = true
			close(g)
		}
	}
	defer func() {
		for cid := range rec.gates {
			release(cid)
		}
	}()

	prov := frugal.NewFScopeProvider(b.pubFactory(), b.subFactory(c.Workers), protoFactory())
	pub, err := newPublisher(reg, c.Scope, c.Op, prov)
	if err != nil {
		return labdriver.Resp{"code": 103, "err": err.Error()}
	}

	// the generated subscriber, with a handler of the exact generated type built by reflection
	subV := reflect.ValueOf(e.NewSubscriber).Call([]reflect.Value{reflect.ValueOf(prov)})[0]
	sm := subV.MethodByName("Subscribe" + c.Op + "Errorable")
	if !sm.IsValid() {
		// NewSubscriber returns the non-errorable interface; the concrete type has both methods
		sm = reflect.ValueOf(subV.Interface()).MethodByName("Subscribe" + c.Op + "Errorable")
	}
	if !sm.IsValid() {
		return labdriver.Resp{"code": 103, "err": "no Subscribe" + c.Op + "Errorable"}
	}
	st := sm.Type()
	if st.NumIn() != len(c.Vars)+1 {
		return labdriver.Resp{"code": 103, "err": fmt.Sprintf("Subscribe%s takes %d prefix variables", c.Op, st.NumIn()-1)}
	}
	ht := st.In(st.NumIn() - 1)
	errT := reflect.TypeOf((*error)(nil)).Elem()
	handler := reflect.MakeFunc(ht, func(args []reflect.Value) []reflect.Value {
		fctx := args[0].Interface().(frugal.FContext)
		cid := fctx.CorrelationID()
		hd := fctx.RequestHeaders()
		val := reg.Dump(args[1])
		rec.mu.Lock()
		rec.events = append(rec.events, labdriver.Resp{"e": "start", "cid": cid, "hdrs": hd, "val": val})
		rec.starts++
		rec.cond.Broadcast()
		rec.mu.Unlock()
		if g, ok := rec.gates[cid]; ok {
			<-g
		}
		rec.mu.Lock()
		rec.events = append(rec.events, labdriver.Resp{"e": "end", "cid": cid})
		rec.ends++
		rec.cond.Broadcast()
		rec.mu.Unlock()
		if rec.herr[cid] {
			return []reflect.Value{reflect.ValueOf(errors.New("c07 handler error")).Convert(errT)}
		}
		return []reflect.Value{reflect.Zero(errT)}
	})
	sargs := []reflect.Value{}
	for _, v := range c.Vars {
		sargs = append(sargs, reflect.ValueOf(v))
	}
	sargs = append(sargs, handler)
	sr := sm.Call(sargs)
	if !sr[1].IsNil() {
		return labdriver.Resp{"code": labdriver.Classify(sr[1].Interface().(error)), "err": "subscribe: " + sr[1].Interface().(error).Error()}
	}
	fsub := sr[0].Interface().(*frugal.FSubscription)
	topic := fsub.Topic()
	// a sibling subscription made from the SAME provider (same subscriber transport factory) on another
	// topic: what is published on the main topic must never reach it, and it must not take messages away
	sibTr, _ := prov.NewSubscriber()
	sibGot := 0
	if err := sibTr.Subscribe("c07.sibling."+topic, func(tr thrift.TTransport) error {
		rec.mu.Lock()
		sibGot++
		rec.mu.Unlock()
		return nil
	}); err == nil {
		defer sibTr.Unsubscribe()
	}
	if err := b.tap(topic, func(d []byte) {
		rec.mu.Lock()
		rec.tap = append(rec.tap, hex.EncodeToString(d))
		rec.cond.Broadcast()
		rec.mu.Unlock()
	}); err != nil {
		return labdriver.Resp{"code": 103, "err": "tap: " + err.Error()}
	}
	if err := b.syncSubs(); err != nil {
		return labdriver.Resp{"code": 103, "err": "sync: " + err.Error()}
	}
	unsubscribed := false
	var unsubDone chan struct{}

	for i := range c.Script {
		s := &c.Script[i]
		switch s.K {
		case "pub":
			vars := s.Vars
			if vars == nil {
				vars = c.Vars
			}
			idx := rec.add(labdriver.Resp{"e": "pub", "i": i})
			hdrs, err := pub.publish(&item{Cid: s.Cid, Headers: s.Headers, Vars: vars, Value: s.Value})
			rec.mu.Lock()
			rec.events[idx]["code"] = labdriver.Classify(err)
			rec.events[idx]["hdrs"] = hdrs
			if err != nil {
				rec.events[idx]["err"] = err.Error()
			}
			rec.mu.Unlock()
		case "raw":
			d, err := hex.DecodeString(s.Hex)
			if err != nil {
				return labdriver.Resp{"code": 103, "err": "raw hex: " + err.Error()}
			}
			t := s.Topic
			if t == "" {
				t = topic
			}
			idx := rec.add(labdriver.Resp{"e": "pub", "i": i})
			err = b.raw(t, d)
			rec.mu.Lock()
			rec.events[idx]["code"] = labdriver.Classify(err)
			rec.mu.Unlock()
		case "flush":
			if err := b.flush(); err != nil {
				rec.add(labdriver.Resp{"e": "flush_err", "i": i, "err": err.Error()})
			}
		case "wait":
			ms := s.Ms
			if ms <= 0 {
				ms = 2000
			}
			if !rec.waitFor(time.Duration(ms)*time.Millisecond, func() bool { return rec.starts >= s.Starts && rec.ends >= s.Ends }) {
				rec.add(labdriver.Resp{"e": "wait_timeout", "i": i})
			}
		case "release":
			release(s.Cid)
		case "unsub":
			// Unsubscribe runs on its own goroutine: it may have to wait for a handler the script
			// releases later.  The step waits up to ms for it; "unsub_ret" is logged whenever it returns.
			rec.add(labdriver.Resp{"e": "unsub_call"})
			unsubDone = make(chan struct{})
			go func(done chan struct{}) {
				err := fsub.Unsubscribe()
				rec.add(labdriver.Resp{"e": "unsub_ret", "code": labdriver.Classify(err)})
				close(done)
			}(unsubDone)
			ms := s.Ms
			if ms <= 0 {
				ms = 3000
			}
			select {
			case <-unsubDone:
			case <-time.After(time.Duration(ms) * time.Millisecond):
				rec.add(labdriver.Resp{"e": "unsub_pending"})
			}
			unsubscribed = true
		default:
			return labdriver.Resp{"code": 103, "err": "unknown step " + s.K}
		}
	}
	// quiescence: everything sent has reached the broker; the expected number of handler starts has
	// been seen (or the time is over); then a settle period in which anything extra would show up
	if err := b.flush(); err != nil {
		rec.add(labdriver.Resp{"e": "flush_err", "i": -1, "err": err.Error()})
	}
	for cid := range rec.gates {
		release(cid)
	}
	full := rec.waitFor(2500*time.Millisecond, func() bool { return rec.starts >= c.Expect && rec.ends >= rec.starts })
	if unsubDone != nil {
		select {
		case <-unsubDone:
		case <-time.After(2500 * time.Millisecond):
			rec.add(labdriver.Resp{"e": "unsub_hang"})
		}
	}
	settle := c.SettleMs
	if settle <= 0 {
		settle = 60
	}
	time.Sleep(time.Duration(settle) * time.Millisecond)
	rec.mu.Lock()
	rec.events = append(rec.events, labdriver.Resp{"e": "final", "starts": rec.starts, "ends": rec.ends, "reached_expected": full})
	events := append([]labdriver.Resp{}, rec.events...)
	tap := append([]string{}, rec.tap...)
	rec.mu.Unlock()
	if !unsubscribed {
		done := make(chan struct{})
		go func() { defer close(done); fsub.Unsubscribe() }()
		select {
		case <-done:
		case <-time.After(2 * time.Second):
		}
	}
	rec.mu.Lock()
	sg := sibGot
	rec.mu.Unlock()
	return labdriver.Resp{"code": 0, "topic": topic, "events": events, "tap": tap, "sibling_got": sg}
}

func opRun(reg *labdriver.Registry, raw json.RawMessage) interface{} {
	var q struct {
		Cases []caseReq `json:"cases"`
	}
	if err := decode(raw, &q); err != nil {
		return labdriver.Resp{"code": 103, "err": err.Error()}
	}
	out := make([]labdriver.Resp, len(q.Cases))
	var wg sync.WaitGroup
	for i := range q.Cases {
		wg.Add(1)
		go func(i int) {
			defer wg.Done()
			out[i] = labdriver.Guard(15*time.Second, func() labdriver.Resp { return runCase(reg, &q.Cases[i]) })
		}(i)
	}
	wg.Wait()
	return labdriver.Resp{"code": 0, "cases": out}
}
