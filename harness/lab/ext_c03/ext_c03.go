// Package ext_c03 adds the op "c03_session" to the generated-code laboratory driver (property C03:
// a call through generated client and server code is faithful end to end).
//
// One session = one generated processor (NewF<Svc>Processor over the lab's recording stub handler)
// served over one transport, one generated client (NewF<Svc>Client) connected to it, and a list of
// calls executed one after the other.  Transports:
//
//	mem    an FTransport that hands the frame straight to processor.Process
//	tcp    FAdapterTransport over a loopback TCP socket + FSimpleServer (through a counting proxy)
//	http   FHTTPTransport + httptest server running NewFrugalHandlerFunc
//	nats   FNatsTransport + FNatsServer over an embedded nats-server
//
// Request:
//
//	{"op": "c03_session", "service": "<pkg>.<Svc>", "server": "<pkg>.<Svc>" (default: service),
//	 "transport": "mem|tcp|http|nats", "proto": "binary|compact|json",
//	 "calls": [{"method": "<GoName>", "args": [<value>...],
//	            "outcome": {"kind": "ret|declared|other|appexc", "value": <value>, "exc": "<pkg>.<Exc>",
//	                        "msg": "<hex>", "type": <int32>},
//	            "headers": {"<hex name>": "<hex value>"},
//	            "tamper": {"name": "<hex>", "type": <int>}        (mem + binary / compact: rewrite the reply's message header)
//	           }, ...]}
//
// Response: {"code": 0, "calls": [{
//
//	"handler": [{"service", "method", "args": [<dump>...], "headers": {hex: hex}}...],   every handler invocation
//	"client":  {"kind": "ret", "value": <dump>|null} | {"kind": "declared", "exc": "<pkg>.<Exc>", "value": <dump>}
//	         | {"kind": "appexc", "type": n, "msg": hex} | {"kind": "transport", "type": n, "msg": hex}
//	         | {"kind": "protocol", "type": n, "msg": hex} | {"kind": "error", "msg": hex} | {"kind": "panic", "msg": hex},
//	"request": hex of the request frame (with its 4-byte size) as it travelled, "replies": [hex of reply frames],
//	"resp_headers": {hex: hex}   response headers the caller's FContext holds after the call,
//	"opid": "<decimal>", "outcome_text": hex of Error() of the scripted error }]}
package ext_c03

import (
	"sync/atomic"
	"bytes"
	"context"
	"encoding/base64"
	"encoding/binary"
	"encoding/hex"
	"encoding/json"
	"fmt"
	"io"
	"net"
	"net/http"
	"net/http/httptest"
	"reflect"
	"strings"
	"sync"
	"time"

	frugal "github.com/Workiva/frugal/lib/go"
	"github.com/apache/thrift/lib/go/thrift"
	natsserver "github.com/nats-io/nats-server/v2/server"
	"github.com/nats-io/nats.go"
	labdriver "verifharness/lab/driver"
)

type outcomeSpec struct {
	Kind  string      `json:"kind"`
	Value interface{} `json:"value"`
	Exc   string      `json:"exc"`
	Msg   string      `json:"msg"`
	Type  int32       `json:"type"`
}

type tamperSpec struct {
	Name *string `json:"name"`
	Type *int    `json:"type"`
}

type callSpec struct {
	Method  string            `json:"method"`
	Args    []interface{}     `json:"args"`
	Outcome outcomeSpec       `json:"outcome"`
	Headers map[string]string `json:"headers"`
	Tamper  *tamperSpec       `json:"tamper"`
	// DropReply (http): the server processes the request and the connection is closed before any response is sent
	DropReply bool `json:"drop_reply"`
}

type sessionReq struct {
	Service   string     `json:"service"`
	Server    string     `json:"server"`
	Transport string     `json:"transport"`
	Proto     string     `json:"proto"`
	Calls     []callSpec `json:"calls"`
	// Burst: indices into Calls that are made again, all at once, from one goroutine each through the same
	// client (several calls in flight on one transport), BurstRounds times
	Burst       []int `json:"burst"`
	BurstRounds int   `json:"burst_rounds"`
}

type burstOutcome struct {
	v interface{}
	e error
}

type invocation struct {
	Service string            `json:"service"`
	Method  string            `json:"method"`
	Args    []interface{}     `json:"args"`
	Headers map[string]string `json:"headers"`
}

// recorder: what the stub handler saw and what travelled, for the call in progress
type recorder struct {
	mu       sync.Mutex
	handler  []invocation
	request  []byte
	replies  [][]byte
	script   func(service, method string) (interface{}, error)
	finished chan struct{}
	burst    map[string]burstOutcome // by the request header "c03-burst"
	burstLog map[string][]invocation
	// every request / reply frame that travelled while a burst round was in progress
	burstReqs, burstReps [][]byte
}

func (r *recorder) reset(script func(service, method string) (interface{}, error)) {
	r.mu.Lock()
	r.handler, r.request, r.replies, r.script = nil, nil, nil, script
	r.mu.Unlock()
}
func (r *recorder) addReply(b []byte) {
	r.mu.Lock()
	r.replies = append(r.replies, append([]byte{}, b...))
	if r.burst != nil {
		r.burstReps = append(r.burstReps, append([]byte{}, b...))
	}
	r.mu.Unlock()
}
func (r *recorder) setRequest(b []byte) {
	r.mu.Lock()
	if r.request == nil {
		r.request = append([]byte{}, b...)
	}
	if r.burst != nil {
		r.burstReqs = append(r.burstReqs, append([]byte{}, b...))
	}
	r.mu.Unlock()
}

func hexMap(m map[string]string) map[string]string {
	out := map[string]string{}
	for k, v := range m {
		out[hex.EncodeToString([]byte(k))] = hex.EncodeToString([]byte(v))
	}
	return out
}

func protoFactory(name string) (*frugal.FProtocolFactory, error) {
	switch name {
	case "", "binary":
		return frugal.NewFProtocolFactory(thrift.NewTBinaryProtocolFactoryConf(nil)), nil
	case "compact":
		return frugal.NewFProtocolFactory(thrift.NewTCompactProtocolFactoryConf(nil)), nil
	case "json":
		return frugal.NewFProtocolFactory(thrift.NewTJSONProtocolFactory()), nil
	}
	return nil, fmt.Errorf("unknown protocol %q", name)
}

// ------------------------------------------------------------------------------------------
// transports

type link interface {
	transport() frugal.FTransport
	// settle returns once everything the server sent in answer to the calls made so far has been recorded
	settle(std *frugal.FStandardClient)
	close()
}

// ---- mem: the frame goes straight to processor.Process

type memTransport struct {
	proc   frugal.FProcessor
	pf     *frugal.FProtocolFactory
	rec    *recorder
	tamper *tamperSpec
	proto  string
	closed chan error
}

func (m *memTransport) Open() error                    { return nil }
func (m *memTransport) Close() error                   { return nil }
func (m *memTransport) IsOpen() bool                   { return true }
func (m *memTransport) Closed() <-chan error           { return m.closed }
func (m *memTransport) SetMonitor(frugal.FTransportMonitor) {}
func (m *memTransport) GetRequestSizeLimit() uint      { return 0 }

func (m *memTransport) roundTrip(data []byte) ([]byte, error) {
	m.rec.setRequest(data)
	if len(data) < 4 {
		return nil, fmt.Errorf("mem: short frame")
	}
	in := &thrift.TMemoryBuffer{Buffer: bytes.NewBuffer(append([]byte{}, data[4:]...))}
	out := frugal.NewTMemoryOutputBuffer(0)
	if err := m.proc.Process(m.pf.GetProtocol(in), m.pf.GetProtocol(out)); err != nil {
		return nil, err
	}
	if !out.HasWriteData() {
		return nil, nil
	}
	frame := append([]byte{}, out.Bytes()...)
	m.rec.addReply(frame)
	if m.tamper != nil {
		if m.proto == "compact" {
			frame = tamperFrameCompact(frame, m.tamper)
		} else {
			frame = tamperFrame(frame, m.tamper)
		}
	}
	return frame, nil
}

func (m *memTransport) Oneway(ctx frugal.FContext, data []byte) error {
	_, err := m.roundTrip(data)
	return err
}

func (m *memTransport) Request(ctx frugal.FContext, data []byte) (thrift.TTransport, error) {
	frame, err := m.roundTrip(data)
	if err != nil {
		return nil, err
	}
	if frame == nil {
		return nil, thrift.NewTTransportException(frugal.TRANSPORT_EXCEPTION_TIMED_OUT, "mem: no reply")
	}
	return &thrift.TMemoryBuffer{Buffer: bytes.NewBuffer(frame[4:])}, nil
}

// tamperFrame rewrites name and/or type of the TBinary (strict) message header of a reply frame.
func tamperFrame(frame []byte, t *tamperSpec) []byte {
	if len(frame) < 9 {
		return frame
	}
	hsize := int(binary.BigEndian.Uint32(frame[5:9]))
	p := 9 + hsize
	if len(frame) < p+8 {
		return frame
	}
	word := binary.BigEndian.Uint32(frame[p : p+4])
	nlen := int(binary.BigEndian.Uint32(frame[p+4 : p+8]))
	if len(frame) < p+8+nlen {
		return frame
	}
	name := frame[p+8 : p+8+nlen]
	rest := frame[p+8+nlen:]
	if t.Type != nil {
		word = (word & 0xffffff00) | uint32(*t.Type&0xff)
	}
	if t.Name != nil {
		if b, err := hex.DecodeString(*t.Name); err == nil {
			name = b
		}
	}
	var body bytes.Buffer
	body.Write(frame[4:p])
	var w [4]byte
	binary.BigEndian.PutUint32(w[:], word)
	body.Write(w[:])
	binary.BigEndian.PutUint32(w[:], uint32(len(name)))
	body.Write(w[:])
	body.Write(name)
	body.Write(rest)
	out := make([]byte, 4, 4+body.Len())
	binary.BigEndian.PutUint32(out, uint32(body.Len()))
	return append(out, body.Bytes()...)
}

// tamperFrameCompact does the same on a TCompactProtocol message header: 0x82, version | type << 5 (three bits of
// the type travel, as in WriteMessageBegin), varint seqid, varint length + name.
func tamperFrameCompact(frame []byte, t *tamperSpec) []byte {
	if len(frame) < 9 {
		return frame
	}
	hsize := int(binary.BigEndian.Uint32(frame[5:9]))
	p := 9 + hsize
	if len(frame) < p+4 || frame[p] != 0x82 {
		return frame
	}
	vt := frame[p+1]
	q := p + 2
	_, n := binary.Uvarint(frame[q:]) // seqid
	if n <= 0 {
		return frame
	}
	seq := frame[q : q+n]
	q += n
	nlen, n2 := binary.Uvarint(frame[q:])
	if n2 <= 0 || len(frame) < q+n2+int(nlen) {
		return frame
	}
	name := frame[q+n2 : q+n2+int(nlen)]
	rest := frame[q+n2+int(nlen):]
	if t.Type != nil {
		vt = (vt & 0x1f) | ((byte(*t.Type) << 5) & 0xe0)
	}
	if t.Name != nil {
		if b, err := hex.DecodeString(*t.Name); err == nil {
			name = b
		}
	}
	var body bytes.Buffer
	body.Write(frame[4:p])
	body.WriteByte(0x82)
	body.WriteByte(vt)
	body.Write(seq)
	var w [binary.MaxVarintLen64]byte
	body.Write(w[:binary.PutUvarint(w[:], uint64(len(name)))])
	body.Write(name)
	body.Write(rest)
	out := make([]byte, 4, 4+body.Len())
	binary.BigEndian.PutUint32(out, uint32(body.Len()))
	return append(out, body.Bytes()...)
}

type memLink struct{ tr *memTransport }

func (l *memLink) transport() frugal.FTransport        { return l.tr }
func (l *memLink) settle(std *frugal.FStandardClient) {}
func (l *memLink) close()                              {}

// ---- tcp: adapter transport + simple server, through a proxy that records the frames

type tcpLink struct {
	server *frugal.FSimpleServer
	proxy  net.Listener
	tr     frugal.FTransport
	rec    *recorder
	fence  int
}

func copyFrames(dst io.Writer, src io.Reader, onFrame func([]byte)) {
	for {
		var hdr [4]byte
		if _, err := io.ReadFull(src, hdr[:]); err != nil {
			return
		}
		n := binary.BigEndian.Uint32(hdr[:])
		if n > 1<<28 {
			return
		}
		buf := make([]byte, 4+n)
		copy(buf, hdr[:])
		if _, err := io.ReadFull(src, buf[4:]); err != nil {
			return
		}
		onFrame(buf)
		if _, err := dst.Write(buf); err != nil {
			return
		}
	}
}

func isFence(frame []byte) bool { return bytes.Contains(frame, []byte("c03Fence")) }

func newTCPLink(proc frugal.FProcessor, pf *frugal.FProtocolFactory, rec *recorder) (*tcpLink, error) {
	st, err := thrift.NewTServerSocket("127.0.0.1:0")
	if err != nil {
		return nil, err
	}
	if err := st.Listen(); err != nil {
		return nil, err
	}
	l := &tcpLink{rec: rec}
	l.server = frugal.NewFSimpleServer(proc, st, pf)
	go l.server.Serve()
	backend := st.Addr().String()
	l.proxy, err = net.Listen("tcp", "127.0.0.1:0")
	if err != nil {
		return nil, err
	}
	go func() {
		for {
			c, err := l.proxy.Accept()
			if err != nil {
				return
			}
			b, err := net.Dial("tcp", backend)
			if err != nil {
				c.Close()
				continue
			}
			go func() {
				copyFrames(b, c, func(f []byte) {
					if !isFence(f) {
						rec.setRequest(f)
					}
				})
				b.Close()
			}()
			go func() {
				copyFrames(c, b, func(f []byte) {
					if !isFence(f) {
						rec.addReply(f)
					}
				})
				c.Close()
			}()
		}
	}()
	sock := thrift.NewTSocketConf(l.proxy.Addr().String(), nil)
	l.tr = frugal.NewAdapterTransport(sock)
	if err := l.tr.Open(); err != nil {
		return nil, err
	}
	return l, nil
}

func (l *tcpLink) transport() frugal.FTransport { return l.tr }

// the server handles one connection sequentially: when the answer to a fence call (an unknown
// method) has come back, everything sent before it has passed the proxy
func (l *tcpLink) settle(std *frugal.FStandardClient) {
	fctx := frugal.NewFContext("c03fence")
	fctx.SetTimeout(2 * time.Second)
	std.Call(fctx, "c03Fence", emptyStruct{}, emptyStruct{})
}
func (l *tcpLink) close() {
	l.tr.Close()
	l.proxy.Close()
	l.server.Stop()
}

type emptyStruct struct{}

func (emptyStruct) Write(ctx context.Context, p thrift.TProtocol) error {
	if err := p.WriteStructBegin(ctx, "c03Fence_args"); err != nil {
		return err
	}
	if err := p.WriteFieldStop(ctx); err != nil {
		return err
	}
	return p.WriteStructEnd(ctx)
}
func (emptyStruct) Read(ctx context.Context, p thrift.TProtocol) error {
	return thrift.SkipDefaultDepth(ctx, p, thrift.STRUCT)
}

// ---- http

type httpLink struct {
	ts   *httptest.Server
	tr   frugal.FTransport
	rec  *recorder
	drop int32 // 1: the next request is processed, then the connection is closed without a response (once)
}

// discardWriter keeps the handler's output away from the connection
type discardWriter struct{ h http.Header }

func (d *discardWriter) Header() http.Header         { return d.h }
func (d *discardWriter) Write(p []byte) (int, error) { return len(p), nil }
func (d *discardWriter) WriteHeader(int)             {}

type bodyRecorder struct {
	http.ResponseWriter
	buf    bytes.Buffer
	status int
}

func (b *bodyRecorder) Write(p []byte) (int, error) {
	b.buf.Write(p)
	return b.ResponseWriter.Write(p)
}
func (b *bodyRecorder) WriteHeader(code int) {
	b.status = code
	b.ResponseWriter.WriteHeader(code)
}

func newHTTPLink(proc frugal.FProcessor, pf *frugal.FProtocolFactory, rec *recorder) (*httpLink, error) {
	l := &httpLink{rec: rec}
	h := frugal.NewFrugalHandlerFunc(proc, pf)
	l.ts = httptest.NewServer(http.HandlerFunc(func(w http.ResponseWriter, r *http.Request) {
		body, _ := io.ReadAll(r.Body)
		if dec, err := base64.StdEncoding.DecodeString(string(body)); err == nil {
			rec.setRequest(dec)
		}
		r.Body = io.NopCloser(bytes.NewReader(body))
		if atomic.CompareAndSwapInt32(&l.drop, 1, 0) {
			// fault: the request is processed, the reply never leaves (connection closed instead)
			h(&discardWriter{h: http.Header{}}, r)
			if hj, ok := w.(http.Hijacker); ok {
				if conn, _, err := hj.Hijack(); err == nil {
					conn.Close()
				}
			}
			return
		}
		br := &bodyRecorder{ResponseWriter: w, status: 200}
		h(br, r)
		if br.status == 200 {
			if dec, err := base64.StdEncoding.DecodeString(br.buf.String()); err == nil && len(dec) > 4 {
				rec.addReply(dec)
			}
		}
	}))
	l.tr = frugal.NewFHTTPTransportBuilder(&http.Client{}, l.ts.URL).Build()
	if err := l.tr.Open(); err != nil {
		return nil, err
	}
	return l, nil
}
func (l *httpLink) transport() frugal.FTransport        { return l.tr }
func (l *httpLink) settle(std *frugal.FStandardClient) {}
func (l *httpLink) close() {
	l.tr.Close()
	l.ts.Close()
}

// ---- nats

var (
	natsOnce sync.Once
	natsSrv  *natsserver.Server
	natsURL  string
	natsErr  error
	natsSeq  int
)

func startNats() (string, error) {
	natsOnce.Do(func() {
		natsSrv, natsErr = natsserver.NewServer(&natsserver.Options{Host: "127.0.0.1", Port: -1, NoLog: true, NoSigs: true})
		if natsErr != nil {
			return
		}
		go natsSrv.Start()
		if !natsSrv.ReadyForConnections(10 * time.Second) {
			natsErr = fmt.Errorf("nats server not ready")
			return
		}
		natsURL = natsSrv.ClientURL()
	})
	return natsURL, natsErr
}

type natsLink struct {
	cli, srv, mon *nats.Conn
	server        frugal.FServer
	tr            frugal.FTransport
	sub           *nats.Subscription
	subject       string
	rec           *recorder
	finished      chan struct{}
	requests      int
	finishedSeen  int
}

func newNatsLink(proc frugal.FProcessor, pf *frugal.FProtocolFactory, rec *recorder) (*natsLink, error) {
	url, err := startNats()
	if err != nil {
		return nil, err
	}
	natsSeq++
	l := &natsLink{rec: rec, subject: fmt.Sprintf("c03svc.%d", natsSeq), finished: make(chan struct{}, 1024)}
	for _, c := range []**nats.Conn{&l.cli, &l.srv, &l.mon} {
		if *c, err = nats.Connect(url, nats.NoReconnect()); err != nil {
			return nil, err
		}
	}
	if l.sub, err = l.mon.SubscribeSync(">"); err != nil {
		return nil, err
	}
	l.sub.SetPendingLimits(-1, -1)
	l.mon.Flush()
	l.server = frugal.NewFNatsServerBuilder(l.srv, proc, pf, []string{l.subject}).
		WithRequestFinishedEventHandler(func(map[interface{}]interface{}) { l.finished <- struct{}{} }).Build()
	subs0 := natsSrv.NumSubscriptions()
	go l.server.Serve()
	ready := false
	for i := 0; i < 2000 && !ready; i++ {
		l.srv.Flush()
		if natsSrv.NumSubscriptions() > subs0 {
			ready = true
		} else {
			time.Sleep(2 * time.Millisecond)
		}
	}
	if !ready {
		return nil, fmt.Errorf("frugal NATS server did not subscribe")
	}
	l.tr = frugal.NewFNatsTransport(l.cli, l.subject, "")
	if err := l.tr.Open(); err != nil {
		return nil, err
	}
	l.cli.Flush()
	return l, nil
}
func (l *natsLink) transport() frugal.FTransport { return l.tr }

func (l *natsLink) drain() {
	l.mon.Flush()
	for {
		m, err := l.sub.NextMsg(2 * time.Millisecond)
		if err != nil {
			break
		}
		if m.Subject == l.subject {
			l.requests++
			l.rec.setRequest(m.Data)
		} else if strings.HasPrefix(m.Subject, "_INBOX.") {
			l.rec.addReply(m.Data)
		}
	}
}

// everything the client published has passed the broker after a flush of its connection; for every
// request seen the server signals when it has finished the frame (after publishing the reply, if
// any); then two more flushes push the reply through the broker to the monitoring subscription
func (l *natsLink) settle(std *frugal.FStandardClient) {
	l.cli.Flush()
	l.drain()
	for l.finishedSeen < l.requests {
		select {
		case <-l.finished:
			l.finishedSeen++
		case <-time.After(5 * time.Second):
			l.finishedSeen = l.requests
		}
	}
	l.srv.Flush()
	l.drain()
}
func (l *natsLink) close() {
	l.tr.Close()
	l.server.Stop()
	l.cli.Close()
	l.srv.Close()
	l.mon.Close()
}

// ------------------------------------------------------------------------------------------
// the session

func classifyErr(reg *labdriver.Registry, err error) map[string]interface{} {
	hx := func(s string) string { return hex.EncodeToString([]byte(s)) }
	if err == nil {
		return nil
	}
	// a declared exception: a registered struct-like
	v := reflect.ValueOf(err)
	if v.Kind() == reflect.Ptr && !v.IsNil() && v.Elem().Kind() == reflect.Struct {
		if name := nameOf(reg, v.Elem().Type()); name != "" {
			return map[string]interface{}{"kind": "declared", "exc": name, "value": reg.Dump(v)}
		}
	}
	if e, ok := err.(thrift.TApplicationException); ok {
		return map[string]interface{}{"kind": "appexc", "type": e.TypeId(), "msg": hx(e.Error())}
	}
	if e, ok := err.(thrift.TTransportException); ok {
		return map[string]interface{}{"kind": "transport", "type": e.TypeId(), "msg": hx(e.Error())}
	}
	if e, ok := err.(thrift.TProtocolException); ok {
		return map[string]interface{}{"kind": "protocol", "type": e.TypeId(), "msg": hx(e.Error())}
	}
	return map[string]interface{}{"kind": "error", "msg": hx(err.Error())}
}

var (
	typeNames   map[reflect.Type]string
	typeNamesMu sync.Mutex
)

// nameOf: registry key of a generated struct-like type
func nameOf(reg *labdriver.Registry, t reflect.Type) string {
	typeNamesMu.Lock()
	defer typeNamesMu.Unlock()
	if typeNames == nil {
		typeNames = map[reflect.Type]string{}
		for name, ctor := range reg.Structs {
			typeNames[reflect.TypeOf(ctor()).Elem()] = name
		}
	}
	return typeNames[t]
}

func decodeReq(raw json.RawMessage, into interface{}) error {
	dec := json.NewDecoder(strings.NewReader(string(raw)))
	dec.UseNumber()
	return dec.Decode(into)
}

func session(reg *labdriver.Registry, raw json.RawMessage) interface{} {
	var q sessionReq
	if err := decodeReq(raw, &q); err != nil {
		return labdriver.Resp{"code": 103, "err": err.Error()}
	}
	cliEntry, ok := reg.Services[q.Service]
	if !ok {
		return labdriver.Resp{"code": 103, "err": "unknown service " + q.Service}
	}
	srvName := q.Server
	if srvName == "" {
		srvName = q.Service
	}
	srvEntry, ok := reg.Services[srvName]
	if !ok {
		return labdriver.Resp{"code": 103, "err": "unknown service " + srvName}
	}
	pf, err := protoFactory(q.Proto)
	if err != nil {
		return labdriver.Resp{"code": 103, "err": err.Error()}
	}
	rec := &recorder{}
	handler := func(service, method string, fctx frugal.FContext, args []interface{}) (interface{}, error) {
		inv := invocation{Service: service, Method: method, Headers: hexMap(fctx.RequestHeaders())}
		for _, a := range args {
			inv.Args = append(inv.Args, reg.Dump(reflect.ValueOf(a)))
		}
		rec.mu.Lock()
		if tag, ok := fctx.RequestHeaders()["c03-burst"]; ok && rec.burst != nil {
			bo := rec.burst[tag]
			rec.burstLog[tag] = append(rec.burstLog[tag], inv)
			rec.mu.Unlock()
			return bo.v, bo.e
		}
		rec.handler = append(rec.handler, inv)
		script := rec.script
		rec.mu.Unlock()
		if script == nil {
			return nil, nil
		}
		return script(service, method)
	}
	proc := srvEntry.NewProcessor(handler)
	var lk link
	var mem *memTransport
	switch q.Transport {
	case "", "mem":
		mem = &memTransport{proc: proc, pf: pf, rec: rec, proto: q.Proto, closed: make(chan error)}
		lk = &memLink{mem}
	case "tcp":
		lk, err = newTCPLink(proc, pf, rec)
	case "http":
		lk, err = newHTTPLink(proc, pf, rec)
	case "nats":
		lk, err = newNatsLink(proc, pf, rec)
	default:
		err = fmt.Errorf("unknown transport %q", q.Transport)
	}
	if err != nil {
		return labdriver.Resp{"code": 103, "err": "link: " + err.Error()}
	}
	defer lk.close()
	provider := frugal.NewFServiceProvider(lk.transport(), pf)
	std := frugal.NewFStandardClient(provider)
	client := reflect.ValueOf(cliEntry.NewClient).Call([]reflect.Value{reflect.ValueOf(provider)})[0]

	results := []interface{}{}
	for _, c := range q.Calls {
		results = append(results, oneCall(reg, rec, lk, std, mem, client, c))
	}
	out := labdriver.Resp{"code": 0, "calls": results}
	if len(q.Burst) > 0 {
		out["burst"], out["burst_frames"] = burst(reg, rec, lk, std, client, q)
	}
	return out
}

// burst makes the chosen calls again, concurrently, through the one client
//
// "burst_frames": per round {"round", "requests": [hex], "replies": [hex]}: every frame that travelled during the round
func burst(reg *labdriver.Registry, rec *recorder, lk link, std *frugal.FStandardClient, client reflect.Value,
	q sessionReq) ([]interface{}, []interface{}) {
	type prepared struct {
		tag  string
		idx  int
		m    reflect.Value
		in   []reflect.Value
		fctx frugal.FContext
		rete error
	}
	res := []interface{}{}
	frames := []interface{}{}
	rounds := q.BurstRounds
	if rounds <= 0 {
		rounds = 1
	}
	for round := 0; round < rounds; round++ {
		rec.mu.Lock()
		rec.burst, rec.burstLog = map[string]burstOutcome{}, map[string][]invocation{}
		rec.burstReqs, rec.burstReps = nil, nil
		rec.mu.Unlock()
		var ps []prepared
		for _, idx := range q.Burst {
			if idx < 0 || idx >= len(q.Calls) {
				continue
			}
			c := q.Calls[idx]
			m, in, retv, rete, fctx, perr := prepareCall(reg, client, c)
			if perr != "" {
				continue
			}
			tag := fmt.Sprintf("%d/%d", round, idx)
			fctx.AddRequestHeader("c03-burst", tag)
			// a correlation id of its own: the reply must bring back THIS call's _cid (C09 under concurrency)
			fctx.AddRequestHeader("_cid", "c03b"+tag)
			rec.mu.Lock()
			rec.burst[tag] = burstOutcome{retv, rete}
			rec.mu.Unlock()
			ps = append(ps, prepared{tag, idx, m, in, fctx, rete})
		}
		outs := make([]map[string]interface{}, len(ps))
		var wg sync.WaitGroup
		start := make(chan struct{})
		for i := range ps {
			wg.Add(1)
			go func(i int) {
				defer wg.Done()
				o := map[string]interface{}{"index": ps[i].idx, "round": round}
				if ps[i].rete != nil {
					o["outcome_text"] = hex.EncodeToString([]byte(ps[i].rete.Error()))
				}
				outs[i] = o
				defer func() {
					if p := recover(); p != nil {
						o["client"] = map[string]interface{}{"kind": "panic", "msg": hex.EncodeToString([]byte(fmt.Sprint(p)))}
					}
				}()
				<-start
				rets := ps[i].m.Call(ps[i].in)
				var cerr error
				if e := rets[len(rets)-1]; !e.IsNil() {
					cerr = e.Interface().(error)
				}
				if cerr != nil {
					o["client"] = classifyErr(reg, cerr)
				} else if len(rets) == 2 {
					o["client"] = map[string]interface{}{"kind": "ret", "value": reg.Dump(rets[0])}
				} else {
					o["client"] = map[string]interface{}{"kind": "ret", "value": nil}
				}
				o["resp_headers"] = hexMap(ps[i].fctx.ResponseHeaders())
				o["opid"] = ps[i].fctx.RequestHeaders()["_opid"]
			}(i)
		}
		close(start)
		wg.Wait()
		lk.settle(std) // everything the round sent has been recorded
		rec.mu.Lock()
		for i := range ps {
			hs := rec.burstLog[ps[i].tag]
			if hs == nil {
				hs = []invocation{}
			}
			outs[i]["handler"] = hs
		}
		fr := map[string]interface{}{"round": round}
		hexes := func(bs [][]byte) []string {
			out := []string{}
			for _, b := range bs {
				out = append(out, hex.EncodeToString(b))
			}
			return out
		}
		fr["requests"], fr["replies"] = hexes(rec.burstReqs), hexes(rec.burstReps)
		frames = append(frames, fr)
		rec.burst = nil
		rec.mu.Unlock()
		for _, o := range outs {
			res = append(res, o)
		}
	}
	return res, frames
}

// prepareCall builds the reflected method, its arguments and the handler's scripted outcome for one call
func prepareCall(reg *labdriver.Registry, client reflect.Value, c callSpec) (m reflect.Value, in []reflect.Value,
	retv interface{}, rete error, fctx frugal.FContext, perr string) {
	m = client.MethodByName(c.Method)
	if !m.IsValid() {
		perr = "no client method " + c.Method
		return
	}
	mt := m.Type()
	if mt.NumIn() != len(c.Args)+1 {
		perr = "arity"
		return
	}
	fctx = frugal.NewFContext("c03")
	fctx.SetTimeout(2 * time.Second)
	for k, v := range c.Headers {
		kb, _ := hex.DecodeString(k)
		vb, _ := hex.DecodeString(v)
		fctx.AddRequestHeader(string(kb), string(vb))
	}
	in = []reflect.Value{reflect.ValueOf(fctx)}
	for i, a := range c.Args {
		v, err := reg.Build(mt.In(i+1), a)
		if err != nil {
			perr = err.Error()
			return
		}
		in = append(in, v)
	}
	switch c.Outcome.Kind {
	case "ret":
		if mt.NumOut() == 2 {
			v, err := reg.Build(mt.Out(0), c.Outcome.Value)
			if err != nil {
				perr = err.Error()
				return
			}
			retv = v.Interface()
		}
	case "declared":
		s, err := reg.BuildStruct(c.Outcome.Exc, c.Outcome.Value)
		if err != nil {
			perr = err.Error()
			return
		}
		e, ok := s.(error)
		if !ok {
			perr = "not an error"
			return
		}
		rete = e
	case "other":
		b, _ := hex.DecodeString(c.Outcome.Msg)
		rete = fmt.Errorf("%s", string(b))
	case "appexc":
		b, _ := hex.DecodeString(c.Outcome.Msg)
		rete = thrift.NewTApplicationException(c.Outcome.Type, string(b))
	default:
		perr = "unknown outcome kind"
	}
	return
}

func oneCall(reg *labdriver.Registry, rec *recorder, lk link, std *frugal.FStandardClient, mem *memTransport,
	client reflect.Value, c callSpec) (out map[string]interface{}) {
	out = map[string]interface{}{}
	m := client.MethodByName(c.Method)
	if !m.IsValid() {
		out["err"] = "no client method " + c.Method
		return
	}
	mt := m.Type()
	if mt.NumIn() != len(c.Args)+1 {
		out["err"] = fmt.Sprintf("method %s takes %d arguments, %d given", c.Method, mt.NumIn()-1, len(c.Args))
		return
	}
	fctx := frugal.NewFContext("c03")
	fctx.SetTimeout(2 * time.Second)
	for k, v := range c.Headers {
		kb, _ := hex.DecodeString(k)
		vb, _ := hex.DecodeString(v)
		fctx.AddRequestHeader(string(kb), string(vb))
	}
	in := []reflect.Value{reflect.ValueOf(fctx)}
	for i, a := range c.Args {
		v, err := reg.Build(mt.In(i+1), a)
		if err != nil {
			out["err"] = fmt.Sprintf("argument %d: %v", i, err)
			return
		}
		in = append(in, v)
	}
	// the scripted outcome of the handler, built with the types of the generated signatures
	var retv interface{}
	var rete error
	switch c.Outcome.Kind {
	case "ret":
		if mt.NumOut() == 2 {
			v, err := reg.Build(mt.Out(0), c.Outcome.Value)
			if err != nil {
				out["err"] = "outcome value: " + err.Error()
				return
			}
			retv = v.Interface()
		}
	case "declared":
		s, err := reg.BuildStruct(c.Outcome.Exc, c.Outcome.Value)
		if err != nil {
			out["err"] = "outcome exception: " + err.Error()
			return
		}
		e, ok := s.(error)
		if !ok {
			out["err"] = c.Outcome.Exc + " is not an error"
			return
		}
		rete = e
	case "other":
		b, _ := hex.DecodeString(c.Outcome.Msg)
		rete = fmt.Errorf("%s", string(b))
	case "appexc":
		b, _ := hex.DecodeString(c.Outcome.Msg)
		rete = thrift.NewTApplicationException(c.Outcome.Type, string(b))
	default:
		out["err"] = "unknown outcome kind " + c.Outcome.Kind
		return
	}
	if rete != nil {
		out["outcome_text"] = hex.EncodeToString([]byte(rete.Error()))
	}
	rec.reset(func(service, method string) (interface{}, error) { return retv, rete })
	if mem != nil {
		mem.tamper = c.Tamper
	}
	if hl, ok := lk.(*httpLink); ok && c.DropReply {
		atomic.StoreInt32(&hl.drop, 1)
	}
	var rets []reflect.Value
	t0 := time.Now()
	func() {
		defer func() {
			if p := recover(); p != nil {
				out["client"] = map[string]interface{}{"kind": "panic", "msg": hex.EncodeToString([]byte(fmt.Sprint(p)))}
			}
		}()
		rets = m.Call(in)
	}()
	out["call_us"] = time.Since(t0).Microseconds()
	lk.settle(std)
	out["settled_us"] = time.Since(t0).Microseconds()
	if rets != nil {
		var cerr error
		if e := rets[len(rets)-1]; !e.IsNil() {
			cerr = e.Interface().(error)
		}
		if cerr != nil {
			out["client"] = classifyErr(reg, cerr)
		} else if len(rets) == 2 {
			out["client"] = map[string]interface{}{"kind": "ret", "value": reg.Dump(rets[0])}
		} else {
			out["client"] = map[string]interface{}{"kind": "ret", "value": nil}
		}
	}
	rec.mu.Lock()
	hs := rec.handler
	if hs == nil {
		hs = []invocation{}
	}
	out["handler"] = hs
	out["request"] = hex.EncodeToString(rec.request)
	reps := []string{}
	for _, r := range rec.replies {
		reps = append(reps, hex.EncodeToString(r))
	}
	out["replies"] = reps
	rec.mu.Unlock()
	out["resp_headers"] = hexMap(fctx.ResponseHeaders())
	out["opid"] = fctx.RequestHeaders()["_opid"]
	return
}

func init() {
	labdriver.RegisterOp("c03_session", func(reg *labdriver.Registry, raw json.RawMessage) interface{} {
		return session(reg, raw)
	})
}
