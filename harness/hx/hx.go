// Package hx: helpers shared by the verification harness binaries (harness/cmd/*).
package hx

import (
	"bufio"
	"encoding/json"
	"fmt"
	"io"
	"os"
	"strings"
	"time"

	frugal "github.com/Workiva/frugal/lib/go"
	"github.com/apache/thrift/lib/go/thrift"
)

// Error classes shared with coq/theories/Base/Res.v (res_code):
// 0 ok, 1 too large, 2 not open, 3 timed out, 4 invalid data, 5 bad version,
// 6 EOF / short read, 7 other; 100 panic, 102 hang, 103 harness failure.
const (
	CodeOK         = 0
	CodeTooLarge   = 1
	CodeNotOpen    = 2
	CodeTimedOut   = 3
	CodeInvalid    = 4
	CodeBadVersion = 5
	CodeEOF        = 6
	CodeOther      = 7
	CodePanic      = 100
	CodeHang       = 102
)

// Classify maps an error of the runtime to the small enum used by the models.
func Classify(err error) int {
	if err == nil {
		return CodeOK
	}
	// NB: a TTransportException also satisfies the TProtocolException interface
	if e, ok := err.(thrift.TTransportException); ok {
		switch e.TypeId() {
		case frugal.TRANSPORT_EXCEPTION_REQUEST_TOO_LARGE, frugal.TRANSPORT_EXCEPTION_RESPONSE_TOO_LARGE:
			return CodeTooLarge
		case frugal.TRANSPORT_EXCEPTION_NOT_OPEN:
			return CodeNotOpen
		case frugal.TRANSPORT_EXCEPTION_TIMED_OUT:
			return CodeTimedOut
		case frugal.TRANSPORT_EXCEPTION_END_OF_FILE:
			return CodeEOF
		}
		if strings.Contains(err.Error(), "EOF") {
			return CodeEOF
		}
		return CodeOther
	}
	if e, ok := err.(thrift.TProtocolException); ok {
		switch e.TypeId() {
		case thrift.INVALID_DATA:
			return CodeInvalid
		case thrift.BAD_VERSION:
			return CodeBadVersion
		}
		return CodeOther
	}
	return CodeOther
}

// Guarded runs f with panic recovery and a watchdog. It returns f's value, or
// (zero, "panic: ...") / (zero, "hang").
func Guarded[T any](d time.Duration, f func() T) (T, string) {
	type res struct {
		v T
		p string
	}
	done := make(chan res, 1)
	go func() {
		defer func() {
			if p := recover(); p != nil {
				var z T
				done <- res{z, fmt.Sprint("panic: ", p)}
			}
		}()
		done <- res{f(), ""}
	}()
	select {
	case r := <-done:
		return r.v, r.p
	case <-time.After(d):
		var z T
		return z, "hang"
	}
}

// Serve reads JSON requests (one value per line or concatenated) from stdin and
// writes one JSON response per request to stdout.
func Serve[Q any, R any](handle func(Q) R) error {
	in := bufio.NewReaderSize(os.Stdin, 1<<20)
	out := bufio.NewWriter(os.Stdout)
	defer out.Flush()
	dec := json.NewDecoder(in)
	enc := json.NewEncoder(out)
	for {
		var q Q
		if err := dec.Decode(&q); err != nil {
			if err == io.EOF {
				return nil
			}
			return err
		}
		if err := enc.Encode(handle(q)); err != nil {
			return err
		}
		out.Flush()
	}
}
