package hx

import (
	"fmt"
	"net"
	"time"

	"github.com/go-stomp/stomp"
	stompserver "github.com/go-stomp/stomp/server"
	"github.com/nats-io/nats-server/v2/server"
	"github.com/nats-io/nats.go"
)

// StartNats starts an embedded NATS server on a random local port.
func StartNats() (*server.Server, string, error) {
	s, err := server.NewServer(&server.Options{Host: "127.0.0.1", Port: -1, NoLog: true, NoSigs: true})
	if err != nil {
		return nil, "", err
	}
	go s.Start()
	if !s.ReadyForConnections(10 * time.Second) {
		return nil, "", fmt.Errorf("nats server not ready")
	}
	return s, s.ClientURL(), nil
}

// NatsConn connects to the embedded server.
func NatsConn(url string) (*nats.Conn, error) {
	return nats.Connect(url, nats.NoReconnect())
}

// StartStomp starts an embedded STOMP broker; returns its address and a closer.
func StartStomp() (string, func(), error) {
	l, err := net.Listen("tcp", "127.0.0.1:0")
	if err != nil {
		return "", nil, err
	}
	go stompserver.Serve(l)
	return l.Addr().String(), func() { l.Close() }, nil
}

// StompConn connects a STOMP client.
func StompConn(addr string) (*stomp.Conn, error) {
	c, err := net.Dial("tcp", addr)
	if err != nil {
		return nil, err
	}
	return stomp.Connect(c)
}
