package main

// pub: one publish through the real FStandardClient.Publish (the path generated publishers
// use) and the real NATS / STOMP publisher transports; a raw subscriber on the embedded
// broker records what actually arrived there.

import (
	"fmt"
	"net"
	"strings"
	"sync"
	"time"

	frugal "github.com/Workiva/frugal/lib/go"
	"github.com/apache/thrift/lib/go/thrift"
	"github.com/go-stomp/stomp"
	stompserver "github.com/go-stomp/stomp/server"
	"github.com/nats-io/nats.go"
)

type natsPub struct {
	conn   *nats.Conn
	client *frugal.FStandardClient
}

var natsPubs = map[string]*natsPub{}

type stompEnv struct {
	addr    string
	pubConn *stomp.Conn
	spyConn *stomp.Conn
	sub     *stomp.Subscription
	clients map[string]*frugal.FStandardClient
}

var (
	stompOnce sync.Once
	senv      *stompEnv
	senvErr   error
)

const pubTopic = "c12topic"

func getStomp() (*stompEnv, error) {
	stompOnce.Do(func() {
		l, err := net.Listen("tcp", "127.0.0.1:0")
		if err != nil {
			senvErr = err
			return
		}
		go stompserver.Serve(l)
		e := &stompEnv{addr: l.Addr().String(), clients: map[string]*frugal.FStandardClient{}}
		dial := func() (*stomp.Conn, error) {
			c, err := net.Dial("tcp", e.addr)
			if err != nil {
				return nil, err
			}
			return stomp.Connect(c, stomp.ConnOpt.HeartBeat(0, 0))
		}
		if e.pubConn, err = dial(); err != nil {
			senvErr = err
			return
		}
		if e.spyConn, err = dial(); err != nil {
			senvErr = err
			return
		}
		e.sub, err = e.spyConn.Subscribe("/topic/frugal."+pubTopic, stomp.AckAuto)
		if err != nil {
			senvErr = err
			return
		}
		// the SUBSCRIBE frame is processed asynchronously: probe until a sentinel comes through
		okSub := false
		for i := 0; i < 100 && !okSub; i++ {
			if _, err := e.drainWait(100 * time.Millisecond); err == nil {
				okSub = true
			}
		}
		if !okSub {
			senvErr = fmt.Errorf("stomp spy subscription not established")
			return
		}
		senv = e
	})
	return senv, senvErr
}

const sentinelPrefix = "c12-sentinel-"

var sentinelSeq int

// drain sends a numbered sentinel on the publisher's own connection and collects every message
// that arrives before it (same connection, same destination: ordered).
func (e *stompEnv) drain() ([][]byte, error) {
	return e.drainWait(10 * time.Second)
}

func (e *stompEnv) drainWait(d time.Duration) ([][]byte, error) {
	sentinelSeq++
	mine := fmt.Sprintf("%s%d", sentinelPrefix, sentinelSeq)
	if err := e.pubConn.Send("/topic/frugal."+pubTopic, "application/octet-stream", []byte(mine)); err != nil {
		return nil, err
	}
	var out [][]byte
	deadline := time.After(d)
	for {
		select {
		case m, ok := <-e.sub.C:
			if !ok || m == nil {
				return out, fmt.Errorf("stomp subscription closed")
			}
			if m.Err != nil {
				return out, m.Err
			}
			if string(m.Body) == mine {
				return out, nil
			}
			if strings.HasPrefix(string(m.Body), sentinelPrefix) {
				continue // a sentinel of an earlier, abandoned wait
			}
			out = append(out, m.Body)
		case <-deadline:
			return out, fmt.Errorf("stomp sentinel not received")
		}
	}
}

func doPub(q request) response {
	var r response
	if q.Method == "" {
		q.Method = "Op"
	}
	pf := protoFactory(q.Proto)
	var client *frugal.FStandardClient
	var ne *natsEnv
	var np *natsPub
	var se *stompEnv
	switch q.Transport {
	case "nats":
		var err error
		if ne, err = getNats(); err != nil {
			return response{Code: 103, Msg: err.Error()}
		}
		np = natsPubs[q.Proto]
		if np == nil {
			conn, err := nats.Connect(ne.url)
			if err != nil {
				return response{Code: 103, Msg: err.Error()}
			}
			prov := frugal.NewFScopeProvider(frugal.NewFNatsPublisherTransportFactory(conn), nil, pf)
			np = &natsPub{conn: conn, client: frugal.NewFScopeClient(prov)}
			if err := np.client.Open(); err != nil {
				return response{Code: 103, Msg: err.Error()}
			}
			natsPubs[q.Proto] = np
		}
		client = np.client
		ne.drain(np.conn)
	case "stomp":
		var err error
		if se, err = getStomp(); err != nil {
			return response{Code: 103, Msg: err.Error()}
		}
		k := fmt.Sprint(q.Proto, "/", q.PubLimit)
		client = se.clients[k]
		if client == nil {
			fac := frugal.NewFStompPublisherTransportFactoryBuilder(se.pubConn).WithMaxPublishSize(q.PubLimit).Build()
			client = frugal.NewFScopeClient(frugal.NewFScopeProvider(fac, nil, pf))
			if err := client.Open(); err != nil {
				return response{Code: 103, Msg: err.Error()}
			}
			se.clients[k] = client
		}
		if _, err := se.drain(); err != nil {
			return response{Code: 103, Msg: err.Error()}
		}
	default:
		return response{Code: 103, Msg: "unknown transport " + q.Transport}
	}

	one := func(op string, hdrs map[string]int, v *Val, full bool) (int, string, bool, [2]int) {
		fctx := mkContext(hdrs, q.TimeoutMs)
		msg := &tstruct{want: v}
		want, hdr, ops := expectedFrame(pf, fctx, op, msg, thrift.CALL)
		err := client.Publish(fctx, op, pubTopic, msg)
		code, emsg := classify(err)
		var sent []int
		sentOK := true
		if ne != nil {
			for _, m := range ne.drain(np.conn) {
				if m.Subject == "frugal."+pubTopic {
					sent = append(sent, len(m.Data))
					if !sameFrame(m.Data, want, hdr) {
						sentOK = false
					}
				}
			}
		} else {
			bodies, derr := se.drain()
			if derr != nil {
				return 103, derr.Error(), false, [2]int{}
			}
			for _, b := range bodies {
				sent = append(sent, len(b))
				if !sameFrame(b, want, hdr) {
					sentOK = false
				}
			}
		}
		if full {
			r.Code, r.Msg = code, emsg
			r.ReqHdr, r.ReqOps = hdr, opsJSON(ops)
			r.Sent, r.SentOK = sent, sentOK
		}
		return code, emsg, err == nil && len(sent) == 1 && sentOK, [2]int{4 + hdr + opsTotal(ops), 0}
	}
	one(q.Method, q.Hdrs, q.Args, true)
	if q.Followup {
		r.FollowCode, r.FollowMsg, r.FollowOK, r.FollowSizes = one("Op", nil, followArgs, false)
	}
	return r
}

// consts: the constants and limit conversions of the implementation the model restates
func doConsts() response {
	ne, err := getNats()
	if err != nil {
		return response{Code: 103, Msg: err.Error()}
	}
	conn, err := nats.Connect(ne.url)
	if err != nil {
		return response{Code: 103, Msg: err.Error()}
	}
	defer conn.Close()
	tr := frugal.NewFNatsTransport(conn, "c12.consts", "")
	pub := frugal.NewNatsFPublisherTransport(conn)
	sneg := frugal.NewFStompPublisherTransportFactoryBuilder(nil).WithMaxPublishSize(-5).Build().GetTransport()
	spos := frugal.NewFStompPublisherTransportFactoryBuilder(nil).WithMaxPublishSize(77).Build().GetTransport()
	return response{Consts: []uint64{
		uint64(tr.GetRequestSizeLimit()), uint64(pub.GetPublishSizeLimit()),
		uint64(frugal.TRANSPORT_EXCEPTION_REQUEST_TOO_LARGE), uint64(frugal.TRANSPORT_EXCEPTION_RESPONSE_TOO_LARGE),
		uint64(frugal.APPLICATION_EXCEPTION_RESPONSE_TOO_LARGE),
		uint64(sneg.GetPublishSizeLimit()) >> 32, uint64(sneg.GetPublishSizeLimit()) & 0xffffffff,
		uint64(spos.GetPublishSizeLimit()),
	}}
}
