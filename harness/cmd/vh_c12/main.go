// vh_c12: drives the real size-limit machinery of frugal's Go library (bounded output
// buffer, FStandardClient, NATS / HTTP transports and servers, NATS / STOMP publishers)
// and reports what it observed. JSON requests on stdin, one JSON observation per request.
package main

import (
	"encoding/binary"
	"fmt"
	"io"
	"os"
	"time"

	frugal "github.com/Workiva/frugal/lib/go"
	"github.com/apache/thrift/lib/go/thrift"
	"github.com/sirupsen/logrus"

	"verifharness/hx"
)

// error classes (finer than hx.Classify: the two TOO_LARGE kinds are the point here)
const (
	cOK             = 0
	cNotOpen        = 2
	cTimedOut       = 3
	cEOF            = 6
	cOther          = 7
	cReqTooLarge    = 11
	cRespTooLarge   = 12
	cTransportOther = 20
	cAppException   = 30
	cProtocol       = 40
	cPanic          = 100
	cHang           = 102
)

func classify(err error) (int, string) {
	if err == nil {
		return cOK, ""
	}
	msg := err.Error()
	if len(msg) > 160 {
		msg = msg[:160]
	}
	if e, ok := err.(thrift.TTransportException); ok {
		switch e.TypeId() {
		case frugal.TRANSPORT_EXCEPTION_REQUEST_TOO_LARGE:
			return cReqTooLarge, msg
		case frugal.TRANSPORT_EXCEPTION_RESPONSE_TOO_LARGE:
			return cRespTooLarge, msg
		case frugal.TRANSPORT_EXCEPTION_NOT_OPEN:
			return cNotOpen, msg
		case frugal.TRANSPORT_EXCEPTION_TIMED_OUT:
			return cTimedOut, msg
		case frugal.TRANSPORT_EXCEPTION_END_OF_FILE:
			return cEOF, msg
		}
		return cTransportOther, msg
	}
	if e, ok := err.(thrift.TApplicationException); ok {
		return cAppException, fmt.Sprintf("type %d: %s", e.TypeId(), msg)
	}
	if _, ok := err.(thrift.TProtocolException); ok {
		return cProtocol, msg
	}
	return cOther, msg
}

type request struct {
	Op string `json:"op"`
	// buf
	Limit uint             `json:"limit"`
	Ops   [][2]interface{} `json:"ops"`
	// call / pub
	Transport string         `json:"transport"`
	Proto     string         `json:"proto"`
	ReqLimit  uint           `json:"reqlimit"`
	RespLimit uint           `json:"resplimit"`
	PubLimit  int            `json:"publimit"`
	Method    string         `json:"method"`
	Hdrs      map[string]int `json:"hdrs"`
	RHdrs     map[string]int `json:"rhdrs"`
	Args      *Val           `json:"args"`
	Reply     *Val           `json:"reply"`
	Followup  bool           `json:"followup"`
	Oneway    bool           `json:"oneway"`
	TimeoutMs int            `json:"timeout_ms"`
	Fresh     bool           `json:"fresh"`
}

type response struct {
	Code  int    `json:"code"`
	Msg   string `json:"msg,omitempty"`
	Panic string `json:"panic,omitempty"`
	// buf: per op [code, lenAfter, extra]
	Steps [][3]int `json:"steps,omitempty"`
	// call / pub
	ReqHdr       int              `json:"req_hdr"`           // marshalled request header bytes
	ReqOps       [][2]interface{} `json:"req_ops,omitempty"` // transport ops of the request message (recorded)
	MinHdr       int              `json:"min_hdr"`           // marshalled header block holding the op id only
	ErrMsgLen    int              `json:"errmsg_len"`        // length of the text of the RESPONSE_TOO_LARGE exception
	Follow2Code  int              `json:"follow2_code"`
	Follow2Msg   string           `json:"follow2_msg,omitempty"`
	Follow2OK    bool             `json:"follow2_ok"`
	FollowSizes  [2]int           `json:"follow_sizes"` // follow-up: request frame, unframed reply
	Follow2Sizes [2]int           `json:"follow2_sizes"`
	Consts       []uint64         `json:"consts,omitempty"`
	RepHdr       int              `json:"rep_hdr"`           // marshalled response header bytes (normal reply)
	RepOps       [][2]interface{} `json:"rep_ops,omitempty"` // transport ops of the normal reply
	ErrOps       [][2]interface{} `json:"err_ops,omitempty"` // transport ops of the RESPONSE_TOO_LARGE exception reply
	Sent         []int            `json:"sent"`              // sizes of request frames / published messages that reached the broker or HTTP server
	SentOK       bool             `json:"sent_ok"`           // each such frame is well framed and is exactly the expected encoding
	Replies      []int            `json:"replies"`           // sizes of reply frames the server handed to the broker / HTTP body (unframed+4)
	HTTPStatus   []int            `json:"http_status,omitempty"`
	ServerGot    int              `json:"server_got"` // number of times the handler ran
	ArgsOK       bool             `json:"args_ok"`    // handler decoded exactly the args sent
	ResultOK     bool             `json:"result_ok"`  // caller decoded exactly the reply the handler produced
	Result       string           `json:"result,omitempty"`
	FollowCode   int              `json:"follow_code"`
	FollowMsg    string           `json:"follow_msg,omitempty"`
	FollowOK     bool             `json:"follow_ok"`
	ElapsedMs    int64            `json:"elapsed_ms"`
}

func protoFactory(name string) *frugal.FProtocolFactory {
	switch name {
	case "compact":
		return frugal.NewFProtocolFactory(thrift.NewTCompactProtocolFactoryConf(&thrift.TConfiguration{}))
	case "json":
		return frugal.NewFProtocolFactory(thrift.NewTJSONProtocolFactory())
	}
	return frugal.NewFProtocolFactory(thrift.NewTBinaryProtocolFactoryConf(&thrift.TConfiguration{}))
}

// ---------------------------------------------------------------------------------------------
// buf: an op sequence on one real TMemoryOutputBuffer

func doBuf(q request) response {
	var r response
	b := frugal.NewTMemoryOutputBuffer(q.Limit)
	r.Steps = append(r.Steps, [3]int{0, b.Len(), 0})
	for _, op := range q.Ops {
		k, _ := op[0].(string)
		nf, _ := op[1].(float64)
		n := int(nf)
		var err error
		extra := 0
		switch k {
		case "W":
			var w int
			w, err = b.Write(pattern(n))
			extra = w
		case "S":
			var w int
			w, err = b.WriteString(string(pattern(n)))
			extra = w
		case "B":
			err = b.WriteByte(byte(n))
			extra = 1
		case "R":
			b.Reset()
		case "H":
			if b.HasWriteData() {
				extra = 1
			}
		case "Y":
			data := b.Bytes()
			extra = int(binary.BigEndian.Uint32(data))
			if len(data) != b.Len() {
				extra = -1
			}
		}
		c, _ := classify(err)
		if err != nil {
			extra = 0
		}
		r.Steps = append(r.Steps, [3]int{c, b.Len(), extra})
	}
	return r
}

func handle(q request) response {
	t0 := time.Now()
	f := func() response {
		switch q.Op {
		case "buf":
			return doBuf(q)
		case "call":
			return doCall(q)
		case "pub":
			return doPub(q)
		case "consts":
			return doConsts()
		}
		return response{Code: 103, Msg: "unknown op " + q.Op}
	}
	d := 60 * time.Second
	r, p := hx.Guarded(d, f)
	if p == "hang" {
		r.Code = cHang
		r.Panic = p
	} else if p != "" {
		r.Code = cPanic
		r.Panic = p
	}
	r.ElapsedMs = time.Since(t0).Milliseconds()
	return r
}

func main() {
	l := logrus.New()
	l.SetOutput(io.Discard)
	frugal.SetLogger(l)
	logrus.SetOutput(io.Discard)
	if err := hx.Serve(handle); err != nil {
		fmt.Fprintln(os.Stderr, "vh_c12:", err)
		os.Exit(3)
	}
}
