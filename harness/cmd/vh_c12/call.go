package main

// call: one RPC through the real FStandardClient.Call (the path generated clients use),
// a real transport (NATS with an embedded nats-server, or HTTP with httptest) and a real
// FBaseProcessor whose processor function answers through FBaseProcessorFunction.SendReply.

import (
	"bytes"
	"context"
	"encoding/base64"
	"encoding/binary"
	"fmt"
	"io"
	"net/http"
	"net/http/httptest"
	"sync"
	"time"

	frugal "github.com/Workiva/frugal/lib/go"
	"github.com/apache/thrift/lib/go/thrift"
	natsserver "github.com/nats-io/nats-server/v2/server"
	"github.com/nats-io/nats.go"
)

// ---- the echo service -------------------------------------------------------------------------

type echoState struct {
	mu       sync.Mutex
	proto    string
	argsHint *Val
	reply    *Val
	rhdrs    map[string]int
	limit    uint // buffer limit the server uses (for the text of the overflow error); 0 = none
	got      int
	argsSeen string
	repHdr   int
	minHdr   int
	errMsg   int
	repOps   []recOp
	errOps   []recOp
}

var echo echoState

type echoFn struct {
	*frugal.FBaseProcessorFunction
	method string
}

func recordReply(pf *frugal.FProtocolFactory, fctx frugal.FContext, method string, kind thrift.TMessageType, body thrift.TStruct) []recOp {
	rec := &recTransport{}
	p := pf.GetProtocol(rec)
	ctx := context.Background()
	p.WriteResponseHeader(fctx)
	rec.ops = nil // the header is one Write of its own; reported separately
	p.WriteMessageBegin(ctx, method, kind, 0)
	body.Write(ctx, p)
	p.WriteMessageEnd(ctx)
	p.Flush(ctx)
	return rec.ops
}

func (p *echoFn) Process(fctx frugal.FContext, iprot, oprot *frugal.FProtocol) error {
	ctx, cancelFn := frugal.ToContext(fctx)
	defer cancelFn()
	echo.mu.Lock()
	hint, reply, rh, proto, limit := echo.argsHint, echo.reply, echo.rhdrs, echo.proto, echo.limit
	echo.mu.Unlock()
	args := &tstruct{want: hint}
	err := args.Read(ctx, iprot)
	iprot.ReadMessageEnd(ctx)
	if err != nil {
		return p.SendError(fctx, oprot, frugal.APPLICATION_EXCEPTION_PROTOCOL_ERROR, p.method, err.Error())
	}
	for k, n := range rh {
		fctx.AddResponseHeader(k, string(pattern(n)))
	}
	pf := protoFactory(proto)
	result := &tstruct{want: reply}
	echo.mu.Lock()
	echo.got++
	echo.argsSeen = canon(args.got)
	echo.repHdr = len(frugal.VerifMarshalHeaders(fctx.ResponseHeaders()))
	echo.repOps = recordReply(pf, fctx, p.method, thrift.REPLY, result)
	emsg := fmt.Sprintf("Buffer size reached (%d)", limit)
	ex := thrift.NewTApplicationException(frugal.APPLICATION_EXCEPTION_RESPONSE_TOO_LARGE, emsg)
	opid, _ := fctx.ResponseHeader("_opid")
	echo.minHdr = len(frugal.VerifMarshalHeaders(map[string]string{"_opid": opid}))
	echo.errMsg = len(emsg)
	echo.errOps = recordReply(pf, fctx, p.method, thrift.EXCEPTION, ex)
	echo.mu.Unlock()
	return p.SendReply(fctx, oprot, p.method, result)
}

func newProcessor() *frugal.FBaseProcessor {
	return frugal.NewFBaseProcessor()
}

func ensureMethod(proc *frugal.FBaseProcessor, known map[string]bool, method string) {
	if !known[method] {
		known[method] = true
		proc.AddToProcessorMap(method, &echoFn{frugal.NewFBaseProcessorFunction(proc.GetWriteMutex(), nil), method})
	}
}

// ---- NATS environment ------------------------------------------------------------------------

type natsEnv struct {
	srv      *natsserver.Server
	url      string
	spyConn  *nats.Conn
	spy      *nats.Subscription
	perProto map[string]*natsSvc
	seq      int
}

type natsSvc struct {
	cliConn, srvConn *nats.Conn
	proc             *frugal.FBaseProcessor
	known            map[string]bool
	server           frugal.FServer
	tr               frugal.FTransport
	client           *frugal.FStandardClient
	subject          string
}

var (
	natsOnce sync.Once
	nenv     *natsEnv
	nenvErr  error
)

func getNats() (*natsEnv, error) {
	natsOnce.Do(func() {
		opts := &natsserver.Options{Host: "127.0.0.1", Port: -1, NoLog: true, NoSigs: true}
		s, err := natsserver.NewServer(opts)
		if err != nil {
			nenvErr = err
			return
		}
		go s.Start()
		if !s.ReadyForConnections(10 * time.Second) {
			nenvErr = fmt.Errorf("embedded nats-server not ready")
			return
		}
		e := &natsEnv{srv: s, url: s.ClientURL(), perProto: map[string]*natsSvc{}}
		e.spyConn, err = nats.Connect(e.url)
		if err != nil {
			nenvErr = err
			return
		}
		e.spy, err = e.spyConn.SubscribeSync(">")
		if err != nil {
			nenvErr = err
			return
		}
		e.spy.SetPendingLimits(-1, -1)
		e.spyConn.Flush()
		nenv = e
	})
	return nenv, nenvErr
}

// drain returns every message the broker has routed so far. The caller first flushes the
// publishing connections, so everything they handed to the broker has been processed by it.
func (e *natsEnv) drain(conns ...*nats.Conn) []*nats.Msg {
	for _, c := range conns {
		c.FlushTimeout(5 * time.Second)
	}
	e.spyConn.FlushTimeout(5 * time.Second)
	var out []*nats.Msg
	for {
		n, _, _ := e.spy.Pending()
		if n == 0 {
			break
		}
		m, err := e.spy.NextMsg(100 * time.Millisecond)
		if err != nil {
			break
		}
		out = append(out, m)
	}
	return out
}

func (e *natsEnv) svc(proto string, fresh bool) (*natsSvc, error) {
	if s, ok := e.perProto[proto]; ok && !fresh {
		return s, nil
	}
	s := &natsSvc{known: map[string]bool{}, subject: fmt.Sprintf("c12svc.%s.%d", proto, e.seq)}
	e.seq++
	var err error
	if s.cliConn, err = nats.Connect(e.url); err != nil {
		return nil, err
	}
	if s.srvConn, err = nats.Connect(e.url); err != nil {
		return nil, err
	}
	s.proc = newProcessor()
	pf := protoFactory(proto)
	s.server = frugal.NewFNatsServerBuilder(s.srvConn, s.proc, pf, []string{s.subject}).Build()
	subs0 := e.srv.NumSubscriptions()
	go s.server.Serve()
	// wait until the broker knows the server's queue subscription (Serve subscribes asynchronously)
	ready := false
	for i := 0; i < 2000 && !ready; i++ {
		s.srvConn.Flush()
		if e.srv.NumSubscriptions() > subs0 {
			ready = true
		} else {
			time.Sleep(5 * time.Millisecond)
		}
	}
	if !ready {
		return nil, fmt.Errorf("frugal NATS server did not subscribe")
	}
	s.tr = frugal.NewFNatsTransport(s.cliConn, s.subject, "")
	if err := s.tr.Open(); err != nil {
		return nil, err
	}
	s.cliConn.Flush()
	s.client = frugal.NewFStandardClient(frugal.NewFServiceProvider(s.tr, pf))
	e.perProto[proto] = s
	return s, nil
}

// ---- HTTP environment ------------------------------------------------------------------------

type httpRec struct {
	mu       sync.Mutex
	reqLens  []int
	reqOK    bool
	statuses []int
	bodies   []int
	frames   [][]byte
}

type httpSvc struct {
	proc   *frugal.FBaseProcessor
	known  map[string]bool
	ts     *httptest.Server
	rec    *httpRec
	client map[[2]uint]*frugal.FStandardClient
}

var httpSvcs = map[string]*httpSvc{}

type respRecorder struct {
	http.ResponseWriter
	status int
	n      int
	buf    bytes.Buffer
}

func (r *respRecorder) WriteHeader(c int) { r.status = c; r.ResponseWriter.WriteHeader(c) }
func (r *respRecorder) Write(b []byte) (int, error) {
	r.n += len(b)
	r.buf.Write(b)
	return r.ResponseWriter.Write(b)
}

func getHTTP(proto string) *httpSvc {
	if s, ok := httpSvcs[proto]; ok {
		return s
	}
	s := &httpSvc{known: map[string]bool{}, rec: &httpRec{}, client: map[[2]uint]*frugal.FStandardClient{}}
	s.proc = newProcessor()
	h := frugal.NewFrugalHandlerFunc(s.proc, protoFactory(proto))
	s.ts = httptest.NewServer(http.HandlerFunc(func(w http.ResponseWriter, r *http.Request) {
		body, _ := io.ReadAll(r.Body)
		frame, err := base64.StdEncoding.DecodeString(string(body))
		s.rec.mu.Lock()
		s.rec.reqLens = append(s.rec.reqLens, len(frame))
		s.rec.frames = append(s.rec.frames, frame)
		if err != nil {
			s.rec.reqLens[len(s.rec.reqLens)-1] = -1
		}
		s.rec.mu.Unlock()
		r.Body = io.NopCloser(bytes.NewReader(body))
		rr := &respRecorder{ResponseWriter: w, status: 200}
		h(rr, r)
		s.rec.mu.Lock()
		s.rec.statuses = append(s.rec.statuses, rr.status)
		n := -1
		if dec, err := base64.StdEncoding.DecodeString(rr.buf.String()); err == nil {
			n = len(dec)
		}
		s.rec.bodies = append(s.rec.bodies, n)
		s.rec.mu.Unlock()
	}))
	httpSvcs[proto] = s
	return s
}

var appHeaders = map[string]string{"x-verif-app": "c12"}

func (s *httpSvc) clientFor(proto string, reqLimit, respLimit uint) *frugal.FStandardClient {
	k := [2]uint{reqLimit, respLimit}
	if c, ok := s.client[k]; ok {
		return c
	}
	// every transport of the process is given the application's one map of static request headers, as a program
	// with several clients would (the limits differ per transport; the map is the caller's)
	tr := frugal.NewFHTTPTransportBuilder(&http.Client{}, s.ts.URL).WithRequestHeaders(appHeaders).
		WithRequestSizeLimit(reqLimit).WithResponseSizeLimit(respLimit).Build()
	tr.Open()
	c := frugal.NewFStandardClient(frugal.NewFServiceProvider(tr, protoFactory(proto)))
	s.client[k] = c
	return c
}

// ---- one call ---------------------------------------------------------------------------------

func mkContext(hdrs map[string]int, timeoutMs int) frugal.FContext {
	fctx := frugal.NewFContext("c12")
	for k, n := range hdrs {
		fctx.AddRequestHeader(k, string(pattern(n)))
	}
	if timeoutMs <= 0 {
		timeoutMs = 2000
	}
	fctx.SetTimeout(time.Duration(timeoutMs) * time.Millisecond)
	return fctx
}

// expectedFrame is the frame a correct client must hand to the transport: 4-byte size,
// headers, message. Computed with the same protocol on a plain (unbounded) memory buffer.
func expectedFrame(pf *frugal.FProtocolFactory, fctx frugal.FContext, method string, args thrift.TStruct, kind thrift.TMessageType) ([]byte, int, []recOp) {
	ctx := context.Background()
	mem := thrift.NewTMemoryBuffer()
	p := pf.GetProtocol(mem)
	p.WriteRequestHeader(fctx)
	hdr := mem.Len()
	p.WriteMessageBegin(ctx, method, kind, 0)
	args.Write(ctx, p)
	p.WriteMessageEnd(ctx)
	p.Flush(ctx)
	body := mem.Bytes()
	frame := make([]byte, 4+len(body))
	binary.BigEndian.PutUint32(frame, uint32(len(body)))
	copy(frame[4:], body)

	rec := &recTransport{}
	q := pf.GetProtocol(rec)
	q.WriteMessageBegin(ctx, method, kind, 0)
	args.Write(ctx, q)
	q.WriteMessageEnd(ctx)
	q.Flush(ctx)
	return frame, hdr, rec.ops
}

// sameFrame compares frames up to the order of the headers (Go map iteration order).
func sameFrame(a, b []byte, hdr int) bool {
	if len(a) != len(b) || len(a) < 4+hdr {
		return false
	}
	if !bytes.Equal(a[:4], b[:4]) || !bytes.Equal(a[4+hdr:], b[4+hdr:]) {
		return false
	}
	ha, ea := frugal.VerifReadHeader(bytes.NewReader(a[4 : 4+hdr]))
	hb, eb := frugal.VerifReadHeader(bytes.NewReader(b[4 : 4+hdr]))
	if ea != nil || eb != nil || len(ha) != len(hb) {
		return false
	}
	for k, v := range ha {
		if hb[k] != v {
			return false
		}
	}
	return true
}

var followArgs = &Val{K: "struct", IDs: []int16{1}, Elems: []*Val{{K: "i32", I: 7}}}
var followReply = &Val{K: "struct", IDs: []int16{0}, Elems: []*Val{{K: "str", I: 3}}}

func doCall(q request) response {
	var r response
	if q.Method == "" {
		q.Method = "echo"
	}
	pf := protoFactory(q.Proto)
	var client *frugal.FStandardClient
	var ne *natsEnv
	var ns *natsSvc
	var hs *httpSvc
	var proc *frugal.FBaseProcessor
	var known map[string]bool
	srvLimit := uint(0)
	switch q.Transport {
	case "nats":
		var err error
		if ne, err = getNats(); err != nil {
			return response{Code: 103, Msg: err.Error()}
		}
		if ns, err = ne.svc(q.Proto, q.Fresh); err != nil {
			return response{Code: 103, Msg: err.Error()}
		}
		client, proc, known = ns.client, ns.proc, ns.known
		srvLimit = 1024 * 1024
		ne.drain(ns.cliConn, ns.srvConn)
	case "http":
		hs = getHTTP(q.Proto)
		client, proc, known = hs.clientFor(q.Proto, q.ReqLimit, q.RespLimit), hs.proc, hs.known
		hs.rec.mu.Lock()
		hs.rec.reqLens, hs.rec.statuses, hs.rec.bodies, hs.rec.frames = nil, nil, nil, nil
		hs.rec.mu.Unlock()
	default:
		return response{Code: 103, Msg: "unknown transport " + q.Transport}
	}
	ensureMethod(proc, known, q.Method)
	ensureMethod(proc, known, "echo")

	var mainCtx frugal.FContext
	one := func(method string, hdrs, rhdrs map[string]int, argv, replyv *Val, full bool, reuse frugal.FContext) (int, string, bool, [2]int) {
		fctx := reuse
		if fctx == nil {
			fctx = mkContext(hdrs, q.TimeoutMs)
		}
		if full {
			mainCtx = fctx
		}
		args := &tstruct{want: argv}
		result := &tstruct{want: replyv}
		echo.mu.Lock()
		echo.proto, echo.argsHint, echo.reply, echo.rhdrs, echo.limit = q.Proto, argv, replyv, rhdrs, srvLimit
		echo.got, echo.argsSeen, echo.repHdr, echo.repOps, echo.errOps, echo.minHdr, echo.errMsg = 0, "", 0, nil, nil, 0, 0
		echo.mu.Unlock()
		mtype := thrift.CALL
		if full && q.Oneway {
			mtype = thrift.ONEWAY
		}
		want, hdr, ops := expectedFrame(pf, fctx, method, args, thrift.TMessageType(mtype))
		var err error
		if full && q.Oneway {
			err = client.Oneway(fctx, method, args)
			if err == nil && ne != nil {
				// nobody waits for the answer: give the server's worker time to finish
				for i := 0; i < 1000; i++ {
					echo.mu.Lock()
					g := echo.got
					echo.mu.Unlock()
					if g > 0 {
						break
					}
					time.Sleep(2 * time.Millisecond)
				}
				time.Sleep(5 * time.Millisecond)
			}
		} else {
			err = client.Call(fctx, method, args, result)
		}
		code, msg := classify(err)
		var sent, replies []int
		sentOK := true
		var statuses []int
		if ne != nil {
			for _, m := range ne.drain(ns.cliConn, ns.srvConn) {
				if m.Subject == ns.subject {
					sent = append(sent, len(m.Data))
					if !sameFrame(m.Data, want, hdr) {
						sentOK = false
					}
				} else {
					replies = append(replies, len(m.Data))
				}
			}
		} else {
			hs.rec.mu.Lock()
			sent = append(sent, hs.rec.reqLens...)
			for _, f := range hs.rec.frames {
				if !sameFrame(f, want, hdr) {
					sentOK = false
				}
			}
			statuses = append(statuses, hs.rec.statuses...)
			for i, n := range hs.rec.bodies {
				if hs.rec.statuses[i] == 200 {
					replies = append(replies, n)
				}
			}
			hs.rec.reqLens, hs.rec.statuses, hs.rec.bodies, hs.rec.frames = nil, nil, nil, nil
			hs.rec.mu.Unlock()
		}
		echo.mu.Lock()
		defer echo.mu.Unlock()
		resOK := err == nil && canon(result.got) == canon(replyv)
		if full {
			r.Code, r.Msg = code, msg
			r.ReqHdr, r.ReqOps = hdr, opsJSON(ops)
			r.RepHdr, r.RepOps, r.ErrOps = echo.repHdr, opsJSON(echo.repOps), opsJSON(echo.errOps)
			r.MinHdr, r.ErrMsgLen = echo.minHdr, echo.errMsg
			r.Sent, r.SentOK, r.Replies, r.HTTPStatus = sent, sentOK, replies, statuses
			r.ServerGot = echo.got
			r.ArgsOK = echo.got == 0 || echo.argsSeen == canon(argv)
			r.ResultOK = resOK
			if err == nil && !resOK {
				r.Result = canon(result.got)
				if len(r.Result) > 300 {
					r.Result = r.Result[:300]
				}
			}
		}
		sizes := [2]int{4 + hdr + opsTotal(ops), echo.repHdr + opsTotal(echo.repOps)}
		return code, msg, resOK && echo.got == 1, sizes
	}
	one(q.Method, q.Hdrs, q.RHdrs, q.Args, q.Reply, true, nil)
	if q.Followup {
		r.FollowCode, r.FollowMsg, r.FollowOK, r.FollowSizes = one("echo", nil, nil, followArgs, followReply, false, nil)
		// and once more with the very FContext (same op id, same headers) of the main call
		r.Follow2Code, r.Follow2Msg, r.Follow2OK, r.Follow2Sizes = one(q.Method, nil, nil, followArgs, followReply, false, mainCtx)
	}
	return r
}
