package main

// Message values for the C12 harness: a small tree language, written and read
// with Thrift's own protocol API (no generated code).
//
// JSON syntax (arrays):
//   ["bool",v] ["byte",v] ["i16",v] ["i32",v] ["i64",v] ["double",v]
//   ["str",n] ["bin",n]                      n = length; contents = pattern(n)
//   ["list",etype,[vals]] ["set",etype,[vals]]
//   ["map",ktype,vtype,[[k,v]...]]
//   ["struct",[[id,val]...]]

import (
	"context"
	"encoding/json"
	"fmt"

	"github.com/apache/thrift/lib/go/thrift"
)

type Val struct {
	K      string
	I      int64 // scalar value or byte length
	ET, VT string
	Elems  []*Val // list / set elements, map values
	Keys   []*Val // map keys
	IDs    []int16
	Bad    bool // (reader only) contents differ from the pattern
}

func (v *Val) UnmarshalJSON(b []byte) error {
	var raw []json.RawMessage
	if err := json.Unmarshal(b, &raw); err != nil {
		return err
	}
	if len(raw) < 2 {
		return fmt.Errorf("bad value %s", b)
	}
	if err := json.Unmarshal(raw[0], &v.K); err != nil {
		return err
	}
	switch v.K {
	case "bool", "byte", "i16", "i32", "i64", "double", "str", "bin":
		return json.Unmarshal(raw[1], &v.I)
	case "list", "set":
		if err := json.Unmarshal(raw[1], &v.ET); err != nil {
			return err
		}
		return json.Unmarshal(raw[2], &v.Elems)
	case "map":
		if err := json.Unmarshal(raw[1], &v.ET); err != nil {
			return err
		}
		if err := json.Unmarshal(raw[2], &v.VT); err != nil {
			return err
		}
		var kvs [][2]*Val
		if err := json.Unmarshal(raw[3], &kvs); err != nil {
			return err
		}
		for _, kv := range kvs {
			v.Keys = append(v.Keys, kv[0])
			v.Elems = append(v.Elems, kv[1])
		}
		return nil
	case "struct":
		var fs [][2]json.RawMessage
		if err := json.Unmarshal(raw[1], &fs); err != nil {
			return err
		}
		for _, f := range fs {
			var id int16
			if err := json.Unmarshal(f[0], &id); err != nil {
				return err
			}
			x := &Val{}
			if err := json.Unmarshal(f[1], x); err != nil {
				return err
			}
			v.IDs = append(v.IDs, id)
			v.Elems = append(v.Elems, x)
		}
		return nil
	}
	return fmt.Errorf("unknown kind %q", v.K)
}

func (v *Val) MarshalJSON() ([]byte, error) {
	switch v.K {
	case "bool", "byte", "i16", "i32", "i64", "double":
		return json.Marshal([]interface{}{v.K, v.I})
	case "str", "bin":
		if v.Bad {
			return json.Marshal([]interface{}{v.K, v.I, "BAD"})
		}
		return json.Marshal([]interface{}{v.K, v.I})
	case "list", "set":
		e := v.Elems
		if e == nil {
			e = []*Val{}
		}
		return json.Marshal([]interface{}{v.K, v.ET, e})
	case "map":
		kvs := make([][2]*Val, len(v.Keys))
		for i := range v.Keys {
			kvs[i] = [2]*Val{v.Keys[i], v.Elems[i]}
		}
		return json.Marshal([]interface{}{v.K, v.ET, v.VT, kvs})
	case "struct":
		fs := make([][2]interface{}, len(v.IDs))
		for i := range v.IDs {
			fs[i] = [2]interface{}{v.IDs[i], v.Elems[i]}
		}
		return json.Marshal([]interface{}{v.K, fs})
	}
	return nil, fmt.Errorf("unknown kind %q", v.K)
}

func ttype(k string) thrift.TType {
	switch k {
	case "bool":
		return thrift.BOOL
	case "byte":
		return thrift.BYTE
	case "i16":
		return thrift.I16
	case "i32":
		return thrift.I32
	case "i64":
		return thrift.I64
	case "double":
		return thrift.DOUBLE
	case "str", "bin":
		return thrift.STRING
	case "list":
		return thrift.LIST
	case "set":
		return thrift.SET
	case "map":
		return thrift.MAP
	case "struct":
		return thrift.STRUCT
	}
	return thrift.STOP
}

// pattern(n): the n-byte ASCII content used for every string / binary of length n.
func pattern(n int) []byte {
	b := make([]byte, n)
	for i := range b {
		b[i] = byte('a' + (i*7+n)%26)
	}
	return b
}

func isPattern(b []byte) bool {
	n := len(b)
	for i := range b {
		if b[i] != byte('a'+(i*7+n)%26) {
			return false
		}
	}
	return true
}

func (v *Val) write(ctx context.Context, p thrift.TProtocol) error {
	switch v.K {
	case "bool":
		return p.WriteBool(ctx, v.I != 0)
	case "byte":
		return p.WriteByte(ctx, int8(v.I))
	case "i16":
		return p.WriteI16(ctx, int16(v.I))
	case "i32":
		return p.WriteI32(ctx, int32(v.I))
	case "i64":
		return p.WriteI64(ctx, v.I)
	case "double":
		return p.WriteDouble(ctx, float64(v.I))
	case "str":
		return p.WriteString(ctx, string(pattern(int(v.I))))
	case "bin":
		return p.WriteBinary(ctx, pattern(int(v.I)))
	case "list", "set":
		var err error
		if v.K == "list" {
			err = p.WriteListBegin(ctx, ttype(v.ET), len(v.Elems))
		} else {
			err = p.WriteSetBegin(ctx, ttype(v.ET), len(v.Elems))
		}
		if err != nil {
			return err
		}
		for _, e := range v.Elems {
			if err := e.write(ctx, p); err != nil {
				return err
			}
		}
		if v.K == "list" {
			return p.WriteListEnd(ctx)
		}
		return p.WriteSetEnd(ctx)
	case "map":
		if err := p.WriteMapBegin(ctx, ttype(v.ET), ttype(v.VT), len(v.Keys)); err != nil {
			return err
		}
		for i := range v.Keys {
			if err := v.Keys[i].write(ctx, p); err != nil {
				return err
			}
			if err := v.Elems[i].write(ctx, p); err != nil {
				return err
			}
		}
		return p.WriteMapEnd(ctx)
	case "struct":
		if err := p.WriteStructBegin(ctx, "s"); err != nil {
			return err
		}
		for i, e := range v.Elems {
			if err := p.WriteFieldBegin(ctx, "f", ttype(e.K), v.IDs[i]); err != nil {
				return err
			}
			if err := e.write(ctx, p); err != nil {
				return err
			}
			if err := p.WriteFieldEnd(ctx); err != nil {
				return err
			}
		}
		if err := p.WriteFieldStop(ctx); err != nil {
			return err
		}
		return p.WriteStructEnd(ctx)
	}
	return fmt.Errorf("unknown kind %q", v.K)
}

// read decodes a value of wire type t; kind hints distinguish str/bin (same wire type).
func readVal(ctx context.Context, p thrift.TProtocol, t thrift.TType, hint *Val) (*Val, error) {
	switch t {
	case thrift.BOOL:
		b, err := p.ReadBool(ctx)
		x := int64(0)
		if b {
			x = 1
		}
		return &Val{K: "bool", I: x}, err
	case thrift.BYTE:
		b, err := p.ReadByte(ctx)
		return &Val{K: "byte", I: int64(b)}, err
	case thrift.I16:
		b, err := p.ReadI16(ctx)
		return &Val{K: "i16", I: int64(b)}, err
	case thrift.I32:
		b, err := p.ReadI32(ctx)
		return &Val{K: "i32", I: int64(b)}, err
	case thrift.I64:
		b, err := p.ReadI64(ctx)
		return &Val{K: "i64", I: b}, err
	case thrift.DOUBLE:
		b, err := p.ReadDouble(ctx)
		return &Val{K: "double", I: int64(b)}, err
	case thrift.STRING:
		if hint != nil && hint.K == "bin" {
			b, err := p.ReadBinary(ctx)
			return &Val{K: "bin", I: int64(len(b)), Bad: !isPattern(b)}, err
		}
		s, err := p.ReadString(ctx)
		return &Val{K: "str", I: int64(len(s)), Bad: !isPattern([]byte(s))}, err
	case thrift.LIST, thrift.SET:
		var et thrift.TType
		var n int
		var err error
		k := "list"
		if t == thrift.LIST {
			et, n, err = p.ReadListBegin(ctx)
		} else {
			k = "set"
			et, n, err = p.ReadSetBegin(ctx)
		}
		if err != nil {
			return nil, err
		}
		v := &Val{K: k}
		if hint != nil {
			v.ET = hint.ET
		}
		for i := 0; i < n; i++ {
			var h *Val
			if hint != nil && i < len(hint.Elems) {
				h = hint.Elems[i]
			}
			e, err := readVal(ctx, p, et, h)
			if err != nil {
				return nil, err
			}
			v.Elems = append(v.Elems, e)
		}
		if t == thrift.LIST {
			return v, p.ReadListEnd(ctx)
		}
		return v, p.ReadSetEnd(ctx)
	case thrift.MAP:
		kt, vt, n, err := p.ReadMapBegin(ctx)
		if err != nil {
			return nil, err
		}
		v := &Val{K: "map"}
		if hint != nil {
			v.ET, v.VT = hint.ET, hint.VT
		}
		for i := 0; i < n; i++ {
			var hk, hv *Val
			if hint != nil && i < len(hint.Keys) {
				hk, hv = hint.Keys[i], hint.Elems[i]
			}
			k, err := readVal(ctx, p, kt, hk)
			if err != nil {
				return nil, err
			}
			e, err := readVal(ctx, p, vt, hv)
			if err != nil {
				return nil, err
			}
			v.Keys = append(v.Keys, k)
			v.Elems = append(v.Elems, e)
		}
		return v, p.ReadMapEnd(ctx)
	case thrift.STRUCT:
		if _, err := p.ReadStructBegin(ctx); err != nil {
			return nil, err
		}
		v := &Val{K: "struct"}
		for i := 0; ; i++ {
			_, ft, id, err := p.ReadFieldBegin(ctx)
			if err != nil {
				return nil, err
			}
			if ft == thrift.STOP {
				break
			}
			var h *Val
			if hint != nil && i < len(hint.Elems) {
				h = hint.Elems[i]
			}
			e, err := readVal(ctx, p, ft, h)
			if err != nil {
				return nil, err
			}
			if err := p.ReadFieldEnd(ctx); err != nil {
				return nil, err
			}
			v.IDs = append(v.IDs, id)
			v.Elems = append(v.Elems, e)
		}
		return v, p.ReadStructEnd(ctx)
	}
	return nil, fmt.Errorf("cannot read wire type %d", t)
}

// tstruct adapts a struct Val to thrift.TStruct. On Read it decodes into got,
// using want as the str/bin hint.
type tstruct struct {
	want *Val
	got  *Val
}

func (s *tstruct) Write(ctx context.Context, p thrift.TProtocol) error { return s.want.write(ctx, p) }
func (s *tstruct) Read(ctx context.Context, p thrift.TProtocol) error {
	v, err := readVal(ctx, p, thrift.STRUCT, s.want)
	s.got = v
	return err
}
func (s *tstruct) String() string { b, _ := json.Marshal(s.want); return string(b) }

func canon(v *Val) string {
	if v == nil {
		return "null"
	}
	b, _ := json.Marshal(v)
	return string(b)
}

// ---------------------------------------------------------------------------------------------
// recording transport: which transport method every protocol call uses, and with how many bytes

type recOp struct {
	K string // "W" Write, "S" WriteString, "B" WriteByte
	N int
}

type recTransport struct {
	ops []recOp
}

func (r *recTransport) Read(p []byte) (int, error) { return 0, fmt.Errorf("write only") }
func (r *recTransport) ReadByte() (byte, error)    { return 0, fmt.Errorf("write only") }
func (r *recTransport) Write(p []byte) (int, error) {
	r.ops = append(r.ops, recOp{"W", len(p)})
	return len(p), nil
}
func (r *recTransport) WriteString(s string) (int, error) {
	r.ops = append(r.ops, recOp{"S", len(s)})
	return len(s), nil
}
func (r *recTransport) WriteByte(c byte) error          { r.ops = append(r.ops, recOp{"B", 1}); return nil }
func (r *recTransport) Flush(ctx context.Context) error { return nil }
func (r *recTransport) RemainingBytes() uint64          { return 0 }
func (r *recTransport) Open() error                     { return nil }
func (r *recTransport) Close() error                    { return nil }
func (r *recTransport) IsOpen() bool                    { return true }

func (r *recTransport) total() int {
	t := 0
	for _, o := range r.ops {
		t += o.N
	}
	return t
}

func opsJSON(ops []recOp) [][2]interface{} {
	out := make([][2]interface{}, len(ops))
	for i, o := range ops {
		out[i] = [2]interface{}{o.K, o.N}
	}
	return out
}

func opsTotal(ops []recOp) int {
	t := 0
	for _, o := range ops {
		t += o.N
	}
	return t
}
