// vh_c15: drives the real adapter transport (lib/go/adapter_transport.go) and the real
// monitor runner (lib/go/transport_monitor.go) through scripted histories of
// open / feed / read failure / close / reopen, over an in-memory thrift.TTransport whose
// reads are fed chunk by chunk, and records what was observed after every step.
//
// One JSON request per history on stdin, one JSON response per history on stdout.
package main

import (
	"bytes"
	"context"
	"encoding/hex"
	"fmt"
	"io"
	"os"
	"runtime"
	"strconv"
	"strings"
	"sync"
	"sync/atomic"
	"time"

	frugal "github.com/Workiva/frugal/lib/go"
	"github.com/apache/thrift/lib/go/thrift"
	"verifharness/hx"
)

// ---------------------------------------------------------------- requests / responses

type evReq struct {
	Op   string `json:"op"` // open close isopen feed readerr loop mon failopens failcloses oneway
	G    int    `json:"g,omitempty"`
	Hex  string `json:"hex,omitempty"`
	Kind int    `json:"kind,omitempty"` // readerr: 0 raw io.EOF, 1 TTransportException(END_OF_FILE), 2 raw error, 3 TTransportException(UNKNOWN)
	Tag  int    `json:"tag,omitempty"`
	N    int    `json:"n,omitempty"`
}

type req struct {
	ID      int     `json:"id"`
	Monitor bool    `json:"monitor"`
	Max     uint    `json:"max"`
	InitNs  int64   `json:"init_ns"`
	MaxNs   int64   `json:"max_ns"`
	PreOpen bool    `json:"preopen"`
	Auto    bool    `json:"auto"`
	Events  []evReq `json:"events"`
}

type cbObs struct {
	Kind     int   `json:"kind"` // 1 clean, 2 unclean, 3 reopen failed, 4 reopen succeeded
	Cause    int   `json:"cause"`
	Prev     int64 `json:"prev"`
	PrevWait int64 `json:"prevwait"`
	Reopen   bool  `json:"reopen"`
	Wait     int64 `json:"wait"`
	PassOK   bool  `json:"pass_ok"` // the runner handed back the wait it was given
}

type snapObs struct {
	IsOpenInt int `json:"isopen_int"` // internal flag; -1 = accessor hung
	IsOpenPub int `json:"isopen_pub"` // IsOpen(); -1 = hung
	Tokens    int `json:"tokens"`
	Gen       int `json:"gen"`
}

type stepObs struct {
	Ev      evReq    `json:"ev"`
	Auto    bool     `json:"auto,omitempty"`
	Enabled bool     `json:"enabled"`
	Code    int      `json:"code"`   // calls: 0 ok, 1 ALREADY_OPEN, 2 NOT_OPEN, 3 other error, -1 did not return within 1s
	Under   int      `json:"under"`  // answer of the underlying transport's Open/Close if consulted: 0 none, 1 ok, 2 fail, 3 already open
	Status  int      `json:"status"` // loop after the step: 0 reading, 1 saw error, 2 at close (EOF), 3 at close (error), 4 at close (execute error), 5 exited, 6 stuck
	Execs   [][2]int `json:"execs,omitempty"`
	Cb      *cbObs   `json:"cb,omitempty"`
	Pub     []int    `json:"pub,omitempty"` // [generation, cause code, closed(0/1)] of the Closed() channel that changed during this step
	Snap    *snapObs `json:"snap,omitempty"`
	Note    string   `json:"note,omitempty"`
}

type resp struct {
	ID      int       `json:"id"`
	Steps   []stepObs `json:"steps"`
	Aborted string    `json:"aborted,omitempty"`
}

// ---------------------------------------------------------------- errors and their codes

type scriptErr struct{ tag int }

func (e *scriptErr) Error() string { return "scripted-raw-" + strconv.Itoa(e.tag) }

var errClosed = thrift.NewTTransportException(thrift.NOT_OPEN, "scripted: connection closed")

const tagMul = 10

// causeCode: 0 nil, 1 io.EOF, 2 io.ErrUnexpectedEOF, 3 bad frame size, 4 registry.Execute error,
// 5 the scripted "connection closed" error, 6 the read loop's "end of stream inside a frame", 1000+10*tag+{0 raw, 1 raw wrapped in a TTransportException, 2 scripted TTransportException}, 9 anything else
func (sc *scen) causeCode(err error) int {
	if err == nil {
		return 0
	}
	if err == io.EOF {
		return 1
	}
	if err == io.ErrUnexpectedEOF {
		return 2
	}
	if err == error(errClosed) {
		return 5
	}
	if se, ok := err.(*scriptErr); ok {
		return 1000 + tagMul*se.tag
	}
	sc.mu.Lock()
	for _, e := range sc.execErrs {
		if e == err {
			sc.mu.Unlock()
			return 4
		}
	}
	sc.mu.Unlock()
	if te, ok := err.(thrift.TTransportException); ok {
		if se, ok := te.Err().(*scriptErr); ok {
			return 1000 + tagMul*se.tag + 1
		}
		var tag int
		if n, _ := fmt.Sscanf(te.Error(), "scripted-tte-%d", &tag); n == 1 {
			return 1000 + tagMul*tag + 2
		}
		if len(te.Error()) > 30 && te.Error()[:30] == "frugal: incorrect frame size (" {
			return 3
		}
		if strings.HasPrefix(te.Error(), "frugal: end of stream inside a frame (") && te.TypeId() == thrift.END_OF_FILE {
			return 6
		}
	}
	return 9
}

func callCode(err error) int {
	if err == nil {
		return 0
	}
	if te, ok := err.(thrift.TTransportException); ok {
		switch te.TypeId() {
		case frugal.TRANSPORT_EXCEPTION_ALREADY_OPEN:
			return 1
		case frugal.TRANSPORT_EXCEPTION_NOT_OPEN:
			if err == error(errOpenFail) {
				return 3
			}
			return 2
		}
	}
	return 3
}

var errOpenFail = thrift.NewTTransportException(thrift.NOT_OPEN, "scripted: cannot connect")
var errCloseFail = fmt.Errorf("scripted: close failed")

// ---------------------------------------------------------------- scenario state

const (
	stReading = 0
	stErr     = 1
	stEOF     = 2
	stCloseE  = 3
	stExec    = 4
	stExited  = 5
	stBusy    = 6
)

type readItem struct {
	data []byte
	err  error
}

type loopRec struct {
	gen     int
	state   int
	wake    chan readItem
	release chan struct{}
	pending []byte
}

const (
	monNone = iota
	monIdle
	monParked
	monBusy
	monDone
)

type scen struct {
	mu       sync.Mutex
	changed  chan struct{} // pulsed on every state change
	tr       frugal.FTransport
	loops    []*loopRec // index = generation-1
	byGoid   map[int64]*loopRec
	execs    [][2]int
	execErrs []error
	// underlying transport
	open       bool
	accepted   int // Open calls answered nil or ALREADY_OPEN = generations started
	failOpens  int
	failCloses int
	lastOpen   int
	lastClose  int
	// monitor
	monState   int
	monRelease chan struct{}
	cbs        []cbObs
	sigSent    int // close notifications the transport must have queued for the runner
	sigRecv    int // notifications the runner has received (OnClosedCleanly/Uncleanly entered)
	// Closed() channels per generation
	closedCh   []<-chan error
	closedDone []bool
}

var current atomic.Value // *scen

func (sc *scen) pulse() {
	select {
	case sc.changed <- struct{}{}:
	default:
	}
}

func goid() int64 {
	var buf [64]byte
	n := runtime.Stack(buf[:], false)
	// "goroutine 123 [running]:"
	f := bytes.Fields(buf[:n])
	if len(f) < 2 {
		return -1
	}
	id, _ := strconv.ParseInt(string(f[1]), 10, 64)
	return id
}

// hook called by the read loop at its yield points (lib/go/verif_c15.go)
func hook(point string, err error) {
	sc, _ := current.Load().(*scen)
	if sc == nil {
		return
	}
	id := goid()
	sc.mu.Lock()
	l := sc.byGoid[id]
	if l == nil {
		sc.mu.Unlock()
		return
	}
	switch point {
	case "exit":
		l.state = stExited
		sc.mu.Unlock()
		sc.pulse()
		return
	case "err":
		l.state = stErr
	case "close-eof":
		l.state = stEOF
	case "close-err":
		l.state = stCloseE
	case "close-exec":
		l.state = stExec
	}
	sc.mu.Unlock()
	sc.pulse()
	<-l.release
}

// ---------------------------------------------------------------- the scripted underlying transport

type script struct{ sc *scen }

func (s *script) Open() error {
	sc := s.sc
	sc.mu.Lock()
	defer sc.mu.Unlock()
	if sc.open {
		sc.lastOpen = 3
		sc.accepted++
		return thrift.NewTTransportException(thrift.ALREADY_OPEN, "scripted: already open")
	}
	if sc.failOpens > 0 {
		sc.failOpens--
		sc.lastOpen = 2
		return errOpenFail
	}
	sc.open = true
	sc.lastOpen = 1
	sc.accepted++
	return nil
}

func (s *script) Close() error {
	sc := s.sc
	sc.mu.Lock()
	if sc.failCloses > 0 {
		sc.failCloses--
		sc.lastClose = 2
		sc.mu.Unlock()
		return errCloseFail
	}
	sc.open = false
	sc.lastClose = 1
	var wake []*loopRec
	for _, l := range sc.loops {
		if l.state == stReading {
			l.state = stBusy
			wake = append(wake, l)
		}
	}
	sc.mu.Unlock()
	for _, l := range wake {
		l.wake <- readItem{err: errClosed}
	}
	return nil
}

func (s *script) IsOpen() bool {
	s.sc.mu.Lock()
	defer s.sc.mu.Unlock()
	return s.sc.open
}

func (s *script) Read(p []byte) (int, error) {
	sc := s.sc
	id := goid()
	sc.mu.Lock()
	l := sc.byGoid[id]
	if l == nil {
		l = &loopRec{gen: len(sc.loops) + 1, wake: make(chan readItem, 1), release: make(chan struct{})}
		sc.loops = append(sc.loops, l)
		sc.byGoid[id] = l
	}
	if len(l.pending) > 0 {
		n := copy(p, l.pending)
		l.pending = l.pending[n:]
		sc.mu.Unlock()
		return n, nil
	}
	if !sc.open {
		l.state = stBusy
		sc.mu.Unlock()
		return 0, errClosed
	}
	l.state = stReading
	sc.mu.Unlock()
	sc.pulse()
	it := <-l.wake
	if it.err != nil {
		return 0, it.err
	}
	n := copy(p, it.data)
	if n < len(it.data) {
		sc.mu.Lock()
		l.pending = it.data[n:]
		sc.mu.Unlock()
	}
	return n, nil
}

func (s *script) Write(p []byte) (int, error)     { return len(p), nil }
func (s *script) Flush(ctx context.Context) error { return nil }
func (s *script) RemainingBytes() uint64          { return ^uint64(0) }

// ---------------------------------------------------------------- the recording monitor

type recMon struct {
	sc         *scen
	base       *frugal.BaseFTransportMonitor
	lastTrue   time.Duration
	lastScaled time.Duration
}

func scale(d time.Duration) time.Duration {
	if d > 300*time.Microsecond {
		return 300 * time.Microsecond
	}
	return d
}

func (m *recMon) park(cb cbObs) {
	sc := m.sc
	sc.mu.Lock()
	sc.cbs = append(sc.cbs, cb)
	if cb.Kind == 1 || cb.Kind == 2 {
		sc.sigRecv++
	}
	switch {
	case cb.Kind == 1:
		sc.monState = monDone
	case cb.Kind == 4:
		sc.monState = monIdle
	case !cb.Reopen:
		sc.monState = monDone
	default:
		sc.monState = monParked
		rel := make(chan struct{})
		sc.monRelease = rel
		sc.mu.Unlock()
		sc.pulse()
		<-rel
		return
	}
	sc.mu.Unlock()
	sc.pulse()
}

func (m *recMon) OnClosedCleanly() {
	m.base.OnClosedCleanly()
	m.park(cbObs{Kind: 1, PassOK: true})
}

func (m *recMon) OnClosedUncleanly(cause error) (bool, time.Duration) {
	reopen, wait := m.base.OnClosedUncleanly(cause)
	m.lastTrue, m.lastScaled = wait, scale(wait)
	m.park(cbObs{Kind: 2, Cause: m.sc.causeCode(cause), Reopen: reopen, Wait: int64(wait), PassOK: true})
	return reopen, m.lastScaled
}

func (m *recMon) OnReopenFailed(prev uint, prevWait time.Duration) (bool, time.Duration) {
	pass := prevWait == m.lastScaled
	reopen, wait := m.base.OnReopenFailed(prev, m.lastTrue)
	cb := cbObs{Kind: 3, Prev: int64(prev), PrevWait: int64(m.lastTrue), Reopen: reopen, Wait: int64(wait), PassOK: pass}
	m.lastTrue, m.lastScaled = wait, scale(wait)
	m.park(cb)
	return reopen, m.lastScaled
}

func (m *recMon) OnReopenSucceeded() {
	m.base.OnReopenSucceeded()
	m.park(cbObs{Kind: 4, PassOK: true})
}

// ---------------------------------------------------------------- running one history

const callTimeout = time.Second

func (sc *scen) waitFor(cond func() bool, d time.Duration) bool {
	deadline := time.Now().Add(d)
	for {
		sc.mu.Lock()
		ok := cond()
		sc.mu.Unlock()
		if ok {
			return true
		}
		rest := time.Until(deadline)
		if rest <= 0 {
			return false
		}
		if rest > 20*time.Millisecond {
			rest = 20 * time.Millisecond
		}
		select {
		case <-sc.changed:
		case <-time.After(rest):
		}
	}
}

// settle waits until every read loop is blocked in Read, parked at a yield point or gone,
// and the monitor runner is parked in a callback, idle or gone. Returns "" or what is stuck.
func (sc *scen) settle(pubs *[][]int) string {
	for round := 0; round < 8; round++ {
		ok := sc.waitFor(func() bool {
			if len(sc.loops) < sc.accepted {
				return false
			}
			for _, l := range sc.loops {
				if l.state == stBusy {
					return false
				}
			}
			return sc.monState != monBusy
		}, callTimeout)
		if !ok {
			return "stuck: a read loop or the monitor runner did not come to rest within 1s"
		}
		closedNow := sc.pollClosed(pubs)
		sc.mu.Lock()
		if closedNow && sc.monState != monNone && sc.sigSent-sc.sigRecv < 1 {
			sc.sigSent++ // (a second pending signal is dropped by the transport: capacity 1)
		}
		expect := sc.monState == monIdle && sc.sigSent > sc.sigRecv
		sc.mu.Unlock()
		if !expect {
			return ""
		}
		n0 := 0
		sc.mu.Lock()
		n0 = len(sc.cbs)
		sc.mu.Unlock()
		if !sc.waitFor(func() bool { return len(sc.cbs) > n0 || sc.monState != monIdle }, callTimeout) {
			sc.mu.Lock()
			sc.sigRecv = sc.sigSent
			sc.mu.Unlock()
			return "monitor-missed: the monitor runner was idle, the transport closed, and no callback came within 1s"
		}
	}
	return ""
}

// pollClosed drains the Closed() channels; reports [gen, cause, closed] entries; true if one was closed now
func (sc *scen) pollClosed(pubs *[][]int) bool {
	closedNow := false
	for g := range sc.closedCh {
		if sc.closedDone[g] || sc.closedCh[g] == nil {
			continue
		}
		for {
			stop := false
			select {
			case err, ok := <-sc.closedCh[g]:
				if !ok {
					sc.closedDone[g] = true
					closedNow = true
					*pubs = append(*pubs, []int{g + 1, -1, 1})
					stop = true
				} else {
					*pubs = append(*pubs, []int{g + 1, sc.causeCode(err), 0})
				}
			default:
				stop = true
			}
			if stop {
				break
			}
		}
	}
	return closedNow
}

// grabClosed fetches Closed() for generations that have started since the last call
func (sc *scen) grabClosed() string {
	sc.mu.Lock()
	acc := sc.accepted
	sc.mu.Unlock()
	for len(sc.closedCh) < acc {
		ch, p := hx.Guarded(callTimeout, func() <-chan error { return sc.tr.Closed() })
		if p != "" {
			return "Closed() " + p
		}
		sc.closedCh = append(sc.closedCh, ch)
		sc.closedDone = append(sc.closedDone, false)
	}
	return ""
}

func (sc *scen) snapshot() (*snapObs, string) {
	type st struct {
		o bool
		t int
	}
	s := &snapObs{}
	v, p := hx.Guarded(callTimeout, func() st {
		o, t, _ := frugal.VerifC15State(sc.tr)
		return st{o, t}
	})
	if p != "" {
		s.IsOpenInt, s.IsOpenPub, s.Tokens = -1, -1, -1
		sc.mu.Lock()
		s.Gen = sc.accepted
		sc.mu.Unlock()
		return s, "state accessor " + p + " (mutex held)"
	}
	s.IsOpenInt, s.Tokens = b2i(v.o), v.t
	o, p := hx.Guarded(callTimeout, func() bool { return sc.tr.IsOpen() })
	if p != "" {
		s.IsOpenPub = -1
		return s, "IsOpen() " + p
	}
	s.IsOpenPub = b2i(o)
	sc.mu.Lock()
	s.Gen = sc.accepted
	sc.mu.Unlock()
	return s, ""
}

func b2i(b bool) int {
	if b {
		return 1
	}
	return 0
}

func runHistory(q req) resp {
	sc := &scen{changed: make(chan struct{}, 1), byGoid: map[int64]*loopRec{}, open: q.PreOpen}
	out := resp{ID: q.ID}
	sc.tr = frugal.NewAdapterTransport(&script{sc: sc})
	frugal.VerifC15WrapRegistry(sc.tr, func(frame []byte, err error) {
		sc.mu.Lock()
		sc.execs = append(sc.execs, [2]int{len(frame), b2i(err == nil)})
		if err != nil {
			sc.execErrs = append(sc.execErrs, err)
		}
		sc.mu.Unlock()
	})
	current.Store(sc)
	defer current.Store((*scen)(nil))
	if q.Monitor {
		sc.monState = monIdle
		sc.tr.SetMonitor(&recMon{sc: sc, base: &frugal.BaseFTransportMonitor{
			MaxReopenAttempts: q.Max, InitialWait: time.Duration(q.InitNs), MaxWait: time.Duration(q.MaxNs)}})
	}

	// emit finishes a step: settles, splits monitor receives off as their own steps, snapshots
	emit := func(s stepObs) bool {
		var pubs [][]int
		stuck := sc.settle(&pubs)
		if g := sc.grabClosed(); g != "" && stuck == "" {
			stuck = g
		}
		sc.mu.Lock()
		cbs := sc.cbs
		sc.cbs = nil
		s.Execs = sc.execs
		sc.execs = nil
		if s.Ev.Op == "feed" || s.Ev.Op == "readerr" || s.Ev.Op == "loop" {
			if s.Enabled && s.Ev.G >= 1 && s.Ev.G <= len(sc.loops) {
				s.Status = sc.loops[s.Ev.G-1].state
			}
		}
		sc.mu.Unlock()
		for _, p := range pubs {
			s.Pub = append(s.Pub, p...)
		}
		steps := []stepObs{s}
		for i := range cbs {
			cb := cbs[i]
			if (cb.Kind == 3 || cb.Kind == 4) && s.Ev.Op == "mon" && steps[0].Cb == nil && len(steps) == 1 {
				steps[0].Cb = &cb
				continue
			}
			steps = append(steps, stepObs{Ev: evReq{Op: "monrecv"}, Auto: true, Enabled: true, Cb: &cb})
		}
		snap, why := sc.snapshot()
		steps[len(steps)-1].Snap = snap
		if stuck == "" {
			stuck = why
		}
		if stuck != "" {
			steps[len(steps)-1].Note = stuck
		}
		out.Steps = append(out.Steps, steps...)
		if stuck != "" {
			out.Aborted = stuck
			return false
		}
		return true
	}

	do := func(e evReq, auto bool) bool {
		sc.mu.Lock()
		sc.lastOpen, sc.lastClose = 0, 0
		if (e.Op == "feed" || e.Op == "readerr" || e.Op == "loop") && e.G <= 0 {
			// g = 0: the latest read loop, -1: the one before, ...
			e.G = len(sc.loops) + e.G
		}
		sc.mu.Unlock()
		s := stepObs{Ev: e, Auto: auto, Enabled: true}
		switch e.Op {
		case "failopens":
			sc.mu.Lock()
			sc.failOpens = e.N
			sc.mu.Unlock()
			return true
		case "failcloses":
			sc.mu.Lock()
			sc.failCloses = e.N
			sc.mu.Unlock()
			return true
		case "open":
			err, p := hx.Guarded(callTimeout, func() error { return sc.tr.Open() })
			s.Code = callCode(err)
			if p != "" {
				s.Code, s.Note = -1, "Open() "+p
			}
		case "close":
			err, p := hx.Guarded(callTimeout, func() error { return sc.tr.Close() })
			s.Code = callCode(err)
			if p != "" {
				s.Code, s.Note = -1, "Close() "+p
			}
		case "isopen":
			o, p := hx.Guarded(callTimeout, func() bool { return sc.tr.IsOpen() })
			s.Code = b2i(o)
			if p != "" {
				s.Code, s.Note = -1, "IsOpen() "+p
			}
		case "feed", "readerr":
			sc.mu.Lock()
			var l *loopRec
			if e.G >= 1 && e.G <= len(sc.loops) && sc.loops[e.G-1].state == stReading {
				l = sc.loops[e.G-1]
				l.state = stBusy
			}
			sc.mu.Unlock()
			if l == nil {
				s.Enabled = false
				break
			}
			if e.Op == "feed" {
				b, _ := hex.DecodeString(e.Hex)
				l.wake <- readItem{data: b}
			} else {
				var err error
				switch e.Kind {
				case 0:
					err = io.EOF
				case 1:
					err = thrift.NewTTransportException(thrift.END_OF_FILE, "scripted-eof")
				case 2:
					err = &scriptErr{e.Tag}
				default:
					err = thrift.NewTTransportException(thrift.UNKNOWN_TRANSPORT_EXCEPTION, fmt.Sprintf("scripted-tte-%d", e.Tag))
				}
				l.wake <- readItem{err: err}
			}
		case "loop":
			sc.mu.Lock()
			var l *loopRec
			if e.G >= 1 && e.G <= len(sc.loops) {
				if st := sc.loops[e.G-1].state; st >= stErr && st <= stExec {
					l = sc.loops[e.G-1]
					l.state = stBusy
				}
			}
			sc.mu.Unlock()
			if l == nil {
				s.Enabled = false
				break
			}
			l.release <- struct{}{}
		case "mon":
			sc.mu.Lock()
			var rel chan struct{}
			if sc.monState == monParked {
				rel = sc.monRelease
				sc.monState = monBusy
			}
			sc.mu.Unlock()
			if rel == nil {
				s.Enabled = false
				break
			}
			close(rel)
		default:
			s.Enabled = false
			s.Note = "unknown op"
		}
		if s.Code == -1 {
			// the call hangs: give the rest of the system a moment, then record and stop
			time.Sleep(5 * time.Millisecond)
		}
		ok := emit(s)
		// the answer of the underlying transport, if it was consulted during the step
		sc.mu.Lock()
		lo, lc := sc.lastOpen, sc.lastClose
		sc.mu.Unlock()
		i := len(out.Steps) - 1
		for i > 0 && out.Steps[i].Ev.Op == "monrecv" && out.Steps[i].Auto {
			i--
		}
		if e.Op == "open" || e.Op == "mon" {
			out.Steps[i].Under = lo
		} else {
			out.Steps[i].Under = lc
		}
		return ok && s.Code != -1
	}

	for _, e := range q.Events {
		if !do(e, false) {
			if out.Aborted == "" {
				out.Aborted = "a call did not return within 1s"
			}
			return out
		}
		if !q.Auto {
			continue
		}
		// eager schedule: release whatever is parked (lowest generation first, then the monitor) until nothing is
		for guard := 0; guard < 200; guard++ {
			sc.mu.Lock()
			g := 0
			for i, l := range sc.loops {
				if l.state >= stErr && l.state <= stExec {
					g = i + 1
					break
				}
			}
			mp := sc.monState == monParked
			sc.mu.Unlock()
			var ok bool
			if g > 0 {
				ok = do(evReq{Op: "loop", G: g}, true)
			} else if mp {
				ok = do(evReq{Op: "mon"}, true)
			} else {
				break
			}
			if !ok {
				if out.Aborted == "" {
					out.Aborted = "a step did not finish within 1s"
				}
				return out
			}
		}
	}
	// leave nothing parked behind: release loops and monitor of this history
	sc.mu.Lock()
	current.Store((*scen)(nil))
	for _, l := range sc.loops {
		if l.state >= stErr && l.state <= stExec {
			go func(l *loopRec) { l.release <- struct{}{} }(l)
		}
		if l.state == stReading {
			go func(l *loopRec) { l.wake <- readItem{err: errClosed} }(l)
		}
	}
	if sc.monState == monParked {
		close(sc.monRelease)
	}
	sc.mu.Unlock()
	return out
}

func main() {
	frugal.VerifC15SetHook(hook)
	if err := hx.Serve(runHistory); err != nil {
		fmt.Fprintln(os.Stderr, "vh_c15:", err)
		os.Exit(3)
	}
}
