// vh_c20: drives the real FNatsServer (lib/go/nats_server.go) against an embedded
// nats-server and records a linearised trace of what happened (property C20).
//
// request (one JSON value per line on stdin):
//
//	{"case":n,"nsubs":k,"workers":w,"qlen":q,"close_conn":bool,
//	 "ops":[{"op":"pub","id":i,"sub":s,"reply":bool,"out":bool,"dur_us":d},
//	        {"op":"flush"},{"op":"sleep","us":n},{"op":"stop"},{"op":"stop_wait"}]}
//
// response: {"events":[[kind,a,b],...],"replies":[[id,count],...],"hang":"","bad_reply":n}
// event kinds: 1 PubSend(id) 2 Confirm 3 Received(token,goroutine) 4 Started(token)
// 5 Process(token,id) 6 Finished(token) 7 StopCall 8 StopReturn(err) 9 ServeReturn(err)
// 10 ServerConnClosed; "noresp": ids for which the broker answered "no responders"
package main

import (
	"bytes"
	"encoding/binary"
	"fmt"
	"os"
	"runtime"
	"sort"
	"strconv"
	"sync"
	"sync/atomic"
	"time"

	frugal "github.com/Workiva/frugal/lib/go"
	"github.com/apache/thrift/lib/go/thrift"
	"github.com/nats-io/nats-server/v2/server"
	"github.com/nats-io/nats.go"
	"github.com/sirupsen/logrus"

	"verifharness/hx"
)

type op struct {
	Op     string `json:"op"`
	ID     int    `json:"id"`
	Sub    int    `json:"sub"`
	Reply  bool   `json:"reply"`
	Out    bool   `json:"out"`
	DurUs  int    `json:"dur_us"`
	StopIn bool   `json:"stop_in"` // pub: the handler of this request calls Stop itself (a "shutdown" request)
	Us     int    `json:"us"`
}

type req struct {
	Case      int  `json:"case"`
	NSubs     int  `json:"nsubs"`
	Workers   int  `json:"workers"`
	QLen      int  `json:"qlen"`
	CloseConn bool `json:"close_conn"`
	// DrainTimeoutUs > 0: the server connection is opened with nats.DrainTimeout (a configuration
	// dimension: the property must not depend on the drain finishing within that option)
	DrainTimeoutUs int `json:"drain_timeout_us"`
	// HighWatermarkUs > 0: the builder's WithHighWatermark option (a request that waited longer in the queue is
	// to be warned about, nothing else); the default event handlers always run underneath the recording ones
	HighWatermarkUs int  `json:"high_watermark_us"`
	Ops             []op `json:"ops"`
}

type resp struct {
	Events   [][3]int64 `json:"events"`
	Replies  [][2]int   `json:"replies"`
	NoResp   []int      `json:"noresp"`
	Hang     string     `json:"hang"`
	BadReply int        `json:"bad_reply"`
	Err      string     `json:"err,omitempty"`
	QLeft    int        `json:"qleft"`
}

type recorder struct {
	mu sync.Mutex
	ev [][3]int64
}

func (r *recorder) add(kind int, a, b int64) {
	r.mu.Lock()
	r.ev = append(r.ev, [3]int64{int64(kind), a, b})
	r.mu.Unlock()
}

func goid() int64 {
	var buf [64]byte
	n := runtime.Stack(buf[:], false)
	// "goroutine 123 [running]:..."
	f := bytes.Fields(buf[:n])
	if len(f) < 2 {
		return -1
	}
	v, err := strconv.ParseInt(string(f[1]), 10, 64)
	if err != nil {
		return -1
	}
	return v
}

type tokenKey struct{}

// proc is a minimal FProcessor: the request body says how long to work and whether
// to produce a response.
type proc struct {
	rec    *recorder
	stopFn func()
}

func (p *proc) Process(in, out *frugal.FProtocol) error {
	body := make([]byte, 12)
	n, _ := in.Transport().Read(body)
	tok := int64(-1)
	if m := frugal.VerifProtocolEphemeral(in); m != nil {
		if t, ok := m[tokenKey{}].(int64); ok {
			tok = t
		}
	}
	if n < 12 {
		p.rec.add(5, tok, -1)
		return fmt.Errorf("short body")
	}
	id := int64(binary.BigEndian.Uint32(body[0:4]))
	wantOut := body[4] == 1
	dur := time.Duration(binary.BigEndian.Uint32(body[8:12])) * time.Microsecond
	p.rec.add(5, tok, id)
	if body[5] == 1 && p.stopFn != nil {
		p.stopFn() // Stop from inside a request: returns once no further request is accepted; this one goes on
	}
	if dur > 0 {
		time.Sleep(dur)
	}
	if wantOut {
		// response frame: 4-byte size prefix is not needed on NATS replies for this check;
		// the payload identifies the request
		if _, err := out.Transport().Write(body[0:4]); err != nil {
			return err
		}
	}
	return nil
}
func (p *proc) AddMiddleware(frugal.ServiceMiddleware)    {}
func (p *proc) Annotations() map[string]map[string]string { return nil }

var (
	broker    *server.Server
	brokerURL string
	caseSeq   int64
)

func startBroker() error {
	s, err := server.NewServer(&server.Options{Host: "127.0.0.1", Port: -1, NoLog: true, NoSigs: true})
	if err != nil {
		return err
	}
	go s.Start()
	if !s.ReadyForConnections(10 * time.Second) {
		return fmt.Errorf("embedded nats-server not ready")
	}
	broker = s
	brokerURL = s.ClientURL()
	return nil
}

func handle(q req) resp {
	var r resp
	rec := &recorder{}
	n := atomic.AddInt64(&caseSeq, 1)
	prefix := fmt.Sprintf("c20.%d.%d", os.Getpid(), n)

	var srvOpts []nats.Option
	if q.DrainTimeoutUs > 0 {
		srvOpts = append(srvOpts, nats.DrainTimeout(time.Duration(q.DrainTimeoutUs)*time.Microsecond))
	}
	srvConn, err := nats.Connect(brokerURL, srvOpts...)
	if err != nil {
		r.Err = "connect: " + err.Error()
		return r
	}
	cli, err := nats.Connect(brokerURL)
	if err != nil {
		r.Err = "connect: " + err.Error()
		return r
	}
	defer cli.Close()

	// replies
	var rmu sync.Mutex
	replies := map[int]int{}
	bad := 0
	noresp := []int{}
	rsub, err := cli.Subscribe(prefix+".r.*", func(m *nats.Msg) {
		rmu.Lock()
		defer rmu.Unlock()
		idStr := m.Subject[len(prefix)+3:]
		id, e := strconv.Atoi(idStr)
		if e == nil && len(m.Data) == 0 && m.Header.Get("Status") == "503" {
			// the broker's "no responders" status: nobody was subscribed
			noresp = append(noresp, id)
			return
		}
		// TMemoryOutputBuffer frames its content: 4-byte size, then what the processor wrote
		if e != nil || len(m.Data) != 8 || binary.BigEndian.Uint32(m.Data[0:4]) != 4 ||
			int(binary.BigEndian.Uint32(m.Data[4:8])) != id {
			bad++
			return
		}
		replies[id]++
	})
	if err != nil {
		r.Err = "subscribe: " + err.Error()
		return r
	}
	defer rsub.Unsubscribe()
	if err := cli.Flush(); err != nil {
		r.Err = "flush: " + err.Error()
		return r
	}

	subjects := make([]string, q.NSubs)
	for i := range subjects {
		subjects[i] = fmt.Sprintf("%s.s%d", prefix, i)
	}
	var tokSeq int64
	hw := 5 * time.Second
	if q.HighWatermarkUs > 0 {
		hw = time.Duration(q.HighWatermarkUs) * time.Microsecond
	}
	defaultStarted := frugal.NewDefaultFNatsServerOnRequestStarted(hw)
	theProc := &proc{rec: rec}
	b := frugal.NewFNatsServerBuilder(srvConn, theProc,
		frugal.NewFProtocolFactory(thrift.NewTBinaryProtocolFactoryDefault()), subjects).
		WithWorkerCount(uint(q.Workers)).WithQueueLength(uint(q.QLen)).
		WithRequestReceivedEventHandler(func(m map[interface{}]interface{}) {
			frugal.DefaultFNatsServerOnRequestReceived(m)
			t := atomic.AddInt64(&tokSeq, 1)
			m[tokenKey{}] = t
			rec.add(3, t, goid())
		}).
		WithRequestStartedEventHandler(func(m map[interface{}]interface{}) {
			defaultStarted(m)
			t, _ := m[tokenKey{}].(int64)
			rec.add(4, t, 0)
		}).
		WithRequestFinishedEventHandler(func(m map[interface{}]interface{}) {
			t, _ := m[tokenKey{}].(int64)
			rec.add(6, t, 0)
		})
	if q.HighWatermarkUs > 0 {
		b = b.WithHighWatermark(hw)
	}
	srv := b.Build()

	serveDone := make(chan struct{})
	go func() {
		e := srv.Serve()
		rec.add(9, int64(hx.Classify(e)), 0)
		close(serveDone)
	}()
	// wait until Serve has subscribed and the broker knows
	deadline := time.Now().Add(5 * time.Second)
	for srvConn.NumSubscriptions() < q.NSubs && time.Now().Before(deadline) {
		time.Sleep(200 * time.Microsecond)
	}
	if err := srvConn.Flush(); err != nil {
		r.Err = "server flush: " + err.Error()
		return r
	}

	budget := 10 * time.Second
	stopDone := make(chan struct{})
	stopCalled := false
	var stopOnce sync.Once
	var stopFlag int32
	doStop := func() {
		stopOnce.Do(func() {
			atomic.StoreInt32(&stopFlag, 1)
			rec.add(7, 0, 0)
			e := srv.Stop()
			rec.add(8, int64(hx.Classify(e)), 0)
			close(stopDone)
		})
	}
	theProc.stopFn = doStop
	for _, o := range q.Ops {
		switch o.Op {
		case "pub":
			body := make([]byte, 16)
			binary.BigEndian.PutUint32(body[0:4], 12) // frame size prefix, discarded by the server
			binary.BigEndian.PutUint32(body[4:8], uint32(o.ID))
			if o.Out {
				body[8] = 1
			}
			if o.StopIn {
				body[9] = 1
			}
			binary.BigEndian.PutUint32(body[12:16], uint32(o.DurUs))
			budget += time.Duration(o.DurUs) * time.Microsecond
			subj := subjects[o.Sub%len(subjects)]
			rec.add(1, int64(o.ID), 0)
			var e error
			if o.Reply {
				e = cli.PublishRequest(subj, fmt.Sprintf("%s.r.%d", prefix, o.ID), body)
			} else {
				e = cli.Publish(subj, body)
			}
			if e != nil {
				r.Err = "publish: " + e.Error()
			}
		case "flush":
			if e := cli.Flush(); e != nil {
				r.Err = "client flush: " + e.Error()
			}
			rec.add(2, 0, 0)
		case "sleep":
			time.Sleep(time.Duration(o.Us) * time.Microsecond)
		case "stop":
			if !stopCalled {
				stopCalled = true
				go doStop()
			}
		case "stop_wait":
			if stopCalled || atomic.LoadInt32(&stopFlag) == 1 {
				select {
				case <-stopDone:
				case <-time.After(budget):
					r.Hang = "stop"
				}
			}
		}
		if r.Hang != "" {
			break
		}
	}
	if !stopCalled && r.Hang == "" {
		stopCalled = true
		go doStop()
	}
	if r.Hang == "" {
		select {
		case <-stopDone:
		case <-time.After(budget):
			r.Hang = "stop"
		}
	}
	if r.Hang == "" {
		select {
		case <-serveDone:
		case <-time.After(budget):
			r.Hang = "serve"
		}
	}
	r.QLeft = frugal.VerifNatsServerQueueLen(srv)
	if r.Hang == "" {
		// the documentation allows closing the connection once Serve has returned
		if q.CloseConn {
			srvConn.Close()
			rec.add(10, 0, 0)
		} else {
			srvConn.Flush()
		}
	}
	// expected replies = finished requests that asked for output; wait for them (bounded)
	rec.mu.Lock()
	want := 0
	procOut := map[int64]bool{}
	for _, o := range q.Ops {
		if o.Op == "pub" && o.Out && o.Reply {
			procOut[int64(o.ID)] = true
		}
	}
	for _, e := range rec.ev {
		if e[0] == 5 && procOut[e[2]] {
			want++
		}
	}
	rec.mu.Unlock()
	wait := time.Now().Add(2 * time.Second)
	for time.Now().Before(wait) {
		cli.Flush()
		rmu.Lock()
		got := 0
		for _, c := range replies {
			got += c
		}
		rmu.Unlock()
		if got >= want {
			break
		}
		time.Sleep(time.Millisecond)
	}
	time.Sleep(3 * time.Millisecond) // room for a duplicate to show up
	cli.Flush()
	if !q.CloseConn || r.Hang != "" {
		srvConn.Close()
	}
	rmu.Lock()
	for id, c := range replies {
		r.Replies = append(r.Replies, [2]int{id, c})
	}
	r.BadReply = bad
	r.NoResp = append(r.NoResp, noresp...)
	sort.Ints(r.NoResp)
	rmu.Unlock()
	sort.Slice(r.Replies, func(i, j int) bool { return r.Replies[i][0] < r.Replies[j][0] })
	rec.mu.Lock()
	r.Events = append(r.Events, rec.ev...)
	rec.mu.Unlock()
	return r
}

func main() {
	logrus.SetLevel(logrus.PanicLevel)
	if err := startBroker(); err != nil {
		fmt.Fprintln(os.Stderr, "vh_c20:", err)
		os.Exit(3)
	}
	defer broker.Shutdown()
	if err := hx.Serve(handle); err != nil {
		fmt.Fprintln(os.Stderr, "vh_c20:", err)
		os.Exit(3)
	}
}
