// vh_c08: observations for C08 (publisher and subscriber agree on the topic, in every language).
//
// Reads JSON requests on stdin, writes one JSON response per request on stdout.
//
// op "gen": runs the REAL compiler (compiler.Compile, in process) on an IDL file for the
// requested generators with the requested -delim value, then reads the generated sources and
// extracts, for every publish / subscribe method, its signature line, the delimiter constant
// and the op / prefix / topic assignments (raw right-hand-side text, in emitted order).
// For Go the extracted statements are also evaluated here, with the real strconv.Unquote and
// fmt.Sprintf, under Go's scoping rules (a parameter or earlier local may not be redeclared).
//
// op "golab": compiles the generated Go code of several programs inside the harness module
// together with a generated driver that calls every Publish<op> / Subscribe<op> through a
// recording FScopeProvider, and returns the topics the real generated code handed to
// FPublisherTransport.Publish / FSubscriberTransport.Subscribe.
package main

import (
	"encoding/hex"
	"fmt"
	"go/ast"
	"go/parser"
	"go/token"
	"os"
	"path/filepath"
	"regexp"
	"sort"
	"strconv"
	"strings"

	"github.com/Workiva/frugal/compiler"

	"verifharness/hx"
)

type req struct {
	Op    string   `json:"op"`
	ID    string   `json:"id"`
	Dir   string   `json:"dir"`   // scratch directory (under the run directory)
	IDL   string   `json:"idl"`   // hex: contents of the .frugal file
	Delim string   `json:"delim"` // hex
	Gens  []string `json:"gens"`  // e.g. ["go","java","dart","py","py:asyncio","py:tornado"]
	Vals  []string `json:"vals"`  // hex: values for the string parameters, in order

	// golab
	Progs []labProg `json:"progs"`
}

type stmt struct {
	LHS string `json:"lhs"`
	RHS string `json:"rhs"` // hex of the raw text
}

type obs struct {
	Gen    string `json:"gen"`
	File   string `json:"file"`
	Side   string `json:"side"` // "pub" | "sub"
	Sig    string `json:"sig"`  // hex: the signature line of the enclosing method
	Const  string `json:"const"`
	Stmts  []stmt `json:"stmts"`
	Status int    `json:"status"` // Go only: 0 value, 1 does not compile
	Value  string `json:"value"`  // Go only, hex
	Why    string `json:"why,omitempty"`
}

type resp struct {
	ID     string            `json:"id"`
	Errors map[string]string `json:"errors"` // gen -> compiler error (absent = compiled)
	Obs    []obs             `json:"obs"`
	Lab    []labResult       `json:"lab,omitempty"`
	Fail   string            `json:"fail,omitempty"`
}

func unhex(s string) string {
	b, err := hex.DecodeString(s)
	if err != nil {
		return ""
	}
	return string(b)
}

func hexs(s string) string { return hex.EncodeToString([]byte(s)) }

var devnull *os.File

// the compiler prints warnings on os.Stdout; our protocol owns the real stdout
func quietly(f func() error) (err error) {
	saved := os.Stdout
	os.Stdout = devnull
	defer func() {
		os.Stdout = saved
		if p := recover(); p != nil {
			err = fmt.Errorf("panic: %v", p)
		}
	}()
	return f()
}

type langRules struct {
	file  *regexp.Regexp // which generated files
	sig   *regexp.Regexp
	cnst  *regexp.Regexp
	stmt  *regexp.Regexp
	sideF func(file, sig string) string
}

var rules = map[string]langRules{
	"go": {
		file: regexp.MustCompile(`_scope\.go$`),
		sig:  regexp.MustCompile(`^func \(`),
		stmt: regexp.MustCompile(`^\s*(op|prefix|topic) := (.*)$`),
		sideF: func(file, sig string) string {
			if strings.Contains(sig, "Publisher) ") {
				return "pub"
			}
			return "sub"
		},
	},
	"java": {
		file: regexp.MustCompile(`(Publisher|Subscriber)\.java$`),
		sig:  regexp.MustCompile(`^\s*public (void|FSubscription) (publish|subscribe)[^(]*\(.*\{\s*$`),
		cnst: regexp.MustCompile(`^\s*private static final String DELIMITER = (.*);$`),
		stmt: regexp.MustCompile(`^\s*(?:final )?String (op|prefix|topic) = (.*);$`),
		sideF: func(file, sig string) string {
			if strings.HasSuffix(file, "Publisher.java") {
				return "pub"
			}
			return "sub"
		},
	},
	"dart": {
		file: regexp.MustCompile(`_scope\.dart$`),
		sig:  regexp.MustCompile(`^\s*Future(<[^>]*>)? (_publish|subscribe)[^(]*\(`),
		cnst: regexp.MustCompile(`^const String delimiter = (.*);$`),
		stmt: regexp.MustCompile(`^\s*var (op|prefix|topic) = (.*);$`),
		sideF: func(file, sig string) string {
			if strings.Contains(sig, " _publish") {
				return "pub"
			}
			return "sub"
		},
	},
	"py": {
		file: regexp.MustCompile(`_(publisher|subscriber)\.py$`),
		sig:  regexp.MustCompile(`^\s*(async )?def (_publish_|subscribe_)[^(]*\(.*\):\s*$`),
		cnst: regexp.MustCompile(`^\s*_DELIMITER = (.*)$`),
		stmt: regexp.MustCompile(`^\s*(op|prefix|topic) = (.*)$`),
		sideF: func(file, sig string) string {
			if strings.HasSuffix(file, "_publisher.py") {
				return "pub"
			}
			return "sub"
		},
	},
}

func extract(gen, root string, vals []string) ([]obs, error) {
	base := gen
	if i := strings.Index(gen, ":"); i >= 0 {
		base = gen[:i]
	}
	r, ok := rules[base]
	if !ok {
		return nil, fmt.Errorf("no extraction rules for %s", gen)
	}
	var files []string
	filepath.Walk(root, func(p string, info os.FileInfo, err error) error {
		if err == nil && !info.IsDir() && r.file.MatchString(p) {
			files = append(files, p)
		}
		return nil
	})
	sort.Strings(files)
	var out []obs
	for _, f := range files {
		data, err := os.ReadFile(f)
		if err != nil {
			return nil, err
		}
		rel, _ := filepath.Rel(root, f)
		sig, cnst := "", ""
		var cur []stmt
		for _, line := range strings.Split(string(data), "\n") {
			line = strings.TrimRight(line, "\r")
			if r.sig.MatchString(line) {
				sig = line
				cur = nil
				continue
			}
			if r.cnst != nil {
				if m := r.cnst.FindStringSubmatch(line); m != nil {
					cnst = m[1]
					continue
				}
			}
			if m := r.stmt.FindStringSubmatch(line); m != nil {
				cur = append(cur, stmt{LHS: m[1], RHS: hexs(m[2])})
				if m[1] == "topic" {
					o := obs{Gen: gen, File: rel, Side: r.sideF(rel, sig), Sig: hexs(sig), Const: hexs(cnst), Stmts: cur}
					if base == "go" {
						v, err := evalGo(sig, cur, vals)
						if err != nil {
							o.Status, o.Why = 1, err.Error()
						} else {
							o.Value = hexs(v)
						}
					}
					out = append(out, o)
					cur = nil
				}
			}
		}
	}
	return out, nil
}

// ---- evaluation of the extracted Go statements with the real fmt / strconv ----

// goParams returns the receiver and parameter names of a one-line func signature (parsed with
// go/parser) and which of them have type string.
func goParams(sig string) (names []string, isString map[string]bool, err error) {
	isString = map[string]bool{}
	src := "package p\n" + strings.TrimSuffix(strings.TrimSpace(sig), "{") + "{}\n"
	f, err := parser.ParseFile(token.NewFileSet(), "sig.go", src, 0)
	if err != nil {
		return nil, nil, fmt.Errorf("cannot read signature %q: %v", sig, err)
	}
	for _, d := range f.Decls {
		fd, ok := d.(*ast.FuncDecl)
		if !ok {
			continue
		}
		var fields []*ast.Field
		if fd.Recv != nil {
			fields = append(fields, fd.Recv.List...)
		}
		fields = append(fields, fd.Type.Params.List...)
		for _, fl := range fields {
			id, isId := fl.Type.(*ast.Ident)
			for _, n := range fl.Names {
				names = append(names, n.Name)
				if isId && id.Name == "string" {
					isString[n.Name] = true
				}
			}
		}
		return names, isString, nil
	}
	return nil, nil, fmt.Errorf("no function in signature %q", sig)
}

func evalGo(sig string, stmts []stmt, vals []string) (string, error) {
	names, isString, err := goParams(sig)
	if err != nil {
		return "", err
	}
	declared := map[string]bool{}
	env := map[string]string{}
	vi := 0
	for _, n := range names {
		if declared[n] {
			return "", fmt.Errorf("duplicate parameter %s", n)
		}
		if token.IsKeyword(n) {
			return "", fmt.Errorf("parameter %s is a keyword", n)
		}
		declared[n] = true
		if isString[n] {
			if vi >= len(vals) {
				return "", fmt.Errorf("more string parameters than values")
			}
			env[n] = vals[vi]
			vi++
		}
	}
	if vi != len(vals) {
		return "", fmt.Errorf("%d string parameters, %d values", vi, len(vals))
	}
	for _, s := range stmts {
		rhs := unhex(s.RHS)
		v, err := evalGoExpr(rhs, env, declared)
		if err != nil {
			return "", fmt.Errorf("%s: %v", s.LHS, err)
		}
		if declared[s.LHS] {
			return "", fmt.Errorf("no new variables on left side of := (%s)", s.LHS)
		}
		declared[s.LHS] = true
		env[s.LHS] = v
	}
	v, ok := env["topic"]
	if !ok {
		return "", fmt.Errorf("no topic statement")
	}
	return v, nil
}

func evalGoExpr(rhs string, env map[string]string, declared map[string]bool) (string, error) {
	const call = "fmt.Sprintf("
	if strings.HasPrefix(rhs, call) {
		if declared["fmt"] {
			return "", fmt.Errorf("fmt is shadowed by a parameter")
		}
		rest := rhs[len(call):]
		q, err := strconv.QuotedPrefix(rest)
		if err != nil {
			return "", fmt.Errorf("format literal: %v", err)
		}
		format, err := strconv.Unquote(q)
		if err != nil {
			return "", fmt.Errorf("format literal: %v", err)
		}
		rest = rest[len(q):]
		if !strings.HasSuffix(rest, ")") {
			return "", fmt.Errorf("unterminated call")
		}
		rest = strings.TrimSuffix(rest, ")")
		var args []interface{}
		if strings.TrimSpace(rest) != "" {
			if !strings.HasPrefix(rest, ",") {
				return "", fmt.Errorf("junk after format literal: %q", rest)
			}
			for _, a := range strings.Split(rest[1:], ",") {
				a = strings.TrimSpace(a)
				if !token.IsIdentifier(a) {
					return "", fmt.Errorf("argument %q is not an identifier", a)
				}
				v, ok := env[a]
				if !ok {
					return "", fmt.Errorf("argument %s is not a string variable in scope", a)
				}
				args = append(args, v)
			}
		}
		return fmt.Sprintf(format, args...), nil
	}
	q, err := strconv.QuotedPrefix(rhs)
	if err != nil || q != rhs {
		return "", fmt.Errorf("not a string literal: %q", rhs)
	}
	return strconv.Unquote(q)
}

func handleGen(q req) resp {
	r := resp{ID: q.ID, Errors: map[string]string{}}
	if err := os.MkdirAll(q.Dir, 0o777); err != nil {
		r.Fail = err.Error()
		return r
	}
	idl := filepath.Join(q.Dir, "t.frugal")
	if err := os.WriteFile(idl, []byte(unhex(q.IDL)), 0o666); err != nil {
		r.Fail = err.Error()
		return r
	}
	vals := make([]string, len(q.Vals))
	for i, v := range q.Vals {
		vals[i] = unhex(v)
	}
	for _, g := range q.Gens {
		out := filepath.Join(q.Dir, "out_"+strings.NewReplacer(":", "_", "=", "_", "/", "_", ",", "_").Replace(g))
		err := quietly(func() error {
			return compiler.Compile(compiler.Options{File: idl, Gen: g, Out: out, Delim: unhex(q.Delim)})
		})
		if err != nil {
			r.Errors[g] = err.Error()
			continue
		}
		o, err := extract(g, out, vals)
		if err != nil {
			r.Fail = err.Error()
			return r
		}
		r.Obs = append(r.Obs, o...)
	}
	return r
}

func main() {
	var err error
	devnull, err = os.OpenFile(os.DevNull, os.O_WRONLY, 0)
	if err != nil {
		fmt.Fprintln(os.Stderr, "vh_c08:", err)
		os.Exit(3)
	}
	err = hx.Serve(func(q req) resp {
		switch q.Op {
		case "gen":
			return handleGen(q)
		case "golab":
			return handleLab(q)
		}
		return resp{ID: q.ID, Fail: "unknown op " + q.Op}
	})
	if err != nil {
		fmt.Fprintln(os.Stderr, "vh_c08:", err)
		os.Exit(3)
	}
}
