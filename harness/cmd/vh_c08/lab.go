package main

type labProg struct {
	ID string `json:"id"`
}

type labResult struct {
	ID string `json:"id"`
}

func handleLab(q req) resp { return resp{ID: q.ID, Fail: "not implemented"} }
