package main

// op "golab": the generated Go code itself is compiled (inside the harness module, under
// lab/gen/, which is git-ignored) and run; a recording FScopeProvider captures the topic
// every Publish<op> hands to FPublisherTransport.Publish and every Subscribe<op> hands to
// FSubscriberTransport.Subscribe.

import (
	"bytes"
	"encoding/json"
	"fmt"
	"os"
	"os/exec"
	"path/filepath"
	"regexp"
	"strconv"
	"strings"
	"time"

	"github.com/Workiva/frugal/compiler"
)

type labProg struct {
	ID    string   `json:"id"`
	IDL   string   `json:"idl"`   // hex
	Delim string   `json:"delim"` // hex
	Ops   []string `json:"ops"`
	Vals  []string `json:"vals"` // hex
}

type labResult struct {
	ID    string `json:"id"`
	Op    string `json:"op"`
	Side  string `json:"side"`
	Topic string `json:"topic"` // hex
	Err   string `json:"err,omitempty"`
}

const labMainHead = `package main

import (
	"encoding/hex"
	"encoding/json"
	"os"

	frugal "github.com/Workiva/frugal/lib/go"
	"github.com/apache/thrift/lib/go/thrift"
%s)

type rec struct{ topics []string }

type pubT struct{ r *rec }

func (t pubT) Open() error               { return nil }
func (t pubT) Close() error              { return nil }
func (t pubT) IsOpen() bool              { return true }
func (t pubT) GetPublishSizeLimit() uint { return 0 }
func (t pubT) Publish(topic string, b []byte) error {
	t.r.topics = append(t.r.topics, topic)
	return nil
}

type subT struct{ r *rec }

func (t subT) Subscribe(topic string, cb frugal.FAsyncCallback) error {
	t.r.topics = append(t.r.topics, topic)
	return nil
}
func (t subT) Unsubscribe() error { return nil }
func (t subT) IsSubscribed() bool { return true }

type pfac struct{ r *rec }

func (f pfac) GetTransport() frugal.FPublisherTransport { return pubT{f.r} }

type sfac struct{ r *rec }

func (f sfac) GetTransport() frugal.FSubscriberTransport { return subT{f.r} }

type result struct {
	ID    string ` + "`json:\"id\"`" + `
	Op    string ` + "`json:\"op\"`" + `
	Side  string ` + "`json:\"side\"`" + `
	Topic string ` + "`json:\"topic\"`" + `
	Err   string ` + "`json:\"err,omitempty\"`" + `
}

var enc = json.NewEncoder(os.Stdout)

func report(id, op, side string, r *rec, err error) {
	o := result{ID: id, Op: op, Side: side}
	if err != nil {
		o.Err = err.Error()
	} else if len(r.topics) != 1 {
		o.Err = "transport was not called exactly once"
	} else {
		o.Topic = hex.EncodeToString([]byte(r.topics[0]))
	}
	r.topics = nil
	enc.Encode(o)
}

func main() {
	pf := frugal.NewFProtocolFactory(thrift.NewTBinaryProtocolFactoryConf(nil))
`

func handleLab(q req) resp {
	r := resp{ID: q.ID, Errors: map[string]string{}}
	root := q.Dir // <harness>/lab/gen/<lab id>
	harnessDir := filepath.Dir(filepath.Dir(filepath.Dir(root)))
	rel, err := filepath.Rel(harnessDir, root)
	if err != nil || strings.HasPrefix(rel, "..") {
		r.Fail = "lab directory must be inside the harness module"
		return r
	}
	modPath := "verifharness/" + filepath.ToSlash(rel)
	os.RemoveAll(root)
	defer os.RemoveAll(root)
	if err := os.MkdirAll(filepath.Join(root, "main"), 0o777); err != nil {
		r.Fail = err.Error()
		return r
	}
	var imports, body strings.Builder
	for i, p := range q.Progs {
		pk := fmt.Sprintf("p%d", i)
		dir := filepath.Join(root, pk)
		os.MkdirAll(dir, 0o777)
		idl := filepath.Join(dir, "t.frugal")
		if err := os.WriteFile(idl, []byte(unhex(p.IDL)), 0o666); err != nil {
			r.Fail = err.Error()
			return r
		}
		err := quietly(func() error {
			return compiler.Compile(compiler.Options{File: idl, Gen: "go:package_prefix=" + modPath + "/" + pk + "/",
				Out: dir, Delim: unhex(p.Delim)})
		})
		if err != nil {
			r.Errors[p.ID] = err.Error()
			continue
		}
		stem := ""
		if files, _ := filepath.Glob(filepath.Join(dir, "t", "f_*_scope.go")); len(files) == 1 {
			data, _ := os.ReadFile(files[0])
			if m := regexp.MustCompile(`(?m)^func New(\w+)Publisher\(`).FindSubmatch(data); m != nil {
				stem = string(m[1])
			}
		}
		if stem == "" {
			r.Errors[p.ID] = "no publisher constructor found in the generated Go code"
			continue
		}
		fmt.Fprintf(&imports, "\t%s \"%s/%s/t\"\n", pk, modPath, pk)
		var vals []string
		for _, v := range p.Vals {
			vals = append(vals, strconv.Quote(unhex(v)))
		}
		args := strings.Join(vals, ", ")
		if args != "" {
			args += ", "
		}
		fmt.Fprintf(&body, "\t{\n\t\tr := &rec{}\n\t\tprov := frugal.NewFScopeProvider(pfac{r}, sfac{r}, pf)\n")
		fmt.Fprintf(&body, "\t\tpub := %s.New%sPublisher(prov)\n\t\tsub := %s.New%sSubscriber(prov)\n", pk, stem, pk, stem)
		for _, op := range p.Ops {
			fmt.Fprintf(&body, "\t\treport(%q, %q, \"pub\", r, pub.Publish%s(frugal.NewFContext(\"\"), %s&%s.Event{}))\n",
				p.ID, op, op, args, pk)
			fmt.Fprintf(&body, "\t\t{\n\t\t\t_, err := sub.Subscribe%s(%sfunc(frugal.FContext, *%s.Event) {})\n\t\t\treport(%q, %q, \"sub\", r, err)\n\t\t}\n",
				op, args, pk, p.ID, op)
		}
		fmt.Fprintf(&body, "\t}\n")
	}
	src := fmt.Sprintf(labMainHead, imports.String()) + body.String() + "}\n"
	if err := os.WriteFile(filepath.Join(root, "main", "main.go"), []byte(src), 0o666); err != nil {
		r.Fail = err.Error()
		return r
	}
	bin := filepath.Join(root, "lab.bin")
	var out bytes.Buffer
	cmd := exec.Command("go", "build", "-o", bin, "./"+filepath.ToSlash(rel)+"/main")
	cmd.Dir = harnessDir
	cmd.Stdout, cmd.Stderr = &out, &out
	if err := runTimeout(cmd, 20*time.Minute); err != nil {
		r.Fail = "generated Go code does not build: " + err.Error() + "\n" + tail(out.String(), 3000)
		return r
	}
	var so, se bytes.Buffer
	run := exec.Command(bin)
	run.Stdout, run.Stderr = &so, &se
	if err := runTimeout(run, 2*time.Minute); err != nil {
		r.Fail = "lab program failed: " + err.Error() + "\n" + tail(se.String(), 2000)
		return r
	}
	dec := json.NewDecoder(&so)
	for dec.More() {
		var lr labResult
		if err := dec.Decode(&lr); err != nil {
			r.Fail = "lab output: " + err.Error()
			return r
		}
		r.Lab = append(r.Lab, lr)
	}
	return r
}

func tail(s string, n int) string {
	if len(s) > n {
		return s[len(s)-n:]
	}
	return s
}

func runTimeout(cmd *exec.Cmd, d time.Duration) error {
	if err := cmd.Start(); err != nil {
		return err
	}
	done := make(chan error, 1)
	go func() { done <- cmd.Wait() }()
	select {
	case err := <-done:
		return err
	case <-time.After(d):
		cmd.Process.Kill()
		return fmt.Errorf("timeout after %v", d)
	}
}
